(* C06 oracle driver.

   Requests (one s-expression after the id "C06"):

   (cols (K B L) ...)       the scanned token stream of a source, in order, including the final EOF token:
                            K = e for an EOL token, o for any other token; B = byte offset of the token's
                            first byte; L = its length in bytes.
                            -> "COLS c0 c1 ..."  the column of every token as newTkz/tkzNext maintain it
                               (Layout.tkz_cols).

   (blocks T ...)           a token stream with columns, EOF token excluded. T is one of
                              (a ID COL)   any token that is not a layout keyword (ID identifies its text)
                              (s ID COL)   string literal
                              (op ID COL)  binary operator other than '='
                              (kw ID COL)  package_info (ID 0) package import and (other IDs)
                              (dot COL) (lb COL) (rb COL) (ls COL) (rs COL) (semi COL)     . { } [ ] ;
                              (us COL) (let COL) (eq COL) (if COL) (then COL) (else COL) (elif COL)
                              (match COL) (with COL) (bar COL) (arrow COL) (fun COL) (lp COL) (rp COL)
                              (comma COL) (type COL) (eol COL)
                            -> "TREE <tree>" the block structure Layout.parse_blocks recovers, "REJECT" when
                               the model parser rejects (offside overrun, unknown atom, ...), "FUEL".
   (blocks2 (rho K M) T ...) as blocks, after relabelling every column c to K*c + M*(c/4) (strictly
                            monotone, 0 -> 0; used to exercise columns_only_compared).

   (parse PROG)             a decorated layout tree (Layout.lprog: the syntax tree with every layout choice
                            explicit). The oracle renders it (Layout.r_prog) and parses the tokens.
                            -> "PARSED same=<true|false> <tree>" (same: the tree equals the erasure
                               Layout.er_prog of the decorated tree), "REJECT", "FUEL".
     PROG   ::= (prog INNER ROOTITEM ...)                  INNER: column of all inner tokens
     ROOTITEM ::= (root BL COL STMT)                                    a root let
              | (union BL COL NAME BL COL (TOK ...) ((BL COL (TOK ...)) ...))    type NAME = EOLs | case0 | case ...
              | (info BL COL NAME BL COL (TOK ...) ((BL COL (TOK ...)) ...))     package_info NAME = EOLs let d0 / let d ...
              | (line BL COL K (TOK ...))                               package (K 0) / import (K 1) line
     STMT   ::= (let X same EXPR) | (let X (next BL COL) EXPR) | (letfn F P (PS ...) BODY) | (expr EXPR)
              | (letd X Y (ZS ...) BRK EXPR)                          let (x, y, zs...) = e
     EXPR   ::= (t TERM) | (op ATOM ((COL ATOM) ...) BRK O EXPR)          BRK ::= same | (next BL COL)
     ATOM   ::= (a N) | (s N) | (lam (PS ...) BODY BRK) | unit
              | (group KIND FLD EXPR ((BRK FLD COL EXPR) ...) BRK)     KIND ::= par | slice | rec
                  first element, then (separator-break field column element)..., then the closing token's break
     FLD    ::= nofld | (fld X BRK BRK)       record field name, break after the name, break after '=' 
     TERM   ::= (app ATOM (COL ATOM) ...) | (if1 SX SX SX) | (if1 SX SX) | (if SX BL BLOCK IFREST)
              | (match SX BL ARM ...) | (smatch SX BL SARM ...)
              | (ifx SX IFTAIL)                    the general form: what follows 'then'
     IFREST ::= end | (else BL COL BODY) | (elif BL COL SX BL BLOCK IFREST) | (elifx BL COL SX IFTAIL)
     IFTAIL ::= (multi BL BLOCK IFREST)            then EOL, body as a block, rest on later lines
              | (one SX R1)                        then-body on the same line
     R1     ::= end | (else SX) | (elif SX IFTAIL)                 on the same line
              | (nlelse BL COL BODY) | (nlelif BL COL SX IFTAIL)   on a later line, inside the offside line
     SARM   ::= (sarm COL (lit N) BODY BL) ... closed by (sarm COL (var V) BODY BL) or (sarm COL default BODY BL)
     BODY   ::= (inline BLOCK) | (next BL BLOCK)
     BLOCK  ::= (block COL STMT (BL COL STMT) ...)
     ARM    ::= (arm COL PAT BODY BL)                      PAT ::= (case N) | (case N V) | default
     SX     ::= (sx (A L ...) (O A L ...) ...)             one-line expression: application (op application)...
     BL = number of extra EOL tokens (blank / comment lines), COL = column, N X F P V O A L = numbers.

   <tree>  ::= (ROOT ...)
   ROOT    ::= (rlet STMT) | (rtype TOKS TOKS ...) | (rother TOK ...)
   STMT    ::= (let TOKS EXPR) | (letfn TOKS BLOCK) | (expr EXPR)
   BLOCK   ::= (blk STMT ...)
   EXPR    ::= (app ATOM ...) | (if EXPR BLOCK) | (if EXPR BLOCK BLOCK) | (match EXPR RULE ...)
             | (fun TOKS BLOCK) | (bin TOK EXPR EXPR)
   ATOM    ::= TOK | (par EXPR ...)
   RULE    ::= (rule TOKS BLOCK)
   TOKS    ::= (TOK ...)
   TOK     ::= aID | sID | opID | sepID | kwID | _ | let | = | ...      (no columns: the tree is layout free)
*)
open Sexp
open X_c06

let rec nat_of_int n = if n <= 0 then O else S (nat_of_int (n - 1))
let rec int_of_nat = function O -> 0 | S n -> 1 + int_of_nat n

let rec pos_of_int n = if n <= 1 then XH else if n land 1 = 0 then XO (pos_of_int (n / 2)) else XI (pos_of_int (n / 2))
let z_of_int n = if n = 0 then Z0 else if n > 0 then Zpos (pos_of_int n) else Zneg (pos_of_int (- n))
let rec int_of_pos = function XH -> 1 | XO p -> 2 * int_of_pos p | XI p -> 2 * int_of_pos p + 1
let int_of_z = function Z0 -> 0 | Zpos p -> int_of_pos p | Zneg p -> - (int_of_pos p)

let rtok_of = function
  | L [k; b; l] -> { rt_eol = (str_of k = "e"); rt_begin = z_of_int (int_of b); rt_len = z_of_int (int_of l) }
  | _ -> raise (Parse_error "rtok")

let ptok_of rho = function
  | L [A k; c] ->
    let t = (match k with
        | "us" -> TUS | "let" -> TLET | "eq" -> TEQ | "if" -> TIF | "then" -> TTHEN | "else" -> TELSE
        | "elif" -> TELIF | "match" -> TMATCH | "with" -> TWITH | "bar" -> TBAR | "arrow" -> TARROW
        | "fun" -> TFUN | "lp" -> TLP | "rp" -> TRP | "comma" -> TCOMMA | "type" -> TTYPE | "eol" -> TEOL
        | "dot" -> TDOT | "lb" -> TLB | "rb" -> TRB | "ls" -> TLS | "rs" -> TRS | "semi" -> TSEMI
        | _ -> raise (Parse_error ("token kind " ^ k))) in
    (t, nat_of_int (rho (int_of c)))
  | L [A k; i; c] ->
    let n = nat_of_int (int_of i) in
    let t = (match k with
        | "a" -> TA n | "s" -> TSTR n | "op" -> TOP n | "kw" -> TKW n
        | _ -> raise (Parse_error ("token kind " ^ k))) in
    (t, nat_of_int (rho (int_of c)))
  | _ -> raise (Parse_error "ptok")

let s_tok = function
  | TA a -> "a" ^ string_of_int (int_of_nat a) | TSTR a -> "s" ^ string_of_int (int_of_nat a)
  | TOP a -> "op" ^ string_of_int (int_of_nat a)
  | TDOT -> "." | TLB -> "lb" | TRB -> "rb" | TLS -> "ls" | TRS -> "rs" | TSEMI -> ";"
  | TKW a -> "kw" ^ string_of_int (int_of_nat a)
  | TUS -> "_" | TLET -> "let" | TEQ -> "=" | TIF -> "if" | TTHEN -> "then" | TELSE -> "else" | TELIF -> "elif"
  | TMATCH -> "match" | TWITH -> "with" | TBAR -> "|" | TARROW -> "->" | TFUN -> "fun" | TLP -> "lp" | TRP -> "rp"
  | TCOMMA -> "," | TTYPE -> "type" | TEOL -> "eol"
let s_toks l = "(" ^ String.concat " " (List.map s_tok l) ^ ")"

let rec s_expr = function
  | EApp l -> "(app " ^ String.concat " " (List.map s_atom l) ^ ")"
  | EIf (c, t, None) -> "(if " ^ s_expr c ^ " " ^ s_block t ^ ")"
  | EIf (c, t, Some e) -> "(if " ^ s_expr c ^ " " ^ s_block t ^ " " ^ s_block e ^ ")"
  | EMatch (t, rs) -> "(match " ^ s_expr t ^ " " ^ String.concat " " (List.map s_rule rs) ^ ")"
  | EFun (ps, b) -> "(fun " ^ s_toks ps ^ " " ^ s_block b ^ ")"
  | EBin (l, o, r) -> "(bin " ^ s_tok o ^ " " ^ s_expr l ^ " " ^ s_expr r ^ ")"
and s_atom = function
  | AT t -> s_tok t
  | APar es -> "(par " ^ String.concat " " (List.map s_expr es) ^ ")"
  | ASlice es -> "(slice " ^ String.concat " " (List.map s_expr es) ^ ")"
  | ARec fs -> "(rec " ^ String.concat " " (List.map (fun (nm, e) -> "(" ^ s_toks nm ^ " " ^ s_expr e ^ ")") fs) ^ ")"
and s_stmt = function
  | SLet (h, e) -> "(let " ^ s_toks h ^ " " ^ s_expr e ^ ")"
  | SLetFn (h, b) -> "(letfn " ^ s_toks h ^ " " ^ s_block b ^ ")"
  | SExpr e -> "(expr " ^ s_expr e ^ ")"
and s_block (Blk ss) = "(blk " ^ String.concat " " (List.map s_stmt ss) ^ ")"
and s_rule (Rule (p, b)) = "(rule " ^ s_toks p ^ " " ^ s_block b ^ ")"

let s_root = function
  | RLet s -> "(rlet " ^ s_stmt s ^ ")"
  | RType (h, cs) -> "(rtype " ^ s_toks h ^ " " ^ String.concat " " (List.map s_toks cs) ^ ")"
  | RInfo (h, ds) -> "(rinfo " ^ s_toks h ^ " " ^ String.concat " " (List.map s_toks ds) ^ ")"
  | ROther l -> "(rother " ^ String.concat " " (List.map s_tok l) ^ ")"

(* ---- decorated trees *)
let nat_of s = nat_of_int (int_of s)
let brk_of = function
  | A "same" -> None
  | L [A "next"; bl; c] -> Some (nat_of bl, nat_of c)
  | _ -> raise (Parse_error "brk")
let sxt_of = function
  | a :: l -> (nat_of a, List.map nat_of l)
  | _ -> raise (Parse_error "sxt")
let sx_of = function
  | L (A "sx" :: L first :: rest) ->
    (sxt_of first, List.map (function L (o :: t) -> (nat_of o, sxt_of t) | _ -> raise (Parse_error "sx op")) rest)
  | _ -> raise (Parse_error "sx")
let pat_of = function
  | A "default" -> PDef
  | L [A "case"; n] -> PCase (nat_of n, None)
  | L [A "case"; n; v] -> PCase (nat_of n, Some (nat_of v))
  | _ -> raise (Parse_error "pat")
let gkind_of = function "par" -> GPar | "slice" -> GSlice | "rec" -> GRec | _ -> raise (Parse_error "group kind")
let fld_of = function
  | A "nofld" -> None
  | L [A "fld"; x; n1; n2] -> Some ((nat_of x, brk_of n1), brk_of n2)
  | _ -> raise (Parse_error "fld")
let rec atom_of = function
  | L [A "a"; n] -> LA (nat_of n)
  | L [A "s"; n] -> LS (nat_of n)
  | L [A "lam"; L ps; b; cl] -> LLam (List.map nat_of ps, body_of b, brk_of cl)
  | A "unit" -> LUnit
  | L [A "group"; A k; f; e; L more; cl] -> LGroup (gkind_of k, fld_of f, expr_of e, seq_of more, brk_of cl)
  | _ -> raise (Parse_error "atom")
and seq_of = function
  | [] -> QNil
  | L [sb; f; c; e] :: r -> QCons (brk_of sb, fld_of f, nat_of c, expr_of e, seq_of r)
  | _ -> raise (Parse_error "seq")
and atoms_of = function
  | [] -> ANil
  | L [c; a] :: r -> ACons (nat_of c, atom_of a, atoms_of r)
  | _ -> raise (Parse_error "atoms")
and term_of = function
  | L (A "app" :: a :: l) -> LApp (atom_of a, atoms_of l)
  | L [A "if1"; c; t; e] -> LIf (sx_of c, TOne (sx_of t, R1Else (sx_of e)))
  | L [A "if1"; c; t] -> LIf (sx_of c, TOne (sx_of t, R1End))
  | L [A "ifx"; c; tl] -> LIf (sx_of c, tail_of tl)
  | L (A "smatch" :: tg :: bl :: arms) -> LSMatch (sx_of tg, nat_of bl, sarms_of arms)
  | L [A "if"; c; bl; t; r] -> LIf (sx_of c, TMulti (nat_of bl, block_of t, ifrest_of r))
  | L (A "match" :: tg :: bl :: arms) -> LMatch (sx_of tg, nat_of bl, arms_of arms)
  | _ -> raise (Parse_error "term")
and ifrest_of = function
  | A "end" -> IEnd
  | L [A "else"; bl; c; b] -> IElse (nat_of bl, nat_of c, body_of b)
  | L [A "elif"; bl; c; cd; b1; t; r] -> IElif (nat_of bl, nat_of c, sx_of cd, TMulti (nat_of b1, block_of t, ifrest_of r))
  | L [A "elifx"; bl; c; cd; tl] -> IElif (nat_of bl, nat_of c, sx_of cd, tail_of tl)
  | _ -> raise (Parse_error "ifrest")
and tail_of = function
  | L [A "multi"; bl; t; r] -> TMulti (nat_of bl, block_of t, ifrest_of r)
  | L [A "one"; t; r] -> TOne (sx_of t, r1_of r)
  | _ -> raise (Parse_error "iftail")
and r1_of = function
  | A "end" -> R1End
  | L [A "else"; e] -> R1Else (sx_of e)
  | L [A "elif"; cd; tl] -> R1Elif (sx_of cd, tail_of tl)
  | L [A "nlelse"; bl; c; b] -> R1NlElse (nat_of bl, nat_of c, body_of b)
  | L [A "nlelif"; bl; c; cd; tl] -> R1NlElif (nat_of bl, nat_of c, sx_of cd, tail_of tl)
  | _ -> raise (Parse_error "l1rest")
and body_of = function
  | L [A "inline"; b] -> BInline (block_of b)
  | L [A "next"; bl; b] -> BNext (nat_of bl, block_of b)
  | _ -> raise (Parse_error "body")
and expr_of = function
  | L [A "t"; t] -> LT (term_of t)
  | L [A "op"; a; L l; brk; o; e] -> LOp (atom_of a, atoms_of l, brk_of brk, nat_of o, expr_of e)
  | _ -> raise (Parse_error "expr")
and stmt_of = function
  | L [A "let"; x; nl; e] -> LLet (nat_of x, brk_of nl, expr_of e)
  | L [A "letd"; x; y; L zs; nl; e] -> LLetD (nat_of x, nat_of y, List.map nat_of zs, brk_of nl, expr_of e)
  | L [A "letfn"; f; p; L ps; b] -> LLetFn (nat_of f, nat_of p, List.map nat_of ps, body_of b)
  | L [A "expr"; e] -> LExpr (expr_of e)
  | _ -> raise (Parse_error "stmt")
and block_of = function
  | L (A "block" :: c :: s :: rest) -> LB (nat_of c, stmt_of s, rest_of rest)
  | _ -> raise (Parse_error "block")
and rest_of = function
  | [] -> LNil
  | L [bl; c; s] :: r -> LCons (nat_of bl, nat_of c, stmt_of s, rest_of r)
  | _ -> raise (Parse_error "rest")
and arms_of = function
  | [L [A "arm"; c; p; b; _]] -> MLast (nat_of c, pat_of p, body_of b)
  | L [A "arm"; c; p; b; bl] :: r -> MCons (nat_of c, pat_of p, body_of b, nat_of bl, arms_of r)
  | _ -> raise (Parse_error "arms")
and sarms_of = function
  | [L [A "sarm"; c; A "default"; b; _]] -> SLast (nat_of c, None, body_of b)
  | [L [A "sarm"; c; L [A "var"; v]; b; _]] -> SLast (nat_of c, Some (nat_of v), body_of b)
  | L [A "sarm"; c; L [A "lit"; s]; b; bl] :: r -> SCons (nat_of c, nat_of s, body_of b, nat_of bl, sarms_of r)
  | _ -> raise (Parse_error "sarms")
let line_of = function
  | L [bl; c; L toks] -> ((nat_of bl, nat_of c), List.map nat_of toks)
  | _ -> raise (Parse_error "line")
let prog_of = function
  | L (A "prog" :: inner :: roots) ->
    (nat_of inner, List.map (function
         | L [A "root"; bl; c; s] -> ((nat_of bl, nat_of c), RLetL (stmt_of s))
         | L [A "union"; bl; c; name; b0; c0; L case0; L cases] ->
           ((nat_of bl, nat_of c), RUnionL (nat_of name, nat_of b0, nat_of c0, List.map nat_of case0, List.map line_of cases))
         | L [A "info"; bl; c; name; b0; c0; L d0; L defs] ->
           ((nat_of bl, nat_of c), RInfoL (nat_of name, nat_of b0, nat_of c0, List.map nat_of d0, List.map line_of defs))
         | L [A "line"; bl; c; k; L toks] -> ((nat_of bl, nat_of c), RLineL (nat_of k, List.map nat_of toks))
         | _ -> raise (Parse_error "root")) roots)
  | _ -> raise (Parse_error "prog")

let s_roots rs = "(" ^ String.concat " " (List.map s_root rs) ^ ")"

let answer ts =
  match parse_blocks (fuel_for ts) ts with
  | Ok rs -> "TREE (" ^ String.concat " " (List.map s_root rs) ^ ")"
  | Reject -> "REJECT"
  | Fuel -> "FUEL"

let () = Registry.register "C06" (function
    | L (A "cols" :: toks) ->
      let cs = tkz_cols (List.map rtok_of toks) in
      "COLS " ^ String.concat " " (List.map (fun z -> string_of_int (int_of_z z)) cs)
    | L [A "parse"; p] ->
      let (inner, prog) = prog_of p in
      let ts = r_prog inner prog in
      (match parse_blocks (fuel_for ts) ts with
       | Ok rs -> "PARSED same=" ^ string_of_bool (rs = er_prog prog) ^ " " ^ s_roots rs
       | Reject -> "REJECT"
       | Fuel -> "FUEL")
    | L (A "blocks" :: toks) -> answer (List.map (ptok_of (fun c -> c)) toks)
    | L (A "blocks2" :: L [A "rho"; k; m] :: toks) ->
      let k = int_of k and m = int_of m in
      if k < 1 || m < 0 then "ERR rho must be strictly monotone" else
      answer (List.map (ptok_of (fun c -> k * c + m * (c / 4))) toks)
    | _ -> "ERR bad C06 request")
