(* C15: (type ((src go arity)...) (tok...)) -> OK "<go type>" <ast> <remaining tokens> | REJECT
        (print ((src go arity)...) <ast>)   -> (tok...)            print_type of an ast
   tokens: LP RP LB RB AST ARROW LT GT COMMA DOT, "ident", (other "text") *)
open Sexp
open X_c15

let rec nat_of_int n = if n <= 0 then O else S (nat_of_int (n - 1))
let rec int_of_nat = function O -> 0 | S n -> 1 + int_of_nat n

let tok_of = function
  | A "LP" -> TLP | A "RP" -> TRP | A "LB" -> TLB | A "RB" -> TRB
  | A "AST" -> TAster | A "ARROW" -> TArrow | A "LT" -> TLt | A "GT" -> TGt
  | A "COMMA" -> TComma | A "DOT" -> TDot
  | S s -> TId (explode s)
  | L [A "other"; S s] -> TOther (explode s)
  | _ -> raise (Parse_error "token")

let sexp_of_tok = function
  | TLP -> A "LP" | TRP -> A "RP" | TLB -> A "LB" | TRB -> A "RB"
  | TAster -> A "AST" | TArrow -> A "ARROW" | TLt -> A "LT" | TGt -> A "GT"
  | TComma -> A "COMMA" | TDot -> A "DOT"
  | TId s -> S (implode s)
  | TOther s -> L [A "other"; S (implode s)]

let env_of l : char list -> (char list * nat) option =
  let tbl = List.map (function
      | L [s; g; a] -> (str_of s, (explode (str_of g), nat_of_int (int_of a)))
      | _ -> raise (Parse_error "env")) l in
  fun name -> List.assoc_opt (implode name) tbl

let rec sexp_of_ft = function
  | FInt -> A "int" | FString -> A "string" | FBool -> A "bool" | FFloat -> A "float"
  | FAny -> A "any" | FUnit -> A "unit"
  | FSlice t -> L [A "slice"; sexp_of_ft t]
  | FTuple l -> L (A "tuple" :: List.map sexp_of_ft l)
  | FFunc l -> L (A "func" :: List.map sexp_of_ft l)
  | FNamed (parts, args) ->
    L (A "named" :: S (String.concat "." (List.map implode parts)) :: List.map sexp_of_ft args)

let rec ft_of = function
  | A "int" -> FInt | A "string" -> FString | A "bool" -> FBool | A "float" -> FFloat
  | A "any" -> FAny | A "unit" -> FUnit
  | L [A "slice"; t] -> FSlice (ft_of t)
  | L (A "tuple" :: l) -> FTuple (List.map ft_of l)
  | L (A "func" :: l) -> FFunc (List.map ft_of l)
  | L (A "named" :: S n :: l) ->
    FNamed (List.map explode (String.split_on_char '.' n), List.map ft_of l)
  | _ -> raise (Parse_error "ast")

let () = Registry.register "C15" (function
    | L [A "type"; L env; L toks] ->
      let env = env_of env in
      (match parse_type env (List.map tok_of toks) with
       | None -> "REJECT"
       | Some (t, rest) ->
         Printf.sprintf "OK %s %s %d" (quote (implode (render env t))) (to_string (sexp_of_ft t))
           (List.length rest))
    | L [A "print"; ast] ->
      to_string (L (List.map sexp_of_tok (print_type (ft_of ast))))
    | L [A "render"; L env; ast] ->
      quote (implode (render (env_of env) (ft_of ast)))
    | _ -> "ERR bad C15 request")
