(* C10: (eq a b) (neq a b) (seq a b) (eqold a b) over
   v ::= (int n) | (str s) | (bool b) | (tuple v...) | (rec "R" ("f"...) v...) | (union "U" "C" v...)
       | (slice nil v...) | (slice non v...) *)
open Sexp
open X_c10

let by x = explode (str_of x)
let rec val_of = function
  | L [A "int"; n] -> VInt (z_of_dec (by n))
  | L [A "str"; s] -> VStr (by s)
  | L [A "bool"; x] -> VBool (bool_of x)
  | L (A "tuple" :: l) -> VTuple (vals_of l)
  | L (A "rec" :: n :: L fs :: l) -> VRecord (by n, List.map by fs, vals_of l)
  | L (A "union" :: u :: c :: l) -> VUnion (by u, by c, vals_of l)
  | L (A "slice" :: A "nil" :: l) -> VSlice (true, vals_of l)
  | L (A "slice" :: A "non" :: l) -> VSlice (false, vals_of l)
  | _ -> raise (Parse_error "val")
and vals_of = function [] -> VNil | x :: r -> VCons (val_of x, vals_of r)

let out = function Ok r -> string_of_bool r | Panic -> "panic"

let () = Registry.register "C10" (function
    | L [A "eq"; a; b] -> out (op_equal (val_of a) (val_of b))
    | L [A "neq"; a; b] -> out (op_not_equal (val_of a) (val_of b))
    | L [A "eqold"; a; b] -> out (op_equal_old (val_of a) (val_of b))
    | L [A "seq"; a; b] -> string_of_bool (struct_eq (val_of a) (val_of b))
    | _ -> "ERR bad C10 request")
