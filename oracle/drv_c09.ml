(* C09: (check (cases...) ((case form)...) has_default k rev)  and (dispatch arms has_default case) *)
open Sexp
open X_c09

let rec nat_of_int n = if n <= 0 then O else S (nat_of_int (n - 1))
let rec int_of_nat = function O -> 0 | S n -> 1 + int_of_nat n

let form_of = function
  | A "bind" -> Bind | A "ignore" -> Ignore | A "none" -> NoPayload
  | _ -> raise (Parse_error "form")
let arm_of = function
  | L [c; f] -> { a_case = explode (str_of c); a_form = form_of f }
  | _ -> raise (Parse_error "arm")

let () = Registry.register "C09" (function
    | L [A "check"; L cases; L arms; hd; k; r] ->
      let v = check (enum_k (nat_of_int (int_of k)) (bool_of r))
          (List.map (fun c -> explode (str_of c)) cases) (List.map arm_of arms) (bool_of hd) in
      (match v with
       | Accept -> "ACCEPT"
       | RejectUncovered n -> "REJECT uncovered " ^ implode n
       | RejectDefaultOnly -> "REJECT default_only"
       | RejectNoArm -> "REJECT no_arm")
    | L [A "dispatch"; L arms; hd; c] ->
      (match dispatch (List.map arm_of arms) (bool_of hd) (explode (str_of c)) with
       | ArmNo i -> "ARM " ^ string_of_int (int_of_nat i)
       | DefaultArm -> "DEFAULT"
       | NeverReached -> "NEVER")
    | _ -> "ERR bad C09 request")
