(* C08: (parse (tok ...)) -> canonical expression | PARSE_ERROR | FUEL
   tokens: iN (identifier/literal N), operator symbols |> && || > < >= <= = <> + - * /, LP, RP, not, EOL, end *)
open Sexp
open X_c08

let rec nat_of_int n = if n <= 0 then O else S (nat_of_int (n - 1))
let rec int_of_nat = function O -> 0 | S n -> 1 + int_of_nat n

let op_of = function
  | "|>" -> Some PIPE | "&&" -> Some AMPAMP | "||" -> Some BARBAR | ">" -> Some GT | "<" -> Some LT
  | ">=" -> Some GE | "<=" -> Some LE | "=" -> Some EQ | "<>" -> Some BRACKET | "+" -> Some PLUS
  | "-" -> Some MINUS | "*" -> Some ASTER | "/" -> Some SLASH | _ -> None
let op_str = function
  | PIPE -> "|>" | AMPAMP -> "&&" | BARBAR -> "||" | GT -> ">" | LT -> "<" | GE -> ">=" | LE -> "<="
  | EQ -> "=" | BRACKET -> "<>" | PLUS -> "+" | MINUS -> "-" | ASTER -> "*" | SLASH -> "/"

let tok_of = function
  | A "LP" -> TLParen | A "RP" -> TRParen | A "not" -> TNot | A "EOL" -> TEOL | A "end" -> TEnd O
  | A s when String.length s > 1 && s.[0] = 'i' && (match op_of s with None -> true | _ -> false) ->
    TId (nat_of_int (int_of_string (String.sub s 1 (String.length s - 1))))
  | A s -> (match op_of s with Some o -> TOp o | None -> raise (Parse_error ("token " ^ s)))
  | _ -> raise (Parse_error "token")

let rec show = function
  | EAtom n -> "i" ^ string_of_int (int_of_nat n)
  | EApp (h, args) -> "(app " ^ String.concat " " (List.map show (h :: args)) ^ ")"
  | EBin (o, l, r) -> "(" ^ op_str o ^ " " ^ show l ^ " " ^ show r ^ ")"
  | ENot e -> "(not " ^ show e ^ ")"
  | EUnit -> "unit"

let () = Registry.register "C08" (function
    | L [A "parse"; L toks] ->
      (match parse_tokens (List.map tok_of toks) with
       | POk (e, r) -> show e ^ " rest=" ^ string_of_int (List.length r)
       | PErr -> "PARSE_ERROR"
       | PFuel -> "FUEL")
    | L [A "table"] ->
      String.concat " " (List.map (fun o -> op_str o ^ ":" ^ string_of_int (int_of_nat (rank o))) all_ops)
    | _ -> "ERR bad C08 request")
