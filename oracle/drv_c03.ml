(* C03 requests (Go types are strings):
   (record Name (tparams...) ((field "type")...))
   (union  Name (tparams...) ((Case "type") | (Case none) ...))
   (func   name (tparams...) ((p "type") | (p unit) ...) "result"|unit)
   (call   "pkg" "name" ("targ"...) ("arg"...) ("missingtype"...) "result"|unit)
   answers: canonical declarations / expression, one line, separated by " ; " *)
open Sexp
open X_c03

let s2c = explode and c2s = implode
let strs l = List.map (fun x -> s2c (str_of x)) l
let opt_ty = function A "none" | A "unit" -> None | x -> Some (s2c (str_of x))

let show_fields fs = "(" ^ String.concat " " (List.map (fun (n, t) -> "(" ^ c2s n ^ " " ^ quote (c2s t) ^ ")") fs) ^ ")"
let show_tps tps = "(" ^ String.concat " " (List.map c2s tps) ^ ")"
let show_res = function None -> "unit" | Some t -> quote (c2s t)
let show_decl = function
  | GStruct (n, tps, fs) -> "(struct " ^ c2s n ^ " " ^ show_tps tps ^ " " ^ show_fields fs ^ ")"
  | GInterface (n, tps, m) -> "(interface " ^ c2s n ^ " " ^ show_tps tps ^ " " ^ c2s m ^ ")"
  | GMethod (v, r, tas, n, res) ->
    "(method " ^ (match v with None -> "-" | Some x -> c2s x) ^ " " ^ c2s r ^ " " ^ show_tps tas ^ " " ^ c2s n ^ " " ^ show_res res ^ ")"
  | GFunc (n, tps, ps, res) -> "(func " ^ c2s n ^ " " ^ show_tps tps ^ " " ^ show_fields ps ^ " " ^ show_res res ^ ")"
  | GVar (n, t) -> "(var " ^ c2s n ^ " " ^ show_res t ^ ")"

let rec show_expr = function
  | XArg t -> "(arg " ^ quote (c2s t) ^ ")"
  | XVar n -> "(var " ^ c2s n ^ ")"
  | XCall (f, tas, args) -> "(call " ^ c2s f ^ " (" ^ String.concat " " (List.map (fun t -> quote (c2s t)) tas) ^ ") " ^ String.concat " " (List.map show_expr args) ^ ")"
  | XClosure (ps, res, b) -> "(closure " ^ show_fields ps ^ " " ^ show_res res ^ " " ^ show_expr b ^ ")"

let () = Registry.register "C03" (function
    | L [A "record"; n; L tps; L fs] ->
      let fields = List.map (function L [f; t] -> (s2c (str_of f), s2c (str_of t)) | _ -> raise (Parse_error "field")) fs in
      String.concat " ; " (List.map show_decl (emit_record { rd_name = s2c (str_of n); rd_tparams = strs tps; rd_fields = fields }))
    | L [A "union"; n; L tps; L cs] ->
      let cases = List.map (function L [c; t] -> (s2c (str_of c), opt_ty t) | _ -> raise (Parse_error "case")) cs in
      String.concat " ; " (List.map show_decl (emit_union { ud_name = s2c (str_of n); ud_tparams = strs tps; ud_cases = cases }))
    | L [A "func"; n; L tps; L ps; res] ->
      let params = List.map (function L [p; t] -> (s2c (str_of p), opt_ty t) | _ -> raise (Parse_error "param")) ps in
      show_decl (emit_root_func { fd_name = s2c (str_of n); fd_tparams = strs tps; fd_params = params; fd_result = opt_ty res })
    | L [A "call"; pkg; n; L tas; L args; L missing; res] ->
      show_expr (emit_ext_call (s2c (str_of pkg)) (s2c (str_of n)) (strs tas) (strs args) (strs missing) (opt_ty res))
    | _ -> "ERR bad C03 request")
