// gocanon: prints a Go file emitted by fc as the canonical MiniGo s-expression of coq/Core/FORMAT_GO.md
// (types erased, parentheses dropped), so that it can be compared textually with `C01 (compile <prog>)`.
// A development aid of the model's author (oracle/test_c01.sh uses it); the harness has its own comparison.
// usage: gocanon gen_x.go
package main

import (
	"fmt"
	"go/ast"
	"go/parser"
	"go/token"
	"os"
	"strconv"
	"strings"
)

var pkgs = map[string]bool{"frt": true, "slice": true, "strings": true, "dict": true, "buf": true, "sys": true}

func quote(s string) string {
	var b strings.Builder
	b.WriteByte('"')
	for i := 0; i < len(s); i++ {
		c := s[i]
		switch {
		case c == '"':
			b.WriteString("\\\"")
		case c == '\\':
			b.WriteString("\\\\")
		case c == '\n':
			b.WriteString("\\n")
		case c == '\t':
			b.WriteString("\\t")
		case c < 32 || c >= 127:
			fmt.Fprintf(&b, "\\x%02x", c)
		default:
			b.WriteByte(c)
		}
	}
	b.WriteByte('"')
	return b.String()
}

func expr(e ast.Expr) string {
	switch x := e.(type) {
	case *ast.ParenExpr:
		return expr(x.X)
	case *ast.BasicLit:
		switch x.Kind {
		case token.INT:
			return "(int " + x.Value + ")"
		case token.STRING:
			s, err := strconv.Unquote(x.Value)
			if err != nil {
				panic(err)
			}
			return "(str " + quote(s) + ")"
		}
	case *ast.Ident:
		if x.Name == "true" || x.Name == "false" {
			return "(bool " + x.Name + ")"
		}
		return "(var " + x.Name + ")"
	case *ast.SelectorExpr:
		if id, ok := x.X.(*ast.Ident); ok && pkgs[id.Name] {
			return "(lib " + id.Name + "." + x.Sel.Name + ")"
		}
		return "(sel " + expr(x.X) + " " + x.Sel.Name + ")"
	case *ast.BinaryExpr:
		return "(bin " + x.Op.String() + " " + expr(x.X) + " " + expr(x.Y) + ")"
	case *ast.FuncLit:
		return "(func " + params(x.Type) + stmts(x.Body.List) + ")"
	case *ast.CallExpr:
		s := "(call " + expr(x.Fun)
		for _, a := range x.Args {
			s += " " + expr(a)
		}
		return s + ")"
	case *ast.IndexExpr: // explicit type argument: erased
		return expr(x.X)
	case *ast.CompositeLit:
		if _, ok := x.Type.(*ast.ArrayType); ok {
			s := "(slice"
			for _, a := range x.Elts {
				s += " " + expr(a)
			}
			return s + ")"
		}
		tn := ""
		switch t := x.Type.(type) {
		case *ast.Ident:
			tn = t.Name
		case *ast.IndexExpr:
			tn = t.X.(*ast.Ident).Name
		}
		s := "(struct " + tn
		for _, a := range x.Elts {
			if kv, ok := a.(*ast.KeyValueExpr); ok {
				s += " (" + kv.Key.(*ast.Ident).Name + " " + expr(kv.Value) + ")"
			} else {
				s += " (Value " + expr(a) + ")"
			}
		}
		return s + ")"
	}
	panic(fmt.Sprintf("expression %T", e))
}

func params(t *ast.FuncType) string {
	var ns []string
	if t.Params != nil {
		for _, f := range t.Params.List {
			for _, n := range f.Names {
				ns = append(ns, n.Name)
			}
		}
	}
	return "(" + strings.Join(ns, " ") + ")"
}

func stmts(l []ast.Stmt) string {
	s := ""
	for _, st := range l {
		if _, ok := st.(*ast.EmptyStmt); ok {
			continue
		}
		s += " " + stmt(st)
	}
	return s
}

func clauses(body *ast.BlockStmt, lit bool) string {
	cs, def := "", "(default)"
	for _, c := range body.List {
		cc := c.(*ast.CaseClause)
		if cc.List == nil {
			def = "(default" + stmts(cc.Body) + ")"
			continue
		}
		head := ""
		if lit {
			head = expr(cc.List[0])
			head = strings.TrimSuffix(strings.TrimPrefix(head, "(str "), ")")
		} else {
			head = cc.List[0].(*ast.Ident).Name
		}
		cs += "(" + head + stmts(cc.Body) + ")"
		cs += " "
	}
	return "(" + strings.TrimSpace(cs) + ") " + def
}

func stmt(st ast.Stmt) string {
	switch x := st.(type) {
	case *ast.AssignStmt:
		var ns []string
		for _, l := range x.Lhs {
			ns = append(ns, l.(*ast.Ident).Name)
		}
		return "(define (" + strings.Join(ns, " ") + ") " + expr(x.Rhs[0]) + ")"
	case *ast.ExprStmt:
		if c, ok := x.X.(*ast.CallExpr); ok {
			if id, ok := c.Fun.(*ast.Ident); ok && id.Name == "panic" {
				s, _ := strconv.Unquote(c.Args[0].(*ast.BasicLit).Value)
				return "(panic " + quote(s) + ")"
			}
		}
		return "(expr " + expr(x.X) + ")"
	case *ast.ReturnStmt:
		return "(return " + expr(x.Results[0]) + ")"
	case *ast.TypeSwitchStmt:
		bx, e := "_", ""
		switch a := x.Assign.(type) {
		case *ast.AssignStmt:
			bx = a.Lhs[0].(*ast.Ident).Name
			e = expr(a.Rhs[0].(*ast.TypeAssertExpr).X)
		case *ast.ExprStmt:
			e = expr(a.X.(*ast.TypeAssertExpr).X)
		}
		return "(typeswitch " + bx + " " + e + " " + clauses(x.Body, false) + ")"
	case *ast.SwitchStmt:
		bx, e := "_", ""
		if x.Init != nil {
			a := x.Init.(*ast.AssignStmt)
			bx = a.Lhs[0].(*ast.Ident).Name
			e = expr(a.Rhs[0])
		} else {
			e = expr(x.Tag)
		}
		return "(switch " + bx + " " + e + " " + clauses(x.Body, true) + ")"
	}
	panic(fmt.Sprintf("statement %T", st))
}

func main() {
	fset := token.NewFileSet()
	f, err := parser.ParseFile(fset, os.Args[1], nil, 0)
	if err != nil {
		fmt.Println("ERR", err)
		os.Exit(1)
	}
	var ctors, funcs []string
	mainBody := ""
	for _, d := range f.Decls {
		switch x := d.(type) {
		case *ast.FuncDecl:
			if x.Recv != nil {
				continue
			}
			s := "(func " + x.Name.Name + " " + params(x.Type) + stmts(x.Body.List) + ")"
			if strings.HasPrefix(x.Name.Name, "New_") {
				ctors = append(ctors, s)
			} else if x.Name.Name == "main" {
				mainBody = stmts(x.Body.List)
			} else {
				funcs = append(funcs, s)
			}
		case *ast.GenDecl:
			if x.Tok == token.VAR {
				for _, sp := range x.Specs {
					vs := sp.(*ast.ValueSpec)
					if strings.HasPrefix(vs.Names[0].Name, "New_") {
						ctors = append(ctors, "(var "+vs.Names[0].Name+" "+expr(vs.Values[0])+")")
					}
				}
			}
		}
	}
	j := func(h string, l []string) string {
		if len(l) == 0 {
			return "(" + h + ")"
		}
		return "(" + h + " " + strings.Join(l, " ") + ")"
	}
	fmt.Println("(goprog " + j("ctors", ctors) + " " + j("funcs", funcs) + " (main" + mainBody + "))")
}
