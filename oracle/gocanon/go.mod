module gocanon

go 1.23.4
