(* C17: (compile_tiny <prog>) | (run_tiny <fuel> <prog>) | (subset <prog>)
   <prog> is the MiniFo s-expression of coq/Core/FORMAT.md; it is elaborated by the elaborator of
   oracle/drv_c01.ml.  compile_tiny answers the canonical MiniGo s-expression of coq/Core/FORMAT_GO.md
   (tinyfo writes frt.Destr where fc writes frt.Destr2, and numbers its _vN differently).
   subset: TINY when the verified checker Core/CompileTiny.tiny_b accepts (C17_subset_check_sound), else
   NOT_TINY <reason> (the reason is found by an OCaml traversal, informative only).

   x_c17.ml and x_c01.ml are two monolithic extractions of the same Coq definitions, so their [prog] /
   [gprog] types are distinct OCaml types with the same representation; the elaborated program is passed
   across with Obj.magic.  A self-test at start-up compares the two copies on a fixed program. *)
open Sexp

let to17 (p : X_c01.prog) : X_c17.prog = Obj.magic p
let gprog01 (g : X_c17.gprog) : X_c01.gprog = Obj.magic g
let nat17 (n : int) : X_c17.nat =
  let rec go n acc = if n <= 0 then acc else go (n - 1) (X_c17.S acc) in go n X_c17.O

let show_outcome = function
  | X_c17.ODone out -> "OUT " ^ quote (implode out)
  | X_c17.OStuck w -> "STUCK " ^ quote (implode w)
  | X_c17.OFuel -> "FUEL"

(* why a program is outside tinyfo's subset (first reason found) *)
exception Why of string
let why (p : X_c01.prog) : string option =
  let open X_c01 in
  let rec e = function
    | EInt _ | EStr _ | EBool _ | EUnit | EVar _ -> ()
    | EBin (OMul, _, _) -> raise (Why "operator *")
    | EBin (ODiv, _, _) -> raise (Why "operator /")
    | EBin (_, a, b) | EEq (_, a, b) -> e a; e b
    | ENot a -> e a
    | EIf (c, a, b) -> e c; bl a; bl b
    | EIfOnly (c, a) -> e c; bl a
    | ELam _ -> raise (Why "lambda or inner function")
    | ECall (_, _, _, args) | EExt (_, args) | ERecord (_, _, _, args) -> List.iter e args
    | EPipeVar (a, _, _) -> e a
    | EPipeCall (a, _, args, _) | EPipeExt (a, _, args, _) -> e a; List.iter e args
    | ETuple es -> if List.length es <> 2 then raise (Why "tuple with more than two components"); List.iter e es
    | EField (t, _) ->
      let rec target = function EVar _ -> () | EField (t, _) -> target t | _ -> raise (Why "field access on a non-variable") in
      target t
    | ECtor (_, _, None) -> ()
    | ECtor (_, _, Some a) -> e a
    | EMatchU (a, _, arms, def) -> e a; List.iter (fun (_, b) -> bl b) arms; (match def with Some b -> bl b | None -> ())
    | EMatchS _ -> raise (Why "string match")
    | ESlice [] -> raise (Why "empty slice literal")
    | ESlice es -> List.iter e es
    | EInterp _ -> raise (Why "string interpolation")
    | EBlock _ -> raise (Why "block expression")
  and bl = function
    | BLet (_, a, b) -> e a; bl b
    | BDestr (xs, a, b) -> if List.length xs <> 2 then raise (Why "destructuring of more than two components"); e a; bl b
    | BDo (a, b) -> e a; bl b
    | BRet (a, _) -> e a in
  try List.iter (fun (_, (_, b)) -> bl b) p.p_funs; bl p.p_main; None with Why w -> Some w

let selftest_ok =
  lazy (try
          let src = "(prog ((union U ((A int) (B none))) (fun f ((u (union U))) int (block () (matchu (var u) ((A x (block () (var x))) (B (block () (int 0)))))))) (block ((destr (a b) (tuple (int 1) (str \"s\")))) (ext frt.Printf1 ((str \"%d\\n\") (bin + (var a) (call f 1 ((ctor A (int 2)))))))))" in
          let p = Drv_c01.elab_prog (Sexp.parse src) in
          let a = Drv_c01.show_outcome (X_c01.run_go (Drv_c01.nat_of_int 1000) (X_c01.compile_prog p)) in
          let b = show_outcome (X_c17.run_go (nat17 1000) (X_c17.compile_prog (to17 p))) in
          let c = show_outcome (X_c17.run_go (nat17 1000) (X_c17.compile_tiny (to17 p))) in
          a = "OUT \"3\\n\"" && a = b && b = c
        with _ -> false)

let () = Registry.register "C17" (fun req ->
    if not (Lazy.force selftest_ok) then "ERR C17 driver self-test failed (x_c01 / x_c17 representations differ?)" else
    try
      match req with
      | L [A "compile_tiny"; p] ->
        to_string (Drv_c01.gprog_sexp (gprog01 (X_c17.compile_tiny (to17 (Drv_c01.elab_prog p)))))
      | L [A "run_tiny"; A fuel; p] ->
        show_outcome (X_c17.run_go (nat17 (int_of_string fuel)) (X_c17.compile_tiny (to17 (Drv_c01.elab_prog p))))
      | L [A "subset"; p] ->
        let p = Drv_c01.elab_prog p in
        if X_c17.tiny_b (nat17 100000) (to17 p) then "TINY"
        else "NOT_TINY " ^ quote (match why p with Some w -> w | None -> "rejected by tiny_b")
      | _ -> "ERR bad C17 request"
    with Drv_c01.Ill m -> "STUCK " ^ quote ("ill-formed program: " ^ m))
