(* C05: (rec_lookup ((name f1 f2 ...) ...) (f1 f2 ...)) -> NAME <n> | NONE   names and fields are numbers
   (the harness maps record names to numbers preserving Go's string order and sorts field lists) *)
open Sexp
open X_c05

let rec nat_of_int n = if n <= 0 then O else S (nat_of_int (n - 1))
let rec int_of_nat = function O -> 0 | S n -> 1 + int_of_nat n

let () = Registry.register "C05" (function
    | L [A "rec_lookup"; L recs; L fs] ->
      let rs = List.map (function
          | L (n :: fields) -> { r_name = nat_of_int (int_of n); r_fields = List.map (fun f -> nat_of_int (int_of f)) fields }
          | _ -> raise (Parse_error "rec")) recs in
      (match rec_lookup isort rs (List.map (fun f -> nat_of_int (int_of f)) fs) with
       | Some r -> "NAME " ^ string_of_int (int_of_nat r.r_name)
       | None -> "NONE")
    | _ -> "ERR bad C05 request")
