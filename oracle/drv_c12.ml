(* C12 and C13: the heap model of pkg/slice (coq/Pkg/SliceHeap.v, extracted to x_c12.ml).
   C12 (hist <double|exact> call ...) -> after each call the contents of every pool value:
       "((1 2 3) (1 2)) ((1 2 3) (1 2) (1 2 9)) ..."  (one group per call)
   C13 (take 2 (1 2 3)) -> "OK (1 2)" | "PANIC index"; scalars "OK 3", "OK true", tryfind "OK (3 true)";
       (sortcheck key (inp) (out)) -> "OK true|false" (Coq's sorted_permb on the implementation's output)
   values: ints, pairs (p a b). callbacks: see fn_of/pred_of/... below; same names in harness/c12.go. *)
module M = X_c12
open Sexp

let rec nat_of_int n = if n <= 0 then M.O else M.S (nat_of_int (n - 1))
let rec int_of_nat = function M.O -> 0 | M.S n -> 1 + int_of_nat n
let rec pos_of_int n = if n <= 1 then M.XH else if n land 1 = 0 then M.XO (pos_of_int (n lsr 1)) else M.XI (pos_of_int (n lsr 1))
let rec int_of_pos = function M.XH -> 1 | M.XO p -> 2 * int_of_pos p | M.XI p -> 2 * int_of_pos p + 1
let z_of_int n = if n = 0 then M.Z0 else if n > 0 then M.Zpos (pos_of_int n) else M.Zneg (pos_of_int (-n))
let int_of_z = function M.Z0 -> 0 | M.Zpos p -> int_of_pos p | M.Zneg p -> - (int_of_pos p)

let rec val_of = function
  | A a -> M.VI (z_of_int (int_of_string a))
  | L [A "p"; a; b] -> M.VP (val_of a, val_of b)
  | _ -> raise (Parse_error "value")
let rec show_val = function
  | M.VI z -> string_of_int (int_of_z z)
  | M.VP (a, b) -> "(p " ^ show_val a ^ " " ^ show_val b ^ ")"
let show_list l = "(" ^ String.concat " " (List.map show_val l) ^ ")"
let vals_of = function L l -> List.map val_of l | _ -> raise (Parse_error "list of values")
let z_of s = z_of_int (int_of s)
let nat_of s = nat_of_int (int_of s)

let fn_of = function
  | L [A "addk"; k] -> M.f_addk (z_of k) | L [A "mulk"; k] -> M.f_mulk (z_of k)
  | A "neg" -> M.f_neg | L [A "const"; k] -> M.f_const (z_of k) | L [A "modk"; k] -> M.f_modk (z_of k)
  | A "fst" -> M.f_fst | A "snd" -> M.f_snd | A "swap" -> M.f_swap | A "sum" -> M.f_sum | A "dup" -> M.f_dup
  | _ -> raise (Parse_error "map function")
let fni_of = function
  | A "addidx" -> M.fi_addidx | L [A "muladd"; k] -> M.fi_muladd (z_of k)
  | A "idx" -> M.fi_idx | A "pair" -> M.fi_pair
  | _ -> raise (Parse_error "mapi function")
let pred_of = function
  | L [A "gtk"; k] -> M.p_gtk (z_of k) | L [A "ltk"; k] -> M.p_ltk (z_of k) | L [A "eqk"; k] -> M.p_eqk (z_of k)
  | L [A "modeq"; k; r] -> M.p_modeq (z_of k) (z_of r) | A "true" -> M.p_true | A "false" -> M.p_false
  | L [A "fstgt"; k] -> M.p_fstgt (z_of k)
  | _ -> raise (Parse_error "predicate")
let key_of = function
  | A "id" -> M.j_id | A "neg" -> M.j_neg | L [A "modk"; k] -> M.j_modk (z_of k) | A "abs" -> M.j_abs
  | A "fst" -> M.j_fst | A "snd" -> M.j_snd
  | _ -> raise (Parse_error "sort key")
let folder_of = function
  | A "sum" -> M.fo_sum | A "sub" -> M.fo_sub | L [A "horner"; k] -> M.fo_horner (z_of k)
  | A "count" -> M.fo_count | A "last" -> M.fo_last
  | _ -> raise (Parse_error "folder")
let gen_of = function
  | L [A "rep"; k] -> M.g_rep (nat_of k) | A "range" -> M.g_range | A "empty" -> M.g_empty
  | A "selfneg" -> M.g_selfneg
  | _ -> raise (Parse_error "collect function")
let cbk_of = function
  | L (A "pick" :: js) -> M.CbPick (List.map nat_of js)
  | g -> M.CbFresh (gen_of g)

let call_of = function
  | L (A "lit" :: vs) -> M.CLit (List.map val_of vs)
  | L (A "make" :: extra :: vs) -> M.CMake (List.map val_of vs, nat_of extra)
  | L [A "new"] -> M.CNew
  | L [A "tail"; i] -> M.CTail (nat_of i)
  | L [A "poplast"; i] -> M.CPopLast (nat_of i)
  | L [A "take"; n; i] -> M.CTake (z_of n, nat_of i)
  | L [A "skip"; n; i] -> M.CSkip (z_of n, nat_of i)
  | L [A "map"; f; i] -> M.CMap (fn_of f, nat_of i)
  | L [A "mapi"; f; i] -> M.CMapi (fni_of f, nat_of i)
  | L [A "filter"; p; i] -> M.CFilter (pred_of p, nat_of i)
  | L [A "sort"; i] -> M.CSort (nat_of i)
  | L [A "sortby"; k; i] -> M.CSortBy (key_of k, nat_of i)
  | L [A "zip"; i; j] -> M.CZip (nat_of i, nat_of j)
  | L [A "pushlast"; x; i] -> M.CPushLast (val_of x, nat_of i)
  | L [A "pushhead"; x; i] -> M.CPushHead (val_of x, nat_of i)
  | L [A "collect"; g; i] -> M.CCollect (cbk_of g, nat_of i)
  | L (A "concat" :: is) -> M.CConcat (List.map nat_of is)
  | L [A "append"; i; j] -> M.CAppend (nat_of i, nat_of j)
  | L [A "distinct"; i] -> M.CDistinct (nat_of i)
  | L (A "obs" :: i :: _) -> M.CObserve (nat_of i)
  | _ -> raise (Parse_error "call")

let grow_of = function A "exact" -> M.grow_exact | A "double" -> M.grow_double | _ -> raise (Parse_error "grow")

let () = Registry.register "C12" (function
    | L (A "hist" :: g :: calls) ->
      let tr = M.trace (grow_of g) M.isort_by M.init (List.map call_of calls) in
      String.concat " " (List.map (fun pool -> "(" ^ String.concat " " (List.map show_list pool) ^ ")") tr)
    | _ -> "ERR bad C12 request")

let panic_name = function
  | M.PIndex -> "index" | M.PBounds -> "bounds" | M.PHeadEmpty -> "head" | M.PTailEmpty -> "tail" | M.PZipLen -> "zip"
let show_res f = function M.Ok v -> "OK " ^ f v | M.Panic p -> "PANIC " ^ panic_name p
let show_bool b = if b then "true" else "false"
let show_z z = string_of_int (int_of_z z)

let () = Registry.register "C13" (fun req ->
    let g = M.grow_double in
    (* the argument sits inside a larger array: offset 1, one spare cell *)
    let arg h l = M.arg_slice h (vals_of l) in
    let sl f = show_res show_list (M.outcome f) in
    match req with
    | L [A "length"; l] -> let (h, s) = arg [] l in "OK " ^ show_z (M.length0 h s)
    | L [A "len"; l] -> let (h, s) = arg [] l in "OK " ^ show_z (M.len h s)
    | L [A "new"] -> sl (M.new0 [])
    | L [A "item"; i; l] -> let (h, s) = arg [] l in show_res show_val (M.item h (z_of i) s)
    | L [A "isempty"; l] -> let (h, s) = arg [] l in "OK " ^ show_bool (M.isEmpty h s)
    | L [A "isnotempty"; l] -> let (h, s) = arg [] l in "OK " ^ show_bool (M.isNotEmpty h s)
    | L [A "last"; l] -> let (h, s) = arg [] l in show_res show_val (M.last h s)
    | L [A "head"; l] -> let (h, s) = arg [] l in show_res show_val (M.head h s)
    | L [A "tail"; l] -> let (h, s) = arg [] l in sl (M.tail h s)
    | L [A "take"; n; l] -> let (h, s) = arg [] l in sl (M.take g h (z_of n) s)
    | L [A "poplast"; l] -> let (h, s) = arg [] l in sl (M.popLast h s)
    | L [A "skip"; n; l] -> let (h, s) = arg [] l in sl (M.skip g h (z_of n) s)
    | L [A "map"; f; l] -> let (h, s) = arg [] l in sl (M.map0 g (fn_of f) h s)
    | L [A "mapi"; f; l] -> let (h, s) = arg [] l in sl (M.mapi g (fni_of f) h s)
    | L [A "iter"; l] -> let (h, s) = arg [] l in "OK " ^ show_list (M.iter h s)
    | L [A "filter"; p; l] -> let (h, s) = arg [] l in sl (M.filter g (pred_of p) h s)
    | L [A "sort"; l] -> let (h, s) = arg [] l in sl (M.sort g M.isort_by h s)
    | L [A "sortby"; k; l] -> let (h, s) = arg [] l in sl (M.sortBy g M.isort_by (key_of k) h s)
    | L [A "sortcheck"; k; inp; out] -> "OK " ^ show_bool (M.sorted_permb (key_of k) (vals_of inp) (vals_of out))
    | L [A "zip"; l1; l2] -> let (h, s1) = arg [] l1 in let (h, s2) = arg h l2 in sl (M.zip g h s1 s2)
    | L [A "forall"; p; l] -> let (h, s) = arg [] l in "OK " ^ show_bool (M.forall (pred_of p) h s)
    | L [A "forany"; p; l] -> let (h, s) = arg [] l in "OK " ^ show_bool (M.forany (pred_of p) h s)
    | L [A "pushlast"; x; l] -> let (h, s) = arg [] l in sl (M.pushLast g h (val_of x) s)
    | L [A "pushhead"; x; l] -> let (h, s) = arg [] l in sl (M.pushHead g h (val_of x) s)
    | L [A "collect"; f; l] -> let (h, s) = arg [] l in sl (M.collect g (M.cb_fresh (gen_of f)) h s)
    | L (A "concat" :: ls) ->
      let (h, ss) = List.fold_left (fun (h, acc) l -> let (h, s) = arg h l in (h, acc @ [s])) ([], []) ls in
      sl (M.concat g h ss)
    | L [A "append"; l1; l2] -> let (h, s1) = arg [] l1 in let (h, s2) = arg h l2 in sl (M.append g h s1 s2)
    | L [A "distinct"; l] -> let (h, s) = arg [] l in sl (M.distinct g h s)
    | L [A "tryfind"; p; l] ->
      let (h, s) = arg [] l in let (v, b) = M.tryFind (pred_of p) h s in
      "OK (" ^ show_val v ^ " " ^ show_bool b ^ ")"
    | L [A "fold"; f; ini; l] -> let (h, s) = arg [] l in "OK " ^ show_val (M.fold (folder_of f) (val_of ini) h s)
    | _ -> "ERR bad C13 request")
