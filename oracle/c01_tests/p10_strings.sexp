(prog (
  (fun greet ((name string) (n int) (ok bool)) string (block () (interp "hi " (hole name) ", 50% of " (hole n) " is {" (hole ok) "}\t\"q\" \\ end")))
 )
 (block (
   (do (ext frt.Println ((call greet 3 ((str "w\xc3\xa9") (int 10) (bool true))))))
   (do (ext frt.Println ((str "tab\there \"quoted\" back\\slash"))))
   (do (ext frt.Printf1 ((str "100%% %s\n") (str "sure"))))
   (do (ext frt.Printf1 ((str "%d\n") (ext strings.Length ((str "w\xc3\xa9"))))))
   (let e (str ""))
   (do (ext frt.Printf1 ((str "[%s]\n") (var e))))
  )
  (ext frt.Println ((ext frt.Sprintf1 ((str "%v") (bool false)))))))
