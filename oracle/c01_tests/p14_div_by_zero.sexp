(prog ((fun quo ((a int) (b int)) int (block () (bin / (var a) (var b)))))
 (block ((do (ext frt.Println ((str "before"))))) (ext frt.Printf1 ((str "%d\n") (call quo 2 ((int 1) (int 0)))))))
