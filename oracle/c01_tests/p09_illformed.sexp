(prog () (block ((let x (int 1)) (let x (int 2))) (ext frt.Printf1 ((str "%d\n") (var x)))))
