(prog () (block ((do (ext frt.Println ((str "before"))))) (ext frt.Printf1 ((str "%d\n") (ext slice.Head ((slice int ())))))))
