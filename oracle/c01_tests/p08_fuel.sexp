(prog ((fun loop ((n int)) int (block () (call loop 1 ((bin + (var n) (int 1))))))) (block () (ext frt.Printf1 ((str "%d\n") (call loop 1 ((int 0)))))))
