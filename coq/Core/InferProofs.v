(** C02 — proofs about Core/Infer.v: constraint generation is sound and complete for the
    declarative typing judgement; with Core/UnifyProofs.v this gives soundness and principality of
    [infer_fun], canonical numbering, annotation erasure, independence of instances. *)
From Coq Require Import Arith Lia Bool List.
From FoVerif Require Import Core.Unify Core.UnifyProofs Core.Infer.
Import ListNotations.

(* ------------------------------------------------------------------ induction principle for exp *)
Section ExpInd.
Variable P : exp -> Prop.
Hypothesis Hvar : forall x, P (XVar x).
Hypothesis Hlit : forall l, P (XLit l).
Hypothesis Hprim : forall p args, Forall P args -> P (XPrim p args).
Hypothesis Hcallp : forall f args, Forall P args -> P (XCallP f args).
Hypothesis Hlet : forall x a b, P a -> P b -> P (XLet x a b).
Hypothesis Hlettup : forall xs a b, P a -> P b -> P (XLetTup xs a b).
Hypothesis Hlam : forall xs b, P b -> P (XLam xs b).

Fixpoint exp_ind2 (e:exp) : P e :=
  match e with
  | XVar x => Hvar x
  | XLit l => Hlit l
  | XPrim p args =>
      Hprim p args ((fix go (l:list exp) : Forall P l :=
                       match l with [] => Forall_nil P | a::r => Forall_cons a (exp_ind2 a) (go r) end) args)
  | XCallP f args =>
      Hcallp f args ((fix go (l:list exp) : Forall P l :=
                        match l with [] => Forall_nil P | a::r => Forall_cons a (exp_ind2 a) (go r) end) args)
  | XLet x a b => Hlet x a b (exp_ind2 a) (exp_ind2 b)
  | XLetTup xs a b => Hlettup xs a b (exp_ind2 a) (exp_ind2 b)
  | XLam xs b => Hlam xs b (exp_ind2 b)
  end.
End ExpInd.

(* ------------------------------------------------------------------ substitutions, below, agree *)
Fixpoint below (n:nat) (t:ty) : Prop :=
  match t with TVar x => x < n | TAtom _ => True | TNode l r => below n l /\ below n r end.

Definition agree (n:nat) (th th':nat->ty) : Prop := forall v, v < n -> th' v = th v.
Definition env_below (n:nat) (G:env) : Prop := forall x t, In (x,t) G -> below n t.
Definition eqs_below (n:nat) (es:list eqn) : Prop := forall s t, In (s,t) es -> below n s /\ below n t.

Lemma below_mono n m t : below n t -> n <= m -> below m t.
Proof. induction t; cbn; intros; try lia; intuition. Qed.
Lemma Forall_below_mono n m ts : Forall (below n) ts -> n <= m -> Forall (below m) ts.
Proof. intros F L. eapply Forall_impl; [|exact F]. intros; eapply below_mono; eauto. Qed.
Lemma agree_app n th th' t : agree n th th' -> below n t -> app th' t = app th t.
Proof. intros A; induction t; cbn; intros B; auto. destruct B; f_equal; auto. Qed.
Lemma agree_map n th th' ts : agree n th th' -> Forall (below n) ts -> map (app th') ts = map (app th) ts.
Proof. intros A F. induction F; cbn; f_equal; auto. eapply agree_app; eauto. Qed.
Lemma agree_menv n th th' G : agree n th th' -> env_below n G -> menv th' G = menv th G.
Proof. intros A; induction G as [|(x,t) G IH]; cbn; intros B; auto. f_equal.
  - f_equal. eapply agree_app; eauto. apply (B x t); left; reflexivity.
  - apply IH. intros y u I; apply (B y u); right; exact I. Qed.
Lemma agree_unifies n th th' es : agree n th th' -> eqs_below n es -> unifies th es -> unifies th' es.
Proof. intros A B U s t I. destruct (B _ _ I). rewrite !(agree_app n th th') by assumption. apply U; exact I. Qed.
Lemma agree_trans n m a b c : agree n a b -> agree m b c -> n <= m -> agree n a c.
Proof. intros A B L v Hv. rewrite B, A by lia. reflexivity. Qed.
Lemma agree_mono n m a b : agree m a b -> n <= m -> agree n a b.
Proof. intros A L v Hv; apply A; lia. Qed.
Lemma agree_refl n a : agree n a a.
Proof. intros v _; reflexivity. Qed.

Lemma eqs_below_app n e1 e2 : eqs_below n e1 -> eqs_below n e2 -> eqs_below n (e1 ++ e2).
Proof. intros A B s t I; apply in_app_or in I; destruct I; auto. Qed.
Lemma eqs_below_mono n m es : eqs_below n es -> n <= m -> eqs_below m es.
Proof. intros A L s t I; destruct (A _ _ I); split; eapply below_mono; eauto. Qed.
Lemma eqs_below_nil n : eqs_below n [].
Proof. intros ? ? []. Qed.
Lemma eqs_below_cons n s t es : below n s -> below n t -> eqs_below n es -> eqs_below n ((s,t)::es).
Proof. intros A B C a b [E|I]; [injection E as <- <-; auto|auto]. Qed.
Lemma eqs_below_combine n l1 l2 : Forall (below n) l1 -> Forall (below n) l2 -> eqs_below n (combine l1 l2).
Proof. intros F1; revert l2; induction F1; intros l2 F2; cbn; [apply eqs_below_nil|].
  destruct F2; [apply eqs_below_nil|]. apply eqs_below_cons; auto. Qed.

Lemma unifies_app th e1 e2 : unifies th (e1 ++ e2) <-> unifies th e1 /\ unifies th e2.
Proof. unfold unifies. split.
  - intros U; split; intros s t I; apply U; apply in_or_app; auto.
  - intros (U1 & U2) s t I; apply in_app_or in I; destruct I; auto. Qed.
Lemma unifies_cons th s t es : unifies th ((s,t)::es) <-> app th s = app th t /\ unifies th es.
Proof. split.
  - intros U; split; [apply U; left; reflexivity|intros a b I; apply U; right; exact I].
  - intros (E & U) a b [I|I]; [injection I as <- <-; exact E|auto]. Qed.
Lemma unifies_nil th : unifies th [].
Proof. intros ? ? []. Qed.

Lemma unifies_combine th l1 l2 : length l1 = length l2 ->
  (unifies th (combine l1 l2) <-> map (app th) l1 = map (app th) l2).
Proof. revert l2; induction l1 as [|a l1 IH]; intros [|b l2] L; cbn in *; try discriminate.
  - split; intros; [reflexivity|apply unifies_nil].
  - injection L as L. rewrite unifies_cons, (IH l2 L). split.
    + intros (E & M); congruence.
    + intros M; injection M as E M; auto. Qed.

Lemma lookup_menv th x G : lookup x (menv th G) = option_map (app th) (lookup x G).
Proof. induction G as [|(y,t) G IH]; cbn; auto. destruct (Nat.eqb x y); auto. Qed.
Lemma lookup_below n G x t : env_below n G -> lookup x G = Some t -> below n t.
Proof. induction G as [|(y,u) G IH]; cbn; intros B L; [discriminate|].
  destruct (Nat.eqb x y); [inversion L; subst; apply (B y t); left; reflexivity|].
  apply IH; auto. intros z w I; apply (B z w); right; exact I. Qed.
Lemma env_below_mono n m G : env_below n G -> n <= m -> env_below m G.
Proof. intros B L x t I. eapply below_mono; eauto. Qed.
Lemma env_below_cons n x t G : below n t -> env_below n G -> env_below n ((x,t)::G).
Proof. intros A B y u [E|I]; [injection E as <- <-; exact A|eauto]. Qed.

Lemma menv_bind th xs : forall ts G, menv th (bind xs ts G) = bind xs (map (app th) ts) (menv th G).
Proof. induction xs as [|[x|] xs IH]; intros [|t ts] G; cbn [bind map]; auto; rewrite IH; reflexivity. Qed.
Lemma env_below_bind n xs : forall ts G, Forall (below n) ts -> env_below n G -> env_below n (bind xs ts G).
Proof. induction xs as [|[x|] xs IH]; intros [|t ts] G F B; cbn; auto; inversion F; subst; apply IH; auto.
  apply env_below_cons; auto. Qed.

(* type constructors and substitution *)
Lemma app_tlist th ts : app th (tlist ts) = tlist (map (app th) ts).
Proof. induction ts; cbn; congruence. Qed.
Lemma app_tfun th ts r : app th (tfun ts r) = tfun (map (app th) ts) (app th r).
Proof. unfold tfun. cbn. rewrite app_tlist. reflexivity. Qed.
Lemma app_ttuple th ts : app th (ttuple ts) = ttuple (map (app th) ts).
Proof. unfold ttuple. cbn. rewrite app_tlist. reflexivity. Qed.
Lemma below_tlist n ts : below n (tlist ts) <-> Forall (below n) ts.
Proof. induction ts; cbn; split; auto.
  - intros (A & B); constructor; tauto.
  - intros F; inversion F; subst; tauto. Qed.
Lemma below_tfun n ts r : below n (tfun ts r) <-> Forall (below n) ts /\ below n r.
Proof. unfold tfun; cbn. rewrite below_tlist. tauto. Qed.
Lemma below_ttuple n ts : below n (ttuple ts) <-> Forall (below n) ts.
Proof. unfold ttuple; cbn. rewrite below_tlist. tauto. Qed.
Lemma tlist_inj ts ts' : tlist ts = tlist ts' -> ts = ts'.
Proof. revert ts'; induction ts; intros [|b ts']; cbn; intros E; try discriminate; auto.
  injection E as -> E. f_equal; auto. Qed.
Lemma ttuple_inj ts ts' : ttuple ts = ttuple ts' -> ts = ts'.
Proof. unfold ttuple; intros E; injection E as E; apply tlist_inj; exact E. Qed.
Lemma tfun_inj ts r ts' r' : tfun ts r = tfun ts' r' -> ts = ts' /\ r = r'.
Proof. unfold tfun; intros E; injection E as E1 E2; split; auto; apply tlist_inj; exact E1. Qed.

Lemma app_shift th n t : app th (shift n t) = app (fun x => th (n + x)) t.
Proof. induction t; cbn; congruence. Qed.
Lemma below_shift n k t : below k t -> below (n + k) (shift n t).
Proof. induction t; cbn; intros; try lia; intuition. Qed.
Lemma Forall_below_shift n k ts : Forall (below k) ts -> Forall (below (n + k)) (map (shift n) ts).
Proof. intros F; induction F; cbn; constructor; auto using below_shift. Qed.

Lemma below_seqvars n k m : n + k <= m -> Forall (below m) (map TVar (seq n k)).
Proof. revert n; induction k; intros n L; cbn; constructor; [cbn; lia|apply IHk; lia]. Qed.

(** extension of a substitution by the list [ts] on the fresh variables n, n+1, ... *)
Definition ext (n:nat) (ts:list ty) (th:nat->ty) : nat -> ty :=
  fun v => if v <? n then th v else match nth_error ts (v - n) with Some t => t | None => th v end.

Lemma agree_ext n ts th : agree n th (ext n ts th).
Proof. intros v Hv. unfold ext. apply Nat.ltb_lt in Hv. rewrite Hv. reflexivity. Qed.
Lemma ext_at n ts th i t : nth_error ts i = Some t -> ext n ts th (n + i) = t.
Proof. intros E. unfold ext. destruct (n + i <? n) eqn:C; [apply Nat.ltb_lt in C; lia|].
  replace (n + i - n) with i by lia. rewrite E. reflexivity. Qed.
Lemma map_ext_seqvars n ts th : map (app (ext n ts th)) (map TVar (seq n (length ts))) = ts.
Proof.
  rewrite map_map. cbn [app].
  assert (K : forall l m, (forall i t, nth_error l i = Some t -> ext n ts th (m + i) = t) ->
                          map (fun x => ext n ts th x) (seq m (length l)) = l).
  { induction l as [|a l IH]; intros m H; cbn; auto. f_equal.
    - rewrite <- (Nat.add_0_r m). apply H. reflexivity.
    - apply IH. intros i t E. replace (S m + i) with (m + S i) by lia. apply H. exact E. }
  apply K. intros i t E. apply ext_at. exact E.
Qed.

(* ------------------------------------------------------------------ well-formed declarations *)
Definition scheme_ok (s:scheme) : Prop := Forall (below (sk s)) (sargs s) /\ below (sk s) (sres s).
Definition tdecl_ok (d:tdecl) : Prop :=
  match d with
  | DRecord k fields => Forall (below k) fields
  | DUnion k cases => Forall (fun c => match c with Some t => below k t | None => True end) cases
  end.
Definition decls_ok (D:decls) : Prop := Forall tdecl_ok (d_types D) /\ Forall scheme_ok (d_globals D).

Lemma below_tvars_upto k : Forall (below k) (tvars_upto k).
Proof. apply below_seqvars. lia. Qed.

Lemma Forall_nth_error {A} (P:A->Prop) l i x : Forall P l -> nth_error l i = Some x -> P x.
Proof. intros F E. apply nth_error_In in E. rewrite Forall_forall in F. auto. Qed.

Lemma prim_scheme_ok D p s : decls_ok D -> prim_scheme D p = Some s -> scheme_ok s.
Proof.
  intros (OT & OG) E. unfold scheme_ok. destruct p; cbn in E.
  - injection E as <-; cbn. repeat constructor; cbn; lia.
  - injection E as <-; cbn. repeat constructor; cbn; lia.
  - injection E as <-; cbn. repeat constructor; cbn; lia.
  - injection E as <-; cbn [sk sargs sres]. split; [apply below_tvars_upto|apply below_ttuple, below_tvars_upto].
  - injection E as <-; cbn [sk sargs sres]. split; [|cbn; lia]. apply Forall_forall. intros x I.
    apply repeat_spec in I; subst; cbn; lia.
  - injection E as <-; cbn. repeat constructor; cbn; lia.
  - destruct (nth_error (d_types D) r) as [[k fs|k cs]|] eqn:N; try discriminate. injection E as <-; cbn [sk sargs sres].
    pose proof (Forall_nth_error _ _ _ _ OT N) as O; cbn in O. split; [exact O|].
    unfold tnamed; cbn. split; [exact I|apply below_tlist, below_tvars_upto].
  - destruct (nth_error (d_types D) u) as [[k fs|k cs]|] eqn:N; try discriminate.
    pose proof (Forall_nth_error _ _ _ _ OT N) as O; cbn in O.
    destruct (nth_error cs c) as [[t|]|] eqn:C; try discriminate; injection E as <-; cbn [sk sargs sres];
      (split; [|unfold tnamed; cbn; split; [exact I|apply below_tlist, below_tvars_upto]]); [|constructor].
    constructor; [|constructor]. exact (Forall_nth_error _ _ _ _ O C).
  - destruct (nth_error (d_types D) r) as [[k fs|k cs]|] eqn:N; try discriminate.
    pose proof (Forall_nth_error _ _ _ _ OT N) as O; cbn in O.
    destruct (nth_error fs f) as [t|] eqn:C; try discriminate. injection E as <-; cbn [sk sargs sres].
    split; [|exact (Forall_nth_error _ _ _ _ O C)]. constructor; [|constructor].
    unfold tnamed; cbn. split; [exact I|apply below_tlist, below_tvars_upto].
  - exact (Forall_nth_error _ _ _ _ OG E).
Qed.

Lemma Forall_firstn {A} (P:A->Prop) m l : Forall P l -> Forall P (firstn m l).
Proof. intros F; revert m; induction F; intros [|m]; cbn; auto. Qed.
Lemma Forall_skipn {A} (P:A->Prop) m l : Forall P l -> Forall P (skipn m l).
Proof. intros F; revert m; induction F; intros [|m]; cbn; auto. Qed.

Lemma below_res_after s m : scheme_ok s -> below (sk s) (res_after s m).
Proof. intros (A & B). unfold res_after. pose proof (Forall_skipn _ m _ A) as F.
  destruct (skipn m (sargs s)) as [|a r]; [exact B|]. apply below_tfun. auto. Qed.

Lemma arity_ok_le p m n : arity_ok p m n = true -> m <= n.
Proof. destruct p; cbn; intros E; try (apply Nat.eqb_eq in E; lia). apply Nat.leb_le in E; exact E. Qed.

(* ------------------------------------------------------------------ gen: soundness *)
Section Gen.
Variable D : decls.

Lemma gen_args_length ge args : forall n ts es n', gen_args ge args n = Some (ts, es, n') -> length ts = length args.
Proof. induction args as [|a r IH]; intros n ts es n' H; cbn in H.
  - injection H as <- _ _; reflexivity.
  - destruct (ge a n) as [[[ta ea] n1]|]; try discriminate.
    destruct (gen_args ge r n1) as [[[ts0 er] n2]|] eqn:R; try discriminate.
    injection H as <- _ _. cbn. f_equal. eauto. Qed.

Definition sound_at (a:exp) : Prop :=
  forall G n t es n', gen D G a n = Some (t, es, n') ->
  forall th, unifies th es -> has D (menv th G) a (app th t).

Lemma gen_args_sound G args : Forall sound_at args ->
  forall n ts es n', gen_args (gen D G) args n = Some (ts, es, n') ->
  forall th, unifies th es -> has_list D (menv th G) args (map (app th) ts).
Proof.
  intros F; induction F as [|a r Ha _ IH]; intros n ts es n' H th U; cbn in H.
  - injection H as <- _ _. constructor.
  - destruct (gen D G a n) as [[[ta ea] n1]|] eqn:Ga; try discriminate.
    destruct (gen_args (gen D G) r n1) as [[[ts0 er] n2]|] eqn:R; try discriminate.
    injection H as <- <- _. apply unifies_app in U. destruct U as (Ua & Ur).
    cbn. constructor; [eapply Ha; eauto|eapply IH; eauto].
Qed.

Theorem gen_sound : forall e G n t es n', gen D G e n = Some (t, es, n') ->
  forall th, unifies th es -> has D (menv th G) e (app th t).
Proof.
  induction e as [x|l|p args IH|f args IH|x a b IHa IHb|xs a b IHa IHb|xs b IHb] using exp_ind2;
    intros G n t es n' H th U; cbn [gen] in H.
  - destruct (lookup x G) as [t0|] eqn:L; inversion H; subst. constructor. rewrite lookup_menv, L; reflexivity.
  - inversion H; subst. destruct l; constructor.
  - (* primitive / global application *)
    destruct (prim_scheme D p) as [s|] eqn:PS; try discriminate.
    destruct (arity_ok p (length args) (length (sargs s))) eqn:AR; try discriminate.
    destruct (gen_args (gen D G) args (n + sk s)) as [[[tas eas] n1]|] eqn:GA; try discriminate.
    injection H as <- <- _. apply unifies_app in U. destruct U as (Uc & Ua).
    pose proof (gen_args_length _ _ _ _ _ _ GA) as LT.
    pose proof (arity_ok_le _ _ _ AR) as LE.
    apply unifies_combine in Uc; [|rewrite map_length, firstn_length; lia].
    rewrite app_shift. apply H_prim; auto.
    rewrite <- (map_ext_in _ _ _ (fun t _ => app_shift th n t)), <- map_map, Uc.
    eapply gen_args_sound; eauto.
  - (* application of a function-typed local *)
    destruct (lookup f G) as [tf|] eqn:L; try discriminate.
    destruct (gen_args (gen D G) args n) as [[[tas eas] n1]|] eqn:GA; try discriminate.
    injection H as <- <- _. apply unifies_cons in U. destruct U as (E & Ua).
    rewrite app_tfun in E. cbn [app] in *.
    eapply H_callp; [rewrite lookup_menv, L; cbn; rewrite E; reflexivity|].
    eapply gen_args_sound; eauto.
  - destruct (gen D G a n) as [[[ta ea] n1]|] eqn:Ga; try discriminate.
    destruct (gen D ((x,ta)::G) b n1) as [[[tb eb] n2]|] eqn:Gb; try discriminate. injection H as <- <- _.
    apply unifies_app in U. destruct U as (Ua & Ub). econstructor; [eapply IHa; eauto|].
    apply (IHb _ _ _ _ _ Gb th Ub).
  - (* destructuring let *)
    destruct (gen D G a n) as [[[ta ea] n1]|] eqn:Ga; try discriminate.
    destruct (gen D (bind xs (map TVar (seq n1 (length xs))) G) b (n1 + length xs)) as [[[tb eb] n2]|] eqn:Gb; try discriminate.
    injection H as <- <- _. apply unifies_cons in U. destruct U as (E & U).
    apply unifies_app in U. destruct U as (Ua & Ub). rewrite app_ttuple in E.
    eapply H_lettup with (ts := map (app th) (map TVar (seq n1 (length xs)))).
    + rewrite !map_length, seq_length; reflexivity.
    + rewrite <- E. eapply IHa; eauto.
    + rewrite <- menv_bind. eapply IHb; eauto.
  - (* lambda *)
    destruct (gen D (bind (map Some xs) (map TVar (seq n (length xs))) G) b (n + length xs)) as [[[tb eb] n1]|] eqn:Gb; try discriminate.
    injection H as <- <- _. rewrite app_tfun. apply H_lam.
    + rewrite !map_length, seq_length; reflexivity.
    + rewrite <- menv_bind. eapply IHb; eauto.
Qed.

End Gen.

(* ------------------------------------------------------------------ gen: completeness *)
Lemma nth_error_seq n k i : i < k -> nth_error (seq n k) i = Some (n + i).
Proof. revert n i; induction k; intros n [|i] L; cbn; try lia.
  - f_equal; lia.
  - rewrite IHk by lia. f_equal; lia. Qed.

Section GenComplete.
Variable D : decls.
Hypothesis DOK : decls_ok D.

Definition complete_at (a:exp) : Prop :=
  forall G n th t', has D (menv th G) a t' -> env_below n G ->
  exists t es n' th', gen D G a n = Some (t, es, n') /\ n <= n' /\ agree n th th' /\
     unifies th' es /\ app th' t = t' /\ below n' t /\ eqs_below n' es.

Lemma gen_args_complete G args : Forall complete_at args ->
  forall n th ts', has_list D (menv th G) args ts' -> env_below n G ->
  exists ts es n' th', gen_args (gen D G) args n = Some (ts, es, n') /\ n <= n' /\ agree n th th' /\
     unifies th' es /\ map (app th') ts = ts' /\ Forall (below n') ts /\ eqs_below n' es.
Proof.
  intros F; induction F as [|a r Ha _ IH]; intros n th ts' H B; inversion H; subst; cbn.
  - exists [], [], n, th. split; [reflexivity|]. split; [lia|]. split; [apply agree_refl|]. split; [apply unifies_nil|].
    split; [reflexivity|]. split; [constructor|apply eqs_below_nil].
  - match goal with Hh : has D _ a ?t0 |- _ => rename Hh into Hha; rename t0 into ta' end.
    match goal with Hh : has_list D _ r ?t0 |- _ => rename Hh into Hhr; rename t0 into tr' end.
    destruct (Ha G n th ta' Hha B) as (t1 & e1 & n1 & th1 & G1 & L1 & A1 & U1 & E1 & B1 & Q1).
    assert (Hr : has_list D (menv th1 G) r tr') by (rewrite (agree_menv n th th1 G A1 B); exact Hhr).
    destruct (IH n1 th1 tr' Hr (env_below_mono _ _ _ B L1)) as (ts2 & e2 & n2 & th2 & G2 & L2 & A2 & U2 & E2 & B2 & Q2).
    rewrite G1, G2. exists (t1 :: ts2), (e1 ++ e2), n2, th2.
    split; [reflexivity|]. split; [lia|]. split; [eapply agree_trans; eauto|].
    split; [apply unifies_app; split; [eapply agree_unifies; eauto|exact U2]|].
    split; [cbn; rewrite (agree_app n1 th1 th2 t1 A2 B1), E1, E2; reflexivity|].
    split; [constructor; [eapply below_mono; eauto|exact B2]|].
    apply eqs_below_app; auto. eapply eqs_below_mono; eauto.
Qed.

Theorem gen_complete : forall e G n th t',
  has D (menv th G) e t' -> env_below n G ->
  exists t es n' th', gen D G e n = Some (t, es, n') /\ n <= n' /\ agree n th th' /\
                      unifies th' es /\ app th' t = t' /\ below n' t /\ eqs_below n' es.
Proof.
  induction e as [x|l|p args IH|f args IH|x a b IHa IHb|xs a b IHa IHb|xs b IHb] using exp_ind2;
    intros G n th t' H B; inversion H; subst; cbn [gen].
  - (* var *)
    match goal with Hl : lookup x (menv th G) = Some _ |- _ => rename Hl into HL end.
    rewrite lookup_menv in HL. destruct (lookup x G) as [t0|] eqn:L; cbn in HL; inversion HL; subst.
    exists t0, [], n, th. split; [reflexivity|]. split; [lia|]. split; [apply agree_refl|]. split; [apply unifies_nil|].
    split; [reflexivity|]. split; [eapply lookup_below; eauto|apply eqs_below_nil].
  - exists (lit_ty l), [], n, th. split; [reflexivity|]. split; [lia|]. split; [apply agree_refl|]. split; [apply unifies_nil|].
    split; [destruct l; reflexivity|]. split; [destruct l; exact I|apply eqs_below_nil].
  - (* primitive / global application *)
    match goal with Hp : prim_scheme D p = Some ?s0 |- _ => rename Hp into PS; rename s0 into s end.
    match goal with Ha : arity_ok p _ _ = true |- _ => rename Ha into AR end.
    match goal with Hh : has_list D _ args _ |- _ => rename Hh into HL end.
    rewrite PS, AR.
    pose proof (prim_scheme_ok _ _ _ DOK PS) as SOK. destruct SOK as (SA & SR).
    pose proof (arity_ok_le _ _ _ AR) as LE.
    set (m := length args) in *.
    set (th0 := ext n (map rho (seq 0 (sk s))) th).
    assert (A0 : agree n th th0) by apply agree_ext.
    assert (HL0 : has_list D (menv th0 G) args (map (app rho) (firstn m (sargs s))))
      by (rewrite (agree_menv n th th0 G A0 B); exact HL).
    destruct (gen_args_complete G args IH (n + sk s) th0 _ HL0) as (tas & eas & n1 & th1 & G1 & L1 & A1 & U1 & E1 & B1 & Q1).
    { eapply env_below_mono; eauto; lia. }
    rewrite G1.
    assert (INST : forall t, below (sk s) t -> app th1 (shift n t) = app rho t).
    { intros t Bt. rewrite app_shift. induction t as [v|c|l IHl r IHr]; cbn [app below] in *; auto.
      - rewrite A1 by lia. unfold th0. apply ext_at.
        erewrite map_nth_error; [reflexivity|]. rewrite nth_error_seq by exact Bt. reflexivity.
      - destruct Bt; f_equal; auto. }
    pose proof (gen_args_length _ _ _ _ _ _ G1) as LT.
    assert (INSTL : map (app th1) (map (shift n) (firstn m (sargs s))) = map (app rho) (firstn m (sargs s))).
    { rewrite map_map. apply map_ext_in. intros t It. apply INST.
      pose proof (Forall_firstn _ m _ SA) as Ff. rewrite Forall_forall in Ff. auto. }
    exists (shift n (res_after s m)), (combine (map (shift n) (firstn m (sargs s))) tas ++ eas), n1, th1.
    split; [reflexivity|]. split; [lia|].
    split; [apply (agree_trans n (n + sk s) _ _ _ A0 A1); lia|].
    split.
    { apply unifies_app; split; [|exact U1]. apply unifies_combine.
      - rewrite map_length, firstn_length. fold m in LT. lia.
      - rewrite INSTL, E1. reflexivity. }
    split; [apply INST; apply below_res_after; split; assumption|].
    split; [eapply below_mono; [apply below_shift, below_res_after; split; assumption|exact L1]|].
    apply eqs_below_app; [|exact Q1]. apply eqs_below_combine; [|exact B1].
    eapply Forall_below_mono; [apply Forall_below_shift, Forall_firstn; exact SA|exact L1].
  - (* application of a function-typed local *)
    match goal with Hl : lookup f (menv th G) = Some _ |- _ => rename Hl into HLk end.
    match goal with Hh : has_list D _ args ?t0 |- _ => rename Hh into HL; rename t0 into tas end.
    rewrite lookup_menv in HLk. destruct (lookup f G) as [tf|] eqn:L; cbn in HLk; inversion HLk as [Etf]; subst.
    destruct (gen_args_complete G args IH n th tas HL B) as (ts1 & e1 & n1 & th1 & G1 & L1 & A1 & U1 & E1 & B1 & Q1).
    rewrite G1.
    set (th2 := ext n1 [t'] th1).
    assert (A2 : agree n1 th1 th2) by apply agree_ext.
    assert (V2 : th2 n1 = t').
    { pose proof (ext_at n1 [t'] th1 0 t' eq_refl) as V. rewrite Nat.add_0_r in V. exact V. }
    assert (Btf : below n tf) by (eapply lookup_below; eauto).
    exists (TVar n1), ((tf, tfun ts1 (TVar n1)) :: e1), (S n1), th2.
    split; [reflexivity|]. split; [lia|]. split; [eapply agree_trans; eauto|].
    split.
    { apply unifies_cons; split; [|eapply agree_unifies; eauto].
      rewrite app_tfun. cbn [app]. rewrite V2, (agree_map n1 th1 th2 ts1 A2 B1), E1.
      rewrite (agree_app n1 th1 th2 tf A2) by (eapply below_mono; eauto).
      rewrite (agree_app n th th1 tf A1 Btf). exact Etf. }
    split; [exact V2|]. split; [cbn; lia|].
    apply eqs_below_cons.
    + eapply below_mono; eauto; lia.
    + apply below_tfun; split; [eapply Forall_below_mono; eauto|cbn; lia].
    + eapply eqs_below_mono; eauto.
  - (* let *)
    match goal with Hh : has D (menv th G) a ?ta0 |- _ => rename Hh into Hha; rename ta0 into ta end.
    match goal with Hh : has D (_ :: menv th G) b _ |- _ => rename Hh into Hhb end.
    destruct (IHa G n th ta Hha B) as (t1 & e1 & n1 & th1 & G1 & L1 & A1 & U1 & E1 & B1 & Q1).
    assert (Hb : has D (menv th1 ((x,t1)::G)) b t').
    { change (menv th1 ((x,t1)::G)) with ((x, app th1 t1) :: menv th1 G).
      rewrite E1, (agree_menv n th th1 G A1 B). exact Hhb. }
    destruct (IHb ((x,t1)::G) n1 th1 t' Hb) as (t2 & e2 & n2 & th2 & G2 & L2 & A2 & U2 & E2 & B2 & Q2).
    { apply env_below_cons; [exact B1|eapply env_below_mono; eauto]. }
    rewrite G1, G2. exists t2, (e1 ++ e2), n2, th2.
    split; [reflexivity|]. split; [lia|]. split; [eapply agree_trans; eauto|].
    split; [apply unifies_app; split; [eapply agree_unifies; eauto|exact U2]|].
    split; [exact E2|]. split; [exact B2|].
    apply eqs_below_app; auto. eapply eqs_below_mono; eauto.
  - (* destructuring let *)
    match goal with Hh : has D (menv th G) a (ttuple ?ts0) |- _ => rename Hh into Hha; rename ts0 into ts end.
    match goal with Hh : has D (bind xs ts (menv th G)) b _ |- _ => rename Hh into Hhb end.
    match goal with Hl : length ts = length xs |- _ => rename Hl into LEN end.
    destruct (IHa G n th (ttuple ts) Hha B) as (t1 & e1 & n1 & th1 & G1 & L1 & A1 & U1 & E1 & B1 & Q1).
    rewrite G1.
    set (vs := map TVar (seq n1 (length xs))).
    set (th2 := ext n1 ts th1).
    assert (A2 : agree n1 th1 th2) by apply agree_ext.
    assert (V2 : map (app th2) vs = ts) by (unfold vs, th2; rewrite <- LEN; apply map_ext_seqvars).
    assert (Bvs : Forall (below (n1 + length xs)) vs) by (apply below_seqvars; lia).
    assert (Hb : has D (menv th2 (bind xs vs G)) b t').
    { rewrite menv_bind, V2, (agree_menv n1 th1 th2 G A2) by (eapply env_below_mono; eauto).
      rewrite (agree_menv n th th1 G A1 B). exact Hhb. }
    destruct (IHb (bind xs vs G) (n1 + length xs) th2 t' Hb) as (t2 & e2 & n2 & th3 & G2 & L2 & A3 & U2 & E2 & B2 & Q2).
    { apply env_below_bind; [exact Bvs|eapply env_below_mono; eauto; lia]. }
    rewrite G2. exists t2, ((t1, ttuple vs) :: e1 ++ e2), n2, th3.
    assert (A13 : agree n1 th1 th3) by (eapply agree_trans; [exact A2|exact A3|lia]).
    split; [reflexivity|]. split; [lia|]. split; [eapply agree_trans; [exact A1|exact A13|exact L1]|].
    split.
    { apply unifies_cons; split.
      - rewrite (agree_app n1 th1 th3 t1 A13 B1), E1, app_ttuple.
        rewrite (agree_map _ th2 th3 vs A3 Bvs), V2. reflexivity.
      - apply unifies_app; split; [eapply agree_unifies; eauto|exact U2]. }
    split; [exact E2|]. split; [exact B2|].
    apply eqs_below_cons.
    + eapply below_mono; eauto; lia.
    + apply below_ttuple. eapply Forall_below_mono; eauto.
    + apply eqs_below_app; auto. eapply eqs_below_mono; eauto; lia.
  - (* lambda *)
    match goal with Hh : has D (bind (map Some xs) ?ts0 (menv th G)) b ?tb0 |- _ => rename Hh into Hhb; rename ts0 into ts; rename tb0 into tb end.
    match goal with Hl : length ts = length xs |- _ => rename Hl into LEN end.
    set (vs := map TVar (seq n (length xs))).
    set (th0 := ext n ts th).
    assert (A0 : agree n th th0) by apply agree_ext.
    assert (V0 : map (app th0) vs = ts) by (unfold vs, th0; rewrite <- LEN; apply map_ext_seqvars).
    assert (Bvs : Forall (below (n + length xs)) vs) by (apply below_seqvars; lia).
    assert (Hb : has D (menv th0 (bind (map Some xs) vs G)) b tb).
    { rewrite menv_bind, V0, (agree_menv n th th0 G A0 B). exact Hhb. }
    destruct (IHb (bind (map Some xs) vs G) (n + length xs) th0 tb Hb) as (t2 & e2 & n2 & th1 & G2 & L2 & A1 & U2 & E2 & B2 & Q2).
    { apply env_below_bind; [exact Bvs|eapply env_below_mono; eauto; lia]. }
    fold vs. rewrite G2. exists (tfun vs t2), e2, n2, th1.
    split; [reflexivity|]. split; [lia|]. split; [eapply agree_trans; [exact A0|exact A1|lia]|].
    split; [exact U2|].
    split; [rewrite app_tfun, (agree_map _ th0 th1 vs A1 Bvs), V0, E2; reflexivity|].
    split; [apply below_tfun; split; [eapply Forall_below_mono; eauto|exact B2]|exact Q2].
Qed.

End GenComplete.
