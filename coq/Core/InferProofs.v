(** C02 — proofs about Core/Infer.v: constraint generation is sound and complete for the
    declarative typing judgement; with Core/UnifyProofs.v this gives soundness and principality of
    [infer_fun], canonical numbering, annotation erasure, independence of instances. *)
From Coq Require Import Arith Lia Bool List.
From FoVerif Require Import Core.Unify Core.UnifyProofs Core.Infer.
Import ListNotations.

(* ------------------------------------------------------------------ induction principle for exp *)
Section ExpInd.
Variable P : exp -> Prop.
Hypothesis Hvar : forall x, P (XVar x).
Hypothesis Hlit : forall l, P (XLit l).
Hypothesis Hprim : forall p args, Forall P args -> P (XPrim p args).
Hypothesis Hcallp : forall f args, Forall P args -> P (XCallP f args).
Hypothesis Hlet : forall x a b, P a -> P b -> P (XLet x a b).
Hypothesis Hlettup : forall xs a b, P a -> P b -> P (XLetTup xs a b).
Hypothesis Hlam : forall xs b, P b -> P (XLam xs b).

Fixpoint exp_ind2 (e:exp) : P e :=
  match e with
  | XVar x => Hvar x
  | XLit l => Hlit l
  | XPrim p args =>
      Hprim p args ((fix go (l:list exp) : Forall P l :=
                       match l with [] => Forall_nil P | a::r => Forall_cons a (exp_ind2 a) (go r) end) args)
  | XCallP f args =>
      Hcallp f args ((fix go (l:list exp) : Forall P l :=
                        match l with [] => Forall_nil P | a::r => Forall_cons a (exp_ind2 a) (go r) end) args)
  | XLet x a b => Hlet x a b (exp_ind2 a) (exp_ind2 b)
  | XLetTup xs a b => Hlettup xs a b (exp_ind2 a) (exp_ind2 b)
  | XLam xs b => Hlam xs b (exp_ind2 b)
  end.
End ExpInd.

(* ------------------------------------------------------------------ substitutions, below, agree *)
Fixpoint below (n:nat) (t:ty) : Prop :=
  match t with TVar x => x < n | TAtom _ => True | TNode l r => below n l /\ below n r end.

Definition agree (n:nat) (th th':nat->ty) : Prop := forall v, v < n -> th' v = th v.
Definition env_below (n:nat) (G:env) : Prop := forall x t, In (x,t) G -> below n t.
Definition eqs_below (n:nat) (es:list eqn) : Prop := forall s t, In (s,t) es -> below n s /\ below n t.

Lemma below_mono n m t : below n t -> n <= m -> below m t.
Proof. induction t; cbn; intros; try lia; intuition. Qed.
Lemma Forall_below_mono n m ts : Forall (below n) ts -> n <= m -> Forall (below m) ts.
Proof. intros F L. eapply Forall_impl; [|exact F]. intros; eapply below_mono; eauto. Qed.
Lemma agree_app n th th' t : agree n th th' -> below n t -> app th' t = app th t.
Proof. intros A; induction t; cbn; intros B; auto. destruct B; f_equal; auto. Qed.
Lemma agree_map n th th' ts : agree n th th' -> Forall (below n) ts -> map (app th') ts = map (app th) ts.
Proof. intros A F. induction F; cbn; f_equal; auto. eapply agree_app; eauto. Qed.
Lemma agree_menv n th th' G : agree n th th' -> env_below n G -> menv th' G = menv th G.
Proof. intros A; induction G as [|(x,t) G IH]; cbn; intros B; auto. f_equal.
  - f_equal. eapply agree_app; eauto. apply (B x t); left; reflexivity.
  - apply IH. intros y u I; apply (B y u); right; exact I. Qed.
Lemma agree_unifies n th th' es : agree n th th' -> eqs_below n es -> unifies th es -> unifies th' es.
Proof. intros A B U s t I. destruct (B _ _ I). rewrite !(agree_app n th th') by assumption. apply U; exact I. Qed.
Lemma agree_trans n m a b c : agree n a b -> agree m b c -> n <= m -> agree n a c.
Proof. intros A B L v Hv. rewrite B, A by lia. reflexivity. Qed.
Lemma agree_mono n m a b : agree m a b -> n <= m -> agree n a b.
Proof. intros A L v Hv; apply A; lia. Qed.
Lemma agree_refl n a : agree n a a.
Proof. intros v _; reflexivity. Qed.

Lemma eqs_below_app n e1 e2 : eqs_below n e1 -> eqs_below n e2 -> eqs_below n (e1 ++ e2).
Proof. intros A B s t I; apply in_app_or in I; destruct I; auto. Qed.
Lemma eqs_below_mono n m es : eqs_below n es -> n <= m -> eqs_below m es.
Proof. intros A L s t I; destruct (A _ _ I); split; eapply below_mono; eauto. Qed.
Lemma eqs_below_nil n : eqs_below n [].
Proof. intros ? ? []. Qed.
Lemma eqs_below_cons n s t es : below n s -> below n t -> eqs_below n es -> eqs_below n ((s,t)::es).
Proof. intros A B C a b [E|I]; [injection E as <- <-; auto|auto]. Qed.
Lemma eqs_below_combine n l1 l2 : Forall (below n) l1 -> Forall (below n) l2 -> eqs_below n (combine l1 l2).
Proof. intros F1; revert l2; induction F1; intros l2 F2; cbn; [apply eqs_below_nil|].
  destruct F2; [apply eqs_below_nil|]. apply eqs_below_cons; auto. Qed.

Lemma unifies_app th e1 e2 : unifies th (e1 ++ e2) <-> unifies th e1 /\ unifies th e2.
Proof. unfold unifies. split.
  - intros U; split; intros s t I; apply U; apply in_or_app; auto.
  - intros (U1 & U2) s t I; apply in_app_or in I; destruct I; auto. Qed.
Lemma unifies_cons th s t es : unifies th ((s,t)::es) <-> app th s = app th t /\ unifies th es.
Proof. split.
  - intros U; split; [apply U; left; reflexivity|intros a b I; apply U; right; exact I].
  - intros (E & U) a b [I|I]; [injection I as <- <-; exact E|auto]. Qed.
Lemma unifies_nil th : unifies th [].
Proof. intros ? ? []. Qed.

Lemma unifies_combine th l1 l2 : length l1 = length l2 ->
  (unifies th (combine l1 l2) <-> map (app th) l1 = map (app th) l2).
Proof. revert l2; induction l1 as [|a l1 IH]; intros [|b l2] L; cbn in *; try discriminate.
  - split; intros; [reflexivity|apply unifies_nil].
  - injection L as L. rewrite unifies_cons, (IH l2 L). split.
    + intros (E & M); congruence.
    + intros M; injection M as E M; auto. Qed.

Lemma lookup_menv th x G : lookup x (menv th G) = option_map (app th) (lookup x G).
Proof. induction G as [|(y,t) G IH]; cbn; auto. destruct (Nat.eqb x y); auto. Qed.
Lemma lookup_below n G x t : env_below n G -> lookup x G = Some t -> below n t.
Proof. induction G as [|(y,u) G IH]; cbn; intros B L; [discriminate|].
  destruct (Nat.eqb x y); [inversion L; subst; apply (B y t); left; reflexivity|].
  apply IH; auto. intros z w I; apply (B z w); right; exact I. Qed.
Lemma env_below_mono n m G : env_below n G -> n <= m -> env_below m G.
Proof. intros B L x t I. eapply below_mono; eauto. Qed.
Lemma env_below_cons n x t G : below n t -> env_below n G -> env_below n ((x,t)::G).
Proof. intros A B y u [E|I]; [injection E as <- <-; exact A|eauto]. Qed.

Lemma menv_bind th xs : forall ts G, menv th (bind xs ts G) = bind xs (map (app th) ts) (menv th G).
Proof. induction xs as [|[x|] xs IH]; intros [|t ts] G; cbn [bind map]; auto; rewrite IH; reflexivity. Qed.
Lemma env_below_bind n xs : forall ts G, Forall (below n) ts -> env_below n G -> env_below n (bind xs ts G).
Proof. induction xs as [|[x|] xs IH]; intros [|t ts] G F B; cbn; auto; inversion F; subst; apply IH; auto.
  apply env_below_cons; auto. Qed.

(* type constructors and substitution *)
Lemma app_tlist th ts : app th (tlist ts) = tlist (map (app th) ts).
Proof. induction ts; cbn; congruence. Qed.
Lemma app_tfun th ts r : app th (tfun ts r) = tfun (map (app th) ts) (app th r).
Proof. unfold tfun. cbn. rewrite app_tlist. reflexivity. Qed.
Lemma app_ttuple th ts : app th (ttuple ts) = ttuple (map (app th) ts).
Proof. unfold ttuple. cbn. rewrite app_tlist. reflexivity. Qed.
Lemma below_tlist n ts : below n (tlist ts) <-> Forall (below n) ts.
Proof. induction ts; cbn; split; auto.
  - intros (A & B); constructor; tauto.
  - intros F; inversion F; subst; tauto. Qed.
Lemma below_tfun n ts r : below n (tfun ts r) <-> Forall (below n) ts /\ below n r.
Proof. unfold tfun; cbn. rewrite below_tlist. tauto. Qed.
Lemma below_ttuple n ts : below n (ttuple ts) <-> Forall (below n) ts.
Proof. unfold ttuple; cbn. rewrite below_tlist. tauto. Qed.
Lemma tlist_inj ts ts' : tlist ts = tlist ts' -> ts = ts'.
Proof. revert ts'; induction ts; intros [|b ts']; cbn; intros E; try discriminate; auto.
  injection E as -> E. f_equal; auto. Qed.
Lemma ttuple_inj ts ts' : ttuple ts = ttuple ts' -> ts = ts'.
Proof. unfold ttuple; intros E; injection E as E; apply tlist_inj; exact E. Qed.
Lemma tfun_inj ts r ts' r' : tfun ts r = tfun ts' r' -> ts = ts' /\ r = r'.
Proof. unfold tfun; intros E; injection E as E1 E2; split; auto; apply tlist_inj; exact E1. Qed.

Lemma app_shift th n t : app th (shift n t) = app (fun x => th (n + x)) t.
Proof. induction t; cbn; congruence. Qed.
Lemma below_shift n k t : below k t -> below (n + k) (shift n t).
Proof. induction t; cbn; intros; try lia; intuition. Qed.
Lemma Forall_below_shift n k ts : Forall (below k) ts -> Forall (below (n + k)) (map (shift n) ts).
Proof. intros F; induction F; cbn; constructor; auto using below_shift. Qed.

Lemma below_seqvars n k m : n + k <= m -> Forall (below m) (map TVar (seq n k)).
Proof. revert n; induction k; intros n L; cbn; constructor; [cbn; lia|apply IHk; lia]. Qed.

(** extension of a substitution by the list [ts] on the fresh variables n, n+1, ... *)
Definition ext (n:nat) (ts:list ty) (th:nat->ty) : nat -> ty :=
  fun v => if v <? n then th v else match nth_error ts (v - n) with Some t => t | None => th v end.

Lemma agree_ext n ts th : agree n th (ext n ts th).
Proof. intros v Hv. unfold ext. apply Nat.ltb_lt in Hv. rewrite Hv. reflexivity. Qed.
Lemma ext_at n ts th i t : nth_error ts i = Some t -> ext n ts th (n + i) = t.
Proof. intros E. unfold ext. destruct (n + i <? n) eqn:C; [apply Nat.ltb_lt in C; lia|].
  replace (n + i - n) with i by lia. rewrite E. reflexivity. Qed.
Lemma map_ext_seqvars n ts th : map (app (ext n ts th)) (map TVar (seq n (length ts))) = ts.
Proof.
  rewrite map_map. cbn [app].
  assert (K : forall l m, (forall i t, nth_error l i = Some t -> ext n ts th (m + i) = t) ->
                          map (fun x => ext n ts th x) (seq m (length l)) = l).
  { induction l as [|a l IH]; intros m H; cbn; auto. f_equal.
    - rewrite <- (Nat.add_0_r m). apply H. reflexivity.
    - apply IH. intros i t E. replace (S m + i) with (m + S i) by lia. apply H. exact E. }
  apply K. intros i t E. apply ext_at. exact E.
Qed.

(* ------------------------------------------------------------------ well-formed declarations *)
Definition scheme_ok (s:scheme) : Prop := Forall (below (sk s)) (sargs s) /\ below (sk s) (sres s).
Definition tdecl_ok (d:tdecl) : Prop :=
  match d with
  | DRecord k fields => Forall (below k) fields
  | DUnion k cases => Forall (fun c => match c with Some t => below k t | None => True end) cases
  end.
Definition decls_ok (D:decls) : Prop := Forall tdecl_ok (d_types D) /\ Forall scheme_ok (d_globals D).

Lemma below_tvars_upto k : Forall (below k) (tvars_upto k).
Proof. apply below_seqvars. lia. Qed.

Lemma Forall_nth_error {A} (P:A->Prop) l i x : Forall P l -> nth_error l i = Some x -> P x.
Proof. intros F E. apply nth_error_In in E. rewrite Forall_forall in F. auto. Qed.

Lemma prim_scheme_ok D p s : decls_ok D -> prim_scheme D p = Some s -> scheme_ok s.
Proof.
  intros (OT & OG) E. unfold scheme_ok. destruct p; cbn in E.
  - injection E as <-; cbn. repeat constructor; cbn; lia.
  - injection E as <-; cbn. repeat constructor; cbn; lia.
  - injection E as <-; cbn. repeat constructor; cbn; lia.
  - injection E as <-; cbn [sk sargs sres]. split; [apply below_tvars_upto|apply below_ttuple, below_tvars_upto].
  - injection E as <-; cbn [sk sargs sres]. split; [|cbn; lia]. apply Forall_forall. intros x I.
    apply repeat_spec in I; subst; cbn; lia.
  - injection E as <-; cbn. repeat constructor; cbn; lia.
  - destruct (nth_error (d_types D) r) as [[k fs|k cs]|] eqn:N; try discriminate. injection E as <-; cbn [sk sargs sres].
    pose proof (Forall_nth_error _ _ _ _ OT N) as O; cbn in O. split; [exact O|].
    unfold tnamed; cbn. split; [exact I|apply below_tlist, below_tvars_upto].
  - destruct (nth_error (d_types D) u) as [[k fs|k cs]|] eqn:N; try discriminate.
    pose proof (Forall_nth_error _ _ _ _ OT N) as O; cbn in O.
    destruct (nth_error cs c) as [[t|]|] eqn:C; try discriminate; injection E as <-; cbn [sk sargs sres];
      (split; [|unfold tnamed; cbn; split; [exact I|apply below_tlist, below_tvars_upto]]); [|constructor].
    constructor; [|constructor]. exact (Forall_nth_error _ _ _ _ O C).
  - destruct (nth_error (d_types D) r) as [[k fs|k cs]|] eqn:N; try discriminate.
    pose proof (Forall_nth_error _ _ _ _ OT N) as O; cbn in O.
    destruct (nth_error fs f) as [t|] eqn:C; try discriminate. injection E as <-; cbn [sk sargs sres].
    split; [|exact (Forall_nth_error _ _ _ _ O C)]. constructor; [|constructor].
    unfold tnamed; cbn. split; [exact I|apply below_tlist, below_tvars_upto].
  - exact (Forall_nth_error _ _ _ _ OG E).
Qed.

Lemma Forall_firstn {A} (P:A->Prop) m l : Forall P l -> Forall P (firstn m l).
Proof. intros F; revert m; induction F; intros [|m]; cbn; auto. Qed.
Lemma Forall_skipn {A} (P:A->Prop) m l : Forall P l -> Forall P (skipn m l).
Proof. intros F; revert m; induction F; intros [|m]; cbn; auto. Qed.

Lemma below_res_after s m : scheme_ok s -> below (sk s) (res_after s m).
Proof. intros (A & B). unfold res_after. pose proof (Forall_skipn _ m _ A) as F.
  destruct (skipn m (sargs s)) as [|a r]; [exact B|]. apply below_tfun. auto. Qed.

Lemma arity_ok_le p m n : arity_ok p m n = true -> m <= n.
Proof. destruct p; cbn; intros E; try (apply Nat.eqb_eq in E; lia). apply Nat.leb_le in E; exact E. Qed.

(* ------------------------------------------------------------------ gen: soundness *)
Section Gen.
Variable D : decls.

Lemma gen_args_length ge args : forall n ts es n', gen_args ge args n = Some (ts, es, n') -> length ts = length args.
Proof. induction args as [|a r IH]; intros n ts es n' H; cbn in H.
  - injection H as <- _ _; reflexivity.
  - destruct (ge a n) as [[[ta ea] n1]|]; try discriminate.
    destruct (gen_args ge r n1) as [[[ts0 er] n2]|] eqn:R; try discriminate.
    injection H as <- _ _. cbn. f_equal. eauto. Qed.

Definition sound_at (a:exp) : Prop :=
  forall G n t es n', gen D G a n = Some (t, es, n') ->
  forall th, unifies th es -> has D (menv th G) a (app th t).

Lemma gen_args_sound G args : Forall sound_at args ->
  forall n ts es n', gen_args (gen D G) args n = Some (ts, es, n') ->
  forall th, unifies th es -> has_list D (menv th G) args (map (app th) ts).
Proof.
  intros F; induction F as [|a r Ha _ IH]; intros n ts es n' H th U; cbn in H.
  - injection H as <- _ _. constructor.
  - destruct (gen D G a n) as [[[ta ea] n1]|] eqn:Ga; try discriminate.
    destruct (gen_args (gen D G) r n1) as [[[ts0 er] n2]|] eqn:R; try discriminate.
    injection H as <- <- _. apply unifies_app in U. destruct U as (Ua & Ur).
    cbn. constructor; [eapply Ha; eauto|eapply IH; eauto].
Qed.

Theorem gen_sound : forall e G n t es n', gen D G e n = Some (t, es, n') ->
  forall th, unifies th es -> has D (menv th G) e (app th t).
Proof.
  induction e as [x|l|p args IH|f args IH|x a b IHa IHb|xs a b IHa IHb|xs b IHb] using exp_ind2;
    intros G n t es n' H th U; cbn [gen] in H.
  - destruct (lookup x G) as [t0|] eqn:L; inversion H; subst. constructor. rewrite lookup_menv, L; reflexivity.
  - inversion H; subst. destruct l; constructor.
  - (* primitive / global application *)
    destruct (prim_scheme D p) as [s|] eqn:PS; try discriminate.
    destruct (arity_ok p (length args) (length (sargs s))) eqn:AR; try discriminate.
    destruct (gen_args (gen D G) args (n + sk s)) as [[[tas eas] n1]|] eqn:GA; try discriminate.
    injection H as <- <- _. apply unifies_app in U. destruct U as (Uc & Ua).
    pose proof (gen_args_length _ _ _ _ _ _ GA) as LT.
    pose proof (arity_ok_le _ _ _ AR) as LE.
    apply unifies_combine in Uc; [|rewrite map_length, firstn_length; lia].
    rewrite app_shift. apply H_prim; auto.
    rewrite <- (map_ext_in _ _ _ (fun t _ => app_shift th n t)), <- map_map, Uc.
    eapply gen_args_sound; eauto.
  - (* application of a function-typed local *)
    destruct (lookup f G) as [tf|] eqn:L; try discriminate.
    destruct (gen_args (gen D G) args n) as [[[tas eas] n1]|] eqn:GA; try discriminate.
    injection H as <- <- _. apply unifies_cons in U. destruct U as (E & Ua).
    rewrite app_tfun in E. cbn [app] in *.
    eapply H_callp; [rewrite lookup_menv, L; cbn; rewrite E; reflexivity|].
    eapply gen_args_sound; eauto.
  - destruct (gen D G a n) as [[[ta ea] n1]|] eqn:Ga; try discriminate.
    destruct (gen D ((x,ta)::G) b n1) as [[[tb eb] n2]|] eqn:Gb; try discriminate. injection H as <- <- _.
    apply unifies_app in U. destruct U as (Ua & Ub). econstructor; [eapply IHa; eauto|].
    apply (IHb _ _ _ _ _ Gb th Ub).
  - (* destructuring let *)
    destruct (gen D G a n) as [[[ta ea] n1]|] eqn:Ga; try discriminate.
    destruct (gen D (bind xs (map TVar (seq n1 (length xs))) G) b (n1 + length xs)) as [[[tb eb] n2]|] eqn:Gb; try discriminate.
    injection H as <- <- _. apply unifies_cons in U. destruct U as (E & U).
    apply unifies_app in U. destruct U as (Ua & Ub). rewrite app_ttuple in E.
    eapply H_lettup with (ts := map (app th) (map TVar (seq n1 (length xs)))).
    + rewrite !map_length, seq_length; reflexivity.
    + rewrite <- E. eapply IHa; eauto.
    + rewrite <- menv_bind. eapply IHb; eauto.
  - (* lambda *)
    destruct (gen D (bind (map Some xs) (map TVar (seq n (length xs))) G) b (n + length xs)) as [[[tb eb] n1]|] eqn:Gb; try discriminate.
    injection H as <- <- _. rewrite app_tfun. apply H_lam.
    + rewrite !map_length, seq_length; reflexivity.
    + rewrite <- menv_bind. eapply IHb; eauto.
Qed.

End Gen.

(* ------------------------------------------------------------------ gen: completeness *)
Lemma nth_error_seq n k i : i < k -> nth_error (seq n k) i = Some (n + i).
Proof. revert n i; induction k; intros n [|i] L; cbn; try lia.
  - f_equal; lia.
  - rewrite IHk by lia. f_equal; lia. Qed.

Section GenComplete.
Variable D : decls.
Hypothesis DOK : decls_ok D.

Definition complete_at (a:exp) : Prop :=
  forall G n th t', has D (menv th G) a t' -> env_below n G ->
  exists t es n' th', gen D G a n = Some (t, es, n') /\ n <= n' /\ agree n th th' /\
     unifies th' es /\ app th' t = t' /\ below n' t /\ eqs_below n' es.

Lemma gen_args_complete G args : Forall complete_at args ->
  forall n th ts', has_list D (menv th G) args ts' -> env_below n G ->
  exists ts es n' th', gen_args (gen D G) args n = Some (ts, es, n') /\ n <= n' /\ agree n th th' /\
     unifies th' es /\ map (app th') ts = ts' /\ Forall (below n') ts /\ eqs_below n' es.
Proof.
  intros F; induction F as [|a r Ha _ IH]; intros n th ts' H B; inversion H; subst; cbn.
  - exists [], [], n, th. split; [reflexivity|]. split; [lia|]. split; [apply agree_refl|]. split; [apply unifies_nil|].
    split; [reflexivity|]. split; [constructor|apply eqs_below_nil].
  - match goal with Hh : has D _ a ?t0 |- _ => rename Hh into Hha; rename t0 into ta' end.
    match goal with Hh : has_list D _ r ?t0 |- _ => rename Hh into Hhr; rename t0 into tr' end.
    destruct (Ha G n th ta' Hha B) as (t1 & e1 & n1 & th1 & G1 & L1 & A1 & U1 & E1 & B1 & Q1).
    assert (Hr : has_list D (menv th1 G) r tr') by (rewrite (agree_menv n th th1 G A1 B); exact Hhr).
    destruct (IH n1 th1 tr' Hr (env_below_mono _ _ _ B L1)) as (ts2 & e2 & n2 & th2 & G2 & L2 & A2 & U2 & E2 & B2 & Q2).
    rewrite G1, G2. exists (t1 :: ts2), (e1 ++ e2), n2, th2.
    split; [reflexivity|]. split; [lia|]. split; [eapply agree_trans; eauto|].
    split; [apply unifies_app; split; [eapply agree_unifies; eauto|exact U2]|].
    split; [cbn; rewrite (agree_app n1 th1 th2 t1 A2 B1), E1, E2; reflexivity|].
    split; [constructor; [eapply below_mono; eauto|exact B2]|].
    apply eqs_below_app; auto. eapply eqs_below_mono; eauto.
Qed.

Theorem gen_complete : forall e G n th t',
  has D (menv th G) e t' -> env_below n G ->
  exists t es n' th', gen D G e n = Some (t, es, n') /\ n <= n' /\ agree n th th' /\
                      unifies th' es /\ app th' t = t' /\ below n' t /\ eqs_below n' es.
Proof.
  induction e as [x|l|p args IH|f args IH|x a b IHa IHb|xs a b IHa IHb|xs b IHb] using exp_ind2;
    intros G n th t' H B; inversion H; subst; cbn [gen].
  - (* var *)
    match goal with Hl : lookup x (menv th G) = Some _ |- _ => rename Hl into HL end.
    rewrite lookup_menv in HL. destruct (lookup x G) as [t0|] eqn:L; cbn in HL; inversion HL; subst.
    exists t0, [], n, th. split; [reflexivity|]. split; [lia|]. split; [apply agree_refl|]. split; [apply unifies_nil|].
    split; [reflexivity|]. split; [eapply lookup_below; eauto|apply eqs_below_nil].
  - exists (lit_ty l), [], n, th. split; [reflexivity|]. split; [lia|]. split; [apply agree_refl|]. split; [apply unifies_nil|].
    split; [destruct l; reflexivity|]. split; [destruct l; exact I|apply eqs_below_nil].
  - (* primitive / global application *)
    match goal with Hp : prim_scheme D p = Some ?s0 |- _ => rename Hp into PS; rename s0 into s end.
    match goal with Ha : arity_ok p _ _ = true |- _ => rename Ha into AR end.
    match goal with Hh : has_list D _ args _ |- _ => rename Hh into HL end.
    rewrite PS, AR.
    pose proof (prim_scheme_ok _ _ _ DOK PS) as SOK. destruct SOK as (SA & SR).
    pose proof (arity_ok_le _ _ _ AR) as LE.
    set (m := length args) in *.
    set (th0 := ext n (map rho (seq 0 (sk s))) th).
    assert (A0 : agree n th th0) by apply agree_ext.
    assert (HL0 : has_list D (menv th0 G) args (map (app rho) (firstn m (sargs s))))
      by (rewrite (agree_menv n th th0 G A0 B); exact HL).
    destruct (gen_args_complete G args IH (n + sk s) th0 _ HL0) as (tas & eas & n1 & th1 & G1 & L1 & A1 & U1 & E1 & B1 & Q1).
    { eapply env_below_mono; eauto; lia. }
    rewrite G1.
    assert (INST : forall t, below (sk s) t -> app th1 (shift n t) = app rho t).
    { intros t Bt. rewrite app_shift. induction t as [v|c|l IHl r IHr]; cbn [app below] in *; auto.
      - rewrite A1 by lia. unfold th0. apply ext_at.
        erewrite map_nth_error; [reflexivity|]. rewrite nth_error_seq by exact Bt. reflexivity.
      - destruct Bt; f_equal; auto. }
    pose proof (gen_args_length _ _ _ _ _ _ G1) as LT.
    assert (INSTL : map (app th1) (map (shift n) (firstn m (sargs s))) = map (app rho) (firstn m (sargs s))).
    { rewrite map_map. apply map_ext_in. intros t It. apply INST.
      pose proof (Forall_firstn _ m _ SA) as Ff. rewrite Forall_forall in Ff. auto. }
    exists (shift n (res_after s m)), (combine (map (shift n) (firstn m (sargs s))) tas ++ eas), n1, th1.
    split; [reflexivity|]. split; [lia|].
    split; [apply (agree_trans n (n + sk s) _ _ _ A0 A1); lia|].
    split.
    { apply unifies_app; split; [|exact U1]. apply unifies_combine.
      - rewrite map_length, firstn_length. fold m in LT. lia.
      - rewrite INSTL, E1. reflexivity. }
    split; [apply INST; apply below_res_after; split; assumption|].
    split; [eapply below_mono; [apply below_shift, below_res_after; split; assumption|exact L1]|].
    apply eqs_below_app; [|exact Q1]. apply eqs_below_combine; [|exact B1].
    eapply Forall_below_mono; [apply Forall_below_shift, Forall_firstn; exact SA|exact L1].
  - (* application of a function-typed local *)
    match goal with Hl : lookup f (menv th G) = Some _ |- _ => rename Hl into HLk end.
    match goal with Hh : has_list D _ args ?t0 |- _ => rename Hh into HL; rename t0 into tas end.
    rewrite lookup_menv in HLk. destruct (lookup f G) as [tf|] eqn:L; cbn in HLk; inversion HLk as [Etf]; subst.
    destruct (gen_args_complete G args IH n th tas HL B) as (ts1 & e1 & n1 & th1 & G1 & L1 & A1 & U1 & E1 & B1 & Q1).
    rewrite G1.
    set (th2 := ext n1 [t'] th1).
    assert (A2 : agree n1 th1 th2) by apply agree_ext.
    assert (V2 : th2 n1 = t').
    { pose proof (ext_at n1 [t'] th1 0 t' eq_refl) as V. rewrite Nat.add_0_r in V. exact V. }
    assert (Btf : below n tf) by (eapply lookup_below; eauto).
    exists (TVar n1), ((tf, tfun ts1 (TVar n1)) :: e1), (S n1), th2.
    split; [reflexivity|]. split; [lia|]. split; [eapply agree_trans; eauto|].
    split.
    { apply unifies_cons; split; [|eapply agree_unifies; eauto].
      rewrite app_tfun. cbn [app]. rewrite V2, (agree_map n1 th1 th2 ts1 A2 B1), E1.
      rewrite (agree_app n1 th1 th2 tf A2) by (eapply below_mono; eauto).
      rewrite (agree_app n th th1 tf A1 Btf). exact Etf. }
    split; [exact V2|]. split; [cbn; lia|].
    apply eqs_below_cons.
    + eapply below_mono; eauto; lia.
    + apply below_tfun; split; [eapply Forall_below_mono; eauto|cbn; lia].
    + eapply eqs_below_mono; eauto.
  - (* let *)
    match goal with Hh : has D (menv th G) a ?ta0 |- _ => rename Hh into Hha; rename ta0 into ta end.
    match goal with Hh : has D (_ :: menv th G) b _ |- _ => rename Hh into Hhb end.
    destruct (IHa G n th ta Hha B) as (t1 & e1 & n1 & th1 & G1 & L1 & A1 & U1 & E1 & B1 & Q1).
    assert (Hb : has D (menv th1 ((x,t1)::G)) b t').
    { change (menv th1 ((x,t1)::G)) with ((x, app th1 t1) :: menv th1 G).
      rewrite E1, (agree_menv n th th1 G A1 B). exact Hhb. }
    destruct (IHb ((x,t1)::G) n1 th1 t' Hb) as (t2 & e2 & n2 & th2 & G2 & L2 & A2 & U2 & E2 & B2 & Q2).
    { apply env_below_cons; [exact B1|eapply env_below_mono; eauto]. }
    rewrite G1, G2. exists t2, (e1 ++ e2), n2, th2.
    split; [reflexivity|]. split; [lia|]. split; [eapply agree_trans; eauto|].
    split; [apply unifies_app; split; [eapply agree_unifies; eauto|exact U2]|].
    split; [exact E2|]. split; [exact B2|].
    apply eqs_below_app; auto. eapply eqs_below_mono; eauto.
  - (* destructuring let *)
    match goal with Hh : has D (menv th G) a (ttuple ?ts0) |- _ => rename Hh into Hha; rename ts0 into ts end.
    match goal with Hh : has D (bind xs ts (menv th G)) b _ |- _ => rename Hh into Hhb end.
    match goal with Hl : length ts = length xs |- _ => rename Hl into LEN end.
    destruct (IHa G n th (ttuple ts) Hha B) as (t1 & e1 & n1 & th1 & G1 & L1 & A1 & U1 & E1 & B1 & Q1).
    rewrite G1.
    set (vs := map TVar (seq n1 (length xs))).
    set (th2 := ext n1 ts th1).
    assert (A2 : agree n1 th1 th2) by apply agree_ext.
    assert (V2 : map (app th2) vs = ts) by (unfold vs, th2; rewrite <- LEN; apply map_ext_seqvars).
    assert (Bvs : Forall (below (n1 + length xs)) vs) by (apply below_seqvars; lia).
    assert (Hb : has D (menv th2 (bind xs vs G)) b t').
    { rewrite menv_bind, V2, (agree_menv n1 th1 th2 G A2) by (eapply env_below_mono; eauto).
      rewrite (agree_menv n th th1 G A1 B). exact Hhb. }
    destruct (IHb (bind xs vs G) (n1 + length xs) th2 t' Hb) as (t2 & e2 & n2 & th3 & G2 & L2 & A3 & U2 & E2 & B2 & Q2).
    { apply env_below_bind; [exact Bvs|eapply env_below_mono; eauto; lia]. }
    rewrite G2. exists t2, ((t1, ttuple vs) :: e1 ++ e2), n2, th3.
    assert (A13 : agree n1 th1 th3) by (eapply agree_trans; [exact A2|exact A3|lia]).
    split; [reflexivity|]. split; [lia|]. split; [eapply agree_trans; [exact A1|exact A13|exact L1]|].
    split.
    { apply unifies_cons; split.
      - rewrite (agree_app n1 th1 th3 t1 A13 B1), E1, app_ttuple.
        rewrite (agree_map _ th2 th3 vs A3 Bvs), V2. reflexivity.
      - apply unifies_app; split; [eapply agree_unifies; eauto|exact U2]. }
    split; [exact E2|]. split; [exact B2|].
    apply eqs_below_cons.
    + eapply below_mono; eauto; lia.
    + apply below_ttuple. eapply Forall_below_mono; eauto.
    + apply eqs_below_app; auto. eapply eqs_below_mono; eauto; lia.
  - (* lambda *)
    match goal with Hh : has D (bind (map Some xs) ?ts0 (menv th G)) b ?tb0 |- _ => rename Hh into Hhb; rename ts0 into ts; rename tb0 into tb end.
    match goal with Hl : length ts = length xs |- _ => rename Hl into LEN end.
    set (vs := map TVar (seq n (length xs))).
    set (th0 := ext n ts th).
    assert (A0 : agree n th th0) by apply agree_ext.
    assert (V0 : map (app th0) vs = ts) by (unfold vs, th0; rewrite <- LEN; apply map_ext_seqvars).
    assert (Bvs : Forall (below (n + length xs)) vs) by (apply below_seqvars; lia).
    assert (Hb : has D (menv th0 (bind (map Some xs) vs G)) b tb).
    { rewrite menv_bind, V0, (agree_menv n th th0 G A0 B). exact Hhb. }
    destruct (IHb (bind (map Some xs) vs G) (n + length xs) th0 tb Hb) as (t2 & e2 & n2 & th1 & G2 & L2 & A1 & U2 & E2 & B2 & Q2).
    { apply env_below_bind; [exact Bvs|eapply env_below_mono; eauto; lia]. }
    fold vs. rewrite G2. exists (tfun vs t2), e2, n2, th1.
    split; [reflexivity|]. split; [lia|]. split; [eapply agree_trans; [exact A0|exact A1|lia]|].
    split; [exact U2|].
    split; [rewrite app_tfun, (agree_map _ th0 th1 vs A1 Bvs), V0, E2; reflexivity|].
    split; [apply below_tfun; split; [eapply Forall_below_mono; eauto|exact B2]|exact Q2].
Qed.

End GenComplete.

(* ------------------------------------------------------------------ substitution algebra *)
Lemma app_comp f g t : app f (app g t) = app (fun v => app f (g v)) t.
Proof. induction t; cbn; congruence. Qed.
Lemma app_id t : app TVar t = t.
Proof. induction t; cbn; congruence. Qed.
Lemma app_ext_vars f g t : (forall x, occurs x t = true -> f x = g x) -> app f t = app g t.
Proof. induction t as [y|a|l IHl r IHr]; cbn; intros H; auto.
  - apply H. apply Nat.eqb_refl.
  - f_equal; [apply IHl|apply IHr]; intros x O; apply H; rewrite O; auto using orb_true_r. Qed.
Lemma sub1_app x u t : sub1 x u t = app (fun v => if Nat.eqb x v then u else TVar v) t.
Proof. induction t; cbn; congruence. Qed.
Lemma app_seq_app sg : forall t, app_seq sg t = app (fun v => app_seq sg (TVar v)) t.
Proof. induction sg as [|(x,u) sg IH]; intros t; cbn [app_seq].
  - symmetry; apply app_id.
  - rewrite IH, sub1_app, app_comp. apply app_ext_vars. intros v _. cbn [sub1].
    destruct (Nat.eqb x v); [symmetry; apply IH|cbn; reflexivity]. Qed.
Lemma below0_app th t : below 0 t -> app th t = t.
Proof. induction t; cbn; intros B; try lia; auto. destruct B; f_equal; auto. Qed.
Lemma below_occurs n t x : below n t -> occurs x t = true -> x < n.
Proof. induction t as [y|a|l IHl r IHr]; cbn; intros B O; try discriminate.
  - apply Nat.eqb_eq in O; subst; exact B.
  - destruct B. apply orb_true_iff in O. destruct O; auto. Qed.

(* ------------------------------------------------------------------ first-occurrence numbering *)
Lemma existsb_eqb_In x l : existsb (Nat.eqb x) l = true <-> In x l.
Proof. rewrite existsb_exists. split.
  - intros (y & I & E). apply Nat.eqb_eq in E; subst; exact I.
  - intros I; exists x; split; [exact I|apply Nat.eqb_refl]. Qed.

Lemma fo_vars_in t : forall acc x, In x (fo_vars t acc) <-> In x acc \/ occurs x t = true.
Proof. induction t as [y|a|l IHl r IHr]; intros acc x; cbn.
  - destruct (existsb (Nat.eqb y) acc) eqn:E.
    + apply existsb_eqb_In in E. split; [auto|]. intros [I|O]; [exact I|]. apply Nat.eqb_eq in O; subst; exact E.
    + rewrite in_app_iff. cbn. rewrite Nat.eqb_eq. intuition.
  - intuition discriminate.
  - rewrite IHr, IHl, orb_true_iff. tauto. Qed.

Lemma NoDup_snoc (l:list nat) x : NoDup l -> ~ In x l -> NoDup (l ++ [x]).
Proof. induction l as [|a l IH]; cbn; intros N I.
  - constructor; [intros []|constructor].
  - inversion N; subst. constructor.
    + rewrite in_app_iff. cbn. intuition.
    + apply IH; auto. Qed.

Lemma fo_vars_nodup t : forall acc, NoDup acc -> NoDup (fo_vars t acc).
Proof. induction t as [y|a|l IHl r IHr]; intros acc N; cbn; auto.
  destruct (existsb (Nat.eqb y) acc) eqn:E; auto.
  apply NoDup_snoc; auto. intros I. apply existsb_eqb_In in I. congruence. Qed.

Lemma fo_vars_list_in ts : forall acc x,
  In x (fo_vars_list ts acc) <-> In x acc \/ exists u, In u ts /\ occurs x u = true.
Proof. induction ts as [|t ts IH]; intros acc x; cbn.
  - split; [auto|]. intros [I|(u & [] & _)]; exact I.
  - rewrite IH, fo_vars_in. split.
    + intros [[I|O]|(u & I & O)]; eauto.
    + intros [I|(u & [<-|I] & O)]; eauto. Qed.

Lemma fo_vars_list_nodup ts : forall acc, NoDup acc -> NoDup (fo_vars_list ts acc).
Proof. induction ts; intros acc N; cbn; auto using fo_vars_nodup. Qed.

Definition inj_on (S:nat->Prop) (f:nat->nat) : Prop := forall x y, S x -> S y -> f x = f y -> x = y.

Lemma existsb_map_inj S f y acc : inj_on S f -> S y -> (forall x, In x acc -> S x) ->
  existsb (Nat.eqb (f y)) (map f acc) = existsb (Nat.eqb y) acc.
Proof. intros J Sy Sa.
  destruct (existsb (Nat.eqb y) acc) eqn:E.
  - apply existsb_eqb_In. apply existsb_eqb_In in E. apply in_map; exact E.
  - destruct (existsb (Nat.eqb (f y)) (map f acc)) eqn:E2; auto.
    apply existsb_eqb_In in E2. apply in_map_iff in E2. destruct E2 as (z & Ez & Iz).
    apply J in Ez; auto. subst z. apply existsb_eqb_In in Iz. congruence. Qed.

Lemma fo_vars_map S f t : inj_on S f -> forall acc,
  (forall x, In x acc -> S x) -> (forall x, occurs x t = true -> S x) ->
  fo_vars (app (fun v => TVar (f v)) t) (map f acc) = map f (fo_vars t acc).
Proof. intros J. induction t as [y|a|l IHl r IHr]; intros acc Sa St; cbn [app fo_vars]; auto.
  - assert (Sy : S y) by (apply St; cbn; apply Nat.eqb_refl).
    rewrite (existsb_map_inj S f y acc J Sy Sa).
    destruct (existsb (Nat.eqb y) acc); auto. rewrite map_app. reflexivity.
  - rewrite IHl; [rewrite IHr; auto|auto|].
    + intros x I. apply fo_vars_in in I. destruct I as [I|O]; auto. apply St; cbn; rewrite O; auto.
    + intros x O. apply St; cbn; rewrite O; auto using orb_true_r.
    + intros x O. apply St; cbn; rewrite O; auto. Qed.

Lemma fo_vars_list_map S f ts : inj_on S f -> forall acc,
  (forall x, In x acc -> S x) -> (forall u x, In u ts -> occurs x u = true -> S x) ->
  fo_vars_list (map (app (fun v => TVar (f v))) ts) (map f acc) = map f (fo_vars_list ts acc).
Proof. intros J. induction ts as [|t ts IH]; intros acc Sa St; cbn [map fo_vars_list]; auto.
  assert (Stt : forall x, occurs x t = true -> S x) by (intros x O; apply (St t); [left; reflexivity|exact O]).
  rewrite (fo_vars_map S f t J acc Sa Stt). apply IH.
  - intros x I. apply fo_vars_in in I. destruct I as [I|O]; auto.
  - intros u x I O. apply (St u); [right; exact I|exact O]. Qed.

Lemma index_of_nth x l d : In x l -> nth (index_of x l) l d = x.
Proof. induction l as [|y l IH]; cbn; intros I; [contradiction|].
  destruct (Nat.eqb x y) eqn:E; [apply Nat.eqb_eq in E; auto|].
  destruct I as [->|I]; [rewrite Nat.eqb_refl in E; discriminate|auto]. Qed.

Lemma index_of_inj l : inj_on (fun x => In x l) (fun x => index_of x l).
Proof. intros x y Ix Iy E. rewrite <- (index_of_nth x l 0 Ix), <- (index_of_nth y l 0 Iy), E. reflexivity. Qed.

Lemma index_of_seq l : NoDup l -> map (fun x => index_of x l) l = seq 0 (length l).
Proof. induction l as [|a l IH]; intros N; cbn [map index_of length seq]; auto. inversion N; subst.
  rewrite Nat.eqb_refl. f_equal. rewrite <- seq_shift, <- IH by assumption. rewrite map_map.
  apply map_ext_in. intros x I. destruct (Nat.eqb x a) eqn:E; auto. apply Nat.eqb_eq in E; subst; contradiction. Qed.

Lemma rename_as_app vs t : rename vs t = app (fun v => TVar (index_of v vs)) t.
Proof. reflexivity. Qed.

(** the renaming is inverted by [fun j => f (nth j vs 0)] on types whose variables are in [vs] *)
Lemma rename_inv vs f t : (forall x, occurs x t = true -> In x vs) ->
  app (fun j => f (nth j vs 0)) (rename vs t) = app f t.
Proof. intros H. unfold rename. rewrite app_comp. apply app_ext_vars. intros x O. cbn.
  rewrite index_of_nth; auto. Qed.

(** canonical numbering of a renamed list of types *)
Lemma fo_vars_list_rename ts : let vs := fo_vars_list ts [] in
  fo_vars_list (map (rename vs) ts) [] = seq 0 (length vs).
Proof. intros vs.
  assert (N : NoDup vs) by (apply fo_vars_list_nodup; constructor).
  change (@nil nat) with (map (fun x => index_of x vs) []) at 1.
  unfold rename. rewrite (fo_vars_list_map (fun x => In x vs) _ ts (index_of_inj vs)).
  - fold vs. apply index_of_seq; exact N.
  - intros x [].
  - intros u x I O. apply fo_vars_list_in. right; eauto. Qed.

(* ------------------------------------------------------------------ infer_fun *)
Lemma menv_combine th xs : forall ts, menv th (combine xs ts) = combine xs (map (app th) ts).
Proof. induction xs as [|x xs IH]; intros [|t ts]; cbn [combine map menv]; auto.
  f_equal. apply IH. Qed.

Lemma env_below_combine n xs : forall ts, Forall (below n) ts -> env_below n (combine xs ts).
Proof. induction xs as [|x xs IH]; intros [|t ts] F; cbn [combine].
  - intros ? ? [].
  - intros ? ? [].
  - intros ? ? [].
  - inversion F; subst. apply env_below_cons; auto. Qed.

Lemma ann_eqs_in ps : forall i0 s t,
  In (s,t) (ann_eqs ps i0) <-> exists j x, nth_error ps j = Some (x, Some t) /\ s = TVar (i0 + j).
Proof. induction ps as [|(y,[a|]) ps IH]; intros i0 s t; cbn [ann_eqs].
  - split; [intros []|intros ([|j] & x & E & _); discriminate].
  - cbn [In]. rewrite IH. split.
    + intros [E|(j & x & E & ->)].
      * injection E as <- <-. exists 0, y. split; [reflexivity|f_equal; lia].
      * exists (S j), x. split; [exact E|f_equal; lia].
    + intros ([|j] & x & E & ->); cbn in E.
      * injection E as <- <-. left. do 2 f_equal. lia.
      * right. exists j, x. split; [exact E|f_equal; lia].
  - rewrite IH. split.
    + intros (j & x & E & ->). exists (S j), x. split; [exact E|f_equal; lia].
    + intros ([|j] & x & E & ->); cbn in E; [discriminate|]. exists j, x. split; [exact E|f_equal; lia]. Qed.

Definition fun_ok (fd:fundef) : Prop :=
  forall i x a, nth_error (f_params fd) i = Some (x, Some a) -> below 0 a.

Lemma unifies_ann th ps : (forall i x a, nth_error ps i = Some (x, Some a) -> below 0 a) ->
  (unifies th (ann_eqs ps 0) <-> forall i x a, nth_error ps i = Some (x, Some a) -> th i = a).
Proof. intros OK. split.
  - intros U i x a E. specialize (U (TVar i) a). rewrite (below0_app th a (OK _ _ _ E)) in U. apply U.
    apply ann_eqs_in. exists i, x. auto.
  - intros H s t I. apply ann_eqs_in in I. destruct I as (j & x & E & ->). cbn.
    rewrite (below0_app th t (OK _ _ _ E)). eauto. Qed.

Lemma map_nth_seq (l:list ty) d : map (fun v => nth v l d) (seq 0 (length l)) = l.
Proof. induction l as [|a l IH]; cbn [length seq map]; auto. f_equal.
  rewrite <- seq_shift, map_map. exact IH. Qed.

Section InferFun.
Variable D : decls.
Hypothesis DOK : decls_ok D.

Definition G0 (fd:fundef) : env :=
  combine (param_names fd) (map TVar (seq 0 (length (f_params fd)))).

Lemma G0_below fd : env_below (length (f_params fd)) (G0 fd).
Proof. apply env_below_combine. apply below_seqvars. lia. Qed.

Lemma param_names_length fd : length (param_names fd) = length (f_params fd).
Proof. apply map_length. Qed.

(** every instance of the inferred scheme is derivable (in particular the scheme itself, rho = TVar) *)
Theorem infer_sound : forall fuel fd k ptys rty,
  fun_ok fd -> infer_fun D fuel fd = Inferred k ptys rty ->
  forall rho, has_fun D fd (map (app rho) ptys) (app rho rty).
Proof.
  intros fuel fd k ptys rty OK H rho. unfold infer_fun in H.
  destruct (gen D _ (f_body fd) _) as [[[t es] n']|] eqn:GE; [|discriminate].
  destruct (unify fuel _) as [sg| |] eqn:UE; try discriminate.
  set (np := length (f_params fd)) in *.
  set (ps := map (fun i => app_seq sg (TVar i)) (seq 0 np)) in *.
  set (vs := fo_vars_list (ps ++ [app_seq sg t]) []) in *.
  injection H as <- <- <-.
  set (th := fun v => app rho (rename vs (app_seq sg (TVar v)))).
  assert (KEY : forall u, app th u = app rho (rename vs (app_seq sg u))).
  { intros u. rewrite (app_seq_app sg u). unfold rename. rewrite !app_comp. apply app_ext_vars.
    intros x _. unfold th, rename. rewrite app_comp. reflexivity. }
  assert (U : unifies th (ann_eqs (f_params fd) 0 ++ es)).
  { intros a b I. rewrite !KEY. f_equal. f_equal. apply (unify_sound _ _ _ UE); exact I. }
  apply unifies_app in U. destruct U as (Ua & Ue).
  assert (PT : map (app rho) (map (rename vs) ps) = map th (seq 0 np)).
  { unfold ps. rewrite !map_map. reflexivity. }
  split; [|split].
  - rewrite PT, map_length, seq_length. reflexivity.
  - intros i x a E. rewrite PT.
    assert (Li : i < np) by (apply nth_error_Some; unfold np; rewrite E; discriminate).
    erewrite map_nth_error; [|apply nth_error_seq; exact Li]. cbn. f_equal.
    apply (proj1 (unifies_ann th _ OK) Ua i x a E).
  - rewrite PT, <- KEY. pose proof (gen_sound D _ _ _ _ _ _ GE th Ue) as HS.
    rewrite menv_combine, map_map in HS. exact HS.
Qed.

(** the inferred scheme is principal: every derivable type of the function is an instance of it *)
Theorem infer_principal : forall fuel fd k ptys rty,
  fun_ok fd -> infer_fun D fuel fd = Inferred k ptys rty ->
  forall ptys' rty', has_fun D fd ptys' rty' ->
  exists rho, ptys' = map (app rho) ptys /\ rty' = app rho rty.
Proof.
  intros fuel fd k ptys rty OK H ptys' rty' (LEN & ANN & HAS). unfold infer_fun in H.
  set (np := length (f_params fd)) in *.
  set (th := fun v => nth v ptys' (TAtom 0)).
  assert (MT : map th (seq 0 np) = ptys').
  { rewrite <- LEN. apply map_nth_seq. }
  assert (HAS0 : has D (menv th (G0 fd)) (f_body fd) rty').
  { unfold G0. rewrite menv_combine, map_map. fold np.
    replace (map (fun x => app th (TVar x)) (seq 0 np)) with ptys' by (symmetry; exact MT). exact HAS. }
  destruct (gen_complete D DOK _ _ np th rty' HAS0 (G0_below fd)) as (t & es & n' & th' & GE & Ln & AG & UE & ET & BT & BE).
  unfold G0 in GE. fold np in GE. rewrite GE in H.
  assert (UA : unifies th' (ann_eqs (f_params fd) 0)).
  { apply (unifies_ann th' _ OK). intros i x a E.
    assert (Li : i < np) by (apply nth_error_Some; unfold np; rewrite E; discriminate).
    rewrite AG by exact Li. unfold th. apply nth_error_nth. apply ANN with (x := x). exact E. }
  destruct (unify fuel _) as [sg| |] eqn:UN; try discriminate.
  set (ps := map (fun i => app_seq sg (TVar i)) (seq 0 np)) in *.
  set (vs := fo_vars_list (ps ++ [app_seq sg t]) []) in *.
  injection H as <- <- <-.
  assert (UALL : unifies th' (ann_eqs (f_params fd) 0 ++ es)) by (apply unifies_app; auto).
  pose proof (unify_mgu _ _ _ UN th' UALL) as MGU.
  exists (fun j => th' (nth j vs 0)).
  assert (INV : forall u, In u (ps ++ [app_seq sg t]) ->
                app (fun j => th' (nth j vs 0)) (rename vs u) = app th' u).
  { intros u I. apply rename_inv. intros x O. apply fo_vars_list_in. right; eauto. }
  split.
  - rewrite <- MT. unfold ps. rewrite !map_map. apply map_ext_in. intros i Ii. apply in_seq in Ii.
    rewrite INV.
    + rewrite MGU. cbn. rewrite AG by lia. reflexivity.
    + apply in_or_app; left. unfold ps. apply in_map_iff. exists i. split; [reflexivity|apply in_seq; lia].
  - rewrite INV; [rewrite MGU; auto|]. apply in_or_app; right; left; reflexivity.
Qed.

(** a typable function is never reported ill-typed, and some fuel always suffices *)
Theorem infer_complete : forall fuel fd ptys' rty',
  fun_ok fd -> has_fun D fd ptys' rty' -> infer_fun D fuel fd <> IllTyped.
Proof.
  intros fuel fd ptys' rty' OK (LEN & ANN & HAS) H. unfold infer_fun in H.
  set (np := length (f_params fd)) in *.
  set (th := fun v => nth v ptys' (TAtom 0)).
  assert (MT : map th (seq 0 np) = ptys').
  { rewrite <- LEN. apply map_nth_seq. }
  assert (HAS0 : has D (menv th (G0 fd)) (f_body fd) rty').
  { unfold G0. rewrite menv_combine, map_map. fold np.
    replace (map (fun x => app th (TVar x)) (seq 0 np)) with ptys' by (symmetry; exact MT). exact HAS. }
  destruct (gen_complete D DOK _ _ np th rty' HAS0 (G0_below fd)) as (t & es & n' & th' & GE & Ln & AG & UE & ET & BT & BE).
  unfold G0 in GE. fold np in GE. rewrite GE in H.
  assert (UA : unifies th' (ann_eqs (f_params fd) 0)).
  { apply (unifies_ann th' _ OK). intros i x a E.
    assert (Li : i < np) by (apply nth_error_Some; unfold np; rewrite E; discriminate).
    rewrite AG by exact Li. unfold th. apply nth_error_nth. apply ANN with (x := x). exact E. }
  destruct (unify fuel _) as [sg| |] eqn:UN; try discriminate.
  apply (unify_complete _ _ UN th'). apply unifies_app; auto.
Qed.

Theorem infer_fuel_sufficient : forall fd, exists n, forall m, n <= m -> infer_fun D m fd <> OutOfFuel.
Proof.
  intros fd. unfold infer_fun.
  destruct (gen D _ (f_body fd) _) as [[[t es] n']|]; [|exists 0; intros; discriminate].
  destruct (unify_fuel_sufficient (ann_eqs (f_params fd) 0 ++ es)) as (n & Hn).
  exists n. intros m L. specialize (Hn m L). destruct (unify m _); try discriminate. congruence.
Qed.

(** type parameters are numbered 0..k-1 in order of first occurrence in the parameter list, then the result *)
Theorem numbering_canonical : forall fuel fd k ptys rty,
  infer_fun D fuel fd = Inferred k ptys rty -> fo_vars_list (ptys ++ [rty]) [] = seq 0 k.
Proof.
  intros fuel fd k ptys rty H. unfold infer_fun in H.
  destruct (gen D _ (f_body fd) _) as [[[t es] n']|]; [|discriminate].
  destruct (unify fuel _) as [sg| |]; try discriminate.
  set (ps := map (fun i => app_seq sg (TVar i)) (seq 0 (length (f_params fd)))) in *.
  injection H as <- <- <-.
  change [rename (fo_vars_list (ps ++ [app_seq sg t]) []) (app_seq sg t)]
    with (map (rename (fo_vars_list (ps ++ [app_seq sg t]) [])) [app_seq sg t]).
  rewrite <- map_app. apply fo_vars_list_rename.
Qed.

End InferFun.

(* ------------------------------------------------------------------ uniqueness of the canonical principal scheme *)
Lemma map_fix_in {A} (f:A->A) l : map f l = l -> forall u, In u l -> f u = u.
Proof. induction l as [|a l IH]; cbn; intros E u I; [contradiction|]. injection E as E1 E2.
  destruct I as [<-|I]; auto. Qed.

Lemma app_fix_var f u : app f u = u -> forall x, occurs x u = true -> f x = TVar x.
Proof. induction u as [y|a|l IHl r IHr]; cbn; intros E x O; try discriminate.
  - apply Nat.eqb_eq in O; subst; exact E.
  - injection E as El Er. apply orb_true_iff in O. destruct O; auto. Qed.

Lemma mutual_instance_canonical ts ts' k k' r1 r2 :
  ts = map (app r1) ts' -> ts' = map (app r2) ts ->
  fo_vars_list ts [] = seq 0 k -> fo_vars_list ts' [] = seq 0 k' -> ts = ts'.
Proof.
  intros E1 E2 C C'.
  set (S := fun x => exists u, In u ts /\ occurs x u = true).
  set (g := fun x => match r2 x with TVar y => y | _ => 0 end).
  assert (FIX : forall u, In u ts -> app (fun v => app r1 (r2 v)) u = u).
  { intros u I. rewrite <- app_comp. apply (map_fix_in (fun u => app r1 (app r2 u)) ts); auto.
    rewrite <- map_map, <- E2, <- E1. reflexivity. }
  assert (REN : forall x, S x -> r2 x = TVar (g x) /\ r1 (g x) = TVar x).
  { intros x (u & I & O). pose proof (app_fix_var _ u (FIX u I) x O) as F. cbn in F.
    unfold g. destruct (r2 x) as [y|a|l r]; cbn in F; try discriminate. auto. }
  assert (INJ : inj_on S g).
  { intros x y Sx Sy E. destruct (REN x Sx) as (_ & A), (REN y Sy) as (_ & B). rewrite E in A. congruence. }
  assert (E2' : ts' = map (app (fun v => TVar (g v))) ts).
  { rewrite E2. apply map_ext_in. intros u I. apply app_ext_vars. intros x O. apply REN. exists u; auto. }
  assert (FO : fo_vars_list ts' [] = map g (fo_vars_list ts [])).
  { rewrite E2'. change (@nil nat) with (map g []) at 1. apply (fo_vars_list_map S g ts INJ).
    - intros x [].
    - intros u x I O. exists u; auto. }
  rewrite C, C' in FO.
  assert (K : k' = k) by (apply (f_equal (@length nat)) in FO; rewrite map_length, !seq_length in FO; exact FO).
  subst k'.
  assert (ID : forall i, i < k -> g i = i).
  { intros i L. apply (f_equal (fun l => nth i l 0)) in FO.
    rewrite seq_nth in FO by exact L. cbn in FO.
    rewrite (nth_indep _ 0 (g 0)), map_nth, seq_nth in FO by (try rewrite map_length, seq_length; exact L).
    cbn in FO. auto. }
  rewrite E2. symmetry. rewrite <- (map_id ts) at 2. apply map_ext_in. intros u I.
  rewrite <- (app_id u) at 2. apply app_ext_vars. intros x O.
  assert (Sx : S x) by (exists u; auto). destruct (REN x Sx) as (R & _). rewrite R. f_equal. apply ID.
  assert (Ix : In x (fo_vars_list ts [])) by (apply fo_vars_list_in; right; exists u; auto).
  rewrite C in Ix. apply in_seq in Ix. lia.
Qed.

(* ------------------------------------------------------------------ annotation erasure *)
Lemma set_ann_names ps : forall i a, map fst (set_ann ps i a) = map fst ps.
Proof. induction ps as [|(x,o) ps IH]; intros [|i] a; cbn; auto. f_equal; apply IH. Qed.
Lemma set_ann_length ps : forall i a, length (set_ann ps i a) = length ps.
Proof. induction ps as [|(x,o) ps IH]; intros [|i] a; cbn; auto. Qed.
Lemma set_ann_same ps : forall i a x o, nth_error ps i = Some (x, o) -> nth_error (set_ann ps i a) i = Some (x, Some a).
Proof. induction ps as [|(y,o') ps IH]; intros [|i] a x o E; cbn in *; try discriminate.
  - injection E as -> _. reflexivity.
  - eapply IH; eauto. Qed.
Lemma set_ann_other ps : forall i a j, j <> i -> nth_error (set_ann ps i a) j = nth_error ps j.
Proof. induction ps as [|(y,o') ps IH]; intros [|i] a [|j] N; cbn; auto; try congruence. Qed.

Section Erasure.
Variable D : decls.
Hypothesis DOK : decls_ok D.

Lemma has_fun_erase fd i x a Q q :
  nth_error (f_params fd) i = Some (x, None) ->
  has_fun D (annotate fd i a) Q q -> has_fun D fd Q q.
Proof.
  intros E (L & A & H). unfold annotate, param_names in *. cbn [f_params f_body] in *.
  rewrite set_ann_length in L. rewrite set_ann_names in H. split; [exact L|split; [|exact H]].
  intros j y b Ej. destruct (Nat.eq_dec j i) as [->|N]; [congruence|].
  apply (A j y b). rewrite set_ann_other by exact N. exact Ej.
Qed.

Lemma has_fun_annotate fd i x a Q q :
  nth_error (f_params fd) i = Some (x, None) -> nth_error Q i = Some a ->
  has_fun D fd Q q -> has_fun D (annotate fd i a) Q q.
Proof.
  intros E EQ (L & A & H). unfold has_fun, annotate, param_names in *. cbn [f_params f_body] in *.
  split; [rewrite set_ann_length; exact L|split; [|rewrite set_ann_names; exact H]].
  intros j y b Ej. destruct (Nat.eq_dec j i) as [->|N].
  - rewrite (set_ann_same _ _ _ _ _ E) in Ej. injection Ej as _ <-. exact EQ.
  - rewrite set_ann_other in Ej by exact N. eauto.
Qed.

Lemma fun_ok_annotate fd i x a :
  nth_error (f_params fd) i = Some (x, None) -> below 0 a -> fun_ok fd -> fun_ok (annotate fd i a).
Proof.
  intros E Ba OK j y b Ej. unfold annotate in Ej; cbn [f_params] in Ej.
  destruct (Nat.eq_dec j i) as [->|N].
  - rewrite (set_ann_same _ _ _ _ _ E) in Ej. injection Ej as _ <-. exact Ba.
  - rewrite set_ann_other in Ej by exact N. eauto.
Qed.

(** If the function without the annotation already gets the ground type [a] for parameter [i],
    then adding the annotation [x : a] does not change the inferred scheme. *)
Theorem annotation_erasure : forall fd i x a fuel fuel' k P r,
  fun_ok fd -> below 0 a ->
  nth_error (f_params fd) i = Some (x, None) ->
  infer_fun D fuel fd = Inferred k P r ->
  nth_error P i = Some a ->
  infer_fun D fuel' (annotate fd i a) <> OutOfFuel ->
  infer_fun D fuel' (annotate fd i a) = Inferred k P r.
Proof.
  intros fd i x a fuel fuel' k P r OK Ba E INF EP NF.
  pose proof (fun_ok_annotate fd i x a E Ba OK) as OK'.
  assert (HP : has_fun D fd P r).
  { pose proof (infer_sound D fuel fd k P r OK INF TVar) as HS.
    rewrite (map_ext _ (fun t => t) app_id), map_id, app_id in HS. exact HS. }
  pose proof (has_fun_annotate fd i x a P r E EP HP) as HP'.
  destruct (infer_fun D fuel' (annotate fd i a)) as [k' P' r'| |] eqn:INF'.
  - (* both schemes are principal, hence instances of each other; both are canonically numbered *)
    destruct (infer_principal D DOK _ _ _ _ _ OK' INF' P r HP') as (r1 & EP1 & ER1).
    assert (HQ : has_fun D fd P' r').
    { apply (has_fun_erase fd i x a P' r' E).
      pose proof (infer_sound D fuel' _ k' P' r' OK' INF' TVar) as HS.
      rewrite (map_ext _ (fun t => t) app_id), map_id, app_id in HS. exact HS. }
    destruct (infer_principal D DOK _ _ _ _ _ OK INF P' r' HQ) as (r2 & EP2 & ER2).
    pose proof (numbering_canonical D _ _ _ _ _ INF) as C.
    pose proof (numbering_canonical D _ _ _ _ _ INF') as C'.
    assert (EQ : P ++ [r] = P' ++ [r']).
    { apply (mutual_instance_canonical _ _ k k' r1 r2); auto.
      - rewrite map_app. cbn. congruence.
      - rewrite map_app. cbn. congruence. }
    apply app_inj_tail in EQ. destruct EQ as (-> & ->).
    assert (k' = k).
    { apply (f_equal (@length nat)) in C. apply (f_equal (@length nat)) in C'. rewrite seq_length in *. congruence. }
    subst. reflexivity.
  - exfalso. exact (infer_complete D DOK fuel' _ P r OK' HP' INF').
  - congruence.
Qed.

End Erasure.

(* ------------------------------------------------------------------ independence of instances *)
Lemma occurs_shift n t v : occurs v (shift n t) = true -> exists x, v = n + x /\ occurs x t = true.
Proof. induction t as [y|a|l IHl r IHr]; cbn; intros O; try discriminate.
  - apply Nat.eqb_eq in O. exists y. split; [exact O|apply Nat.eqb_refl].
  - apply orb_true_iff in O. destruct O as [O|O]; [destruct (IHl O) as (x & -> & Ox)|destruct (IHr O) as (x & -> & Ox)];
      exists x; rewrite Ox; auto using orb_true_r. Qed.

Section Instances.
Variable D : decls.
Hypothesis DOK : decls_ok D.

Lemma gen_args_counter ge args : (Forall (fun a => forall n t es n', ge a n = Some (t, es, n') -> n <= n') args) ->
  forall n ts es n', gen_args ge args n = Some (ts, es, n') -> n <= n'.
Proof. intros F; induction F as [|a r Ha _ IH]; intros n ts es n' H; cbn in H.
  - injection H as _ _ <-; lia.
  - destruct (ge a n) as [[[ta ea] n1]|] eqn:Ga; try discriminate.
    destruct (gen_args ge r n1) as [[[ts0 er] n2]|] eqn:R; try discriminate.
    injection H as _ _ <-. specialize (Ha _ _ _ _ Ga). specialize (IH _ _ _ _ R). lia. Qed.

(** the fresh-variable counter only grows *)
Lemma gen_counter : forall e G n t es n', gen D G e n = Some (t, es, n') -> n <= n'.
Proof.
  induction e as [x|l|p args IH|f args IH|x a b IHa IHb|xs a b IHa IHb|xs b IHb] using exp_ind2;
    intros G n t es n' H; cbn [gen] in H.
  - destruct (lookup x G); inversion H; lia.
  - inversion H; lia.
  - destruct (prim_scheme D p) as [s|]; try discriminate.
    destruct (arity_ok _ _ _); try discriminate.
    destruct (gen_args (gen D G) args (n + sk s)) as [[[tas eas] n1]|] eqn:GA; try discriminate.
    injection H as _ _ <-. enough (n + sk s <= n1) by lia.
    eapply gen_args_counter; [|exact GA]. eapply Forall_impl; [|exact IH]. intros a Ha; apply Ha.
  - destruct (lookup f G); try discriminate.
    destruct (gen_args (gen D G) args n) as [[[tas eas] n1]|] eqn:GA; try discriminate.
    injection H as _ _ <-. enough (n <= n1) by lia.
    eapply gen_args_counter; [|exact GA]. eapply Forall_impl; [|exact IH]. intros a Ha; apply Ha.
  - destruct (gen D G a n) as [[[ta ea] n1]|] eqn:Ga; try discriminate.
    destruct (gen D ((x,ta)::G) b n1) as [[[tb eb] n2]|] eqn:Gb; try discriminate. injection H as _ _ <-.
    specialize (IHa _ _ _ _ _ Ga). specialize (IHb _ _ _ _ _ Gb). lia.
  - destruct (gen D G a n) as [[[ta ea] n1]|] eqn:Ga; try discriminate.
    destruct (gen D _ b (n1 + length xs)) as [[[tb eb] n2]|] eqn:Gb; try discriminate. injection H as _ _ <-.
    specialize (IHa _ _ _ _ _ Ga). specialize (IHb _ _ _ _ _ Gb). lia.
  - destruct (gen D _ b (n + length xs)) as [[[tb eb] n1]|] eqn:Gb; try discriminate. injection H as _ _ <-.
    specialize (IHb _ _ _ _ _ Gb). lia.
Qed.

(** Every reference to a primitive / global of scheme [s] at counter [n] uses the instance
    [shift n]: its variables are n .. n+sk-1, all below the counter the reference returns.
    Hence two references (the later one starts at a counter >= the one the earlier returned)
    are instantiated with disjoint variables: unifying one never constrains the other. *)
Theorem instances_independent : forall p s G1 args1 n1 t1 es1 n1' G2 args2 n2 t2 es2 n2',
  prim_scheme D p = Some s ->
  gen D G1 (XPrim p args1) n1 = Some (t1, es1, n1') ->
  gen D G2 (XPrim p args2) n2 = Some (t2, es2, n2') ->
  n1' <= n2 ->
  forall u1 u2 v, In u1 (sres s :: sargs s) -> In u2 (sres s :: sargs s) ->
    occurs v (shift n1 u1) = true -> occurs v (shift n2 u2) = true -> False.
Proof.
  intros p s G1 args1 n1 t1 es1 n1' G2 args2 n2 t2 es2 n2' PS H1 H2 L u1 u2 v I1 I2 O1 O2.
  pose proof (prim_scheme_ok _ _ _ DOK PS) as (SA & SR).
  assert (BU : forall u, In u (sres s :: sargs s) -> below (sk s) u).
  { intros u [<-|I]; auto. rewrite Forall_forall in SA; auto. }
  cbn [gen] in H1. rewrite PS in H1.
  destruct (arity_ok _ _ _); try discriminate.
  destruct (gen_args (gen D G1) args1 (n1 + sk s)) as [[[tas eas] m1]|] eqn:GA; try discriminate.
  injection H1 as _ _ <-.
  assert (n1 + sk s <= m1).
  { eapply gen_args_counter; [|exact GA]. apply Forall_forall. intros a _ n t es n' Hg. eapply gen_counter; eauto. }
  destruct (occurs_shift _ _ _ O1) as (x1 & -> & Ox1). destruct (occurs_shift _ _ _ O2) as (x2 & E & Ox2).
  pose proof (below_occurs _ _ _ (BU _ I1) Ox1). lia.
Qed.

End Instances.
