(** C02 — proofs about Core/Resolver.v (fc's own resolver, transcribed).
    Part 1: soundness.  If no clash was silently ignored, the loop ended and every variable
    resolves (no cycle), the induced substitution unifies all the equations — for every
    enumeration order of dict.Keys that keeps membership and every variable-name comparison. *)
From Coq Require Import Arith Lia Bool List.
From FoVerif Require Import Core.Unify Core.UnifyProofs Core.Infer Core.InferProofs Core.Resolver.
Import ListNotations.

Definition sat (th:nat->ty) (R:list rel) : Prop := forall x d, In (x,d) R -> th x = app th d.

Lemma sat_app th R1 R2 : sat th (R1 ++ R2) <-> sat th R1 /\ sat th R2.
Proof. unfold sat. split.
  - intros H; split; intros x d I; apply H; apply in_or_app; auto.
  - intros (A & B) x d I. apply in_app_or in I. destruct I; auto. Qed.
Lemma sat_nil th : sat th [].
Proof. intros ? ? []. Qed.
Lemma sat_one th x d : sat th [(x,d)] <-> th x = app th d.
Proof. split; [intros H; apply H; left; reflexivity|intros E a b [I|[]]; injection I as <- <-; exact E]. Qed.

Lemma ty_eqb_eq a : forall b, ty_eqb a b = true <-> a = b.
Proof. induction a as [x|x|a1 IH1 a2 IH2]; intros [y|y|b1 b2]; cbn; try (split; [discriminate|intros E; discriminate E]).
  - rewrite Nat.eqb_eq. split; congruence.
  - rewrite Nat.eqb_eq. split; congruence.
  - rewrite andb_true_iff, IH1, IH2. split; [intros (-> & ->); reflexivity|intros E; injection E; auto]. Qed.

Section Proofs.
Variable later : nat -> nat -> bool.
Variable enum : list nat -> list nat.
Hypothesis enum_ok : forall l x, In x (enum l) <-> In x l.

Notation ctp := (ctp later).
Notation clist := (clist later).

(* unfolding equations with the recursive calls folded *)
Lemma ctp_node hl b1 r : ctp (TNode hl b1) r =
      match r with
      | TVar y => COk (TNode hl b1) [(y, TNode hl b1)] false
      | TAtom _ => COk (TNode hl b1) [] true
      | TNode (TAtom c') b2 =>
          match hl with
          | TAtom c =>
              if Nat.eqb c' a_slice then
                if Nat.eqb c a_slice then
                  match ctp b1 b2 with
                  | COk t R g => COk (TNode (TAtom a_slice) t) R g
                  | CPanic => CPanic end
                else CPanic
              else if Nat.eqb c' a_fun then
                if Nat.eqb c a_fun then
                  match b1, b2 with
                  | TNode al1 r1, TNode al2 r2 =>
                      match clist al1 al2 with
                      | COk ta Ra ga =>
                          match ctp r1 r2 with
                          | COk tr Rr gr => COk (TNode (TAtom a_fun) (TNode ta tr)) (Ra ++ Rr) (ga || gr)
                          | CPanic => CPanic end
                      | CPanic => CPanic end
                  | _, _ => CPanic
                  end
                else CPanic
              else if Nat.eqb c' a_tuple then
                if Nat.eqb c a_tuple then
                  match clist b1 b2 with
                  | COk t R g => COk (TNode (TAtom a_tuple) t) R g
                  | CPanic => CPanic end
                else CPanic
              else if Nat.leb 8 c' then
                if Nat.eqb c c' && Nat.eqb (spine_len b1) (spine_len b2) then
                  match clist b1 b2 with
                  | COk _ R g => COk (TNode hl b1) R g
                  | CPanic => CPanic end
                else COk (TNode hl b1) [] true
              else CPanic
          | _ => CPanic
          end
      | _ => CPanic
      end.
Proof. reflexivity. Qed.

Lemma clist_node a l' r : clist (TNode a l') r =
      match r with
      | TNode b r' =>
          match ctp a b with
          | COk ta Ra ga =>
              match clist l' r' with
              | COk tl Rl gl => COk (TNode ta tl) (Ra ++ Rl) (ga || gl)
              | CPanic => CPanic end
          | CPanic => CPanic end
      | _ => CPanic
      end.
Proof. reflexivity. Qed.

(* ------------------------------------------------------------------ compositeTp is sound *)
Definition ctp_sound_at (l:ty) : Prop :=
  (forall r t R, ctp l r = COk t R false ->
     forall th, sat th R -> app th l = app th r /\ app th t = app th l) /\
  (forall r t R, clist l r = COk t R false ->
     forall th, sat th R -> app th l = app th r /\ app th t = app th l).

Lemma ctp_sound_all : forall n l, size l <= n -> ctp_sound_at l.
Proof.
  induction n as [|n IH]; intros l Hs; [destruct l; cbn in Hs; lia|].
  destruct l as [x|a|hl b1].
  - (* variable *)
    split; [|intros r t R H; cbn in H; discriminate].
    intros r t R H th S. cbn in H. destruct r as [y|b|r1 r2].
    + destruct (Nat.eqb x y) eqn:E; [apply Nat.eqb_eq in E; subst; injection H as <- <-; auto|].
      destruct (later x y); injection H as <- <-; apply sat_one in S; cbn in *; auto.
    + injection H as <- <-. apply sat_one in S. cbn in *. auto.
    + injection H as <- <-. apply sat_one in S. cbn in *. auto.
  - (* atom *)
    split.
    + intros r t R H th S. cbn [Resolver.ctp] in H. destruct r as [y|b|r1 r2].
      * injection H as <- <-. apply sat_one in S. cbn in *. auto.
      * injection H as <- <- E. apply negb_false_iff in E. change (Nat.eqb a b = true) in E.
        apply Nat.eqb_eq in E. subst. auto.
      * destruct r1 as [|c'|]; try discriminate. destruct (Nat.leb 8 c'); discriminate.
    + intros r t R H th S. cbn in H. destruct r as [|b|]; try discriminate.
      destruct (Nat.eqb a b) eqn:E; [|discriminate]. apply Nat.eqb_eq in E. subst.
      injection H as <- <-. cbn. auto.
  - (* node *)
    assert (IHh : ctp_sound_at hl) by (apply IH; cbn in Hs; lia).
    assert (IHb : ctp_sound_at b1) by (apply IH; cbn in Hs; lia).
    split.
    + intros r t R H th S. rewrite ctp_node in H. destruct r as [y|b|hr b2].
      * injection H as <- <-. apply sat_one in S. cbn in *. auto.
      * discriminate.
      * destruct hr as [|c'|]; try discriminate. destruct hl as [|c|]; try discriminate.
        destruct (Nat.eqb c' a_slice) eqn:E1.
        { destruct (Nat.eqb c a_slice) eqn:E2; [|discriminate].
          apply Nat.eqb_eq in E1, E2. subst.
          destruct (ctp b1 b2) as [t0 R0 g0|] eqn:C; [|discriminate]. injection H as <- <- ->.
          destruct (proj1 IHb _ _ _ C th S) as (A & B). cbn; split; congruence. }
        destruct (Nat.eqb c' a_fun) eqn:E2.
        { destruct (Nat.eqb c a_fun) eqn:E3; [|discriminate].
          apply Nat.eqb_eq in E2, E3. subst.
          destruct b1 as [|?|al1 r1], b2 as [|?|al2 r2]; try discriminate H.
          destruct (clist al1 al2) as [ta Ra ga|] eqn:C1; [|discriminate].
          destruct (ctp r1 r2) as [tr Rr gr|] eqn:C2; [|discriminate].
          injection H as <- <- G. apply orb_false_iff in G. destruct G as (-> & ->).
          apply sat_app in S. destruct S as (Sa & Sr).
          assert (I1 : ctp_sound_at al1) by (apply IH; cbn in Hs; lia).
          assert (I2 : ctp_sound_at r1) by (apply IH; cbn in Hs; lia).
          destruct (proj2 I1 _ _ _ C1 th Sa) as (A1 & B1).
          destruct (proj1 I2 _ _ _ C2 th Sr) as (A2 & B2).
          cbn; split; congruence. }
        destruct (Nat.eqb c' a_tuple) eqn:E3.
        { destruct (Nat.eqb c a_tuple) eqn:E4; [|discriminate].
          apply Nat.eqb_eq in E3, E4. subst.
          destruct (clist b1 b2) as [t0 R0 g0|] eqn:C; [|discriminate]. injection H as <- <- ->.
          destruct (proj2 IHb _ _ _ C th S) as (A & B). cbn; split; congruence. }
        destruct (Nat.leb 8 c') eqn:E4; [|discriminate].
        destruct (Nat.eqb c c' && Nat.eqb (spine_len b1) (spine_len b2)) eqn:E5; [|discriminate].
        apply andb_true_iff in E5. destruct E5 as (E5 & _). apply Nat.eqb_eq in E5. subst.
        destruct (clist b1 b2) as [t0 R0 g0|] eqn:C; [|discriminate]. injection H as <- <- ->.
        destruct (proj2 IHb _ _ _ C th S) as (A & B). cbn; split; congruence.
    + intros r t R H th S. rewrite clist_node in H. destruct r as [|?|a2 r']; try discriminate.
      destruct (ctp hl a2) as [ta Ra ga|] eqn:C1; [|discriminate].
      destruct (clist b1 r') as [tl Rl gl|] eqn:C2; [|discriminate].
      injection H as <- <- G. apply orb_false_iff in G. destruct G as (-> & ->).
      apply sat_app in S. destruct S as (Sa & Sl).
      destruct (proj1 IHh _ _ _ C1 th Sa) as (A1 & B1).
      destruct (proj2 IHb _ _ _ C2 th Sl) as (A2 & B2).
      cbn; split; congruence.
Qed.

Lemma ctp_sound l r t R : ctp l r = COk t R false ->
  forall th, sat th R -> app th l = app th r /\ app th t = app th l.
Proof. exact (proj1 (ctp_sound_all (size l) l (le_n _)) r t R). Qed.

(* ------------------------------------------------------------------ states *)
Definition consistent (st:resolver) : Prop :=
  forall v, In v (eset (rs_lookup st v)) /\
            forall w, In w (eset (rs_lookup st v)) -> rs_lookup st w = rs_lookup st v.

Lemma consistent_nil : consistent [].
Proof. intros v. unfold rs_lookup; cbn. split; [auto|]. intros w [<-|[]]. reflexivity. Qed.

Lemma existsb_eqb_iff x l : existsb (Nat.eqb x) l = true <-> In x l.
Proof. rewrite existsb_exists. split.
  - intros (y & I & E). apply Nat.eqb_eq in E; subst; exact I.
  - intros I; exists x; split; [exact I|apply Nat.eqb_refl]. Qed.

Lemma rs_find_register_aux e ks : forall st w,
  rs_find (fold_left (fun s k => (k, e) :: s) ks st) w =
  if existsb (Nat.eqb w) ks then Some e else rs_find st w.
Proof. induction ks as [|k ks IH]; intros st w; cbn [fold_left existsb]; auto.
  rewrite IH. cbn [rs_find]. destruct (existsb (Nat.eqb w) ks); [rewrite orb_true_r; reflexivity|].
  rewrite orb_false_r. reflexivity. Qed.

Lemma rs_lookup_register st e w :
  rs_lookup (rs_register enum st e) w = if existsb (Nat.eqb w) (eset e) then e else rs_lookup st w.
Proof. unfold rs_lookup, rs_register. rewrite rs_find_register_aux.
  assert (EQ : existsb (Nat.eqb w) (enum (eset e)) = existsb (Nat.eqb w) (eset e)).
  { destruct (existsb (Nat.eqb w) (eset e)) eqn:E2.
    - apply (proj2 (existsb_eqb_iff _ _)), (proj2 (enum_ok _ _)), (proj1 (existsb_eqb_iff _ _)). exact E2.
    - destruct (existsb (Nat.eqb w) (enum (eset e))) eqn:E1; auto.
      apply (proj1 (existsb_eqb_iff _ _)) in E1. apply (proj1 (enum_ok _ _)) in E1.
      apply (proj2 (existsb_eqb_iff _ _)) in E1. congruence. }
  rewrite EQ. destruct (existsb (Nat.eqb w) (eset e)); reflexivity. Qed.

Lemma set_add_in k s x : In x (set_add k s) <-> x = k \/ In x s.
Proof. unfold set_add. destruct (existsb (Nat.eqb k) s) eqn:E.
  - apply existsb_eqb_iff in E. split; [auto|intros [->|I]; auto].
  - rewrite in_app_iff. cbn. intuition. Qed.

Lemma fold_set_add_in ks : forall s x, In x (fold_left (fun s k => set_add k s) ks s) <-> In x ks \/ In x s.
Proof. induction ks as [|k ks IH]; intros s x; cbn [fold_left]; [cbn; tauto|].
  rewrite IH, set_add_in. cbn. intuition. Qed.

Lemma eqs_union_in s1 s2 x : In x (eqs_union enum s1 s2) <-> In x s1 \/ In x s2.
Proof. unfold eqs_union. rewrite !fold_set_add_in, !enum_ok. cbn. tauto. Qed.

Definition fix_of (rho:nat->ty) (st:resolver) : Prop :=
  forall v, rho v = app rho (eres (rs_lookup st v)).

(** registering a class whose members are exactly the union of consistent classes keeps consistency *)
Lemma consistent_register st e :
  consistent st ->
  (forall w, In w (eset e) -> forall u, In u (eset (rs_lookup st w)) -> In u (eset e)) ->
  consistent (rs_register enum st e).
Proof.
  intros C CL v. rewrite rs_lookup_register.
  destruct (existsb (Nat.eqb v) (eset e)) eqn:E.
  - apply existsb_eqb_iff in E. split; [exact E|]. intros w I. rewrite rs_lookup_register.
    apply existsb_eqb_iff in I. rewrite I. reflexivity.
  - destruct (C v) as (A & B). split; [exact A|]. intros w I. rewrite rs_lookup_register.
    destruct (existsb (Nat.eqb w) (eset e)) eqn:E2; [|auto].
    exfalso. apply existsb_eqb_iff in E2.
    assert (In v (eset e)).
    { apply (CL w E2). rewrite (B w I). exact A. }
    apply existsb_eqb_iff in H. congruence.
Qed.

Lemma update_one_sound st rl st1 R :
  consistent st -> update_one later enum st rl = UOk st1 R false ->
  consistent st1 /\
  forall rho, sat rho R -> fix_of rho st1 ->
    rho (fst rl) = app rho (snd rl) /\ fix_of rho st.
Proof.
  intros C H. destruct rl as (x, d). unfold update_one in H. cbn [fst snd] in *.
  set (e1 := rs_lookup st x) in *.
  destruct (C x) as (Ix & Cx). fold e1 in Ix, Cx.
  assert (VAR : forall y, d = TVar y ->
     match Resolver.ctp later (eres e1) (eres (rs_lookup st y)) with
     | COk t R g => UOk (rs_register enum st (mkEI (eqs_union enum (eset e1) (eset (rs_lookup st y))) t)) R g
     | CPanic => UPanic end = UOk st1 R false ->
     consistent st1 /\ forall rho, sat rho R -> fix_of rho st1 -> rho x = app rho d /\ fix_of rho st).
  { intros y -> H0. set (e2 := rs_lookup st y) in *.
    destruct (C y) as (Iy & Cy). fold e2 in Iy, Cy.
    destruct (ctp (eres e1) (eres e2)) as [t R0 g|] eqn:CT; [|discriminate].
    injection H0 as <- <- ->.
    split.
    - apply consistent_register; auto. cbn [eset]. intros w Iw u Iu. apply eqs_union_in.
      apply eqs_union_in in Iw. destruct Iw as [Iw|Iw].
      + left. rewrite (Cx w Iw) in Iu. exact Iu.
      + right. rewrite (Cy w Iw) in Iu. exact Iu.
    - intros rho S F. destruct (ctp_sound _ _ _ _ CT rho S) as (A & B).
      assert (FX : forall w, In w (eset e1) \/ In w (eset e2) -> rho w = app rho t).
      { intros w Iw. rewrite (F w), rs_lookup_register. cbn [eset eres].
        apply eqs_union_in, existsb_eqb_iff in Iw. rewrite Iw. reflexivity. }
      split.
      + cbn [app]. rewrite (FX x), (FX y); auto.
      + intros w. destruct (existsb (Nat.eqb w) (eqs_union enum (eset e1) (eset e2))) eqn:E.
        * apply existsb_eqb_iff, eqs_union_in in E. rewrite (FX w E). destruct E as [E|E].
          -- rewrite (Cx w E). exact B.
          -- rewrite (Cy w E). rewrite B, A. reflexivity.
        * rewrite (F w), rs_lookup_register. cbn [eset]. rewrite E. reflexivity. }
  assert (NONVAR : (forall y, d <> TVar y) ->
     match Resolver.ctp later (eres e1) d with
     | COk t R g => match R with [] => UOk st [] g | _ => UOk (rs_register enum st (mkEI (eset e1) t)) R g end
     | CPanic => UPanic end = UOk st1 R false ->
     consistent st1 /\ forall rho, sat rho R -> fix_of rho st1 -> rho x = app rho d /\ fix_of rho st).
  { intros NV H0. destruct (ctp (eres e1) d) as [t R0 g|] eqn:CT; [|discriminate].
    destruct R0 as [|r0 R0].
    - injection H0 as <- <- ->. split; [exact C|]. intros rho S F.
      destruct (ctp_sound _ _ _ _ CT rho S) as (A & B). split; [|exact F]. rewrite (F x). exact A.
    - injection H0 as <- <- ->. split.
      + apply consistent_register; auto. cbn [eset]. intros w Iw u Iu. rewrite (Cx w Iw) in Iu. exact Iu.
      + intros rho S F. destruct (ctp_sound _ _ _ _ CT rho S) as (A & B).
        assert (FX : forall w, In w (eset e1) -> rho w = app rho t).
        { intros w Iw. rewrite (F w), rs_lookup_register. cbn [eset eres].
          apply existsb_eqb_iff in Iw. rewrite Iw. reflexivity. }
        split.
        * rewrite (FX x Ix), B. exact A.
        * intros w. destruct (existsb (Nat.eqb w) (eset e1)) eqn:E.
          -- apply existsb_eqb_iff in E. rewrite (FX w E), (Cx w E). exact B.
          -- rewrite (F w), rs_lookup_register. cbn [eset]. rewrite E. reflexivity. }
  destruct d as [y|a|d1 d2].
  - apply (VAR y eq_refl H).
  - apply NONVAR; [discriminate|exact H].
  - apply NONVAR; [discriminate|exact H].
Qed.

Lemma update_round_sound : forall rels st st1 R,
  consistent st -> update_round later enum st rels = UOk st1 R false ->
  consistent st1 /\ forall rho, sat rho R -> fix_of rho st1 -> sat rho rels /\ fix_of rho st.
Proof.
  induction rels as [|rl rest IH]; intros st st1 R C H; cbn in H.
  - injection H as <- <-. split; [exact C|]. intros rho _ F. split; [apply sat_nil|exact F].
  - destruct (update_one later enum st rl) as [sa Ra ga|] eqn:U1; [|discriminate].
    destruct (update_round later enum sa rest) as [sb Rb gb|] eqn:U2; [|discriminate].
    injection H as <- <- G. apply orb_false_iff in G. destruct G as (-> & ->).
    destruct (update_one_sound _ _ _ _ C U1) as (Ca & Ha).
    destruct (IH _ _ _ Ca U2) as (Cb & Hb).
    split; [exact Cb|]. intros rho S F. apply sat_app in S. destruct S as (Sa & Sb).
    destruct (Hb rho Sb F) as (SR & Fa). destruct (Ha rho Sa Fa) as (E & F0).
    split; [|exact F0]. intros x d [I|I]; [subst rl; exact E|apply SR; exact I].
Qed.

Lemma update_resolver_sound : forall n st rels st',
  consistent st -> update_resolver later enum n st rels = LDone st' false ->
  consistent st' /\ forall rho, fix_of rho st' -> sat rho rels /\ fix_of rho st.
Proof.
  induction n as [|n IH]; intros st rels st' C H; cbn in H; [discriminate|].
  destruct (update_round later enum st rels) as [s1 R1 g1|] eqn:U; [|discriminate].
  destruct R1 as [|r1 R1].
  - injection H as <- ->. destruct (update_round_sound _ _ _ _ C U) as (C1 & H1).
    split; [exact C1|]. intros rho F. apply H1; [apply sat_nil|exact F].
  - destruct (update_resolver later enum n s1 (r1 :: R1)) as [s2 g2| |] eqn:U2; try discriminate.
    injection H as <- G. apply orb_false_iff in G. destruct G as (-> & ->).
    destruct (update_round_sound _ _ _ _ C U) as (C1 & H1).
    destruct (IH _ _ _ C1 U2) as (C2 & H2).
    split; [exact C2|]. intros rho F. destruct (H2 rho F) as (S & F1). apply H1; assumption.
Qed.

(* ------------------------------------------------------------------ resolution *)
Lemma trans_tv_ok f t a : trans_tv f t = ROk a ->
  (forall w, occurs w t = true -> exists tw, f w = ROk tw) /\
  a = app (fun w => match f w with ROk tw => tw | _ => TVar w end) t.
Proof. revert a. induction t as [x|c|t1 IH1 t2 IH2]; intros a H; cbn in H.
  - split; [intros w O; cbn in O; apply Nat.eqb_eq in O; subst; eauto|cbn; rewrite H; reflexivity].
  - injection H as <-. split; [intros w O; discriminate|reflexivity].
  - destruct (trans_tv f t1) as [a1| |] eqn:E1; try discriminate.
    destruct (trans_tv f t2) as [a2| |] eqn:E2; try discriminate. injection H as <-.
    destruct (IH1 _ eq_refl) as (A1 & B1). destruct (IH2 _ eq_refl) as (A2 & B2). split.
    + intros w O. cbn in O. apply orb_true_iff in O. destruct O; auto.
    + cbn. congruence. Qed.

Lemma trans_tv_det f g t a b : trans_tv f t = ROk a -> trans_tv g t = ROk b ->
  (forall w x y, occurs w t = true -> f w = ROk x -> g w = ROk y -> x = y) -> a = b.
Proof. revert a b. induction t as [x|c|t1 IH1 t2 IH2]; intros a b Ha Hb D; cbn in *.
  - eapply D; eauto. apply Nat.eqb_refl.
  - congruence.
  - destruct (trans_tv f t1) as [a1| |] eqn:E1; try discriminate.
    destruct (trans_tv f t2) as [a2| |] eqn:E2; try discriminate.
    destruct (trans_tv g t1) as [b1| |] eqn:E3; try discriminate.
    destruct (trans_tv g t2) as [b2| |] eqn:E4; try discriminate.
    injection Ha as <-. injection Hb as <-. f_equal.
    + apply IH1; auto. intros w x y O; apply D; rewrite O; reflexivity.
    + apply IH2; auto. intros w x y O; apply D; rewrite O; apply orb_true_r. Qed.

(** a successful resolution does not depend on the fuel or on the path it was started with *)
Lemma resolve_det st : forall n m p q x a b,
  resolve n p st x = ROk a -> resolve m q st x = ROk b -> a = b.
Proof.
  induction n as [|n IH]; intros m p q x a b Ha Hb; cbn in Ha; [discriminate|].
  destruct m as [|m]; cbn in Hb; [discriminate|].
  destruct (existsb (Nat.eqb x) p); [discriminate|]. destruct (existsb (Nat.eqb x) q); [discriminate|].
  set (rc := eres (rs_lookup st x)) in *.
  assert (K : forall a b, trans_tv (resolve n (x :: p) st) rc = ROk a ->
                          trans_tv (resolve m (x :: q) st) rc = ROk b -> a = b).
  { intros a0 b0 A B. eapply trans_tv_det; [exact A|exact B|]. intros w u v _ U V. eapply IH; eauto. }
  destruct rc as [y|c|r1 r2]; [|eapply K; eauto|eapply K; eauto].
  destruct (Nat.eqb y x); [congruence|eapply K; eauto].
Qed.

Definition induced (m:nat) (st:resolver) (v:nat) : ty :=
  match resolve m [] st v with ROk t => t | _ => TVar v end.

Lemma induced_fix m st : (forall v, exists t, resolve m [] st v = ROk t) -> fix_of (induced m st) st.
Proof.
  intros ALL v. unfold induced at 1. destruct (ALL v) as (t & Hv). rewrite Hv.
  destruct m as [|m]; [cbn in Hv; discriminate|]. cbn in Hv.
  set (rc := eres (rs_lookup st v)) in *.
  assert (K : trans_tv (resolve m [v] st) rc = ROk t -> t = app (induced (S m) st) rc).
  { intros T. destruct (trans_tv_ok _ _ _ T) as (A & ->). apply app_ext_vars. intros w O.
    destruct (A w O) as (tw & Hw). rewrite Hw. unfold induced. destruct (ALL w) as (tw' & Hw'). rewrite Hw'.
    eapply resolve_det; eauto. }
  destruct rc as [y|c|r1 r2] eqn:RC; [|apply K; exact Hv|apply K; exact Hv].
  destruct (Nat.eqb y v) eqn:E; [|apply K; exact Hv].
  apply Nat.eqb_eq in E. subst y. injection Hv as <-. cbn. unfold induced. destruct (ALL v) as (t' & Hv').
  rewrite Hv'. destruct m; cbn in Hv'; rewrite ?RC in Hv'.
  - change (eres (rs_lookup st v)) with rc in Hv'. rewrite RC, Nat.eqb_refl in Hv'. congruence.
  - change (eres (rs_lookup st v)) with rc in Hv'. rewrite RC, Nat.eqb_refl in Hv'. congruence.
Qed.

(* ------------------------------------------------------------------ whole problems *)
Lemma rels_of_sound : forall es R, rels_of later es = Some (R, false) ->
  forall th, sat th R -> unifies th es.
Proof.
  induction es as [|(l,r) es IH]; intros R H th S; cbn in H.
  - intros ? ? [].
  - unfold unify_type in H. destruct (ctp l r) as [t R1 g1|] eqn:C; [|discriminate].
    destruct (rels_of later es) as [(R2, g2)|] eqn:RE; [|discriminate].
    injection H as <- G. apply orb_false_iff in G. destruct G as (-> & ->).
    apply sat_app in S. destruct S as (S1 & S2).
    intros a b [I|I].
    + injection I as <- <-. apply (ctp_sound _ _ _ _ C th S1).
    + apply (IH _ eq_refl th S2); exact I.
Qed.

(** resolver_sound *)
Theorem resolver_sound : forall n m es st,
  solve later enum n es = SSolved st false ->
  (forall v, exists t, resolve m [] st v = ROk t) ->
  unifies (induced m st) es.
Proof.
  intros n m es st H ALL. unfold solve in H.
  destruct (rels_of later es) as [(R, g)|] eqn:RE; [|discriminate].
  destruct (update_resolver later enum n [] R) as [s1 g1| |] eqn:U; try discriminate.
  injection H as <- G. apply orb_false_iff in G. destruct G as (-> & ->).
  destruct (update_resolver_sound _ _ _ _ consistent_nil U) as (_ & HS).
  destruct (HS _ (induced_fix m s1 ALL)) as (S & _).
  exact (rels_of_sound _ _ RE _ S).
Qed.

End Proofs.
