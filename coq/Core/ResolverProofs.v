(** C02 — proofs about Core/Resolver.v (fc's own resolver, transcribed).
    Part 1: soundness.  If no clash was silently ignored, the loop ended and every variable
    resolves (no cycle), the induced substitution unifies all the equations — for every
    enumeration order of dict.Keys that keeps membership and every variable-name comparison. *)
From Coq Require Import Arith Lia Bool List.
From FoVerif Require Import Core.Unify Core.UnifyProofs Core.Infer Core.InferProofs Core.Resolver.
Import ListNotations.

Definition sat (th:nat->ty) (R:list rel) : Prop := forall x d, In (x,d) R -> th x = app th d.

Lemma sat_app th R1 R2 : sat th (R1 ++ R2) <-> sat th R1 /\ sat th R2.
Proof. unfold sat. split.
  - intros H; split; intros x d I; apply H; apply in_or_app; auto.
  - intros (A & B) x d I. apply in_app_or in I. destruct I; auto. Qed.
Lemma sat_nil th : sat th [].
Proof. intros ? ? []. Qed.
Lemma sat_one th x d : sat th [(x,d)] <-> th x = app th d.
Proof. split; [intros H; apply H; left; reflexivity|intros E a b [I|[]]; injection I as <- <-; exact E]. Qed.

Lemma ty_eqb_eq a : forall b, ty_eqb a b = true <-> a = b.
Proof. induction a as [x|x|a1 IH1 a2 IH2]; intros [y|y|b1 b2]; cbn; try (split; [discriminate|intros E; discriminate E]).
  - rewrite Nat.eqb_eq. split; congruence.
  - rewrite Nat.eqb_eq. split; congruence.
  - rewrite andb_true_iff, IH1, IH2. split; [intros (-> & ->); reflexivity|intros E; injection E; auto]. Qed.

Section Proofs.
Variable later : nat -> nat -> bool.
Variable enum : list nat -> list nat.
Hypothesis enum_ok : forall l x, In x (enum l) <-> In x l.

Notation ctp := (ctp later).
Notation clist := (clist later).

(* unfolding equations with the recursive calls folded *)
Lemma ctp_node hl b1 r : ctp (TNode hl b1) r =
      match r with
      | TVar y => COk (TNode hl b1) [(y, TNode hl b1)] false
      | TAtom _ => COk (TNode hl b1) [] true
      | TNode (TAtom c') b2 =>
          match hl with
          | TAtom c =>
              if Nat.eqb c' a_slice then
                if Nat.eqb c a_slice then
                  match ctp b1 b2 with
                  | COk t R g => COk (TNode (TAtom a_slice) t) R g
                  | CPanic => CPanic end
                else CPanic
              else if Nat.eqb c' a_fun then
                if Nat.eqb c a_fun then
                  match b1, b2 with
                  | TNode al1 r1, TNode al2 r2 =>
                      match clist al1 al2 with
                      | COk ta Ra ga =>
                          match ctp r1 r2 with
                          | COk tr Rr gr => COk (TNode (TAtom a_fun) (TNode ta tr)) (Ra ++ Rr) (ga || gr)
                          | CPanic => CPanic end
                      | CPanic => CPanic end
                  | _, _ => CPanic
                  end
                else CPanic
              else if Nat.eqb c' a_tuple then
                if Nat.eqb c a_tuple then
                  match clist b1 b2 with
                  | COk t R g => COk (TNode (TAtom a_tuple) t) R g
                  | CPanic => CPanic end
                else CPanic
              else if Nat.leb 8 c' then
                if Nat.eqb c c' && Nat.eqb (spine_len b1) (spine_len b2) then
                  match clist b1 b2 with
                  | COk _ R g => COk (TNode hl b1) R g
                  | CPanic => CPanic end
                else COk (TNode hl b1) [] true
              else CPanic
          | _ => CPanic
          end
      | _ => CPanic
      end.
Proof. reflexivity. Qed.

Lemma clist_node a l' r : clist (TNode a l') r =
      match r with
      | TNode b r' =>
          match ctp a b with
          | COk ta Ra ga =>
              match clist l' r' with
              | COk tl Rl gl => COk (TNode ta tl) (Ra ++ Rl) (ga || gl)
              | CPanic => CPanic end
          | CPanic => CPanic end
      | _ => CPanic
      end.
Proof. reflexivity. Qed.

(* ------------------------------------------------------------------ compositeTp is sound *)
Definition ctp_sound_at (l:ty) : Prop :=
  (forall r t R, ctp l r = COk t R false ->
     forall th, sat th R -> app th l = app th r /\ app th t = app th l) /\
  (forall r t R, clist l r = COk t R false ->
     forall th, sat th R -> app th l = app th r /\ app th t = app th l).

Lemma ctp_sound_all : forall n l, size l <= n -> ctp_sound_at l.
Proof.
  induction n as [|n IH]; intros l Hs; [destruct l; cbn in Hs; lia|].
  destruct l as [x|a|hl b1].
  - (* variable *)
    split; [|intros r t R H; cbn in H; discriminate].
    intros r t R H th S. cbn in H. destruct r as [y|b|r1 r2].
    + destruct (Nat.eqb x y) eqn:E; [apply Nat.eqb_eq in E; subst; injection H as <- <-; auto|].
      destruct (later x y); injection H as <- <-; apply sat_one in S; cbn in *; auto.
    + injection H as <- <-. apply sat_one in S. cbn in *. auto.
    + injection H as <- <-. apply sat_one in S. cbn in *. auto.
  - (* atom *)
    split.
    + intros r t R H th S. cbn [Resolver.ctp] in H. destruct r as [y|b|r1 r2].
      * injection H as <- <-. apply sat_one in S. cbn in *. auto.
      * injection H as <- <- E. apply negb_false_iff in E. change (Nat.eqb a b = true) in E.
        apply Nat.eqb_eq in E. subst. auto.
      * destruct r1 as [|c'|]; try discriminate. destruct (Nat.leb 8 c'); discriminate.
    + intros r t R H th S. cbn in H. destruct r as [|b|]; try discriminate.
      destruct (Nat.eqb a b) eqn:E; [|discriminate]. apply Nat.eqb_eq in E. subst.
      injection H as <- <-. cbn. auto.
  - (* node *)
    assert (IHh : ctp_sound_at hl) by (apply IH; cbn in Hs; lia).
    assert (IHb : ctp_sound_at b1) by (apply IH; cbn in Hs; lia).
    split.
    + intros r t R H th S. rewrite ctp_node in H. destruct r as [y|b|hr b2].
      * injection H as <- <-. apply sat_one in S. cbn in *. auto.
      * discriminate.
      * destruct hr as [|c'|]; try discriminate. destruct hl as [|c|]; try discriminate.
        destruct (Nat.eqb c' a_slice) eqn:E1.
        { destruct (Nat.eqb c a_slice) eqn:E2; [|discriminate].
          apply Nat.eqb_eq in E1, E2. subst.
          destruct (ctp b1 b2) as [t0 R0 g0|] eqn:C; [|discriminate]. injection H as <- <- ->.
          destruct (proj1 IHb _ _ _ C th S) as (A & B). cbn; split; congruence. }
        destruct (Nat.eqb c' a_fun) eqn:E2.
        { destruct (Nat.eqb c a_fun) eqn:E3; [|discriminate].
          apply Nat.eqb_eq in E2, E3. subst.
          destruct b1 as [|?|al1 r1], b2 as [|?|al2 r2]; try discriminate H.
          destruct (clist al1 al2) as [ta Ra ga|] eqn:C1; [|discriminate].
          destruct (ctp r1 r2) as [tr Rr gr|] eqn:C2; [|discriminate].
          injection H as <- <- G. apply orb_false_iff in G. destruct G as (-> & ->).
          apply sat_app in S. destruct S as (Sa & Sr).
          assert (I1 : ctp_sound_at al1) by (apply IH; cbn in Hs; lia).
          assert (I2 : ctp_sound_at r1) by (apply IH; cbn in Hs; lia).
          destruct (proj2 I1 _ _ _ C1 th Sa) as (A1 & B1).
          destruct (proj1 I2 _ _ _ C2 th Sr) as (A2 & B2).
          cbn; split; congruence. }
        destruct (Nat.eqb c' a_tuple) eqn:E3.
        { destruct (Nat.eqb c a_tuple) eqn:E4; [|discriminate].
          apply Nat.eqb_eq in E3, E4. subst.
          destruct (clist b1 b2) as [t0 R0 g0|] eqn:C; [|discriminate]. injection H as <- <- ->.
          destruct (proj2 IHb _ _ _ C th S) as (A & B). cbn; split; congruence. }
        destruct (Nat.leb 8 c') eqn:E4; [|discriminate].
        destruct (Nat.eqb c c' && Nat.eqb (spine_len b1) (spine_len b2)) eqn:E5; [|discriminate].
        apply andb_true_iff in E5. destruct E5 as (E5 & _). apply Nat.eqb_eq in E5. subst.
        destruct (clist b1 b2) as [t0 R0 g0|] eqn:C; [|discriminate]. injection H as <- <- ->.
        destruct (proj2 IHb _ _ _ C th S) as (A & B). cbn; split; congruence.
    + intros r t R H th S. rewrite clist_node in H. destruct r as [|?|a2 r']; try discriminate.
      destruct (ctp hl a2) as [ta Ra ga|] eqn:C1; [|discriminate].
      destruct (clist b1 r') as [tl Rl gl|] eqn:C2; [|discriminate].
      injection H as <- <- G. apply orb_false_iff in G. destruct G as (-> & ->).
      apply sat_app in S. destruct S as (Sa & Sl).
      destruct (proj1 IHh _ _ _ C1 th Sa) as (A1 & B1).
      destruct (proj2 IHb _ _ _ C2 th Sl) as (A2 & B2).
      cbn; split; congruence.
Qed.

Lemma ctp_sound l r t R : ctp l r = COk t R false ->
  forall th, sat th R -> app th l = app th r /\ app th t = app th l.
Proof. exact (proj1 (ctp_sound_all (size l) l (le_n _)) r t R). Qed.

(* ------------------------------------------------------------------ states *)
Definition consistent (st:resolver) : Prop :=
  forall v, In v (eset (rs_lookup st v)) /\
            forall w, In w (eset (rs_lookup st v)) -> rs_lookup st w = rs_lookup st v.

Lemma consistent_nil : consistent [].
Proof. intros v. unfold rs_lookup; cbn. split; [auto|]. intros w [<-|[]]. reflexivity. Qed.

Lemma existsb_eqb_iff x l : existsb (Nat.eqb x) l = true <-> In x l.
Proof. rewrite existsb_exists. split.
  - intros (y & I & E). apply Nat.eqb_eq in E; subst; exact I.
  - intros I; exists x; split; [exact I|apply Nat.eqb_refl]. Qed.

Lemma rs_find_register_aux e ks : forall st w,
  rs_find (fold_left (fun s k => (k, e) :: s) ks st) w =
  if existsb (Nat.eqb w) ks then Some e else rs_find st w.
Proof. induction ks as [|k ks IH]; intros st w; cbn [fold_left existsb]; auto.
  rewrite IH. cbn [rs_find]. destruct (existsb (Nat.eqb w) ks); [rewrite orb_true_r; reflexivity|].
  rewrite orb_false_r. reflexivity. Qed.

Lemma rs_lookup_register st e w :
  rs_lookup (rs_register enum st e) w = if existsb (Nat.eqb w) (eset e) then e else rs_lookup st w.
Proof. unfold rs_lookup, rs_register. rewrite rs_find_register_aux.
  assert (EQ : existsb (Nat.eqb w) (enum (eset e)) = existsb (Nat.eqb w) (eset e)).
  { destruct (existsb (Nat.eqb w) (eset e)) eqn:E2.
    - apply (proj2 (existsb_eqb_iff _ _)), (proj2 (enum_ok _ _)), (proj1 (existsb_eqb_iff _ _)). exact E2.
    - destruct (existsb (Nat.eqb w) (enum (eset e))) eqn:E1; auto.
      apply (proj1 (existsb_eqb_iff _ _)) in E1. apply (proj1 (enum_ok _ _)) in E1.
      apply (proj2 (existsb_eqb_iff _ _)) in E1. congruence. }
  rewrite EQ. destruct (existsb (Nat.eqb w) (eset e)); reflexivity. Qed.

Lemma set_add_in k s x : In x (set_add k s) <-> x = k \/ In x s.
Proof. unfold set_add. destruct (existsb (Nat.eqb k) s) eqn:E.
  - apply existsb_eqb_iff in E. split; [auto|intros [->|I]; auto].
  - rewrite in_app_iff. cbn. intuition. Qed.

Lemma fold_set_add_in ks : forall s x, In x (fold_left (fun s k => set_add k s) ks s) <-> In x ks \/ In x s.
Proof. induction ks as [|k ks IH]; intros s x; cbn [fold_left]; [cbn; tauto|].
  rewrite IH, set_add_in. cbn. intuition. Qed.

Lemma eqs_union_in s1 s2 x : In x (eqs_union enum s1 s2) <-> In x s1 \/ In x s2.
Proof. unfold eqs_union. rewrite !fold_set_add_in, !enum_ok. cbn. tauto. Qed.

Definition fix_of (rho:nat->ty) (st:resolver) : Prop :=
  forall v, rho v = app rho (eres (rs_lookup st v)).

(** registering a class whose members are exactly the union of consistent classes keeps consistency *)
Lemma consistent_register st e :
  consistent st ->
  (forall w, In w (eset e) -> forall u, In u (eset (rs_lookup st w)) -> In u (eset e)) ->
  consistent (rs_register enum st e).
Proof.
  intros C CL v. rewrite rs_lookup_register.
  destruct (existsb (Nat.eqb v) (eset e)) eqn:E.
  - apply existsb_eqb_iff in E. split; [exact E|]. intros w I. rewrite rs_lookup_register.
    apply existsb_eqb_iff in I. rewrite I. reflexivity.
  - destruct (C v) as (A & B). split; [exact A|]. intros w I. rewrite rs_lookup_register.
    destruct (existsb (Nat.eqb w) (eset e)) eqn:E2; [|auto].
    exfalso. apply existsb_eqb_iff in E2.
    assert (In v (eset e)).
    { apply (CL w E2). rewrite (B w I). exact A. }
    apply existsb_eqb_iff in H. congruence.
Qed.

Lemma update_one_sound st rl st1 R :
  consistent st -> update_one later enum st rl = UOk st1 R false ->
  consistent st1 /\
  forall rho, sat rho R -> fix_of rho st1 ->
    rho (fst rl) = app rho (snd rl) /\ fix_of rho st.
Proof.
  intros C H. destruct rl as (x, d). unfold update_one in H. cbn [fst snd] in *.
  set (e1 := rs_lookup st x) in *.
  destruct (C x) as (Ix & Cx). fold e1 in Ix, Cx.
  assert (VAR : forall y, d = TVar y ->
     match Resolver.ctp later (eres e1) (eres (rs_lookup st y)) with
     | COk t R g => UOk (rs_register enum st (mkEI (eqs_union enum (eset e1) (eset (rs_lookup st y))) t)) R g
     | CPanic => UPanic end = UOk st1 R false ->
     consistent st1 /\ forall rho, sat rho R -> fix_of rho st1 -> rho x = app rho d /\ fix_of rho st).
  { intros y -> H0. set (e2 := rs_lookup st y) in *.
    destruct (C y) as (Iy & Cy). fold e2 in Iy, Cy.
    destruct (ctp (eres e1) (eres e2)) as [t R0 g|] eqn:CT; [|discriminate].
    injection H0 as <- <- ->.
    split.
    - apply consistent_register; auto. cbn [eset]. intros w Iw u Iu. apply eqs_union_in.
      apply eqs_union_in in Iw. destruct Iw as [Iw|Iw].
      + left. rewrite (Cx w Iw) in Iu. exact Iu.
      + right. rewrite (Cy w Iw) in Iu. exact Iu.
    - intros rho S F. destruct (ctp_sound _ _ _ _ CT rho S) as (A & B).
      assert (FX : forall w, In w (eset e1) \/ In w (eset e2) -> rho w = app rho t).
      { intros w Iw. rewrite (F w), rs_lookup_register. cbn [eset eres].
        apply eqs_union_in, existsb_eqb_iff in Iw. rewrite Iw. reflexivity. }
      split.
      + cbn [app]. rewrite (FX x), (FX y); auto.
      + intros w. destruct (existsb (Nat.eqb w) (eqs_union enum (eset e1) (eset e2))) eqn:E.
        * apply existsb_eqb_iff, eqs_union_in in E. rewrite (FX w E). destruct E as [E|E].
          -- rewrite (Cx w E). exact B.
          -- rewrite (Cy w E). rewrite B, A. reflexivity.
        * rewrite (F w), rs_lookup_register. cbn [eset]. rewrite E. reflexivity. }
  assert (NONVAR : (forall y, d <> TVar y) ->
     match Resolver.ctp later (eres e1) d with
     | COk t R g => match R with [] => UOk st [] g | _ => UOk (rs_register enum st (mkEI (eset e1) t)) R g end
     | CPanic => UPanic end = UOk st1 R false ->
     consistent st1 /\ forall rho, sat rho R -> fix_of rho st1 -> rho x = app rho d /\ fix_of rho st).
  { intros NV H0. destruct (ctp (eres e1) d) as [t R0 g|] eqn:CT; [|discriminate].
    destruct R0 as [|r0 R0].
    - injection H0 as <- <- ->. split; [exact C|]. intros rho S F.
      destruct (ctp_sound _ _ _ _ CT rho S) as (A & B). split; [|exact F]. rewrite (F x). exact A.
    - injection H0 as <- <- ->. split.
      + apply consistent_register; auto. cbn [eset]. intros w Iw u Iu. rewrite (Cx w Iw) in Iu. exact Iu.
      + intros rho S F. destruct (ctp_sound _ _ _ _ CT rho S) as (A & B).
        assert (FX : forall w, In w (eset e1) -> rho w = app rho t).
        { intros w Iw. rewrite (F w), rs_lookup_register. cbn [eset eres].
          apply existsb_eqb_iff in Iw. rewrite Iw. reflexivity. }
        split.
        * rewrite (FX x Ix), B. exact A.
        * intros w. destruct (existsb (Nat.eqb w) (eset e1)) eqn:E.
          -- apply existsb_eqb_iff in E. rewrite (FX w E), (Cx w E). exact B.
          -- rewrite (F w), rs_lookup_register. cbn [eset]. rewrite E. reflexivity. }
  destruct d as [y|a|d1 d2].
  - apply (VAR y eq_refl H).
  - apply NONVAR; [discriminate|exact H].
  - apply NONVAR; [discriminate|exact H].
Qed.

Lemma update_round_sound : forall rels st st1 R,
  consistent st -> update_round later enum st rels = UOk st1 R false ->
  consistent st1 /\ forall rho, sat rho R -> fix_of rho st1 -> sat rho rels /\ fix_of rho st.
Proof.
  induction rels as [|rl rest IH]; intros st st1 R C H; cbn in H.
  - injection H as <- <-. split; [exact C|]. intros rho _ F. split; [apply sat_nil|exact F].
  - destruct (update_one later enum st rl) as [sa Ra ga|] eqn:U1; [|discriminate].
    destruct (update_round later enum sa rest) as [sb Rb gb|] eqn:U2; [|discriminate].
    injection H as <- <- G. apply orb_false_iff in G. destruct G as (-> & ->).
    destruct (update_one_sound _ _ _ _ C U1) as (Ca & Ha).
    destruct (IH _ _ _ Ca U2) as (Cb & Hb).
    split; [exact Cb|]. intros rho S F. apply sat_app in S. destruct S as (Sa & Sb).
    destruct (Hb rho Sb F) as (SR & Fa). destruct (Ha rho Sa Fa) as (E & F0).
    split; [|exact F0]. intros x d [I|I]; [subst rl; exact E|apply SR; exact I].
Qed.

Lemma update_resolver_sound : forall n st rels st',
  consistent st -> update_resolver later enum n st rels = LDone st' false ->
  consistent st' /\ forall rho, fix_of rho st' -> sat rho rels /\ fix_of rho st.
Proof.
  induction n as [|n IH]; intros st rels st' C H; cbn in H; [discriminate|].
  destruct (update_round later enum st rels) as [s1 R1 g1|] eqn:U; [|discriminate].
  destruct R1 as [|r1 R1].
  - injection H as <- ->. destruct (update_round_sound _ _ _ _ C U) as (C1 & H1).
    split; [exact C1|]. intros rho F. apply H1; [apply sat_nil|exact F].
  - destruct (update_resolver later enum n s1 (r1 :: R1)) as [s2 g2| |] eqn:U2; try discriminate.
    injection H as <- G. apply orb_false_iff in G. destruct G as (-> & ->).
    destruct (update_round_sound _ _ _ _ C U) as (C1 & H1).
    destruct (IH _ _ _ C1 U2) as (C2 & H2).
    split; [exact C2|]. intros rho F. destruct (H2 rho F) as (S & F1). apply H1; assumption.
Qed.

(* ------------------------------------------------------------------ resolution *)
Lemma trans_tv_ok f t a : trans_tv f t = ROk a ->
  (forall w, occurs w t = true -> exists tw, f w = ROk tw) /\
  a = app (fun w => match f w with ROk tw => tw | _ => TVar w end) t.
Proof. revert a. induction t as [x|c|t1 IH1 t2 IH2]; intros a H; cbn in H.
  - split; [intros w O; cbn in O; apply Nat.eqb_eq in O; subst; eauto|cbn; rewrite H; reflexivity].
  - injection H as <-. split; [intros w O; discriminate|reflexivity].
  - destruct (trans_tv f t1) as [a1| |] eqn:E1; try discriminate.
    destruct (trans_tv f t2) as [a2| |] eqn:E2; try discriminate. injection H as <-.
    destruct (IH1 _ eq_refl) as (A1 & B1). destruct (IH2 _ eq_refl) as (A2 & B2). split.
    + intros w O. cbn in O. apply orb_true_iff in O. destruct O; auto.
    + cbn. congruence. Qed.

Lemma trans_tv_det f g t a b : trans_tv f t = ROk a -> trans_tv g t = ROk b ->
  (forall w x y, occurs w t = true -> f w = ROk x -> g w = ROk y -> x = y) -> a = b.
Proof. revert a b. induction t as [x|c|t1 IH1 t2 IH2]; intros a b Ha Hb D; cbn in *.
  - eapply D; eauto. apply Nat.eqb_refl.
  - congruence.
  - destruct (trans_tv f t1) as [a1| |] eqn:E1; try discriminate.
    destruct (trans_tv f t2) as [a2| |] eqn:E2; try discriminate.
    destruct (trans_tv g t1) as [b1| |] eqn:E3; try discriminate.
    destruct (trans_tv g t2) as [b2| |] eqn:E4; try discriminate.
    injection Ha as <-. injection Hb as <-. f_equal.
    + apply IH1; auto. intros w x y O; apply D; rewrite O; reflexivity.
    + apply IH2; auto. intros w x y O; apply D; rewrite O; apply orb_true_r. Qed.

(** a successful resolution does not depend on the fuel or on the path it was started with *)
Lemma resolve_det st : forall n m p q x a b,
  resolve n p st x = ROk a -> resolve m q st x = ROk b -> a = b.
Proof.
  induction n as [|n IH]; intros m p q x a b Ha Hb; cbn in Ha; [discriminate|].
  destruct m as [|m]; cbn in Hb; [discriminate|].
  destruct (existsb (Nat.eqb x) p); [discriminate|]. destruct (existsb (Nat.eqb x) q); [discriminate|].
  set (rc := eres (rs_lookup st x)) in *.
  assert (K : forall a b, trans_tv (resolve n (x :: p) st) rc = ROk a ->
                          trans_tv (resolve m (x :: q) st) rc = ROk b -> a = b).
  { intros a0 b0 A B. eapply trans_tv_det; [exact A|exact B|]. intros w u v _ U V. eapply IH; eauto. }
  destruct rc as [y|c|r1 r2]; [|eapply K; eauto|eapply K; eauto].
  destruct (Nat.eqb y x); [congruence|eapply K; eauto].
Qed.

Definition induced (m:nat) (st:resolver) (v:nat) : ty :=
  match resolve m [] st v with ROk t => t | _ => TVar v end.

Lemma induced_fix m st : (forall v, exists t, resolve m [] st v = ROk t) -> fix_of (induced m st) st.
Proof.
  intros ALL v. unfold induced at 1. destruct (ALL v) as (t & Hv). rewrite Hv.
  destruct m as [|m]; [cbn in Hv; discriminate|]. cbn in Hv.
  set (rc := eres (rs_lookup st v)) in *.
  assert (K : trans_tv (resolve m [v] st) rc = ROk t -> t = app (induced (S m) st) rc).
  { intros T. destruct (trans_tv_ok _ _ _ T) as (A & ->). apply app_ext_vars. intros w O.
    destruct (A w O) as (tw & Hw). rewrite Hw. unfold induced. destruct (ALL w) as (tw' & Hw'). rewrite Hw'.
    eapply resolve_det; eauto. }
  destruct rc as [y|c|r1 r2] eqn:RC; [|apply K; exact Hv|apply K; exact Hv].
  destruct (Nat.eqb y v) eqn:E; [|apply K; exact Hv].
  apply Nat.eqb_eq in E. subst y. injection Hv as <-. cbn. unfold induced. destruct (ALL v) as (t' & Hv').
  rewrite Hv'. destruct m; cbn in Hv'; rewrite ?RC in Hv'.
  - change (eres (rs_lookup st v)) with rc in Hv'. rewrite RC, Nat.eqb_refl in Hv'. congruence.
  - change (eres (rs_lookup st v)) with rc in Hv'. rewrite RC, Nat.eqb_refl in Hv'. congruence.
Qed.

(* ------------------------------------------------------------------ whole problems *)
Lemma rels_of_sound : forall es R, rels_of later es = Some (R, false) ->
  forall th, sat th R -> unifies th es.
Proof.
  induction es as [|(l,r) es IH]; intros R H th S; cbn in H.
  - intros ? ? [].
  - unfold unify_type in H. destruct (ctp l r) as [t R1 g1|] eqn:C; [|discriminate].
    destruct (rels_of later es) as [(R2, g2)|] eqn:RE; [|discriminate].
    injection H as <- G. apply orb_false_iff in G. destruct G as (-> & ->).
    apply sat_app in S. destruct S as (S1 & S2).
    intros a b [I|I].
    + injection I as <- <-. apply (ctp_sound _ _ _ _ C th S1).
    + apply (IH _ eq_refl th S2); exact I.
Qed.

(** resolver_sound *)
Theorem resolver_sound : forall n m es st,
  solve later enum n es = SSolved st false ->
  (forall v, exists t, resolve m [] st v = ROk t) ->
  unifies (induced m st) es.
Proof.
  intros n m es st H ALL. unfold solve in H.
  destruct (rels_of later es) as [(R, g)|] eqn:RE; [|discriminate].
  destruct (update_resolver later enum n [] R) as [s1 g1| |] eqn:U; try discriminate.
  injection H as <- G. apply orb_false_iff in G. destruct G as (-> & ->).
  destruct (update_resolver_sound _ _ _ _ consistent_nil U) as (_ & HS).
  destruct (HS _ (induced_fix m s1 ALL)) as (S & _).
  exact (rels_of_sound _ _ RE _ S).
Qed.


(* ================================================================== Part 2: most general *)
(** well-formed types: variables stand only in type positions (never in place of an argument
    spine or of a constructor head) *)
Fixpoint wf (t:ty) : bool :=
  match t with
  | TVar _ => true
  | TAtom a => Nat.eqb a a_int || Nat.eqb a a_string || Nat.eqb a a_bool || Nat.eqb a a_float
  | TNode (TAtom c) b =>
      if Nat.eqb c a_slice then wf b
      else if Nat.eqb c a_tuple then wf_spine b
      else if Nat.eqb c a_fun then match b with TNode al r => wf_spine al && wf r | _ => false end
      else if Nat.leb 8 c then wf_spine b
      else false
  | TNode _ _ => false
  end
with wf_spine (t:ty) : bool :=
  match t with
  | TAtom a => Nat.eqb a a_nil
  | TNode a r => wf a && wf_spine r
  | TVar _ => false
  end.

Definition wf_rels (R:list rel) : Prop := forall x d, In (x,d) R -> wf d = true.
Lemma wf_rels_app R1 R2 : wf_rels (R1 ++ R2) <-> wf_rels R1 /\ wf_rels R2.
Proof. unfold wf_rels. split.
  - intros H; split; intros x d I; apply (H x d); apply in_or_app; auto.
  - intros (A & B) x d I. apply in_app_or in I. destruct I; eauto. Qed.
Lemma wf_rels_nil : wf_rels [].
Proof. intros ? ? []. Qed.
Lemma wf_rels_one x d : wf d = true -> wf_rels [(x,d)].
Proof. intros W a b [I|[]]. injection I as <- <-. exact W. Qed.

Lemma spine_len_app th b : wf_spine b = true -> spine_len (app th b) = spine_len b.
Proof. induction b as [x|a|b1 _ b2 IH]; cbn; intros W; try discriminate; auto.
  apply andb_true_iff in W. destruct W. f_equal. auto. Qed.

Definition ctp_complete_at (l:ty) : Prop :=
  (forall r th, wf l = true -> wf r = true -> app th l = app th r ->
     exists t R, ctp l r = COk t R false /\ sat th R /\ app th t = app th l /\ wf t = true /\ wf_rels R) /\
  (forall r th, wf_spine l = true -> wf_spine r = true -> app th l = app th r ->
     exists t R, clist l r = COk t R false /\ sat th R /\ app th t = app th l /\ wf_spine t = true /\ wf_rels R).

Lemma wf_node_head hl b : wf (TNode hl b) = true -> exists c, hl = TAtom c.
Proof. destruct hl; cbn; try discriminate. eauto. Qed.

Lemma ctp_complete_all : forall n l, size l <= n -> ctp_complete_at l.
Proof.
  induction n as [|n IH]; intros l Hs; [destruct l; cbn in Hs; lia|].
  destruct l as [x|a|hl b1].
  - split; [|intros r th W; cbn in W; discriminate].
    intros r th _ Wr E. cbn [Resolver.ctp]. destruct r as [y|b|r1 r2].
    + destruct (Nat.eqb x y) eqn:EQ.
      * exists (TVar x), []. repeat split; auto using sat_nil, wf_rels_nil.
      * destruct (later x y).
        -- exists (TVar y), [(x, TVar y)]. split; [reflexivity|]. split; [apply sat_one; exact E|].
           split; [cbn in *; congruence|]. split; [reflexivity|apply wf_rels_one; reflexivity].
        -- exists (TVar x), [(y, TVar x)]. split; [reflexivity|]. split; [apply sat_one; cbn in *; congruence|].
           split; [reflexivity|]. split; [reflexivity|apply wf_rels_one; reflexivity].
    + exists (TAtom b), [(x, TAtom b)]. split; [reflexivity|]. split; [apply sat_one; exact E|].
      split; [cbn in *; congruence|]. split; [exact Wr|apply wf_rels_one; exact Wr].
    + exists (TNode r1 r2), [(x, TNode r1 r2)]. split; [reflexivity|]. split; [apply sat_one; exact E|].
      split; [cbn in *; congruence|]. split; [exact Wr|apply wf_rels_one; exact Wr].
  - split.
    + intros r th Wl Wr E. destruct r as [y|b|r1 r2].
      * exists (TAtom a), [(y, TAtom a)]. split; [reflexivity|]. split; [apply sat_one; cbn in *; congruence|].
        split; [reflexivity|]. split; [exact Wl|apply wf_rels_one; exact Wl].
      * cbn in E. injection E as ->. exists (TAtom b), []. split.
        { cbn. rewrite Nat.eqb_refl. reflexivity. }
        repeat split; auto using sat_nil, wf_rels_nil.
      * cbn in E. discriminate.
    + intros r th Wl Wr E. destruct r as [y|b|r1 r2]; cbn in Wr; try discriminate.
      cbn in E. injection E as ->. exists (TAtom b), []. cbn. rewrite Nat.eqb_refl.
      repeat split; auto using sat_nil, wf_rels_nil.
  - assert (IHh : ctp_complete_at hl) by (apply IH; cbn in Hs; lia).
    assert (IHb : ctp_complete_at b1) by (apply IH; cbn in Hs; lia).
    split.
    + intros r th Wl Wr E. rewrite ctp_node. destruct r as [y|b|hr b2].
      * exists (TNode hl b1), [(y, TNode hl b1)]. split; [reflexivity|]. split; [apply sat_one; cbn in *; congruence|].
        split; [reflexivity|]. split; [exact Wl|apply wf_rels_one; exact Wl].
      * cbn in E. discriminate.
      * destruct (wf_node_head _ _ Wl) as (c & ->). destruct (wf_node_head _ _ Wr) as (c' & ->).
        cbn [app] in E. injection E as Ec Eb. subst c'.
        cbn [wf] in Wl, Wr.
        destruct (Nat.eqb c a_slice) eqn:E1.
        { destruct (proj1 IHb b2 th Wl Wr Eb) as (t & R & C & S & A & W & WR).
          rewrite C. exists (TNode (TAtom a_slice) t), R. split; [reflexivity|]. split; [exact S|].
          apply Nat.eqb_eq in E1. subst c. split; [cbn; congruence|]. split; [cbn; exact W|exact WR]. }
        destruct (Nat.eqb c a_tuple) eqn:E2.
        { assert (E3 : Nat.eqb c a_fun = false) by (apply Nat.eqb_eq in E2; subst; reflexivity).
          rewrite E3.
          destruct (proj2 IHb b2 th Wl Wr Eb) as (t & R & C & S & A & W & WR).
          rewrite C. exists (TNode (TAtom a_tuple) t), R. split; [reflexivity|]. split; [exact S|].
          apply Nat.eqb_eq in E2. subst c. split; [cbn; congruence|]. split; [cbn; exact W|exact WR]. }
        destruct (Nat.eqb c a_fun) eqn:E3.
        { destruct b1 as [|?|al1 r1]; try discriminate. destruct b2 as [|?|al2 r2]; try discriminate.
          apply andb_true_iff in Wl, Wr. destruct Wl as (Wl1 & Wl2), Wr as (Wr1 & Wr2).
          cbn [app] in Eb. injection Eb as Ea Er.
          assert (I1 : ctp_complete_at al1) by (apply IH; cbn in Hs; lia).
          assert (I2 : ctp_complete_at r1) by (apply IH; cbn in Hs; lia).
          destruct (proj2 I1 al2 th Wl1 Wr1 Ea) as (ta & Ra & Ca & Sa & Aa & Wa & WRa).
          destruct (proj1 I2 r2 th Wl2 Wr2 Er) as (tr & Rr & Cr & Sr & Ar & Wr' & WRr).
          rewrite Ca, Cr. exists (TNode (TAtom a_fun) (TNode ta tr)), (Ra ++ Rr).
          split; [reflexivity|]. split; [apply sat_app; auto|].
          apply Nat.eqb_eq in E3. subst c. split; [cbn; congruence|].
          split; [cbn; rewrite Wa, Wr'; reflexivity|apply wf_rels_app; auto]. }
        destruct (Nat.leb 8 c) eqn:E4; [|discriminate].
        rewrite Nat.eqb_refl. cbn [andb].
        assert (EL : Nat.eqb (spine_len b1) (spine_len b2) = true).
        { apply Nat.eqb_eq. rewrite <- (spine_len_app th b1 Wl), <- (spine_len_app th b2 Wr), Eb. reflexivity. }
        rewrite EL.
        destruct (proj2 IHb b2 th Wl Wr Eb) as (t & R & C & S & A & W & WR).
        rewrite C. exists (TNode (TAtom c) b1), R. split; [reflexivity|]. split; [exact S|].
        split; [reflexivity|]. split; [cbn [wf]; rewrite E1, E2, E3, E4; exact Wl|exact WR].
    + intros r th Wl Wr E. rewrite clist_node.
      destruct r as [y|b|a2 r']; [cbn in Wr; discriminate Wr|cbn in E; discriminate E|].
      * cbn [wf_spine] in Wl, Wr. apply andb_true_iff in Wl, Wr. destruct Wl as (Wl1 & Wl2), Wr as (Wr1 & Wr2).
        cbn [app] in E. injection E as Ea Er.
        destruct (proj1 IHh a2 th Wl1 Wr1 Ea) as (ta & Ra & Ca & Sa & Aa & Wa & WRa).
        destruct (proj2 IHb r' th Wl2 Wr2 Er) as (tl & Rl & Cl & Sl & Al & Wl' & WRl).
        rewrite Ca, Cl. exists (TNode ta tl), (Ra ++ Rl).
        split; [reflexivity|]. split; [apply sat_app; auto|]. split; [cbn; congruence|].
        split; [cbn; rewrite Wa, Wl'; reflexivity|apply wf_rels_app; auto].
Qed.

Lemma ctp_complete l r th : wf l = true -> wf r = true -> app th l = app th r ->
  exists t R, ctp l r = COk t R false /\ sat th R /\ app th t = app th l /\ wf t = true /\ wf_rels R.
Proof. exact (proj1 (ctp_complete_all (size l) l (le_n _)) r th). Qed.

Definition wf_state (st:resolver) : Prop := forall v, wf (eres (rs_lookup st v)) = true.

Lemma wf_state_nil : wf_state [].
Proof. intros v. reflexivity. Qed.

(** every unifier of what has been fed so far stays a fixpoint of the classes' types *)
Lemma update_one_complete th st x d :
  consistent st -> fix_of th st -> wf_state st -> th x = app th d -> wf d = true ->
  exists st1 R, update_one later enum st (x, d) = UOk st1 R false /\
    consistent st1 /\ fix_of th st1 /\ wf_state st1 /\ sat th R /\ wf_rels R.
Proof.
  intros C F W E Wd. unfold update_one. cbn [fst snd].
  set (e1 := rs_lookup st x).
  destruct (C x) as (Ix & Cx). fold e1 in Ix, Cx.
  assert (F1 : forall w, In w (eset e1) -> th w = app th (eres e1)) by (intros w I; rewrite (F w), (Cx w I); reflexivity).
  assert (REG : forall e t, (forall w, In w (eset e) -> th w = app th t) -> wf t = true ->
            (forall w, In w (eset e) -> forall u, In u (eset (rs_lookup st w)) -> In u (eset e)) ->
            eres e = t ->
            consistent (rs_register enum st e) /\ fix_of th (rs_register enum st e) /\ wf_state (rs_register enum st e)).
  { intros e t FX Wt CL <-. split; [apply consistent_register; auto|]. split.
    - intros w. rewrite rs_lookup_register. destruct (existsb (Nat.eqb w) (eset e)) eqn:EX; [|apply F].
      apply existsb_eqb_iff in EX. auto.
    - intros w. rewrite rs_lookup_register. destruct (existsb (Nat.eqb w) (eset e)); [exact Wt|apply W]. }
  assert (NONVAR : (forall y, d <> TVar y) -> exists st1 R,
     match Resolver.ctp later (eres e1) d with
     | COk t R g => match R with [] => UOk st [] g | _ => UOk (rs_register enum st (mkEI (eset e1) t)) R g end
     | CPanic => UPanic end = UOk st1 R false /\
     consistent st1 /\ fix_of th st1 /\ wf_state st1 /\ sat th R /\ wf_rels R).
  { intros _. assert (E1 : app th (eres e1) = app th d) by (rewrite <- E; symmetry; apply (F x)).
    destruct (ctp_complete _ _ th (W x) Wd E1) as (t & R & CT & S & A & Wt & WR).
    fold e1 in CT. rewrite CT. destruct R as [|r0 R].
    - exists st, []. repeat split; auto; try apply C.
    - destruct (REG (mkEI (eset e1) t) t) as (C1 & F2 & W2); cbn [eset eres]; auto.
      + intros w I. rewrite (F1 w I). symmetry. exact A.
      + intros w Iw u Iu. rewrite (Cx w Iw) in Iu. exact Iu.
      + exists (rs_register enum st (mkEI (eset e1) t)), (r0 :: R). repeat split; auto; apply C1. }
  destruct d as [y|a|d1 d2]; [|apply NONVAR; discriminate|apply NONVAR; discriminate].
  set (e2 := rs_lookup st y).
  destruct (C y) as (Iy & Cy). fold e2 in Iy, Cy.
  assert (F2 : forall w, In w (eset e2) -> th w = app th (eres e2)) by (intros w I; rewrite (F w), (Cy w I); reflexivity).
  assert (E12 : app th (eres e1) = app th (eres e2)).
  { rewrite <- (F1 x Ix), <- (F2 y Iy). exact E. }
  destruct (ctp_complete _ _ th (W x) (W y) E12) as (t & R & CT & S & A & Wt & WR).
  fold e1 e2 in CT. rewrite CT.
  destruct (REG (mkEI (eqs_union enum (eset e1) (eset e2)) t) t) as (C1 & F3 & W3); cbn [eset eres]; auto.
  - intros w I. apply eqs_union_in in I. destruct I as [I|I]; [rewrite (F1 w I)|rewrite (F2 w I), <- E12]; symmetry; exact A.
  - intros w Iw u Iu. apply eqs_union_in. apply eqs_union_in in Iw. destruct Iw as [Iw|Iw].
    + left. rewrite (Cx w Iw) in Iu. exact Iu.
    + right. rewrite (Cy w Iw) in Iu. exact Iu.
  - eexists _, R. repeat split; auto; apply C1.
Qed.

Lemma update_round_complete th : forall rels st,
  consistent st -> fix_of th st -> wf_state st -> sat th rels -> wf_rels rels ->
  exists st1 R, update_round later enum st rels = UOk st1 R false /\
    consistent st1 /\ fix_of th st1 /\ wf_state st1 /\ sat th R /\ wf_rels R.
Proof.
  induction rels as [|(x,d) rest IH]; intros st C F W S WR; cbn [update_round].
  - exists st, []. repeat split; auto using sat_nil, wf_rels_nil; apply C.
  - destruct (update_one_complete th st x d C F W) as (sa & Ra & U1 & Ca & Fa & Wa & Sa & WRa).
    { apply S; left; reflexivity. } { apply (WR x d); left; reflexivity. }
    rewrite U1.
    destruct (IH sa Ca Fa Wa) as (sb & Rb & U2 & Cb & Fb & Wb & Sb & WRb).
    { intros a b I; apply S; right; exact I. } { intros a b I; apply (WR a b); right; exact I. }
    rewrite U2. exists sb, (Ra ++ Rb). split; [reflexivity|].
    repeat split; auto; try apply Cb; [apply sat_app; auto|apply wf_rels_app; auto].
Qed.

(** under a unifier the loop never panics and never ignores a clash: it ends (or runs out of fuel)
    in a state of which the unifier is still a fixpoint *)
Lemma update_resolver_complete th : forall n rels st,
  consistent st -> fix_of th st -> wf_state st -> sat th rels -> wf_rels rels ->
  update_resolver later enum n st rels = LFuel \/
  exists st', update_resolver later enum n st rels = LDone st' false /\
    consistent st' /\ fix_of th st' /\ wf_state st'.
Proof.
  induction n as [|n IH]; intros rels st C F W S WR; cbn [update_resolver]; [left; reflexivity|].
  destruct (update_round_complete th rels st C F W S WR) as (s1 & R1 & U & C1 & F1 & W1 & S1 & WR1).
  rewrite U. destruct R1 as [|r1 R1].
  - right. exists s1. auto.
  - destruct (IH (r1 :: R1) s1 C1 F1 W1 S1 WR1) as [E|(s2 & E & C2 & F2 & W2)]; rewrite E.
    + left; reflexivity.
    + right. exists s2. auto.
Qed.

Lemma trans_tv_app th f t a : trans_tv f t = ROk a ->
  (forall w tw, occurs w t = true -> f w = ROk tw -> app th tw = th w) -> app th a = app th t.
Proof. revert a. induction t as [x|c|t1 IH1 t2 IH2]; intros a H K; cbn in H.
  - cbn. apply K; [cbn; apply Nat.eqb_refl|exact H].
  - injection H as <-. reflexivity.
  - destruct (trans_tv f t1) as [a1| |] eqn:E1; try discriminate.
    destruct (trans_tv f t2) as [a2| |] eqn:E2; try discriminate. injection H as <-. cbn. f_equal.
    + apply IH1; auto. intros w tw O; apply K; cbn; rewrite O; reflexivity.
    + apply IH2; auto. intros w tw O; apply K; cbn; rewrite O; apply orb_true_r. Qed.

Lemma resolve_factors th st : fix_of th st -> forall n p v t,
  resolve n p st v = ROk t -> app th t = th v.
Proof.
  intros F. induction n as [|n IH]; intros p v t H; cbn in H; [discriminate|].
  destruct (existsb (Nat.eqb v) p); [discriminate|].
  assert (K : trans_tv (resolve n (v :: p) st) (eres (rs_lookup st v)) = ROk t -> app th t = th v).
  { intros T. rewrite (F v). eapply trans_tv_app; eauto. }
  destruct (eres (rs_lookup st v)) as [y|c|r1 r2] eqn:RC; [|apply K; exact H|apply K; exact H].
  destruct (Nat.eqb y v) eqn:E; [|apply K; exact H].
  apply Nat.eqb_eq in E. subst y. injection H as <-. reflexivity.
Qed.

Lemma rels_of_complete th : forall es,
  (forall l r, In (l,r) es -> wf l = true /\ wf r = true) -> unifies th es ->
  exists R, rels_of later es = Some (R, false) /\ sat th R /\ wf_rels R.
Proof.
  induction es as [|(l,r) es IH]; intros W U; cbn [rels_of].
  - exists []. auto using sat_nil, wf_rels_nil.
  - destruct (W l r (or_introl eq_refl)) as (Wl & Wr).
    destruct (ctp_complete l r th Wl Wr (U l r (or_introl eq_refl))) as (t & R1 & C & S1 & _ & _ & WR1).
    unfold unify_type. rewrite C.
    destruct IH as (R2 & E & S2 & WR2).
    { intros a b I; apply W; right; exact I. } { intros a b I; apply U; right; exact I. }
    rewrite E. exists (R1 ++ R2). split; [reflexivity|]. split; [apply sat_app; auto|apply wf_rels_app; auto].
Qed.

(** resolver_most_general: on unifiable (well-formed) equations fc's resolver never panics and never
    ignores a clash, and every unifier factors through the substitution it induces *)
Theorem resolver_most_general : forall n es th,
  (forall l r, In (l,r) es -> wf l = true /\ wf r = true) -> unifies th es ->
  solve later enum n es = SFuel \/
  exists st, solve later enum n es = SSolved st false /\
    forall m v t, resolve m [] st v = ROk t -> app th t = th v.
Proof.
  intros n es th W U. unfold solve.
  destruct (rels_of_complete th es W U) as (R & E & S & WR). rewrite E.
  destruct (update_resolver_complete th n R [] consistent_nil) as [F|(st & F & C & FX & WS)]; auto.
  - intros v. reflexivity.
  - apply wf_state_nil.
  - rewrite F. left; reflexivity.
  - rewrite F. right. exists st. split; [reflexivity|]. intros m v t H. eapply resolve_factors; eauto.
Qed.

End Proofs.

(* ================================================================== Part 3: agreement with Robinson, and what goes wrong *)
Section Agreement.
Variable later : nat -> nat -> bool.
Variable enum : list nat -> list nat.
Hypothesis enum_ok : forall l x, In x (enum l) <-> In x l.

(** On every (well-formed) equation set that Robinson unification solves, fc's resolver - when its loop
    ends and every variable resolves - ignores no clash, also solves the equations, and its
    substitution [rho] and Robinson's [sg] are instances of each other (sg o rho = sg and
    rho o sg = rho): both are most general unifiers, equal up to renaming of the remaining variables. *)
Theorem resolver_agrees_with_unify : forall k es sg n st g m,
  (forall l r, In (l,r) es -> wf l = true /\ wf r = true) ->
  unify k es = Ok sg ->
  solve later enum n es = SSolved st g ->
  (forall v, exists t, resolve m [] st v = ROk t) ->
  g = false /\
  unifies (induced m st) es /\
  (forall v, app_seq sg (induced m st v) = app_seq sg (TVar v)) /\
  (forall t, app (induced m st) (app_seq sg t) = app (induced m st) t).
Proof.
  intros k es sg n st g m W UN SO ALL.
  set (ths := fun v => app_seq sg (TVar v)).
  assert (US : unifies ths es).
  { intros l r I. unfold ths. rewrite <- !app_seq_app. apply (unify_sound _ _ _ UN); exact I. }
  destruct (resolver_most_general later enum enum_ok n es ths W US) as [F|(st' & F & MG)]; [rewrite SO in F; discriminate F|].
  rewrite SO in F. injection F as <- ->.
  assert (SOUND : unifies (induced m st) es) by (eapply resolver_sound; eauto).
  split; [reflexivity|]. split; [exact SOUND|]. split.
  - intros v. unfold induced. destruct (ALL v) as (t & Hv). rewrite Hv.
    rewrite (app_seq_app sg t). apply (MG m v t Hv).
  - intros t. apply (unify_mgu _ _ _ UN _ SOUND).
Qed.

End Agreement.

Definition enum_id (l:list nat) : list nat := l.
Lemma enum_id_ok : forall l x, In x (enum_id l) <-> In x l.
Proof. intros; reflexivity. Qed.

(** compositeTp's last case ("both type is concrete") silently ignores a clash of two base types:
    T0 = int together with T0 = string is "solved" by T0 := int.  So [resolver_sound] needs its
    hypothesis that no clash was ignored, and fc accepts some ill-typed programs. *)
Example resolver_ignores_base_clash :
  let es := [(TVar 0, tint); (TVar 0, tstring)] in
  (forall th, ~ unifies th es) /\
  exists st, solve Nat.ltb enum_id 10 es = SSolved st true /\
             resolve 10 [] st 0 = ROk tint /\
             ~ unifies (induced 10 st) es.
Proof.
  cbn zeta. split.
  - intros th U. pose proof (U _ _ (or_introl eq_refl)) as A.
    pose proof (U _ _ (or_intror (or_introl eq_refl))) as B. vm_compute in A, B. congruence.
  - eexists. split; [vm_compute; reflexivity|]. split; [vm_compute; reflexivity|].
    intros U. pose proof (U _ _ (or_intror (or_introl eq_refl))) as B. vm_compute in B. discriminate.
Qed.

(** a mismatch of a slice/function/tuple against something else is a panic, not a diagnostic *)
Example resolver_panics_on_shape_clash :
  solve Nat.ltb enum_id 10 [(TVar 0, tint); (TVar 0, tslice tint)] = SPanic.
Proof. vm_compute. reflexivity. Qed.

(** The loop of updateResolver can diverge (there is no occurs check before resolution):
    T1 = []T1 together with T1 = [][]T1 re-creates the relation T1 -> []T1 in every pass. *)
Definition es_div : list eqn := [(TVar 1, tslice (TVar 1)); (TVar 1, tslice (tslice (TVar 1)))].
Definition e_star : einfo := mkEI [1] (tslice (tslice (TVar 1))).
Definition r_star : list rel := [(1, tslice (TVar 1)); (1, tslice (TVar 1))].

Lemma div_one st : rs_lookup st 1 = e_star ->
  exists st', update_one Nat.ltb enum_id st (1, tslice (TVar 1)) = UOk st' [(1, tslice (TVar 1))] false /\
              rs_lookup st' 1 = e_star.
Proof.
  intros L. unfold update_one. cbn [fst snd]. unfold tslice at 1. cbv iota. rewrite L.
  assert (C : Resolver.ctp Nat.ltb (eres e_star) (TNode (TAtom a_slice) (TVar 1)) =
              COk (tslice (tslice (TVar 1))) [(1, tslice (TVar 1))] false) by (vm_compute; reflexivity).
  rewrite C. eexists. split; [reflexivity|].
  rewrite (rs_lookup_register enum_id enum_id_ok). reflexivity.
Qed.

Lemma div_round st : rs_lookup st 1 = e_star ->
  exists st', update_round Nat.ltb enum_id st r_star = UOk st' r_star false /\ rs_lookup st' 1 = e_star.
Proof.
  intros L. unfold r_star. cbn [update_round].
  destruct (div_one st L) as (s1 & U1 & L1). rewrite U1.
  destruct (div_one s1 L1) as (s2 & U2 & L2). rewrite U2.
  eexists. split; [reflexivity|exact L2].
Qed.

Lemma div_loop : forall n st, rs_lookup st 1 = e_star -> update_resolver Nat.ltb enum_id n st r_star = LFuel.
Proof.
  induction n as [|n IH]; intros st L; [reflexivity|].
  destruct (div_round st L) as (st' & U & L'). cbn [update_resolver]. rewrite U. unfold r_star at 1.
  fold r_star. rewrite (IH st' L'). reflexivity.
Qed.

Theorem update_resolver_can_diverge : forall n, solve Nat.ltb enum_id n es_div = SFuel.
Proof.
  intros n. unfold solve.
  change (rels_of Nat.ltb es_div) with (Some ([(1, tslice (TVar 1)); (1, tslice (tslice (TVar 1)))], false)).
  destruct n as [|n]; [reflexivity|]. cbn [update_resolver].
  assert (R1 : update_round Nat.ltb enum_id [] [(1, tslice (TVar 1)); (1, tslice (tslice (TVar 1)))] =
               UOk [(1, e_star); (1, mkEI [1] (tslice (TVar 1)))] r_star false) by (vm_compute; reflexivity).
  rewrite R1. unfold r_star at 1. fold r_star. rewrite div_loop; reflexivity.
Qed.

Theorem resolver_sound_without_flag_refuted :
  exists es st, (forall th, ~ unifies th es) /\
    solve Nat.ltb enum_id 10 es = SSolved st true /\
    (forall v, exists t, resolve 10 [] st v = ROk t) /\
    ~ unifies (induced 10 st) es.
Proof.
  exists [(TVar 0, tint); (TVar 0, tstring)], [(0, mkEI [0] tint)].
  split.
  { intros th U. pose proof (U _ _ (or_introl eq_refl)) as A.
    pose proof (U _ _ (or_intror (or_introl eq_refl))) as B. vm_compute in A, B. congruence. }
  split; [vm_compute; reflexivity|]. split.
  - intros v. destruct v as [|v]; [eexists; vm_compute; reflexivity|].
    exists (TVar (S v)). cbn. rewrite Nat.eqb_refl. reflexivity.
  - intros U. pose proof (U _ _ (or_intror (or_introl eq_refl))) as B. vm_compute in B. discriminate.
Qed.
