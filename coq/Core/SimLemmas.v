(** C01 — lemmas about the relations of Core/SimDefs.v *)
From Coq Require Import List ZArith String Ascii Bool Lia.
From FoVerif Require Import Core.Common Core.CommonProofs Core.Lib Core.MiniFo Core.MiniGo Core.Compile
  Core.GoRules Core.SimDefs.
Import ListNotations.
Open Scope list_scope.

Section Lemmas.
Variable d : dialect.
Variable ctor_ok : string -> string -> bool -> Prop.
Notation compile := (Compile.compile d).
Notation compile_block := (Compile.compile_block d).
Notation compile_list := (Compile.compile_list d).
Notation compile_arms := (Compile.compile_arms d).
Notation compile_sarms := (Compile.compile_sarms d).
Notation switch_u := (Compile.switch_u d).
Notation switch_s := (Compile.switch_s d).
Notation nv := (Compile.nv d).
Notation nvb := (Compile.nvb d).
Notation nva := (Compile.nva d).
Notation nvs := (Compile.nvs d).

Variable sfuns : list (var * (list var * block)).
Variable gfuncs : list (var * (list var * list gstmt)).
Variable gvars : list (var * gexpr).

Notation wfe := (wfe true ctor_ok).
Notation wfb := (wfb true ctor_ok).
Notation vrel := (vrel d ctor_ok gfuncs).
Notation erel := (erel d ctor_ok gfuncs).
Notation peval := (peval d ctor_ok gfuncs).
Notation pevals := (pevals d ctor_ok gfuncs).
Notation Geval := (Geval gfuncs gvars).
Notation Gevals := (Gevals gfuncs gvars).
Notation Gexec := (Gexec gfuncs gvars).
Notation Gapply := (Gapply gfuncs gvars).
Notation Glib := (Glib gfuncs gvars).
Notation glookup := (glookup gfuncs).

Hypothesis Hfuns : forall f ps b, lookup f sfuns = Some (ps, b) ->
  exists k, lookup f gfuncs = Some (ps, compile_block k b) /\
            Forall (fun x => reserved x = false) ps /\ wfb b.
Hypothesis Hctor1 : forall u c, ctor_ok u c true ->
  lookup (ctor_name u c) gfuncs =
  Some (["v"%string], [GSReturn (GStructLit (case_struct u c) ["Value"%string] [("Value"%string, GVar "v"%string)])]).
Hypothesis Hctor0 : forall u c, ctor_ok u c false ->
  lookup (ctor_name u c) gfuncs = None /\
  lookup (ctor_name u c) gvars = Some (GStructLit (case_struct u c) [] []).

(** ** equiv *)
Lemma equiv_refl g : equiv g g.
Proof. intros x _; reflexivity. Qed.
Lemma equiv_trans a b c : equiv a b -> equiv b c -> equiv a c.
Proof. intros H1 H2 x R; rewrite H2, H1 by assumption; reflexivity. Qed.
Lemma equiv_cons_tmp g y (v:gval) : is_tmp y = true -> equiv g ((y, v) :: g).
Proof. intros T x R. apply lookup_cons_neq. intros ->; congruence. Qed.

Lemma bind_tmps_equiv ps : forall (vs:list gval) env env',
  (forall x, In x ps -> is_tmp x = true) -> bind ps vs env = Some env' -> equiv env env'.
Proof.
  intros vs env env' T B x R. apply (bind_lookup_notin _ _ _ _ _ B).
  intros H; apply T in H; congruence.
Qed.
Lemma bind_rnames_equiv k i (vs:list gval) env env' :
  bind (rnames k i) vs env = Some env' -> equiv env env'.
Proof. apply bind_tmps_equiv. intros x; apply rnames_tmp. Qed.

Lemma glookup_equiv g g' x : equiv g g' -> is_tmp x = false -> glookup x g' = glookup x g.
Proof. intros Q R; unfold GoRules.glookup; rewrite (Q x R); reflexivity. Qed.

(** ** erel *)
Lemma erel_nil : erel [] [].
Proof. repeat split; intros; cbn in *; try discriminate; reflexivity. Qed.

Lemma erel_equiv senv g g' : erel senv g -> equiv g g' -> erel senv g'.
Proof.
  intros (E1 & E2 & E3) Q. repeat split.
  - intros x v R L. destruct (reserved_false _ R) as [T _].
    destruct (E1 x v R L) as (gv & L' & V); exists gv; split; [rewrite (Q x T); exact L' | exact V].
  - intros x R L. destruct (reserved_false _ R) as [T _]. rewrite (Q x T); auto.
  - intros x C. rewrite (Q x (ctor_like_not_tmp _ C)); auto.
Qed.

Lemma erel_tmp senv g y v : erel senv g -> is_tmp y = true -> erel senv ((y, v) :: g).
Proof. intros E T. eapply erel_equiv; [exact E|apply equiv_cons_tmp; exact T]. Qed.

Lemma erel_bind1 senv g x v gv :
  reserved x = false -> vrel v gv -> erel senv g -> erel ((x, v) :: senv) ((x, gv) :: g).
Proof.
  intros R V (E1 & E2 & E3). repeat split.
  - intros y w Ry L. cbn in *. destruct (String.eqb y x); [inversion L; subst; eauto | apply E1; assumption].
  - intros y Ry L. cbn in *. destruct (String.eqb y x); [discriminate | apply E2; assumption].
  - intros y C. cbn. destruct (String.eqb y x) eqn:Eq.
    + apply String.eqb_eq in Eq; subst. destruct (reserved_false _ R); congruence.
    + apply E3; assumption.
Qed.

Lemma bind_erel ps : forall vs gvs senv genv senv' genv',
  Forall (fun p => reserved p = false) ps ->
  erel senv genv -> Forall2 vrel vs gvs ->
  bind ps vs senv = Some senv' -> bind ps gvs genv = Some genv' -> erel senv' genv'.
Proof.
  induction ps as [|p ps IH]; intros vs gvs senv genv senv' genv' F E V B1 B2;
    destruct vs, gvs; cbn in *; try discriminate; inversion V; subst.
  - inversion B1; inversion B2; subst; exact E.
  - inversion F; subst. eapply IH; [eassumption| |eassumption|exact B1|exact B2].
    apply erel_bind1; assumption.
Qed.

Lemma bind_rel_exists ps : forall (vs:list val) (gvs:list gval) senv senv' genv,
  bind ps vs senv = Some senv' -> List.length vs = List.length gvs ->
  exists genv', bind ps gvs genv = Some genv'.
Proof.
  intros vs gvs senv senv' genv B L. apply bind_length.
  rewrite (bind_some_length _ _ _ _ B). exact L.
Qed.

(** ** variables *)
Lemma var_sim senv genv x v :
  erel senv genv -> reserved x = false -> lookup_var sfuns x senv = Some v ->
  exists gv, glookup x genv = Some gv /\ vrel v gv.
Proof.
  intros (E1 & E2 & E3) R L. unfold lookup_var in L. unfold GoRules.glookup.
  destruct (lookup x senv) as [v0|] eqn:Ls.
  - inversion L; subst. destruct (E1 _ _ R Ls) as (gv & Lg & V). exists gv. rewrite Lg. auto.
  - rewrite (E2 _ R Ls).
    destruct (lookup x sfuns) as [[ps b]|] eqn:Lf; [|discriminate]. inversion L; subst.
    destruct (Hfuns _ _ _ Lf) as (k & Lg & Fp & Wb). rewrite Lg.
    eexists; split; [reflexivity|].
    constructor; auto; intros; cbn in *; try discriminate; reflexivity.
Qed.

(** ** temporaries as arguments *)
Lemma bind_rnames_vars k : forall i (vs:list gval) env env' t rest rvs t2,
  bind (rnames k i) vs env = Some env' ->
  Gevals env' rest t rvs t2 ->
  Gevals env' (map GVar (rnames k i) ++ rest) t (vs ++ rvs) t2.
Proof.
  induction k as [|k IH]; intros i [|v vs] env env' t rest rvs t2 B G; cbn in B; try discriminate.
  - exact G.
  - cbn [rnames map app]. eapply Gs_cons; [apply G_var | eapply IH; eauto].
    unfold GoRules.glookup. rewrite (bind_lookup_notin _ _ _ _ _ B).
    + rewrite lookup_cons_eq; reflexivity.
    + intros H; destruct (rnames_In _ _ _ H) as (j & Hj & E); apply rname_inj in E; lia.
Qed.

(** ** pure arguments *)
Lemma tuple_pure (gvs:list gval) n :
  n = List.length gvs -> two_or_three n ->
  lib_pure gops (tuple_fn n) gvs = Some (GVStruct (tuple_struct (List.length gvs)) (combine tuple_fields gvs)).
Proof.
  intros -> T.
  destruct gvs as [|a [|b [|c [|d0 gvs]]]]; cbn [List.length] in *; destruct T as [T|T]; try discriminate T;
    reflexivity.
Qed.

Lemma combine_fst {A B} : forall (l1:list A) (l2:list B), List.length l1 = List.length l2 -> map fst (combine l1 l2) = l1.
Proof. induction l1; intros [|b l2] L; cbn in *; try discriminate; auto. f_equal; auto. Qed.
Lemma combine_snd {A B} : forall (l1:list A) (l2:list B), List.length l1 = List.length l2 -> map snd (combine l1 l2) = l2.
Proof. induction l1; intros [|b l2] L; cbn in *; try discriminate; auto. f_equal; auto. Qed.
Lemma compile_list_length : forall es k, List.length (compile_list k es) = List.length es.
Proof. induction es; intros; cbn; auto. Qed.

Lemma pevals_length env : forall args k gws, pevals env k args gws -> List.length args = List.length gws.
Proof. induction args; intros k gws P; inversion P; subst; cbn; eauto. Qed.

Lemma Gs_close genv (ces:list gexpr) t (gs:list gval) t' :
  (forall rest rvs t2, Gevals genv rest t' rvs t2 -> Gevals genv (ces ++ rest) t (gs ++ rvs) t2) ->
  Gevals genv ces t gs t'.
Proof. intros G. specialize (G [] [] t' (Gs_nil _ _ _ _)). rewrite !app_nil_r in G. exact G. Qed.

Lemma peval_Geval_mut env :
  (forall k a gv, peval env k a gv -> forall t, Geval env (compile k a) t gv t) /\
  (forall k es gvs, pevals env k es gvs -> forall rest t rvs t',
     Gevals env rest t rvs t' -> Gevals env (compile_list k es ++ rest) t (gvs ++ rvs) t').
Proof.
  apply (peval_mutind d ctor_ok gfuncs env
       (fun k a gv => forall t, Geval env (compile k a) t gv t)
       (fun k es gvs => forall rest t rvs t', Gevals env rest t rvs t' ->
                          Gevals env (compile_list k es ++ rest) t (gvs ++ rvs) t'));
    try (intros; apply G_func; fail);
    try (intros; cbn [compile]; auto using G_int, G_str, G_bool, G_var, G_func; fail).
  - intros. cbn [compile]. eapply G_arith; eauto.
  - intros. cbn [compile]. eapply G_and_false; eauto.
  - intros. cbn [compile]. eapply G_and_true; eauto.
  - intros. cbn [compile]. eapply G_or_true; eauto.
  - intros. cbn [compile]. eapply G_or_false; eauto.
  - intros k neg a b ga gb r Pa IHa Pb IHb Q t. cbn [compile].
    eapply G_libcall; [eapply Gs_cons; [apply IHa|eapply Gs_cons; [apply IHb|apply Gs_nil]]|].
    apply Gl_pure; [destruct neg; reflexivity|]. destruct neg; cbn [lib_pure gops veq]; rewrite Q; reflexivity.
  - intros k a b Pa IHa t. cbn [compile].
    eapply G_libcall; [eapply Gs_cons; [apply IHa|apply Gs_nil]|]. apply Gl_pure; reflexivity.
  - intros k es gvs Ps IHs T t.
    change (compile k (ETuple es)) with (GCall (GLib (tuple_fn (List.length es))) (compile_list k es)).
    eapply G_libcall; [apply Gs_close; intros; apply IHs; eassumption|].
    apply Gl_pure; [destruct T as [T|T]; rewrite T; reflexivity|].
    apply tuple_pure; [apply (pevals_length _ _ _ _ Ps)|assumption].
  - intros k n decl fs es gvs gfs Ps IHs L A t.
    change (compile k (ERecord n decl fs es)) with (GStructLit n decl (combine fs (compile_list k es))).
    assert (Lc : List.length fs = List.length (compile_list k es)) by (rewrite compile_list_length; assumption).
    eapply G_struct.
    + rewrite (combine_snd _ _ Lc). apply Gs_close; intros; apply IHs; eassumption.
    + rewrite (combine_fst _ _ Lc). exact A.
  - intros. cbn [compile]. eapply G_sel; eauto.
  - intros k u c Hc Le t. cbn [compile]. destruct (Hctor0 _ _ Hc) as (L1 & L2).
    eapply G_var_pkgvar; [exact Le|exact L1|exact L2|].
    eapply G_struct; [apply Gs_nil|reflexivity].
  - intros k u c a ga Hc Le Pa IHa t. cbn [compile]. eapply G_call.
    + apply G_var. unfold GoRules.glookup. rewrite Le. rewrite (Hctor1 _ _ Hc). reflexivity.
    + eapply Gs_cons; [apply IHa|apply Gs_nil].
    + change (GVStruct (case_struct u c) [("Value"%string, ga)])
        with (ret_val (Some (GVStruct (case_struct u c) [("Value"%string, ga)]))).
      eapply Ga_clo; [reflexivity|]. eapply Gx_return.
      eapply G_struct; [cbn [map snd]; eapply Gs_cons; [apply G_var; reflexivity|apply Gs_nil]|reflexivity].
  - intros k es gvs Ps IHs t.
    change (compile k (ESlice es)) with (GSliceLit (compile_list k es)).
    apply G_slice. apply Gs_close; intros; apply IHs; eassumption.
  - intros k e es gv gvs Pe IHe Ps IHs rest t rvs t' G. cbn [compile_list app].
    eapply Gs_cons; [apply IHe|apply IHs; exact G].
Qed.

Lemma peval_Geval env k a gv t : peval env k a gv -> Geval env (compile k a) t gv t.
Proof. intros P. apply (proj1 (peval_Geval_mut env)); exact P. Qed.

Lemma pevals_Gevals env : forall args k gws rest t rvs t',
  pevals env k args gws -> Gevals env rest t rvs t' ->
  Gevals env (compile_list k args ++ rest) t (gws ++ rvs) t'.
Proof. intros args k gws rest t rvs t' P G. apply (proj2 (peval_Geval_mut env) _ _ _ P); exact G. Qed.

(** ** arranging the fields of a record value *)
Lemma lookup_rel f : forall fs gfs v,
  Forall2 (fun a b => fst a = fst b /\ vrel (snd a) (snd b)) fs gfs ->
  lookup f fs = Some v -> exists gv, lookup f gfs = Some gv /\ vrel v gv.
Proof.
  induction fs as [|[g w] fs IH]; intros gfs v F L; cbn in L; [discriminate|].
  inversion F as [|? [g' gw] ? ? [Eq Vw] F']; subst. cbn in Eq, Vw; subst g'. cbn.
  destruct (String.eqb f g); [inversion L; subst; eauto|eauto].
Qed.

Lemma arrange_rel decl : forall a ga fs,
  Forall2 (fun a b => fst a = fst b /\ vrel (snd a) (snd b)) a ga ->
  arrange decl a = Some fs ->
  exists gfs, arrange decl ga = Some gfs /\ Forall2 (fun a b => fst a = fst b /\ vrel (snd a) (snd b)) fs gfs.
Proof.
  unfold arrange. induction decl as [|f decl IH]; intros a ga fs F H; cbn in H |- *.
  - inversion H; subst. exists []; split; [reflexivity|constructor].
  - destruct (lookup f a) as [v|] eqn:L; cbn in H; [|discriminate].
    destruct (all_some (map (fun f0 => option_map (pair f0) (lookup f0 a)) decl)) as [r|] eqn:R; cbn in H; [|discriminate].
    inversion H; subst.
    destruct (lookup_rel _ _ _ _ F L) as (gv & Lg & V). rewrite Lg. cbn.
    destruct (IH _ _ _ F R) as (gr & Rg & Fr). rewrite Rg. cbn.
    eexists; split; [reflexivity|]. constructor; [cbn; auto|exact Fr].
Qed.

(** ** unit blocks *)
Lemma check_unit_inv u v t v' t' :
  check_unit u v t = Done v' t' -> t' = t /\ (if u then v = VUnit /\ v' = VUnit else v' = v).
Proof.
  unfold check_unit; destruct u; [destruct v; intros H; inversion H; subst; auto | intros H; inversion H; auto].
Qed.

Lemma eval_block_unit n : forall env b t v t',
  eval_block sfuns n env b t = Done v t' -> block_unit b = true -> v = VUnit.
Proof.
  induction n as [|n IH]; intros env b t v t' H U; [discriminate|].
  destruct b; cbn [eval evals eval_block apply] in H; cbn in U.
  - destruct (eval sfuns n env e t) as [v1 t1| |]; cbn [rbind] in H; try discriminate. eauto.
  - destruct (eval sfuns n env e t) as [v1 t1| |]; cbn [rbind] in H; try discriminate.
    destruct v1; try discriminate. destruct (bind xs vs env); try discriminate. eauto.
  - destruct (eval sfuns n env e t) as [v1 t1| |]; cbn [rbind] in H; try discriminate. eauto.
  - destruct (eval sfuns n env e t) as [v1 t1| |]; cbn [rbind] in H; try discriminate.
    subst isunit. apply check_unit_inv in H. destruct H as (_ & _ & ->). reflexivity.
Qed.

(** ** first-order observers agree on related values *)
Lemma vrel_asInt v gv : vrel v gv -> asInt gops gv = asInt sops v.
Proof. intros V; inversion V; reflexivity. Qed.
Lemma vrel_asStr v gv : vrel v gv -> asStr gops gv = asStr sops v.
Proof. intros V; inversion V; reflexivity. Qed.
Lemma vrel_asBool v gv : vrel v gv -> asBool gops gv = asBool sops v.
Proof. intros V; inversion V; reflexivity. Qed.

Lemma vrel_int_inv z gv : vrel (VInt z) gv -> gv = GVInt z.
Proof. intros V; inversion V; reflexivity. Qed.
Lemma vrel_str_inv s gv : vrel (VStr s) gv -> gv = GVStr s.
Proof. intros V; inversion V; reflexivity. Qed.
Lemma vrel_bool_inv b gv : vrel (VBool b) gv -> gv = GVBool b.
Proof. intros V; inversion V; reflexivity. Qed.

Lemma arith_sim op va vb ga gb v :
  vrel va ga -> vrel vb gb -> arith sops op va vb = Some v ->
  exists gv, arith gops op ga gb = Some gv /\ vrel v gv.
Proof.
  intros Va Vb A. unfold arith in *.
  rewrite (vrel_asInt _ _ Va), (vrel_asInt _ _ Vb), (vrel_asStr _ _ Va), (vrel_asStr _ _ Vb).
  destruct op; try discriminate;
    try (destruct (asInt sops va), (asInt sops vb); try discriminate; inversion A; subst;
         eexists; split; [reflexivity|constructor]; fail).
  - (* / *)
    destruct (asInt sops va) as [x|], (asInt sops vb) as [y|]; try discriminate.
    destruct (Z.eqb y 0); [discriminate|]. inversion A; subst. eexists; split; [reflexivity|constructor].
  - destruct (asStr sops va), (asStr sops vb); try discriminate; inversion A; subst;
      eexists; split; [reflexivity|constructor].
Qed.

End Lemmas.
