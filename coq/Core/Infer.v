(** C02 — reference type inference for the inference fragment of Folang (definitions only).

    * types: the binary-encoded first-order terms of Core/Unify.v with the constructors below;
    * a small typed-expression language (the C02 domain): variables, literals, primitive
      applications (operators, tuples, slice literals, if/else, record construction, field access,
      union constructors, globals with a possibly generic signature — every one of them typed by a
      *scheme*, instantiated freshly per reference), application of a function-typed local,
      [let], tuple-destructuring [let], lambda;
    * a declarative typing judgement [has] (monomorphic locals, generic globals);
    * constraint generation [gen] with an explicit fresh-variable counter;
    * [infer_fun] = constraints + [unify] + generalisation renaming the leftover variables
      T0, T1, ... by first occurrence in the parameter list, then the result;
    * [sig_to_go]: the Go signature text as fc prints it (fc/stmt_to_go.fo rfdToGo,
      fc/ftype.fo FTypeToGo).

    Operators are typed as fc types them (fc/ir_factory.fo newBinOpNormal/newEqNeq and
    fc/infer.fo collectExprRel, EBinOpCall): [+ - * /] : t -> t -> t for *any* t,
    [< > <= >= && ||] : t -> t -> bool for any t, [= <>] : t -> t -> bool.

    This is a reference algorithm (classical constraint-based Hindley-Milner without
    let-polymorphism), deliberately not a transcription of infer.fo's equivalence-class resolver;
    harness/c02.go compares the two on generated programs. *)
From Coq Require Import String Ascii Arith Bool List.
From FoVerif Require Import Core.Unify.
Import ListNotations.

(* ------------------------------------------------------------------ type constructors *)
Definition a_nil := 0.
Definition a_int := 1.
Definition a_string := 2.
Definition a_bool := 3.
Definition a_tuple := 4.
Definition a_slice := 5.
Definition a_fun := 6.
Definition a_float := 7.
Definition a_named (id:nat) := 8 + id.     (* declared record / union number [id] *)

Fixpoint tlist (ts:list ty) : ty :=
  match ts with [] => TAtom a_nil | t::r => TNode t (tlist r) end.
Definition tint := TAtom a_int.
Definition tstring := TAtom a_string.
Definition tbool := TAtom a_bool.
Definition tfloat := TAtom a_float.
Definition ttuple (ts:list ty) := TNode (TAtom a_tuple) (tlist ts).
Definition tslice (t:ty) := TNode (TAtom a_slice) t.
Definition tfun (args:list ty) (r:ty) := TNode (TAtom a_fun) (TNode (tlist args) r).
Definition tnamed (id:nat) (targs:list ty) := TNode (TAtom (a_named id)) (tlist targs).

(* ------------------------------------------------------------------ schemes and declarations *)
(** a scheme quantifies the variables 0..sk-1 *)
Record scheme := mkScheme { sk : nat; sargs : list ty; sres : ty }.

Inductive tdecl :=
| DRecord (k:nat) (fields:list ty)            (* type R<T0..Tk-1> = {F0: t0; F1: t1; ...} *)
| DUnion (k:nat) (cases:list (option ty)).    (* type U<T0..Tk-1> = | C0 of t0 | C1 | ... *)

Record decls := mkDecls { d_types : list tdecl; d_globals : list scheme }.

Inductive lit := LInt | LString | LBool.
Definition lit_ty (l:lit) : ty :=
  match l with LInt => tint | LString => tstring | LBool => tbool end.

Inductive prim :=
| PArith                 (* a + b, a - b, a * b, a / b *)
| PCmp                   (* a < b, a > b, a <= b, a >= b, a && b, a || b *)
| PEq                    (* a = b, a <> b *)
| PTuple (n:nat)         (* (e1, ..., en) *)
| PSlice (n:nat)         (* [e1; ...; en], n >= 1 *)
| PIf                    (* if c then a else b *)
| PRecord (r:nat)        (* {F0=e0; F1=e1; ...} of declared record r, fields in declaration order *)
| PCtor (u c:nat)        (* case c of declared union u, applied to its payload (if any) *)
| PField (r f:nat)       (* e.Ff where e is of declared record r *)
| PGlobal (g:nat).       (* global function g; may be applied to fewer arguments than it takes *)

Definition tvars_upto (k:nat) : list ty := map TVar (seq 0 k).

Definition prim_scheme (D:decls) (p:prim) : option scheme :=
  match p with
  | PArith => Some (mkScheme 1 [TVar 0; TVar 0] (TVar 0))
  | PCmp => Some (mkScheme 1 [TVar 0; TVar 0] tbool)
  | PEq => Some (mkScheme 1 [TVar 0; TVar 0] tbool)
  | PTuple n => Some (mkScheme n (tvars_upto n) (ttuple (tvars_upto n)))
  | PSlice n => Some (mkScheme 1 (repeat (TVar 0) n) (tslice (TVar 0)))
  | PIf => Some (mkScheme 1 [tbool; TVar 0; TVar 0] (TVar 0))
  | PRecord r =>
      match nth_error (d_types D) r with
      | Some (DRecord k fields) => Some (mkScheme k fields (tnamed r (tvars_upto k)))
      | _ => None end
  | PCtor u c =>
      match nth_error (d_types D) u with
      | Some (DUnion k cases) =>
          match nth_error cases c with
          | Some (Some t) => Some (mkScheme k [t] (tnamed u (tvars_upto k)))
          | Some None => Some (mkScheme k [] (tnamed u (tvars_upto k)))
          | None => None end
      | _ => None end
  | PField r f =>
      match nth_error (d_types D) r with
      | Some (DRecord k fields) =>
          match nth_error fields f with
          | Some t => Some (mkScheme k [tnamed r (tvars_upto k)] t)
          | None => None end
      | _ => None end
  | PGlobal g => nth_error (d_globals D) g
  end.

(** only globals may be applied partially (or merely referenced: zero arguments) *)
Definition arity_ok (p:prim) (given total:nat) : bool :=
  match p with PGlobal _ => given <=? total | _ => given =? total end.

(** type of an application of a function of scheme [s] to its first [m] arguments *)
Definition res_after (s:scheme) (m:nat) : ty :=
  match skipn m (sargs s) with [] => sres s | rest => tfun rest (sres s) end.

(* ------------------------------------------------------------------ expressions *)
Inductive exp :=
| XVar (x:nat)
| XLit (l:lit)
| XPrim (p:prim) (args:list exp)
| XCallP (f:nat) (args:list exp)               (* application of a function-typed local to all its arguments *)
| XLet (x:nat) (a b:exp)                       (* let x = a  (monomorphic)  ...  b *)
| XLetTup (xs:list (option nat)) (a b:exp)     (* let (x, _, z) = a ... b ; None = "_" *)
| XLam (xs:list nat) (b:exp).                  (* fun x y -> b *)

Definition env := list (nat * ty).
Fixpoint lookup (x:nat) (G:env) : option ty :=
  match G with [] => None | (y,t)::r => if Nat.eqb x y then Some t else lookup x r end.

(** bind pattern variables (skipping "_") in front of the environment; later binders shadow earlier ones *)
Fixpoint bind (xs:list (option nat)) (ts:list ty) (G:env) : env :=
  match xs, ts with
  | Some x :: xr, t :: tr => bind xr tr ((x,t)::G)
  | None :: xr, _ :: tr => bind xr tr G
  | _, _ => G
  end.

Definition menv (th:nat->ty) (G:env) : env := map (fun '(x,t) => (x, app th t)) G.

(* ------------------------------------------------------------------ declarative typing *)
Section Typing.
Variable D : decls.

Inductive has : env -> exp -> ty -> Prop :=
| H_var G x t : lookup x G = Some t -> has G (XVar x) t
| H_lit G l : has G (XLit l) (lit_ty l)
| H_prim G p args s rho :
    prim_scheme D p = Some s ->
    arity_ok p (length args) (length (sargs s)) = true ->
    has_list G args (map (app rho) (firstn (length args) (sargs s))) ->
    has G (XPrim p args) (app rho (res_after s (length args)))
| H_callp G f args tas tr :
    lookup f G = Some (tfun tas tr) -> has_list G args tas -> has G (XCallP f args) tr
| H_let G x a b ta tb : has G a ta -> has ((x,ta)::G) b tb -> has G (XLet x a b) tb
| H_lettup G xs a b ts tb :
    length ts = length xs -> has G a (ttuple ts) -> has (bind xs ts G) b tb ->
    has G (XLetTup xs a b) tb
| H_lam G xs b ts tb :
    length ts = length xs -> has (bind (map Some xs) ts G) b tb -> has G (XLam xs b) (tfun ts tb)
with has_list : env -> list exp -> list ty -> Prop :=
| HL_nil G : has_list G [] []
| HL_cons G a r t ts : has G a t -> has_list G r ts -> has_list G (a::r) (t::ts).

(* ------------------------------------------------------------------ constraint generation *)
Fixpoint shift (b:nat) (t:ty) : ty :=
  match t with
  | TVar x => TVar (b + x)
  | TAtom a => TAtom a
  | TNode l r => TNode (shift b l) (shift b r)
  end.

Definition gen_args (ge : exp -> nat -> option (ty * list eqn * nat)) :=
  fix go (args:list exp) (n:nat) : option (list ty * list eqn * nat) :=
    match args with
    | [] => Some ([], [], n)
    | a::r =>
        match ge a n with None => None | Some (ta, ea, n1) =>
        match go r n1 with None => None | Some (ts, er, n2) =>
        Some (ta::ts, ea ++ er, n2) end end
    end.

(** [gen G e n = Some (t, es, n')]: under the solutions of [es], [e] has type [t];
    the variables n .. n'-1 are the fresh ones. *)
Fixpoint gen (G:env) (e:exp) (n:nat) : option (ty * list eqn * nat) :=
  match e with
  | XVar x => match lookup x G with Some t => Some (t, [], n) | None => None end
  | XLit l => Some (lit_ty l, [], n)
  | XPrim p args =>
      match prim_scheme D p with None => None | Some s =>
      if arity_ok p (length args) (length (sargs s)) then
        (* fresh instance per reference: the scheme's variables become n .. n+sk-1 *)
        match gen_args (gen G) args (n + sk s) with None => None | Some (tas, eas, n1) =>
        Some (shift n (res_after s (length args)),
              combine (map (shift n) (firstn (length args) (sargs s))) tas ++ eas, n1) end
      else None end
  | XCallP f args =>
      match lookup f G with None => None | Some tf =>
      match gen_args (gen G) args n with None => None | Some (tas, eas, n1) =>
      Some (TVar n1, (tf, tfun tas (TVar n1)) :: eas, S n1) end end
  | XLet x a b =>
      match gen G a n with None => None | Some (ta, ea, n1) =>
      match gen ((x,ta)::G) b n1 with None => None | Some (tb, eb, n2) =>
      Some (tb, ea ++ eb, n2) end end
  | XLetTup xs a b =>
      match gen G a n with None => None | Some (ta, ea, n1) =>
      let vs := map TVar (seq n1 (length xs)) in
      match gen (bind xs vs G) b (n1 + length xs) with None => None | Some (tb, eb, n2) =>
      Some (tb, (ta, ttuple vs) :: ea ++ eb, n2) end end
  | XLam xs b =>
      let vs := map TVar (seq n (length xs)) in
      match gen (bind (map Some xs) vs G) b (n + length xs) with None => None | Some (tb, eb, n1) =>
      Some (tfun vs tb, eb, n1) end
  end.

(* ------------------------------------------------------------------ top-level functions *)
(** parameters: name and optional (ground) annotation *)
Record fundef := mkFun { f_params : list (nat * option ty); f_body : exp }.

Definition param_names (fd:fundef) : list nat := map fst (f_params fd).

(** the function is derivable at parameter types [ptys] and result type [rty] *)
Definition ann_ok (ps:list (nat * option ty)) (ptys:list ty) : Prop :=
  forall i x a, nth_error ps i = Some (x, Some a) -> nth_error ptys i = Some a.

Definition has_fun (fd:fundef) (ptys:list ty) (rty:ty) : Prop :=
  length ptys = length (f_params fd) /\
  ann_ok (f_params fd) ptys /\
  has (combine (param_names fd) ptys) (f_body fd) rty.

(** variables in order of first occurrence (left to right = the order of the printed Go type) *)
Fixpoint fo_vars (t:ty) (acc:list nat) : list nat :=
  match t with
  | TVar x => if existsb (Nat.eqb x) acc then acc else acc ++ [x]
  | TAtom _ => acc
  | TNode l r => fo_vars r (fo_vars l acc)
  end.
Fixpoint fo_vars_list (ts:list ty) (acc:list nat) : list nat :=
  match ts with [] => acc | t::r => fo_vars_list r (fo_vars t acc) end.

Fixpoint index_of (x:nat) (l:list nat) : nat :=
  match l with [] => 0 | y::r => if Nat.eqb x y then 0 else S (index_of x r) end.

Definition rename (vs:list nat) (t:ty) : ty := app (fun x => TVar (index_of x vs)) t.

Fixpoint ann_eqs (ps:list (nat * option ty)) (i:nat) : list eqn :=
  match ps with
  | [] => []
  | (_, Some a)::r => (TVar i, a) :: ann_eqs r (S i)
  | (_, None)::r => ann_eqs r (S i)
  end.

Inductive outcome :=
| Inferred (k:nat) (ptys:list ty) (rty:ty)    (* [T0..Tk-1] ptys -> rty *)
| IllTyped
| OutOfFuel.

Definition infer_fun (fuel:nat) (fd:fundef) : outcome :=
  let np := length (f_params fd) in
  let G := combine (param_names fd) (map TVar (seq 0 np)) in
  match gen G (f_body fd) np with
  | None => IllTyped
  | Some (t, es, _) =>
      match unify fuel (ann_eqs (f_params fd) 0 ++ es) with
      | Fuel => OutOfFuel
      | Clash => IllTyped
      | Ok sg =>
          let ptys := map (fun i => app_seq sg (TVar i)) (seq 0 np) in
          let rty := app_seq sg t in
          let vs := fo_vars_list (ptys ++ [rty]) [] in
          Inferred (length vs) (map (rename vs) ptys) (rename vs rty)
      end
  end.

(** annotate parameter number [i] with the type [a] *)
Fixpoint set_ann (ps:list (nat * option ty)) (i:nat) (a:ty) : list (nat * option ty) :=
  match ps, i with
  | [], _ => []
  | (x,_)::r, O => (x, Some a) :: r
  | p::r, S j => p :: set_ann r j a
  end.
Definition annotate (fd:fundef) (i:nat) (a:ty) : fundef := mkFun (set_ann (f_params fd) i a) (f_body fd).

(** Not part of the property: does the body contain a type that neither the signature nor an
    annotation determines (e.g. the parameter of a lambda passed for an unused argument)?  fc hoists
    such variables to extra type parameters (collectTVarLfd also walks the body); the property only
    speaks about the variables of the parameter list and the result, so the harness keeps such
    functions out of its main stream. *)
Definition eq_types (es:list eqn) : list ty := flat_map (fun '(a,b) => [a;b]) es.

Definition infer_ambiguous (fuel:nat) (fd:fundef) : bool :=
  let np := length (f_params fd) in
  let G := combine (param_names fd) (map TVar (seq 0 np)) in
  match gen G (f_body fd) np with
  | None => false
  | Some (t, es, _) =>
      match unify fuel (ann_eqs (f_params fd) 0 ++ es) with
      | Ok sg =>
          let sigvars := fo_vars_list (map (fun i => app_seq sg (TVar i)) (seq 0 np) ++ [app_seq sg t]) [] in
          let all := fo_vars_list (map (app_seq sg) (eq_types es)) sigvars in
          negb (Nat.eqb (length all) (length sigvars))
      | _ => false
      end
  end.

(** Not part of the property either: does a generic record/union occur, in the signature or in the
    body, with a type argument that still contains a type variable?  (fc leaves such variables
    unresolved in some flows - known finding generic-named-args-not-unified - so the harness keeps
    these functions in its hazard stream.) *)
Fixpoint has_var (t:ty) : bool :=
  match t with TVar _ => true | TAtom _ => false | TNode l r => has_var l || has_var r end.
Fixpoint has_open_named (t:ty) : bool :=
  match t with
  | TNode l r =>
      (match l with TAtom c => Nat.leb 8 c && has_var r | _ => false end)
      || has_open_named l || has_open_named r
  | _ => false
  end.

Definition infer_open_named (fuel:nat) (fd:fundef) : bool :=
  let np := length (f_params fd) in
  let G := combine (param_names fd) (map TVar (seq 0 np)) in
  match gen G (f_body fd) np with
  | None => false
  | Some (t, es, _) =>
      match unify fuel (ann_eqs (f_params fd) 0 ++ es) with
      | Ok sg =>
          existsb has_open_named
            (map (app_seq sg) (t :: map TVar (seq 0 np) ++ eq_types es))
      | _ => false
      end
  end.

End Typing.

(* ------------------------------------------------------------------ rendering (fc's text) *)
Local Open Scope string_scope.

Fixpoint dec_aux (fuel n:nat) (acc:string) : string :=
  match fuel with
  | O => acc
  | S f =>
      let acc' := String (ascii_of_nat (48 + Nat.modulo n 10)) acc in
      if Nat.eqb (Nat.div n 10) 0 then acc' else dec_aux f (Nat.div n 10) acc'
  end.
Definition dec (n:nat) : string := dec_aux (S n) n "".

Fixpoint join (sep:string) (l:list string) : string :=
  match l with [] => "" | [x] => x | x::r => x ++ sep ++ join sep r end.

Fixpoint spine_len (t:ty) : nat := match t with TNode _ r => S (spine_len r) | _ => 0 end.

Section Render.
Variable names : nat -> string.    (* names of the declared types *)

(** FTypeToGo: int, string, bool, float64, []t, frt.TupleN[a, b], func (a,b) r, Name, Name[a, b], Ti *)
Fixpoint render (t:ty) : string :=
  match t with
  | TVar i => "T" ++ dec i
  | TAtom a =>
      if Nat.eqb a a_int then "int" else if Nat.eqb a a_string then "string" else if Nat.eqb a a_bool then "bool"
      else if Nat.eqb a a_float then "float64" else "?"
  | TNode (TAtom c) b =>
      if Nat.eqb c a_slice then "[]" ++ render b
      else if Nat.eqb c a_tuple then
        "frt.Tuple" ++ dec (spine_len b) ++ "[" ++ render_spine ", " b ++ "]"
      else if Nat.eqb c a_fun then
        match b with
        | TNode al r => "func (" ++ render_spine "," al ++ ") " ++ render r
        | _ => "?" end
      else if Nat.leb 8 c then
        match b with
        | TAtom _ => names (c - 8)
        | _ => names (c - 8) ++ "[" ++ render_spine ", " b ++ "]"
        end
      else "?"
  | TNode _ _ => "?"
  end
with render_spine (sep:string) (t:ty) : string :=
  match t with
  | TNode a r =>
      match r with
      | TNode _ _ => render a ++ sep ++ render_spine sep r
      | _ => render a
      end
  | _ => ""
  end.

Definition render_tparams (k:nat) : string :=
  match k with
  | O => ""
  | _ => "[" ++ join ", " (map (fun i => "T" ++ dec i ++ " any") (seq 0 k)) ++ "]"
  end.

(** rfdToGo up to (excluding) the opening brace: [func f[T0 any, T1 any](a T0, g func (T0) T1) T1] *)
Definition sig_to_go (fname:string) (pnames:list string) (k:nat) (ptys:list ty) (rty:ty) : string :=
  "func " ++ fname ++ render_tparams k ++ "(" ++
  join ", " (map (fun '(p,t) => p ++ " " ++ render t) (combine pnames ptys)) ++ ") " ++ render rty.
End Render.
