(** C01 — list-level specifications of the library functions of [frt], [slice] and [strings]
    (transcribed from pkg/frt/frt.go, pkg/slice/slice.go, pkg/strings/strings.go), generic in the
    value universe so that the source model (MiniFo) and the target model (MiniGo) use the same text.
    Callbacks are applied through [app], the evaluator of the instantiating model.
    Slices are modelled by their element lists (aliasing/capacity are C12's subject). *)
From Coq Require Import List ZArith String Ascii Bool.
From FoVerif Require Import Core.Common.
Import ListNotations.
Open Scope list_scope.

Record vops (V:Type) := {
  mkInt : Z -> V; mkStr : string -> V; mkBool : bool -> V; mkUnit : V;
  mkSlice : list V -> V; mkTuple : list V -> V; mkMulti : list V -> V;
  asInt : V -> option Z; asStr : V -> option string; asBool : V -> option bool;
  asSlice : V -> option (list V); asTuple : V -> option (list V);
  veq : V -> V -> option bool   (* structural equality of first-order values (go-cmp Equal) *)
}.
Arguments mkInt {V}. Arguments mkStr {V}. Arguments mkBool {V}. Arguments mkUnit {V}.
Arguments mkSlice {V}. Arguments mkTuple {V}. Arguments mkMulti {V}.
Arguments asInt {V}. Arguments asStr {V}. Arguments asBool {V}. Arguments asSlice {V}.
Arguments asTuple {V}. Arguments veq {V}.

Section Lib.
Context {V:Type} (ops:vops V).
Variable app : V -> list V -> trace -> res V.

(** *** operators other than the short-circuit ones *)
Definition arith (op:binop) (a b:V) : option V :=
  match op with
  | OAdd => match asInt ops a, asInt ops b with Some x, Some y => Some (mkInt ops (wrap64 (x + y))) | _, _ => None end
  | OSub => match asInt ops a, asInt ops b with Some x, Some y => Some (mkInt ops (wrap64 (x - y))) | _, _ => None end
  | OMul => match asInt ops a, asInt ops b with Some x, Some y => Some (mkInt ops (wrap64 (x * y))) | _, _ => None end
  (* Go's / on int truncates toward zero; a zero divisor is a run-time panic ([None] here, see [arith_why]);
     math.MinInt64 / -1 wraps to math.MinInt64 *)
  | ODiv => match asInt ops a, asInt ops b with
            | Some x, Some y => if Z.eqb y 0 then None else Some (mkInt ops (wrap64 (Z.quot x y)))
            | _, _ => None
            end
  | OSAdd => match asStr ops a, asStr ops b with Some x, Some y => Some (mkStr ops (x ++ y)) | _, _ => None end
  | OLt => match asInt ops a, asInt ops b with Some x, Some y => Some (mkBool ops (Z.ltb x y)) | _, _ => None end
  | OGt => match asInt ops a, asInt ops b with Some x, Some y => Some (mkBool ops (Z.gtb x y)) | _, _ => None end
  | OLe => match asInt ops a, asInt ops b with Some x, Some y => Some (mkBool ops (Z.leb x y)) | _, _ => None end
  | OGe => match asInt ops a, asInt ops b with Some x, Some y => Some (mkBool ops (Z.geb x y)) | _, _ => None end
  | OAnd | OOr => None
  end.

(** why [arith] has no result: the Go run-time panic of an integer division by zero, or ill-typed operands *)
Definition arith_why (op:binop) (a b:V) : string :=
  match op, asInt ops b with
  | ODiv, Some 0%Z => "panic: runtime error: integer divide by zero"
  | _, _ => "operator: operands"
  end.

(** *** formatting *)
Definition fmt_atom (v:V) : option string :=
  match asInt ops v with
  | Some z => Some (z_dec z)
  | None =>
    match asStr ops v with
    | Some s => Some s
    | None => match asBool ops v with Some b => Some (bool_str b) | None => None end
    end
  end.

(** [%v]: int, string, bool, or a slice of those ([[1 2 3]]) *)
Definition fmt_v (v:V) : option string :=
  match fmt_atom v with
  | Some s => Some s
  | None =>
    match asSlice ops v with
    | Some l => match all_some (map fmt_atom l) with
                | Some ss => Some ("[" ++ String.concat " " ss ++ "]")%string
                | None => None
                end
    | None => None
    end
  end.

Definition fmt_verb (v:V) (c:ascii) : option string :=
  if Ascii.eqb c "d" then option_map z_dec (asInt ops v)
  else if Ascii.eqb c "s" then asStr ops v
  else if Ascii.eqb c "v" then fmt_v v
  else None.

Definition sprintf1 (f:string) (v:V) : option string := format1 f false (fmt_verb v).

(** frt.toS: ints by [%d], strings as they are, everything else by [%v] *)
Definition to_s (v:V) : option string := fmt_atom v.

(** *** loops with callbacks, in index order *)
Fixpoint map_cb (f:V) (l:list V) (t:trace) : res (list V) :=
  match l with
  | [] => Done [] t
  | x :: r => doo y, t1 <- app f [x] t; doo ys, t2 <- map_cb f r t1; Done (y :: ys) t2
  end.

Fixpoint mapi_cb (f:V) (i:Z) (l:list V) (t:trace) : res (list V) :=
  match l with
  | [] => Done [] t
  | x :: r => doo y, t1 <- app f [mkInt ops i; x] t; doo ys, t2 <- mapi_cb f (i + 1)%Z r t1; Done (y :: ys) t2
  end.

Fixpoint filter_cb (f:V) (l:list V) (t:trace) : res (list V) :=
  match l with
  | [] => Done [] t
  | x :: r =>
      doo y, t1 <- app f [x] t;
      match asBool ops y with
      | Some b => doo ys, t2 <- filter_cb f r t1; Done (if b then x :: ys else ys) t2
      | None => Stuck "Filter: predicate result"
      end
  end.

Fixpoint iter_cb (f:V) (l:list V) (t:trace) : res V :=
  match l with
  | [] => Done (mkUnit ops) t
  | x :: r => doo y, t1 <- app f [x] t; iter_cb f r t1
  end.

Fixpoint fold_cb (f:V) (s:V) (l:list V) (t:trace) : res V :=
  match l with
  | [] => Done s t
  | x :: r => doo s', t1 <- app f [s; x] t; fold_cb f s' r t1
  end.

Fixpoint forall_cb (f:V) (l:list V) (t:trace) : res V :=
  match l with
  | [] => Done (mkBool ops true) t
  | x :: r =>
      doo y, t1 <- app f [x] t;
      match asBool ops y with
      | Some true => forall_cb f r t1
      | Some false => Done (mkBool ops false) t1
      | None => Stuck "Forall: predicate result"
      end
  end.

Fixpoint forany_cb (f:V) (l:list V) (t:trace) : res V :=
  match l with
  | [] => Done (mkBool ops false) t
  | x :: r =>
      doo y, t1 <- app f [x] t;
      match asBool ops y with
      | Some true => Done (mkBool ops true) t1
      | Some false => forany_cb f r t1
      | None => Stuck "Forany: predicate result"
      end
  end.

Fixpoint zip_tuples (a b:list V) : option (list V) :=
  match a, b with
  | [], [] => Some []
  | x :: a', y :: b' => option_map (cons (mkTuple ops [x; y])) (zip_tuples a' b')
  | _, _ => None
  end.

Definition sort_vals (l:list V) : option (list V) :=
  match all_some (map (asInt ops) l) with
  | Some zs => Some (map (mkInt ops) (sort_by Z.leb zs))
  | None =>
    match all_some (map (asStr ops) l) with
    | Some ss => Some (map (mkStr ops) (sort_by String.leb ss))
    | None => None
    end
  end.

(** *** functions without callbacks: [None] = the Go function panics or the call is ill-typed *)
Definition lib_pure (fn:libfn) (args:list V) : option V :=
  match fn, args with
  | LSprintf1, [f; v] =>
      match asStr ops f with Some fs => option_map (mkStr ops) (sprintf1 fs v) | None => None end
  | LLength, [s] => option_map (fun l => mkInt ops (Z.of_nat (List.length l))) (asSlice ops s)
  | LHead, [s] => match asSlice ops s with Some (x :: _) => Some x | _ => None end
  | LTail, [s] => match asSlice ops s with Some (_ :: r) => Some (mkSlice ops r) | _ => None end
  | LLast, [s] => match asSlice ops s with Some l => List.last (map Some l) None | None => None end
  | LItem, [i; s] =>
      match asInt ops i, asSlice ops s with
      | Some z, Some l => if Z.ltb z 0 then None else nth_error l (Z.to_nat z)
      | _, _ => None
      end
  | LTake, [n; s] =>
      match asInt ops n, asSlice ops s with
      | Some z, Some l =>
          if Z.leb z 0 then Some (mkSlice ops [])
          else if Z.leb z (Z.of_nat (List.length l)) then Some (mkSlice ops (firstn (Z.to_nat z) l))
          else None
      | _, _ => None
      end
  | LSkip, [n; s] =>
      match asInt ops n, asSlice ops s with
      | Some z, Some l =>
          if Z.leb (Z.of_nat (List.length l)) z then Some (mkSlice ops [])
          else if Z.ltb z 0 then None
          else Some (mkSlice ops (skipn (Z.to_nat z) l))
      | _, _ => None
      end
  | LPushLast, [e; s] => option_map (fun l => mkSlice ops (l ++ [e])) (asSlice ops s)
  | LPushHead, [e; s] => option_map (fun l => mkSlice ops (e :: l)) (asSlice ops s)
  | LAppend, [a; b] =>
      match asSlice ops a, asSlice ops b with
      | Some x, Some y => Some (mkSlice ops (x ++ y))
      | _, _ => None
      end
  | LIsEmpty, [s] => option_map (fun l => mkBool ops (match l with [] => true | _ => false end)) (asSlice ops s)
  | LIsNotEmpty, [s] => option_map (fun l => mkBool ops (match l with [] => false | _ => true end)) (asSlice ops s)
  | LSort, [s] =>
      match asSlice ops s with
      | Some l => option_map (mkSlice ops) (sort_vals l)
      | None => None
      end
  | LZip, [a; b] =>
      match asSlice ops a, asSlice ops b with
      | Some x, Some y => option_map (mkSlice ops) (zip_tuples x y)
      | _, _ => None
      end
  | LStrLength, [s] => option_map (fun x => mkInt ops (Z.of_nat (String.length x))) (asStr ops s)
  | LStrConcat, [sep; ss] =>
      match asStr ops sep, asSlice ops ss with
      | Some p, Some l => option_map (fun xs => mkStr ops (String.concat p xs)) (all_some (map (asStr ops) l))
      | _, _ => None
      end
  | LHasPrefix, [p; s] =>
      match asStr ops p, asStr ops s with
      | Some x, Some y => Some (mkBool ops (String.prefix x y))
      | _, _ => None
      end
  | LHasSuffix, [p; s] =>
      match asStr ops p, asStr ops s with
      | Some x, Some y => Some (mkBool ops (has_suffix x y))
      | _, _ => None
      end
  | LAppendHead, [h; s] =>
      match asStr ops h, asStr ops s with
      | Some x, Some y => Some (mkStr ops (x ++ y))
      | _, _ => None
      end
  | LAppendTail, [tl; s] =>
      match asStr ops tl, asStr ops s with
      | Some x, Some y => Some (mkStr ops (y ++ x))
      | _, _ => None
      end
  | LSplit, [sep; s] =>
      match asStr ops sep, asStr ops s with
      | Some EmptyString, _ => None
      | Some x, Some y => Some (mkSlice ops (map (mkStr ops) (split x y)))
      | _, _ => None
      end
  | LFst, [p] => match asTuple ops p with Some [a; _] => Some a | _ => None end
  | LSnd, [p] => match asTuple ops p with Some [_; b] => Some b | _ => None end
  | LOpEqual, [a; b] => option_map (mkBool ops) (veq ops a b)
  | LOpNotEqual, [a; b] => option_map (fun r => mkBool ops (negb r)) (veq ops a b)
  | LOpNot, [a] => option_map (fun r => mkBool ops (negb r)) (asBool ops a)
  | LNewTuple2, [a; b] => Some (mkTuple ops [a; b])
  | LNewTuple3, [a; b; c] => Some (mkTuple ops [a; b; c])
  | LDestr2, [p] | LDestr, [p] => match asTuple ops p with Some [a; b] => Some (mkMulti ops [a; b]) | _ => None end
  | LDestr3, [p] => match asTuple ops p with Some [a; b; c] => Some (mkMulti ops [a; b; c]) | _ => None end
  | LSInterP, f :: vs =>
      match asStr ops f, all_some (map to_s vs) with
      | Some fs, Some ss => option_map (mkStr ops) (format_s fs ss)
      | _, _ => None
      end
  | _, _ => None
  end.

(** *** the whole library *)
Definition lib_sem (fn:libfn) (args:list V) (t:trace) : res V :=
  match fn, args with
  | LPrintln, [s] =>
      match asStr ops s with
      | Some x => Done (mkUnit ops) (emit (x ++ String "010" EmptyString)%string t)
      | None => Stuck "Println: argument"
      end
  | LPrintf1, [f; v] =>
      match asStr ops f with
      | Some fs => match sprintf1 fs v with
                   | Some o => Done (mkUnit ops) (emit o t)
                   | None => Stuck "Printf1: format"
                   end
      | None => Stuck "Printf1: format argument"
      end
  | LMap, [f; s] =>
      match asSlice ops s with
      | Some l => doo ys, t1 <- map_cb f l t; Done (mkSlice ops ys) t1
      | None => Stuck "Map: argument"
      end
  | LMapi, [f; s] =>
      match asSlice ops s with
      | Some l => doo ys, t1 <- mapi_cb f 0%Z l t; Done (mkSlice ops ys) t1
      | None => Stuck "Mapi: argument"
      end
  | LFilter, [f; s] =>
      match asSlice ops s with
      | Some l => doo ys, t1 <- filter_cb f l t; Done (mkSlice ops ys) t1
      | None => Stuck "Filter: argument"
      end
  | LIter, [f; s] =>
      match asSlice ops s with
      | Some l => iter_cb f l t
      | None => Stuck "Iter: argument"
      end
  | LFold, [f; s0; s] =>
      match asSlice ops s with
      | Some l => fold_cb f s0 l t
      | None => Stuck "Fold: argument"
      end
  | LForall, [f; s] =>
      match asSlice ops s with
      | Some l => forall_cb f l t
      | None => Stuck "Forall: argument"
      end
  | LForany, [f; s] =>
      match asSlice ops s with
      | Some l => forany_cb f l t
      | None => Stuck "Forany: argument"
      end
  | LPipe, [x; f] => app f [x] t
  | LPipeUnit, [x; f] => doo y, t1 <- app f [x] t; Done (mkUnit ops) t1
  | LIfElse, [c; a; b] =>
      match asBool ops c with
      | Some true => app a [] t
      | Some false => app b [] t
      | None => Stuck "IfElse: condition"
      end
  | LIfElseUnit, [c; a; b] =>
      match asBool ops c with
      | Some true => doo y, t1 <- app a [] t; Done (mkUnit ops) t1
      | Some false => doo y, t1 <- app b [] t; Done (mkUnit ops) t1
      | None => Stuck "IfElseUnit: condition"
      end
  | LIfOnly, [c; a] =>
      match asBool ops c with
      | Some true => doo y, t1 <- app a [] t; Done (mkUnit ops) t1
      | Some false => Done (mkUnit ops) t
      | None => Stuck "IfOnly: condition"
      end
  | _, _ => of_opt "library call: panic or ill-typed arguments" (lib_pure fn args) t
  end.

End Lib.
