(** C01 — consequences of the simulation and of fuel monotonicity. *)
From Coq Require Import List ZArith String Lia.
From FoVerif Require Import Core.Common Core.Lib Core.MiniFo Core.MiniGo Core.Compile Core.SimDefs
  Core.CompileProof Core.CompileExamples Core.FuelMono.
Import ListNotations.

(** the output of a completed run does not depend on the fuel *)
Lemma run_src_unique p n n' o o' : run_src n p = ODone o -> run_src n' p = ODone o' -> o = o'.
Proof.
  intros H1 H2.
  pose proof (run_src_mono n (Nat.max n n') p o (Nat.le_max_l _ _) H1) as A.
  pose proof (run_src_mono n' (Nat.max n n') p o' (Nat.le_max_r _ _) H2) as B.
  rewrite A in B. inversion B. reflexivity.
Qed.
Lemma run_go_unique g m m' o o' : run_go m g = ODone o -> run_go m' g = ODone o' -> o = o'.
Proof.
  intros H1 H2.
  pose proof (run_go_mono m (Nat.max m m') g o (Nat.le_max_l _ _) H1) as A.
  pose proof (run_go_mono m' (Nat.max m m') g o' (Nat.le_max_r _ _) H2) as B.
  rewrite A in B. inversion B. reflexivity.
Qed.

(** every completed run of the emitted Go program prints what the source prints *)
Theorem go_output_is_source_output p n out :
  pap_args_pure p -> run_src n p = ODone out ->
  forall m out', run_go m (compile_prog p) = ODone out' -> out' = out.
Proof.
  intros Hp R m out' G. destruct (compile_correct_eventually p Hp n out R) as (m0 & H).
  symmetry. eapply run_go_unique; [apply (H m0 (le_n _))|exact G].
Qed.

(** the statement without [pap_args_pure] is false *)
Theorem compile_correct_full_refuted :
  ~ (forall p n out, wt p -> run_src n p = ODone out -> exists m, run_go m (compile_prog p) = ODone out).
Proof.
  intros F. destruct (F ex_effectful_pap _ _ ex_effectful_pap_wt ex_effectful_pap_src) as (m & G).
  pose proof (run_go_unique _ _ _ _ _ G ex_effectful_pap_go) as E.
  revert E. vm_compute. discriminate.
Qed.
