(** C01 — correctness of the lowering on whole programs. *)
From Coq Require Import List ZArith String Ascii Bool Lia.
From FoVerif Require Import Core.Common Core.CommonProofs Core.Lib Core.MiniFo Core.MiniGo Core.Compile
  Core.GoRules Core.SimDefs Core.SimLemmas Core.EqSim Core.LibSim Core.Sim.
Import ListNotations.
Open Scope list_scope.
Local Opaque ctor_name case_struct.

(** ** lookups in the generated declarations *)
Lemma lookup_notin {A} x (l:list (var * A)) : ~ In x (map fst l) -> lookup x l = None.
Proof.
  induction l as [|[y v] l IH]; intros N; cbn; [reflexivity|].
  destruct (String.eqb x y) eqn:E.
  - apply String.eqb_eq in E; subst. exfalso; apply N; left; reflexivity.
  - apply IH. intros I; apply N; right; exact I.
Qed.

Lemma lookup_app {A} x (l1 l2:list (var * A)) :
  lookup x (l1 ++ l2) = match lookup x l1 with Some v => Some v | None => lookup x l2 end.
Proof. induction l1 as [|[y v] l1 IH]; cbn; [reflexivity|]. destruct (String.eqb x y); auto. Qed.

Definition case_names (u:udecl) : list string := map (fun c : string * bool => ctor_name (fst u) (fst c)) (snd u).

Lemma ctor_funcs_names u : incl (map fst (ctor_funcs_of u)) (case_names u).
Proof.
  destruct u as [u cases]. unfold ctor_funcs_of, case_names. cbn [fst snd].
  induction cases as [|[c p] cases IH]; cbn; [intros x []|].
  destruct p; cbn; intros x I.
  - destruct I as [<-|I]; [left; reflexivity|right; apply IH; exact I].
  - right; apply IH; exact I.
Qed.
Lemma ctor_vars_names u : incl (map fst (ctor_vars_of u)) (case_names u).
Proof.
  destruct u as [u cases]. unfold ctor_vars_of, case_names. cbn [fst snd].
  induction cases as [|[c p] cases IH]; cbn; [intros x []|].
  destruct p; cbn; intros x I.
  - right; apply IH; exact I.
  - destruct I as [<-|I]; [left; reflexivity|right; apply IH; exact I].
Qed.

Lemma all_funcs_names us : incl (map fst (flat_map ctor_funcs_of us)) (all_ctor_names us).
Proof.
  induction us as [|u us IH]; cbn; [intros x []|].
  rewrite map_app. intros x I. apply in_app_or in I. apply in_or_app.
  destruct I as [I|I]; [left; apply (ctor_funcs_names u); exact I|right; apply IH; exact I].
Qed.
Lemma all_vars_names us : incl (map fst (flat_map ctor_vars_of us)) (all_ctor_names us).
Proof.
  induction us as [|u us IH]; cbn; [intros x []|].
  rewrite map_app. intros x I. apply in_app_or in I. apply in_or_app.
  destruct I as [I|I]; [left; apply (ctor_vars_names u); exact I|right; apply IH; exact I].
Qed.

Definition ctor_func_body (u c:string) : list var * list gstmt :=
  (["v"%string], [GSReturn (GStructLit (case_struct u c) ["Value"%string] [("Value"%string, GVar "v"%string)])]).

(** within one union *)
Lemma one_union_func u : forall cases c,
  NoDup (case_names (u, cases)) -> In (c, true) cases ->
  lookup (ctor_name u c) (ctor_funcs_of (u, cases)) = Some (ctor_func_body u c).
Proof.
  unfold case_names, ctor_funcs_of; cbn [fst snd].
  induction cases as [|[c0 p0] cases IH]; intros c N I; [destruct I|].
  cbn in N. inversion N as [|? ? Nh Nt]; subst.
  destruct I as [E|I].
  - inversion E; subst. cbn. rewrite String.eqb_refl. reflexivity.
  - assert (Hne : ctor_name u c <> ctor_name u c0).
    { intros Heq. apply Nh. cbn [fst]. rewrite <- Heq.
      apply (in_map (fun c1 : string * bool => ctor_name u (fst c1)) _ _ I). }
    cbn. destruct p0; cbn.
    + rewrite (proj2 (String.eqb_neq _ _) Hne). apply IH; assumption.
    + apply IH; assumption.
Qed.
Lemma one_union_var u : forall cases c,
  NoDup (case_names (u, cases)) -> In (c, false) cases ->
  lookup (ctor_name u c) (ctor_vars_of (u, cases)) = Some (GStructLit (case_struct u c) [] []) /\
  ~ In (ctor_name u c) (map fst (ctor_funcs_of (u, cases))).
Proof.
  unfold case_names, ctor_vars_of, ctor_funcs_of; cbn [fst snd].
  induction cases as [|[c0 p0] cases IH]; intros c N I; [destruct I|].
  cbn in N. inversion N as [|? ? Nh Nt]; subst.
  destruct I as [E|I].
  - inversion E; subst. cbn. rewrite String.eqb_refl. split; [reflexivity|].
    intros I2. apply Nh.
    apply (ctor_funcs_names (u, cases)) in I2. exact I2.
  - assert (Hne : ctor_name u c <> ctor_name u c0).
    { intros Heq. apply Nh. cbn [fst]. rewrite <- Heq.
      apply (in_map (fun c1 : string * bool => ctor_name u (fst c1)) _ _ I). }
    destruct (IH _ Nt I) as (L & NI).
    cbn. destruct p0; cbn.
    + split; [exact L|]. intros [Heq|I2]; [apply Hne; symmetry; exact Heq|apply NI; exact I2].
    + rewrite (proj2 (String.eqb_neq _ _) Hne). split; [exact L|exact NI].
Qed.

Lemma case_name_in u cases c p : In (c, p) cases -> In (ctor_name u c) (case_names (u, cases)).
Proof. intros I. unfold case_names. cbn. apply (in_map (fun c1 : string * bool => ctor_name u (fst c1)) _ _ I). Qed.
Lemma all_names_in us u cases c p : In (u, cases) us -> In (c, p) cases -> In (ctor_name u c) (all_ctor_names us).
Proof.
  intros Iu Ic. unfold all_ctor_names. apply in_flat_map. exists (u, cases); split; [exact Iu|].
  apply (case_name_in u cases c p Ic).
Qed.

Lemma NoDup_app_l {A} (l1 l2:list A) : NoDup (l1 ++ l2) -> NoDup l1.
Proof. induction l1; cbn; intros N; [constructor|]. inversion N; subst. constructor; [intros I; apply H1; apply in_or_app; left; exact I|auto]. Qed.
Lemma NoDup_app_r {A} (l1 l2:list A) : NoDup (l1 ++ l2) -> NoDup l2.
Proof. induction l1; cbn; intros N; [exact N|]. inversion N; subst. auto. Qed.
Lemma NoDup_app_disj {A} (l1 l2:list A) x : NoDup (l1 ++ l2) -> In x l1 -> ~ In x l2.
Proof.
  induction l1 as [|a l1 IH]; cbn; intros N I; [destruct I|]. inversion N; subst.
  destruct I as [<-|I]; [intros I2; apply H1; apply in_or_app; right; exact I2|apply IH; assumption].
Qed.

Lemma all_unions_func : forall us u cases c,
  NoDup (all_ctor_names us) -> In (u, cases) us -> In (c, true) cases ->
  lookup (ctor_name u c) (flat_map ctor_funcs_of us) = Some (ctor_func_body u c).
Proof.
  induction us as [|u0 us IH]; intros u cases c N Iu Ic; [destruct Iu|].
  cbn in N |- *. rewrite lookup_app.
  destruct Iu as [->|Iu].
  - rewrite (one_union_func u cases c (NoDup_app_l _ _ N) Ic). reflexivity.
  - rewrite (lookup_notin _ (ctor_funcs_of u0)).
    + apply (IH _ _ _ (NoDup_app_r _ _ N) Iu Ic).
    + intros I. apply (ctor_funcs_names u0) in I.
      apply (NoDup_app_disj _ _ _ N I). eapply all_names_in; eauto.
Qed.

Lemma all_unions_var : forall us u cases c,
  NoDup (all_ctor_names us) -> In (u, cases) us -> In (c, false) cases ->
  lookup (ctor_name u c) (flat_map ctor_vars_of us) = Some (GStructLit (case_struct u c) [] []) /\
  ~ In (ctor_name u c) (map fst (flat_map ctor_funcs_of us)).
Proof.
  induction us as [|u0 us IH]; intros u cases c N Iu Ic; [destruct Iu|].
  cbn in N |- *. rewrite lookup_app, map_app.
  destruct Iu as [->|Iu].
  - destruct (one_union_var u cases c (NoDup_app_l _ _ N) Ic) as (L & NI). rewrite L. split; [reflexivity|].
    intros I. apply in_app_or in I. destruct I as [I|I]; [apply NI; exact I|].
    apply all_funcs_names in I.
    apply (NoDup_app_disj _ _ _ N (case_name_in u cases c false Ic) I).
  - destruct (IH _ _ _ (NoDup_app_r _ _ N) Iu Ic) as (L & NI).
    assert (Hn : ~ In (ctor_name u c) (case_names u0)).
    { intros I. apply (NoDup_app_disj _ _ _ N I). eapply all_names_in; eauto. }
    rewrite (lookup_notin _ (ctor_vars_of u0)) by (intros I; apply Hn; apply (ctor_vars_names u0); exact I).
    split; [exact L|].
    intros I. apply in_app_or in I. destruct I as [I|I]; [apply Hn; apply (ctor_funcs_names u0); exact I|apply NI; exact I].
Qed.

Lemma ctor_funcs_ctor_like us x : In x (map fst (flat_map ctor_funcs_of us)) -> ctor_like x = true.
Proof.
  intros I. apply all_funcs_names in I. unfold all_ctor_names in I. apply in_flat_map in I.
  destruct I as (u & _ & I). apply in_map_iff in I. destruct I as (c & <- & _). apply ctor_name_like.
Qed.

Lemma compile_funs_lookup d : forall fs k f ps b,
  lookup f fs = Some (ps, b) -> exists k', lookup f (compile_funs d k fs) = Some (ps, compile_block d k' b).
Proof.
  induction fs as [|[g [qs c]] fs IH]; intros k f ps b L; cbn in L; [discriminate|].
  cbn. destruct (String.eqb f g).
  - inversion L; subst. eauto.
  - apply IH; exact L.
Qed.
Lemma compile_funs_names d : forall fs k, map fst (compile_funs d k fs) = map fst fs.
Proof. induction fs as [|[g [qs c]] fs IH]; intros k; cbn; [reflexivity|]. f_equal; apply IH. Qed.

Lemma lookup_in {A} x (l:list (var * A)) v : lookup x l = Some v -> In (x, v) l.
Proof.
  induction l as [|[y w] l IH]; cbn; intros L; [discriminate|].
  destruct (String.eqb x y) eqn:E; [apply String.eqb_eq in E; inversion L; subst; left; reflexivity|right; auto].
Qed.

(** ** the context of a program *)
Section Prog.
Variable d : dialect.
Variable start : nat.      (* value of the temporary counter when emission begins *)
Variable p : prog.
Hypothesis Hp : pap_args_pure p.

Definition ok := ctor_declared (p_unions p).
Definition gfuncs := g_funcs (compile_prog_d d start p).
Definition gvars := g_vars (compile_prog_d d start p).

Lemma prog_funs : forall f ps b, lookup f (p_funs p) = Some (ps, b) ->
  exists k, lookup f gfuncs = Some (ps, compile_block d k b) /\
            Forall (fun x => reserved x = false) ps /\ wfb true ok b.
Proof.
  destruct Hp as (Nd & Wf & Wm). intros f ps b L.
  pose proof (lookup_in _ _ _ L) as I. rewrite Forall_forall in Wf.
  destruct (Wf _ I) as (Rf & Rps & Wb). cbn in Rf, Rps, Wb.
  destruct (compile_funs_lookup d _ start _ _ _ L) as (k & Lk). exists k. repeat split; auto.
  unfold gfuncs, compile_prog_d; cbn [g_funcs]. rewrite lookup_app.
  rewrite lookup_notin; [exact Lk|].
  intros I2. apply ctor_funcs_ctor_like in I2. destruct (reserved_false _ Rf). congruence.
Qed.

Lemma prog_ctor1 : forall u c, ok u c true -> lookup (ctor_name u c) gfuncs = Some (ctor_func_body u c).
Proof.
  destruct Hp as (Nd & Wf & Wm). intros u c (cases & Iu & Ic).
  unfold gfuncs, compile_prog_d; cbn [g_funcs]. rewrite lookup_app.
  rewrite (all_unions_func _ _ _ _ Nd Iu Ic). reflexivity.
Qed.

Lemma prog_ctor0 : forall u c, ok u c false ->
  lookup (ctor_name u c) gfuncs = None /\
  lookup (ctor_name u c) gvars = Some (GStructLit (case_struct u c) [] []).
Proof.
  destruct Hp as (Nd & Wf & Wm). intros u c (cases & Iu & Ic).
  destruct (all_unions_var _ _ _ _ Nd Iu Ic) as (L & NI). split; [|exact L].
  unfold gfuncs, compile_prog_d; cbn [g_funcs]. rewrite lookup_app.
  rewrite (lookup_notin _ _ NI). apply lookup_notin. rewrite compile_funs_names.
  intros I. apply in_map_iff in I. destruct I as ([g dd] & Eg & I). cbn in Eg; subst g.
  rewrite Forall_forall in Wf. destruct (Wf _ I) as (Rf & _). cbn in Rf.
  destruct (reserved_false _ Rf) as (_ & C). rewrite ctor_name_like in C. discriminate.
Qed.

Definition prog_sims (n:nat) := sim_all d ok (p_funs p) gfuncs gvars prog_funs prog_ctor1 prog_ctor0 n.

(** the compiled program produces the source's output, at every sufficiently large fuel *)
Lemma compile_correct_eventually_d n out :
  run_src n p = ODone out -> exists m0, forall m, m0 <= m -> run_go m (compile_prog_d d start p) = ODone out.
Proof.
  intros R. unfold run_src in R.
  destruct (eval_block (p_funs p) n [] (p_main p) []) as [v t| |] eqn:Ev; try discriminate.
  inversion R; subst.
  destruct Hp as (Nd & Wf & Wm).
  destruct (sim_block d ok (p_funs p) gfuncs gvars prog_funs prog_ctor1 prog_ctor0 n [] [] (p_main p) [] v t
              (start + nvfuns d (p_funs p)) Wm (erel_nil d ok gfuncs) Ev) as (o & (m & Hm) & _).
  exists (S m). intros m1 Hle. destruct m1 as [|m1]; [lia|].
  unfold run_go. cbn [MiniGo.gapply bind].
  change (g_funcs (compile_prog_d d start p)) with gfuncs. change (g_vars (compile_prog_d d start p)) with gvars.
  change (g_main (compile_prog_d d start p)) with (compile_block d (start + nvfuns d (p_funs p)) (p_main p)).
  rewrite (Hm m1) by lia. reflexivity.
Qed.

Notation wfe' := (wfe true ok).
Notation wfb' := (wfb true ok).
Notation vrel' := (vrel d ok gfuncs).
Notation erel' := (erel d ok gfuncs).
Notation Geval' := (Geval gfuncs gvars).
Notation Gevals' := (Gevals gfuncs gvars).

(** *** the behaviours the property names, as instances of the simulation *)

(** only the taken branch of an [if] runs: whatever the other branch is (it may print, loop or be stuck),
    the emitted [frt.IfElse(c, func…, func…)] produces the condition's effects followed by the taken branch's *)
Lemma untaken_branch_silent_d n senv genv c bt bf t (cv:bool) t1 v t2 k :
  wfe' (EIf c bt bf) -> erel' senv genv ->
  eval (p_funs p) n senv c t = Done (VBool cv) t1 ->
  eval_block (p_funs p) n senv (if cv then bt else bf) t1 = Done v t2 ->
  exists gv, Geval' genv (compile d k (EIf c bt bf)) t gv t2 /\ vrel' v gv.
Proof.
  intros W E Hc Hb. destruct (prog_sims (S n)) as (IE & _).
  apply (IE senv genv (EIf c bt bf) t v t2 k W E).
  cbn [eval]. rewrite Hc. cbn [rbind]. destruct cv; exact Hb.
Qed.

(** [&&] and [||] evaluate their right operand only when needed *)
Lemma short_circuit_d n senv genv a b t t1 k (is_and:bool) :
  wfe' (EBin (if is_and then OAnd else OOr) a b) -> erel' senv genv ->
  eval (p_funs p) n senv a t = Done (VBool (negb is_and)) t1 ->
  Geval' genv (compile d k (EBin (if is_and then OAnd else OOr) a b)) t (GVBool (negb is_and)) t1.
Proof.
  intros W E Ha. destruct (prog_sims (S n)) as (IE & _).
  destruct (IE senv genv (EBin (if is_and then OAnd else OOr) a b) t (VBool (negb is_and)) t1 k W E) as (gv & G & V).
  { destruct is_and; cbn [eval negb]; rewrite Ha; reflexivity. }
  apply vrel_bool_inv in V. subst gv. exact G.
Qed.

(** a union match runs the arm of the constructor the value was built with (and only that arm) *)
Lemma match_dispatches_to_constructor_d n senv genv e u arms def t c payload t1 bx b v t2 k :
  wfe' (EMatchU e u arms def) -> erel' senv genv ->
  eval (p_funs p) n senv e t = Done (VUnion u c payload) t1 ->
  find_arm c arms = Some (bx, b) ->
  eval_block (p_funs p) n
    (match bx, payload with Some x, Some pv => (x, pv) :: senv | _, _ => senv end) b t1 = Done v t2 ->
  (bx <> None -> payload <> None) ->
  exists gv, Geval' genv (compile d k (EMatchU e u arms def)) t gv t2 /\ vrel' v gv.
Proof.
  intros W E He Fa Hb Hpay. destruct (prog_sims (S n)) as (IE & _).
  apply (IE senv genv (EMatchU e u arms def) t v t2 k W E).
  cbn [eval]. rewrite He. cbn [rbind]. rewrite String.eqb_refl, Fa.
  destruct bx as [x|]; [|exact Hb].
  destruct payload as [pv|]; [exact Hb|]. exfalso. apply Hpay; [discriminate|reflexivity].
Qed.

(** operands, arguments and components are evaluated left to right: the emitted argument list produces the
    trace of the source's left-to-right evaluation *)
Lemma effects_in_source_order_d n senv genv es t vs t' k :
  Forall wfe' es -> erel' senv genv ->
  evals (p_funs p) n senv es t = Done vs t' ->
  exists gvs, Gevals' genv (compile_list d k es) t gvs t' /\ Forall2 vrel' vs gvs.
Proof.
  intros W E H. destruct (prog_sims n) as (_ & IEs & _).
  destruct (IEs senv genv es t vs t' k W E H) as (gvs & Vs & G).
  exists gvs; split; [|exact Vs].
  specialize (G [] [] t' (Gs_nil _ _ _ _)). rewrite !app_nil_r in G. exact G.
Qed.

End Prog.

(** ** fc *)
Definition fc_gfuncs (p:prog) := gfuncs DFc 0 p.
Definition fc_gvars (p:prog) := gvars DFc 0 p.

Lemma compile_correct_eventually p (Hp:pap_args_pure p) n out :
  run_src n p = ODone out -> exists m0, forall m, m0 <= m -> run_go m (compile_prog p) = ODone out.
Proof. exact (compile_correct_eventually_d DFc 0 p Hp n out). Qed.

(** ** the theorem *)
Theorem compile_correct_partial : forall p n out,
  wt p -> pap_args_pure p ->
  run_src n p = ODone out -> exists m, run_go m (compile_prog p) = ODone out.
Proof.
  intros p n out _ Hp R. destruct (compile_correct_eventually p Hp n out R) as (m0 & H).
  exists m0. apply H. apply le_n.
Qed.
