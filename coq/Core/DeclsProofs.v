From Coq Require Import List String Bool Arith.
From FoVerif Require Import Core.Decls.
Import ListNotations.
Open Scope string_scope.

(** ---- the documented shape (docs/specs/union.md, note.md, tutorial 4), written independently ---- *)

(** a record is a struct with the same field names and mapped field types in order *)
Definition doc_record (r : recdef) (ds : list godecl) : Prop :=
  In (GStruct (rd_name r) (rd_tparams r) (rd_fields r)) ds.

(** a union U with case C is interface U plus struct U_C whose payload is field Value, built by
    New_U_C: a function when the case has a payload or U is generic, a package variable otherwise;
    every case struct implements the interface's marker method *)
Definition doc_case (u : uniondef) (marker : string) (c : string * option gotype) (ds : list godecl) : Prop :=
  let cs := ud_name u ++ "_" ++ fst c in
  In (GStruct cs (ud_tparams u) (match snd c with Some t => [("Value", t)] | None => [] end)) ds /\
  In (GMethod None cs (ud_tparams u) marker None) ds /\
  (match snd c, ud_tparams u with
   | None, [] => In (GVar ("New_" ++ cs) (Some (ud_name u))) ds
   | _, _ => exists res, In (GFunc ("New_" ++ cs) (ud_tparams u)
                                   (match snd c with Some t => [("v", t)] | None => [] end) (Some res)) ds
   end).

Definition doc_union (u : uniondef) (ds : list godecl) : Prop :=
  exists marker, In (GInterface (ud_name u) (ud_tparams u) marker) ds /\
                 forall c, In c (ud_cases u) -> doc_case u marker c ds.

(** a top-level let with parameters is a package func: parameters in order, a unit parameter is no
    parameter, a unit result is no result *)
Definition doc_func (f : fundef) (d : godecl) : Prop :=
  exists params, d = GFunc (fd_name f) (fd_tparams f) params (fd_result f) /\
    map fst params = map fst (filter (fun p => match snd p with Some _ => true | None => false end) (fd_params f)) /\
    map (fun p => Some (snd p)) params = filter (fun o => match o with Some _ => true | None => false end) (map snd (fd_params f)).

(** ---- theorems ---- *)
Theorem emit_record_matches_doc r : doc_record r (emit_record r).
Proof. unfold doc_record, emit_record. now left. Qed.

Lemma in_flat_map_case u c : In c (ud_cases u) -> forall d, In d (emit_case u c) -> In d (emit_union u).
Proof.
  intros Hc d Hd. unfold emit_union. right. apply in_or_app. right. apply in_or_app. right.
  apply in_flat_map. exists c. split; assumption.
Qed.

Theorem emit_union_matches_doc u : doc_union u (emit_union u).
Proof.
  exists (ud_name u ++ "_Union"). split; [now left|].
  intros [cn payload] Hc. unfold doc_case. cbn [fst snd]. split; [|split].
  - apply (in_flat_map_case u (cn, payload) Hc). cbn. now left.
  - unfold emit_union. right. apply in_or_app. left.
    apply in_map_iff. exists (cn, payload). split; [reflexivity|exact Hc].
  - destruct payload as [t|]; [|destruct (ud_tparams u) as [|tp tps] eqn:Etp].
    + exists (ud_name u ++ targs_text (ud_tparams u)).
      apply (in_flat_map_case u (cn, Some t) Hc). cbn. right. left.
      destruct (ud_tparams u); reflexivity.
    + apply (in_flat_map_case u (cn, None) Hc). cbn. right. left. rewrite Etp. reflexivity.
    + exists (ud_name u ++ targs_text (tp :: tps)).
      apply (in_flat_map_case u (cn, None) Hc). cbn. right. left. rewrite Etp. reflexivity.
Qed.

(** the constructor is a package variable exactly when the case has no payload and U is not generic *)
Theorem ctor_is_var_iff u cn payload :
  (exists t, In (GVar (ctor_name (ud_name u) cn) t) (emit_case u (cn, payload)))
  <-> payload = None /\ ud_tparams u = [].
Proof.
  unfold emit_case. split.
  - intros [t [H|[H|[]]]]; [discriminate|].
    destruct payload; destruct (ud_tparams u); cbn in H; try discriminate. auto.
  - intros [-> E]. rewrite E. cbn. eexists. right. left. reflexivity.
Qed.

Theorem emit_root_func_matches_doc f : doc_func f (emit_root_func f).
Proof.
  unfold doc_func, emit_root_func. exists (go_params (fd_params f)). split; [reflexivity|].
  unfold go_params. induction (fd_params f) as [|[n [t|]] ps [IH1 IH2]]; cbn; [auto| |auto].
  split; f_equal; assumption.
Qed.

Theorem unit_param_no_param f :
  Forall (fun p => snd p = None) (fd_params f) ->
  emit_root_func f = GFunc (fd_name f) (fd_tparams f) [] (fd_result f).
Proof.
  intros H. unfold emit_root_func. f_equal. unfold go_params.
  induction H as [|[n o] ps Hp _ IH]; cbn in *; [reflexivity|]. subst o. exact IH.
Qed.

(** ---- calls ---- *)
Lemma rparams_length i ts : List.length (rparams i ts) = List.length ts.
Proof. revert i; induction ts as [|t ts IH]; intros i; cbn; [reflexivity|now rewrite IH]. Qed.

Lemma rparams_types i ts : map snd (rparams i ts) = ts.
Proof. revert i; induction ts as [|t ts IH]; intros i; cbn; [reflexivity|now rewrite IH]. Qed.

(** the callee receives all supplied arguments in source order, then the closure parameters (one per
    missing argument, with the missing parameter types, in order); it is called by the declared name,
    package-qualified unless the package is "_"; explicit type arguments are passed through *)
Theorem ext_call_args_in_order pkg name targs supplied missing result :
  let e := emit_ext_call pkg name targs supplied missing result in
  call_fn e = pi_full_name pkg name /\
  exists rs, call_args e = (map XArg supplied ++ map XVar rs)%list /\ List.length rs = List.length missing /\
  match missing with
  | [] => e = XCall (pi_full_name pkg name) targs (map XArg supplied)
  | _ => exists ps, e = XClosure ps result (XCall (pi_full_name pkg name) targs (map XArg supplied ++ map XVar rs)%list)
                    /\ map fst ps = rs /\ map snd ps = missing
  end.
Proof.
  unfold emit_ext_call. destruct missing as [|m ms].
  - cbn. split; [reflexivity|]. exists []. cbn. rewrite app_nil_r. auto.
  - set (rs := rparams 0 (m :: ms)). cbn [call_fn call_args]. split; [reflexivity|].
    exists (map fst rs).
    assert (E : map (fun p : string * gotype => XVar (fst p)) rs = map XVar (map fst rs))
      by (now rewrite map_map).
    rewrite E. split; [reflexivity|]. split.
    + rewrite map_length. apply rparams_length.
    + exists rs. split; [reflexivity|]. split; [reflexivity|apply rparams_types].
Qed.

Theorem qualified_unless_underscore pkg name :
  pi_full_name pkg name = if String.eqb pkg "_" then name else pkg ++ "." ++ name.
Proof. reflexivity. Qed.
