(** C01 — the library functions preserve the value relation (forward simulation), given that
    applying related functions to related arguments does. *)
From Coq Require Import List ZArith String Ascii Bool Lia.
From FoVerif Require Import Core.Common Core.CommonProofs Core.Lib Core.MiniFo Core.MiniGo Core.Compile
  Core.GoRules Core.SimDefs Core.SimLemmas.
Import ListNotations.
Open Scope list_scope.

Lemma format1_unfold f u sub :
  format1 f u sub =
  match f with
  | EmptyString => if u then Some EmptyString else None
  | String a f' =>
      if Ascii.eqb a "%" then
        match f' with
        | EmptyString => None
        | String c r =>
            if Ascii.eqb c "%" then option_map (String "%") (format1 r u sub)
            else if u then None
            else match sub c with
                 | Some s => option_map (String.append s) (format1 r true sub)
                 | None => None
                 end
        end
      else option_map (String a) (format1 f' u sub)
  end.
Proof.
  destruct f as [|a f']; [reflexivity|].
  destruct (Ascii.eqb a "%") eqn:E.
  - apply Ascii.eqb_eq in E; subst a. destruct f'; reflexivity.
  - destruct a as [[] [] [] [] [] [] [] []]; try reflexivity; discriminate E.
Qed.

Lemma format1_ext sub1 sub2 : (forall c, sub1 c = sub2 c) -> forall f u, format1 f u sub1 = format1 f u sub2.
Proof.
  intros Hs f. remember (String.length f) as n eqn:L.
  assert (Hle : String.length f <= n) by lia. clear L. revert f Hle.
  induction n as [|n IH]; intros f Hle u.
  - destruct f; [reflexivity|cbn in Hle; lia].
  - rewrite (format1_unfold f u sub1), (format1_unfold f u sub2).
    destruct f as [|a f']; [reflexivity|]. cbn in Hle.
    destruct (Ascii.eqb a "%").
    + destruct f' as [|c r]; [reflexivity|]. cbn in Hle.
      destruct (Ascii.eqb c "%"); [rewrite (IH r) by lia; reflexivity|].
      destruct u; [reflexivity|]. rewrite Hs. destruct (sub2 c); [rewrite (IH r) by lia; reflexivity|reflexivity].
    + rewrite (IH f') by lia. reflexivity.
Qed.

Section LibSim.
Variable d : dialect.
Variable ctor_ok : string -> string -> bool -> Prop.

Variable gfuncs : list (var * (list var * list gstmt)).
Variable gvars : list (var * gexpr).

Notation vrel := (vrel d ctor_ok gfuncs).
Notation Gapply := (Gapply gfuncs gvars).
Notation Glib := (Glib gfuncs gvars).
Notation gapply := (gapply gfuncs gvars).

Variable sapp : val -> list val -> trace -> res val.
Hypothesis HA : forall fv gf vs gvs t v t',
  vrel fv gf -> Forall2 vrel vs gvs -> sapp fv vs t = Done v t' ->
  exists gv, Gapply gf gvs t gv t' /\ vrel v gv.

Let vI := vrel_asInt d ctor_ok gfuncs.
Let vS := vrel_asStr d ctor_ok gfuncs.
Let vB := vrel_asBool d ctor_ok gfuncs.

(** ** observers *)
Lemma vrel_slice_inv v gv l : vrel v gv -> asSlice sops v = Some l ->
  exists gl, gv = GVSlice gl /\ Forall2 vrel l gl.
Proof. intros V H. destruct v; try discriminate. inversion H; subst. inversion V; subst. eauto. Qed.

Lemma vrel_tuple_inv v gv l : vrel v gv -> asTuple sops v = Some l ->
  exists gl, asTuple gops gv = Some gl /\ Forall2 vrel l gl.
Proof.
  intros V H. destruct v; try discriminate. inversion H; subst. inversion V as [| | | |? gvs Vs T| | | | | |]; subst.
  exists gvs; split; [|exact Vs].
  pose proof (Forall2_length' _ _ _ Vs) as L.
  destruct T as [T|T]; rewrite T in L;
    destruct gvs as [|a [|b [|c [|d0 gvs]]]]; try discriminate L; reflexivity.
Qed.

Lemma map_asInt l gl : Forall2 vrel l gl -> map (asInt gops) gl = map (asInt sops) l.
Proof. induction 1 as [|x y l gl V F IH]; cbn [map]; [reflexivity|]. rewrite IH, (vI _ _ V). reflexivity. Qed.
Lemma map_asStr l gl : Forall2 vrel l gl -> map (asStr gops) gl = map (asStr sops) l.
Proof. induction 1 as [|x y l gl V F IH]; cbn [map]; [reflexivity|]. rewrite IH, (vS _ _ V). reflexivity. Qed.

Lemma fmt_atom_rel v gv : vrel v gv -> fmt_atom gops gv = fmt_atom sops v.
Proof. intros V. unfold fmt_atom. rewrite (vI _ _ V), (vS _ _ V), (vB _ _ V). reflexivity. Qed.
Lemma map_fmt_atom l gl : Forall2 vrel l gl -> map (fmt_atom gops) gl = map (fmt_atom sops) l.
Proof. induction 1 as [|x y l gl V F IH]; cbn [map]; [reflexivity|]. rewrite IH, (fmt_atom_rel _ _ V). reflexivity. Qed.

Lemma fmt_v_rel v gv : vrel v gv -> fmt_v gops gv = fmt_v sops v.
Proof.
  intros V. unfold fmt_v. rewrite (fmt_atom_rel _ _ V).
  destruct (fmt_atom sops v); [reflexivity|].
  inversion V; subst; try reflexivity.
  cbn [asSlice gops sops]. rewrite (map_fmt_atom _ _ H). reflexivity.
Qed.

Lemma fmt_verb_rel v gv c : vrel v gv -> fmt_verb gops gv c = fmt_verb sops v c.
Proof. intros V. unfold fmt_verb. rewrite (vI _ _ V), (vS _ _ V), (fmt_v_rel _ _ V). reflexivity. Qed.

Lemma sprintf1_rel f v gv : vrel v gv -> sprintf1 gops f gv = sprintf1 sops f v.
Proof. intros V. unfold sprintf1. apply format1_ext. intros c. apply fmt_verb_rel; exact V. Qed.

Lemma Forall2_map_int zs : Forall2 vrel (map VInt zs) (map GVInt zs).
Proof. induction zs; cbn; constructor; auto. constructor. Qed.
Lemma Forall2_map_str ss : Forall2 vrel (map VStr ss) (map GVStr ss).
Proof. induction ss; cbn; constructor; auto. constructor. Qed.

Lemma Forall2_last l gl v : Forall2 vrel l gl -> List.last (map Some l) None = Some v ->
  exists gv, List.last (map Some gl) None = Some gv /\ vrel v gv.
Proof.
  induction 1 as [|x gx l gl Vx Vl IH]; intros H; cbn in H; [discriminate|].
  destruct l as [|y l]; inversion Vl; subst.
  - inversion H; subst. cbn. eauto.
  - cbn in IH, H |- *. apply IH. exact H.
Qed.

Lemma Forall2_nth l gl n v : Forall2 vrel l gl -> nth_error l n = Some v ->
  exists gv, nth_error gl n = Some gv /\ vrel v gv.
Proof.
  intros F; revert n; induction F as [|x y l gl V F IH]; intros [|n] Hn; cbn in *; try discriminate; eauto.
  inversion Hn; subst; eauto.
Qed.

Lemma Forall2_firstn l gl n : Forall2 vrel l gl -> Forall2 vrel (firstn n l) (firstn n gl).
Proof. intros F; revert n; induction F; intros [|n]; cbn; constructor; auto. Qed.
Lemma Forall2_skipn l gl n : Forall2 vrel l gl -> Forall2 vrel (skipn n l) (skipn n gl).
Proof. intros F; revert n; induction F; intros [|n]; cbn; try constructor; auto. Qed.

Lemma zip_rel : forall x gx y gy l, Forall2 vrel x gx -> Forall2 vrel y gy ->
  zip_tuples sops x y = Some l -> exists gl, zip_tuples gops gx gy = Some gl /\ Forall2 vrel l gl.
Proof.
  induction x as [|a x IH]; intros gx y gy l Vx Vy H; inversion Vx; subst;
    destruct y as [|b y]; inversion Vy; subst; cbn in H; try discriminate.
  - inversion H; subst. exists []; split; [reflexivity|constructor].
  - destruct (zip_tuples sops x y) as [lz|] eqn:Z; [|discriminate]. cbn in H. inversion H; subst.
    destruct (IH _ _ _ _ ltac:(eassumption) ltac:(eassumption) Z) as (gl & Zg & Vl).
    eexists; split; [cbn; rewrite Zg; reflexivity|].
    constructor; [|exact Vl].
    apply (VR_tuple d ctor_ok gfuncs [a; b] [_; _]); [repeat constructor; assumption|left; reflexivity].
Qed.

(** ** functions without callbacks *)
Ltac args1 H := match type of H with lib_pure _ _ ?vs = _ =>
  destruct vs as [|?a1 [|? ?]]; try discriminate H end.
Ltac args2 H := match type of H with lib_pure _ _ ?vs = _ =>
  destruct vs as [|?a1 [|?a2 [|? ?]]]; try discriminate H end.
Ltac shape1 F g1 V1 :=
  let F' := fresh "F" in
  inversion F as [|? g1 ? ? V1 F']; subst; inversion F'; subst; clear F F'.
Ltac shape2 F g1 V1 g2 V2 :=
  let F' := fresh "F" in let F'' := fresh "F" in
  inversion F as [|? g1 ? ? V1 F']; subst; inversion F' as [|? g2 ? ? V2 F'']; subst;
  inversion F''; subst; clear F F' F''.
Ltac inv2 F := repeat match goal with F : Forall2 _ (_ :: _) _ |- _ => inversion F; subst; clear F
                                   | F : Forall2 _ [] _ |- _ => inversion F; subst; clear F end.

Lemma lib_pure_sim fn vs gvs v :
  src_fn fn = true -> Forall2 vrel vs gvs -> lib_pure sops fn vs = Some v ->
  exists gv, lib_pure gops fn gvs = Some gv /\ vrel v gv.
Proof.
  intros S F H. destruct fn; try discriminate S.
  - (* Println *) destruct vs as [|? [|? ?]]; discriminate H.
  - (* Printf1 *) destruct vs as [|? [|? [|? ?]]]; discriminate H.
  - (* Sprintf1 *)
    args2 H. shape2 F g1 V1 g2 V2. cbn [lib_pure] in *.
    rewrite (vS _ _ V1). destruct (asStr sops a1) as [fs|]; [|discriminate].
    rewrite (sprintf1_rel _ _ _ V2). destruct (sprintf1 sops fs a2); inversion H; subst.
    eexists; split; [reflexivity|constructor].
  - (* Length *)
    args1 H. shape1 F g1 V1. cbn [lib_pure] in *.
    destruct (asSlice sops a1) as [l|] eqn:A; [|discriminate]. inversion H; subst.
    destruct (vrel_slice_inv _ _ _ V1 A) as (gl & -> & Vl).
    eexists; split; [reflexivity|]. cbn. rewrite (Forall2_length' _ _ _ Vl). constructor.
  - (* Head *)
    args1 H. shape1 F g1 V1. cbn [lib_pure] in *.
    destruct (asSlice sops a1) as [[|x l]|] eqn:A; try discriminate. inversion H; subst.
    destruct (vrel_slice_inv _ _ _ V1 A) as (gl & -> & Vl). inversion Vl; subst.
    eexists; split; [reflexivity|assumption].
  - (* Tail *)
    args1 H. shape1 F g1 V1. cbn [lib_pure] in *.
    destruct (asSlice sops a1) as [[|x l]|] eqn:A; try discriminate. inversion H; subst.
    destruct (vrel_slice_inv _ _ _ V1 A) as (gl & -> & Vl). inversion Vl; subst.
    eexists; split; [reflexivity|constructor; assumption].
  - (* Last *)
    args1 H. shape1 F g1 V1. cbn [lib_pure] in *.
    destruct (asSlice sops a1) as [l|] eqn:A; try discriminate.
    destruct (vrel_slice_inv _ _ _ V1 A) as (gl & -> & Vl).
    destruct (Forall2_last _ _ _ Vl H) as (gv & Lg & V). exists gv; split; [exact Lg|exact V].
  - (* Item *)
    args2 H. shape2 F g1 V1 g2 V2. cbn [lib_pure] in *.
    rewrite (vI _ _ V1). destruct (asInt sops a1) as [z|]; [|discriminate].
    destruct (asSlice sops a2) as [l|] eqn:A; try discriminate.
    destruct (vrel_slice_inv _ _ _ V2 A) as (gl & -> & Vl). cbn [asSlice gops].
    destruct (Z.ltb z 0); [discriminate|].
    destruct (Forall2_nth _ _ _ _ Vl H) as (gv & Lg & V). exists gv; split; [exact Lg|exact V].
  - (* Take *)
    args2 H. shape2 F g1 V1 g2 V2. cbn [lib_pure] in *.
    rewrite (vI _ _ V1). destruct (asInt sops a1) as [z|]; [|discriminate].
    destruct (asSlice sops a2) as [l|] eqn:A; try discriminate.
    destruct (vrel_slice_inv _ _ _ V2 A) as (gl & -> & Vl). cbn [asSlice gops mkSlice sops] in *.
    rewrite <- (Forall2_length' _ _ _ Vl).
    destruct (Z.leb z 0); [inversion H; subst; eexists; split; [reflexivity|repeat constructor]|].
    destruct (Z.leb z (Z.of_nat (List.length l))); [|discriminate]. inversion H; subst.
    eexists; split; [reflexivity|constructor; apply Forall2_firstn; exact Vl].
  - (* Skip *)
    args2 H. shape2 F g1 V1 g2 V2. cbn [lib_pure] in *.
    rewrite (vI _ _ V1). destruct (asInt sops a1) as [z|]; [|discriminate].
    destruct (asSlice sops a2) as [l|] eqn:A; try discriminate.
    destruct (vrel_slice_inv _ _ _ V2 A) as (gl & -> & Vl). cbn [asSlice gops mkSlice sops] in *.
    rewrite <- (Forall2_length' _ _ _ Vl).
    destruct (Z.leb (Z.of_nat (List.length l)) z); [inversion H; subst; eexists; split; [reflexivity|repeat constructor]|].
    destruct (Z.ltb z 0); [discriminate|]. inversion H; subst.
    eexists; split; [reflexivity|constructor; apply Forall2_skipn; exact Vl].
  - (* PushLast *)
    args2 H. shape2 F g1 V1 g2 V2. cbn [lib_pure] in *.
    destruct (asSlice sops a2) as [l|] eqn:A; try discriminate. inversion H; subst.
    destruct (vrel_slice_inv _ _ _ V2 A) as (gl & -> & Vl).
    eexists; split; [reflexivity|]. constructor. apply Forall2_app; [exact Vl|repeat constructor; assumption].
  - (* PushHead *)
    args2 H. shape2 F g1 V1 g2 V2. cbn [lib_pure] in *.
    destruct (asSlice sops a2) as [l|] eqn:A; try discriminate. inversion H; subst.
    destruct (vrel_slice_inv _ _ _ V2 A) as (gl & -> & Vl).
    eexists; split; [reflexivity|]. constructor. constructor; assumption.
  - (* Append *)
    args2 H. shape2 F g1 V1 g2 V2. cbn [lib_pure] in *.
    destruct (asSlice sops a1) as [l1|] eqn:A1; try discriminate.
    destruct (asSlice sops a2) as [l2|] eqn:A2; try discriminate. inversion H; subst.
    destruct (vrel_slice_inv _ _ _ V1 A1) as (gl1 & -> & Vl1).
    destruct (vrel_slice_inv _ _ _ V2 A2) as (gl2 & -> & Vl2).
    eexists; split; [reflexivity|]. constructor. apply Forall2_app; assumption.
  - (* IsEmpty *)
    args1 H. shape1 F g1 V1. cbn [lib_pure] in *.
    destruct (asSlice sops a1) as [l|] eqn:A; [|discriminate]. inversion H; subst.
    destruct (vrel_slice_inv _ _ _ V1 A) as (gl & -> & Vl).
    eexists; split; [reflexivity|]. cbn. inversion Vl; subst; constructor.
  - (* IsNotEmpty *)
    args1 H. shape1 F g1 V1. cbn [lib_pure] in *.
    destruct (asSlice sops a1) as [l|] eqn:A; [|discriminate]. inversion H; subst.
    destruct (vrel_slice_inv _ _ _ V1 A) as (gl & -> & Vl).
    eexists; split; [reflexivity|]. cbn. inversion Vl; subst; constructor.
  - (* Map *) destruct vs as [|? [|? [|? ?]]]; discriminate H.
  - destruct vs as [|? [|? [|? ?]]]; discriminate H.
  - destruct vs as [|? [|? [|? ?]]]; discriminate H.
  - destruct vs as [|? [|? [|? ?]]]; discriminate H.
  - destruct vs as [|? [|? [|? [|? ?]]]]; discriminate H.
  - destruct vs as [|? [|? [|? ?]]]; discriminate H.
  - destruct vs as [|? [|? [|? ?]]]; discriminate H.
  - (* Sort *)
    args1 H. shape1 F g1 V1. cbn [lib_pure] in *.
    destruct (asSlice sops a1) as [l|] eqn:A; [|discriminate].
    destruct (vrel_slice_inv _ _ _ V1 A) as (gl & -> & Vl). cbn [asSlice gops].
    unfold sort_vals in *. rewrite (map_asInt _ _ Vl), (map_asStr _ _ Vl).
    destruct (all_some (map (asInt sops) l)) as [zs|].
    + inversion H; subst. eexists; split; [reflexivity|]. constructor. apply Forall2_map_int.
    + destruct (all_some (map (asStr sops) l)) as [ss|]; [|discriminate].
      inversion H; subst. eexists; split; [reflexivity|]. constructor. apply Forall2_map_str.
  - (* Zip *)
    args2 H. shape2 F g1 V1 g2 V2. cbn [lib_pure] in *.
    destruct (asSlice sops a1) as [l1|] eqn:A1; try discriminate.
    destruct (asSlice sops a2) as [l2|] eqn:A2; try discriminate.
    destruct (vrel_slice_inv _ _ _ V1 A1) as (gl1 & -> & Vl1).
    destruct (vrel_slice_inv _ _ _ V2 A2) as (gl2 & -> & Vl2). cbn [asSlice gops].
    destruct (zip_tuples sops l1 l2) as [l|] eqn:Z; [|discriminate]. inversion H; subst.
    destruct (zip_rel _ _ _ _ _ Vl1 Vl2 Z) as (gl & Zg & Vl). rewrite Zg.
    eexists; split; [reflexivity|constructor; exact Vl].
  - (* strings.Length *)
    args1 H. shape1 F g1 V1. cbn [lib_pure] in *.
    rewrite (vS _ _ V1). destruct (asStr sops a1); inversion H; subst.
    eexists; split; [reflexivity|constructor].
  - (* strings.Concat *)
    args2 H. shape2 F g1 V1 g2 V2. cbn [lib_pure] in *.
    rewrite (vS _ _ V1). destruct (asStr sops a1) as [p|]; [|discriminate].
    destruct (asSlice sops a2) as [l|] eqn:A; try discriminate.
    destruct (vrel_slice_inv _ _ _ V2 A) as (gl & -> & Vl). cbn [asSlice gops].
    rewrite (map_asStr _ _ Vl). destruct (all_some (map (asStr sops) l)); inversion H; subst.
    eexists; split; [reflexivity|constructor].
  - (* HasPrefix *)
    args2 H. shape2 F g1 V1 g2 V2. cbn [lib_pure] in *.
    rewrite (vS _ _ V1), (vS _ _ V2). destruct (asStr sops a1), (asStr sops a2); inversion H; subst.
    eexists; split; [reflexivity|constructor].
  - (* HasSuffix *)
    args2 H. shape2 F g1 V1 g2 V2. cbn [lib_pure] in *.
    rewrite (vS _ _ V1), (vS _ _ V2). destruct (asStr sops a1), (asStr sops a2); inversion H; subst.
    eexists; split; [reflexivity|constructor].
  - (* AppendHead *)
    args2 H. shape2 F g1 V1 g2 V2. cbn [lib_pure] in *.
    rewrite (vS _ _ V1), (vS _ _ V2). destruct (asStr sops a1), (asStr sops a2); inversion H; subst.
    eexists; split; [reflexivity|constructor].
  - (* AppendTail *)
    args2 H. shape2 F g1 V1 g2 V2. cbn [lib_pure] in *.
    rewrite (vS _ _ V1), (vS _ _ V2). destruct (asStr sops a1), (asStr sops a2); inversion H; subst.
    eexists; split; [reflexivity|constructor].
  - (* Split *)
    args2 H. shape2 F g1 V1 g2 V2. cbn [lib_pure] in *.
    rewrite (vS _ _ V1), (vS _ _ V2).
    destruct (asStr sops a1) as [[|c sep]|], (asStr sops a2); inversion H; subst.
    eexists; split; [reflexivity|]. constructor. apply Forall2_map_str.
  - (* Fst *)
    args1 H. shape1 F g1 V1. cbn [lib_pure] in *.
    destruct (asTuple sops a1) as [[|a [|b [|? ?]]]|] eqn:A; try discriminate. inversion H; subst.
    destruct (vrel_tuple_inv _ _ _ V1 A) as (gl & -> & Vl). inv2 Vl.
    eexists; split; [reflexivity|assumption].
  - (* Snd *)
    args1 H. shape1 F g1 V1. cbn [lib_pure] in *.
    destruct (asTuple sops a1) as [[|a [|b [|? ?]]]|] eqn:A; try discriminate. inversion H; subst.
    destruct (vrel_tuple_inv _ _ _ V1 A) as (gl & -> & Vl). inv2 Vl.
    eexists; split; [reflexivity|assumption].
Qed.

(** ** loops with callbacks *)
Definition Gcb {A} (f:nat -> res A) (r:A) (t':trace) : Prop :=
  exists m0, forall m, m0 <= m -> f m = Done r t'.

Lemma app1_sim f gf x gx t y t1 :
  vrel f gf -> vrel x gx -> sapp f [x] t = Done y t1 ->
  exists gy, vrel y gy /\ exists m0, forall m, m0 <= m -> gapply m gf [gx] t = Done gy t1.
Proof.
  intros Vf Vx H. destruct (HA _ _ [x] [gx] _ _ _ Vf ltac:(repeat constructor; exact Vx) H) as (gy & G & Vy).
  exists gy; split; [exact Vy|exact G].
Qed.

Lemma map_cb_sim f gf : vrel f gf -> forall l gl t ys t',
  Forall2 vrel l gl -> map_cb sapp f l t = Done ys t' ->
  exists gys, Forall2 vrel ys gys /\ Gcb (fun m => map_cb (gapply m) gf gl t) gys t'.
Proof.
  intros Vf. induction l as [|x l IH]; intros gl t ys t' Vl H; inversion Vl as [|? gx ? gl' Vx Vl']; subst; cbn in H.
  - inversion H; subst. exists []; split; [constructor|]. exists 0; intros; reflexivity.
  - destruct (sapp f [x] t) as [y t1| |] eqn:E1; cbn [rbind] in H; try discriminate.
    destruct (map_cb sapp f l t1) as [ys' t2| |] eqn:E2; cbn [rbind] in H; try discriminate.
    inversion H; subst.
    destruct (app1_sim _ _ _ _ _ _ _ Vf Vx E1) as (gy & Vy & m1 & H1).
    destruct (IH _ _ _ _ Vl' E2) as (gys & Vys & m2 & H2).
    exists (gy :: gys); split; [constructor; assumption|].
    exists (Nat.max m1 m2); intros m Hm. cbn. rewrite H1 by lia. cbn [rbind]. rewrite H2 by lia. reflexivity.
Qed.

Lemma mapi_cb_sim f gf : vrel f gf -> forall l gl i t ys t',
  Forall2 vrel l gl -> mapi_cb sops sapp f i l t = Done ys t' ->
  exists gys, Forall2 vrel ys gys /\ Gcb (fun m => mapi_cb gops (gapply m) gf i gl t) gys t'.
Proof.
  intros Vf. induction l as [|x l IH]; intros gl i t ys t' Vl H; inversion Vl as [|? gx ? gl' Vx Vl']; subst; cbn in H.
  - inversion H; subst. exists []; split; [constructor|]. exists 0; intros; reflexivity.
  - destruct (sapp f [VInt i; x] t) as [y t1| |] eqn:E1; cbn [rbind] in H; try discriminate.
    destruct (mapi_cb sops sapp f (i + 1) l t1) as [ys' t2| |] eqn:E2; cbn [rbind] in H; try discriminate.
    inversion H; subst.
    destruct (HA _ _ [VInt i; x] [GVInt i; gx] _ _ _ Vf ltac:(repeat constructor; exact Vx) E1) as (gy & (m1 & H1) & Vy).
    destruct (IH _ _ _ _ _ Vl' E2) as (gys & Vys & m2 & H2).
    exists (gy :: gys); split; [constructor; assumption|].
    exists (Nat.max m1 m2); intros m Hm. cbn. rewrite H1 by lia. cbn [rbind]. rewrite H2 by lia. reflexivity.
Qed.

Lemma filter_cb_sim f gf : vrel f gf -> forall l gl t ys t',
  Forall2 vrel l gl -> filter_cb sops sapp f l t = Done ys t' ->
  exists gys, Forall2 vrel ys gys /\ Gcb (fun m => filter_cb gops (gapply m) gf gl t) gys t'.
Proof.
  intros Vf. induction l as [|x l IH]; intros gl t ys t' Vl H; inversion Vl as [|? gx ? gl' Vx Vl']; subst; cbn in H.
  - inversion H; subst. exists []; split; [constructor|]. exists 0; intros; reflexivity.
  - destruct (sapp f [x] t) as [y t1| |] eqn:E1; cbn [rbind] in H; try discriminate.
    destruct (app1_sim _ _ _ _ _ _ _ Vf Vx E1) as (gy & Vy & m1 & H1).
    pose proof (vB _ _ Vy) as Hb. cbn [asBool sops] in H.
    destruct y; try discriminate. cbn in Hb.
    destruct (filter_cb sops sapp f l t1) as [ys' t2| |] eqn:E2; cbn [rbind] in H; try discriminate.
    inversion H; subst.
    destruct (IH _ _ _ _ Vl' E2) as (gys & Vys & m2 & H2).
    exists (if b then gx :: gys else gys); split; [destruct b; [constructor|]; assumption|].
    exists (Nat.max m1 m2); intros m Hm. cbn. rewrite H1 by lia. cbn [rbind]. rewrite Hb.
    rewrite H2 by lia. reflexivity.
Qed.

Lemma iter_cb_sim f gf : vrel f gf -> forall l gl t y t',
  Forall2 vrel l gl -> iter_cb sops sapp f l t = Done y t' ->
  exists gy, vrel y gy /\ Gcb (fun m => iter_cb gops (gapply m) gf gl t) gy t'.
Proof.
  intros Vf. induction l as [|x l IH]; intros gl t y t' Vl H; inversion Vl as [|? gx ? gl' Vx Vl']; subst; cbn in H.
  - inversion H; subst. exists GVUnit; split; [constructor|]. exists 0; intros; reflexivity.
  - destruct (sapp f [x] t) as [y1 t1| |] eqn:E1; cbn [rbind] in H; try discriminate.
    destruct (app1_sim _ _ _ _ _ _ _ Vf Vx E1) as (gy1 & Vy & m1 & H1).
    destruct (IH _ _ _ _ Vl' H) as (gy & Vys & m2 & H2).
    exists gy; split; [assumption|].
    exists (Nat.max m1 m2); intros m Hm. cbn. rewrite H1 by lia. cbn [rbind]. rewrite H2 by lia. reflexivity.
Qed.

Lemma fold_cb_sim f gf : vrel f gf -> forall l gl s gs t y t',
  Forall2 vrel l gl -> vrel s gs -> fold_cb sapp f s l t = Done y t' ->
  exists gy, vrel y gy /\ Gcb (fun m => fold_cb (gapply m) gf gs gl t) gy t'.
Proof.
  intros Vf. induction l as [|x l IH]; intros gl s gs t y t' Vl Vs H; inversion Vl as [|? gx ? gl' Vx Vl']; subst; cbn in H.
  - inversion H; subst. exists gs; split; [assumption|]. exists 0; intros; reflexivity.
  - destruct (sapp f [s; x] t) as [s1 t1| |] eqn:E1; cbn [rbind] in H; try discriminate.
    destruct (HA _ _ [s; x] [gs; gx] _ _ _ Vf ltac:(repeat constructor; assumption) E1) as (gs1 & (m1 & H1) & Vs1).
    destruct (IH _ _ _ _ _ _ Vl' Vs1 H) as (gy & Vy & m2 & H2).
    exists gy; split; [assumption|].
    exists (Nat.max m1 m2); intros m Hm. cbn. rewrite H1 by lia. cbn [rbind]. rewrite H2 by lia. reflexivity.
Qed.

Lemma forall_cb_sim f gf : vrel f gf -> forall l gl t y t',
  Forall2 vrel l gl -> forall_cb sops sapp f l t = Done y t' ->
  exists gy, vrel y gy /\ Gcb (fun m => forall_cb gops (gapply m) gf gl t) gy t'.
Proof.
  intros Vf. induction l as [|x l IH]; intros gl t y t' Vl H; inversion Vl as [|? gx ? gl' Vx Vl']; subst; cbn in H.
  - inversion H; subst. exists (GVBool true); split; [constructor|]. exists 0; intros; reflexivity.
  - destruct (sapp f [x] t) as [y1 t1| |] eqn:E1; cbn [rbind] in H; try discriminate.
    destruct (app1_sim _ _ _ _ _ _ _ Vf Vx E1) as (gy1 & Vy & m1 & H1).
    pose proof (vB _ _ Vy) as Hb. destruct y1; try discriminate. cbn in Hb, H. destruct b.
    + destruct (IH _ _ _ _ Vl' H) as (gy & Vys & m2 & H2).
      exists gy; split; [assumption|].
      exists (Nat.max m1 m2); intros m Hm. cbn. rewrite H1 by lia. cbn [rbind]. rewrite Hb. rewrite H2 by lia. reflexivity.
    + inversion H; subst. exists (GVBool false); split; [constructor|].
      exists m1; intros m Hm. cbn. rewrite H1 by lia. cbn [rbind]. rewrite Hb. reflexivity.
Qed.

Lemma forany_cb_sim f gf : vrel f gf -> forall l gl t y t',
  Forall2 vrel l gl -> forany_cb sops sapp f l t = Done y t' ->
  exists gy, vrel y gy /\ Gcb (fun m => forany_cb gops (gapply m) gf gl t) gy t'.
Proof.
  intros Vf. induction l as [|x l IH]; intros gl t y t' Vl H; inversion Vl as [|? gx ? gl' Vx Vl']; subst; cbn in H.
  - inversion H; subst. exists (GVBool false); split; [constructor|]. exists 0; intros; reflexivity.
  - destruct (sapp f [x] t) as [y1 t1| |] eqn:E1; cbn [rbind] in H; try discriminate.
    destruct (app1_sim _ _ _ _ _ _ _ Vf Vx E1) as (gy1 & Vy & m1 & H1).
    pose proof (vB _ _ Vy) as Hb. destruct y1; try discriminate. cbn in Hb, H. destruct b.
    + inversion H; subst. exists (GVBool true); split; [constructor|].
      exists m1; intros m Hm. cbn. rewrite H1 by lia. cbn [rbind]. rewrite Hb. reflexivity.
    + destruct (IH _ _ _ _ Vl' H) as (gy & Vys & m2 & H2).
      exists gy; split; [assumption|].
      exists (Nat.max m1 m2); intros m Hm. cbn. rewrite H1 by lia. cbn [rbind]. rewrite Hb. rewrite H2 by lia. reflexivity.
Qed.

(** ** the library *)
Lemma lib_sem_pure ops (app:val -> list val -> trace -> res val) fn vs t :
  pure_fn fn = true -> lib_sem ops app fn vs t = of_opt "library call: panic or ill-typed arguments" (lib_pure ops fn vs) t.
Proof. intros P; destruct fn; try discriminate P; reflexivity. Qed.

Lemma lib_sim fn vs gvs t v t' :
  src_fn fn = true -> Forall2 vrel vs gvs ->
  lib_sem sops sapp fn vs t = Done v t' ->
  exists gv, Glib fn gvs t gv t' /\ vrel v gv.
Proof.
  intros S F H.
  destruct (pure_fn fn) eqn:P.
  { rewrite (lib_sem_pure _ _ _ _ _ P) in H.
    destruct (lib_pure sops fn vs) as [r|] eqn:L; cbn in H; inversion H; subst.
    destruct (lib_pure_sim _ _ _ _ S F L) as (gv & Lg & V).
    exists gv; split; [apply Gl_pure; assumption|exact V]. }
  destruct fn; try discriminate P; try discriminate S.
  - (* Println *)
    destruct vs as [|a1 [|? ?]]; try discriminate H. shape1 F g1 V1. cbn [lib_sem] in H.
    pose proof (vS _ _ V1) as Hs. destruct (asStr sops a1) as [x|] eqn:A; inversion H; subst.
    exists GVUnit; split; [|constructor]. exists 0; intros m _. cbn [lib_sem]. rewrite Hs. reflexivity.
  - (* Printf1 *)
    destruct vs as [|a1 [|a2 [|? ?]]]; try discriminate H. shape2 F g1 V1 g2 V2. cbn [lib_sem] in H.
    pose proof (vS _ _ V1) as Hs. destruct (asStr sops a1) as [x|] eqn:A; try discriminate.
    pose proof (sprintf1_rel x _ _ V2) as Hf. destruct (sprintf1 sops x a2) as [o|] eqn:Sp; inversion H; subst.
    exists GVUnit; split; [|constructor]. exists 0; intros m _. cbn [lib_sem]. rewrite Hs, Hf. reflexivity.
  - (* Map *)
    destruct vs as [|a1 [|a2 [|? ?]]]; try discriminate H. shape2 F g1 V1 g2 V2. cbn [lib_sem] in H.
    destruct (asSlice sops a2) as [l|] eqn:A; try discriminate.
    destruct (vrel_slice_inv _ _ _ V2 A) as (gl & -> & Vl).
    destruct (map_cb sapp a1 l t) as [ys t1| |] eqn:M; cbn [rbind] in H; inversion H; subst.
    destruct (map_cb_sim _ _ V1 _ _ _ _ _ Vl M) as (gys & Vys & m0 & Hm).
    exists (GVSlice gys); split; [|constructor; exact Vys].
    exists m0; intros m Hle. cbn [lib_sem asSlice gops]. rewrite Hm by lia. reflexivity.
  - (* Mapi *)
    destruct vs as [|a1 [|a2 [|? ?]]]; try discriminate H. shape2 F g1 V1 g2 V2. cbn [lib_sem] in H.
    destruct (asSlice sops a2) as [l|] eqn:A; try discriminate.
    destruct (vrel_slice_inv _ _ _ V2 A) as (gl & -> & Vl).
    destruct (mapi_cb sops sapp a1 0 l t) as [ys t1| |] eqn:M; cbn [rbind] in H; inversion H; subst.
    destruct (mapi_cb_sim _ _ V1 _ _ _ _ _ _ Vl M) as (gys & Vys & m0 & Hm).
    exists (GVSlice gys); split; [|constructor; exact Vys].
    exists m0; intros m Hle. cbn [lib_sem asSlice gops]. rewrite Hm by lia. reflexivity.
  - (* Filter *)
    destruct vs as [|a1 [|a2 [|? ?]]]; try discriminate H. shape2 F g1 V1 g2 V2. cbn [lib_sem] in H.
    destruct (asSlice sops a2) as [l|] eqn:A; try discriminate.
    destruct (vrel_slice_inv _ _ _ V2 A) as (gl & -> & Vl).
    destruct (filter_cb sops sapp a1 l t) as [ys t1| |] eqn:M; cbn [rbind] in H; inversion H; subst.
    destruct (filter_cb_sim _ _ V1 _ _ _ _ _ Vl M) as (gys & Vys & m0 & Hm).
    exists (GVSlice gys); split; [|constructor; exact Vys].
    exists m0; intros m Hle. cbn [lib_sem asSlice gops]. rewrite Hm by lia. reflexivity.
  - (* Iter *)
    destruct vs as [|a1 [|a2 [|? ?]]]; try discriminate H. shape2 F g1 V1 g2 V2. cbn [lib_sem] in H.
    destruct (asSlice sops a2) as [l|] eqn:A; try discriminate.
    destruct (vrel_slice_inv _ _ _ V2 A) as (gl & -> & Vl).
    destruct (iter_cb_sim _ _ V1 _ _ _ _ _ Vl H) as (gy & Vy & m0 & Hm).
    exists gy; split; [|exact Vy].
    exists m0; intros m Hle. cbn [lib_sem asSlice gops]. apply Hm; lia.
  - (* Fold *)
    destruct vs as [|a1 [|a2 [|a3 [|? ?]]]]; try discriminate H.
    inversion F as [|? g1 ? ? V1 F1]; subst. inversion F1 as [|? g2 ? ? V2 F2]; subst.
    inversion F2 as [|? g3 ? ? V3 F3]; subst. inversion F3; subst. cbn [lib_sem] in H.
    destruct (asSlice sops a3) as [l|] eqn:A; try discriminate.
    destruct (vrel_slice_inv _ _ _ V3 A) as (gl & -> & Vl).
    destruct (fold_cb_sim _ _ V1 _ _ _ _ _ _ _ Vl V2 H) as (gy & Vy & m0 & Hm).
    exists gy; split; [|exact Vy].
    exists m0; intros m Hle. cbn [lib_sem asSlice gops]. apply Hm; lia.
  - (* Forall *)
    destruct vs as [|a1 [|a2 [|? ?]]]; try discriminate H. shape2 F g1 V1 g2 V2. cbn [lib_sem] in H.
    destruct (asSlice sops a2) as [l|] eqn:A; try discriminate.
    destruct (vrel_slice_inv _ _ _ V2 A) as (gl & -> & Vl).
    destruct (forall_cb_sim _ _ V1 _ _ _ _ _ Vl H) as (gy & Vy & m0 & Hm).
    exists gy; split; [|exact Vy].
    exists m0; intros m Hle. cbn [lib_sem asSlice gops]. apply Hm; lia.
  - (* Forany *)
    destruct vs as [|a1 [|a2 [|? ?]]]; try discriminate H. shape2 F g1 V1 g2 V2. cbn [lib_sem] in H.
    destruct (asSlice sops a2) as [l|] eqn:A; try discriminate.
    destruct (vrel_slice_inv _ _ _ V2 A) as (gl & -> & Vl).
    destruct (forany_cb_sim _ _ V1 _ _ _ _ _ Vl H) as (gy & Vy & m0 & Hm).
    exists gy; split; [|exact Vy].
    exists m0; intros m Hle. cbn [lib_sem asSlice gops]. apply Hm; lia.
Qed.

End LibSim.
