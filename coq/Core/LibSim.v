(** C01 — the library functions preserve the value relation (forward simulation), given that
    applying related functions to related arguments does. *)
From Coq Require Import List ZArith String Ascii Bool Lia.
From FoVerif Require Import Core.Common Core.CommonProofs Core.Lib Core.MiniFo Core.MiniGo Core.Compile
  Core.GoRules Core.SimDefs Core.SimLemmas.
Import ListNotations.
Open Scope list_scope.

Section LibSim.
Variable ctor_ok : string -> string -> bool -> Prop.
Variable gfuncs : list (var * (list var * list gstmt)).
Variable gvars : list (var * gexpr).

Notation vrel := (vrel ctor_ok gfuncs).
Notation Gapply := (Gapply gfuncs gvars).
Notation Glib := (Glib gfuncs gvars).

Variable sapp : val -> list val -> trace -> res val.
Hypothesis HA : forall fv gf vs gvs t v t',
  vrel fv gf -> Forall2 vrel vs gvs -> sapp fv vs t = Done v t' ->
  exists gv, Gapply gf gvs t gv t' /\ vrel v gv.

Lemma lib_sim fn vs gvs t v t' :
  src_fn fn = true -> Forall2 vrel vs gvs ->
  lib_sem sops sapp fn vs t = Done v t' ->
  exists gv, Glib fn gvs t gv t' /\ vrel v gv.
Proof.
Admitted.

End LibSim.
