(** C16: type-variable resolution with the path check terminates, rejects exactly the cyclic
    resolvers it meets, and resolves acyclic ones completely. *)
From Coq Require Import List Arith Bool Lia.
From FoVerif Require Import Core.Resolve.
Import ListNotations.

(* ------------------------------------------------------------------ small facts *)

Lemma mem_In : forall v l, mem v l = true <-> In v l.
Proof.
  induction l as [|x l IH]; cbn [mem In]; [split; [discriminate|tauto]|].
  rewrite orb_true_iff, Nat.eqb_eq, IH. tauto.
Qed.

Lemma mem_false_notin : forall v l, mem v l = false -> ~ In v l.
Proof. intros v l H Hin. apply mem_In in Hin. congruence. Qed.

Lemma is_same_var_true : forall rc v, is_same_var rc v = true -> rc = TVar v.
Proof. intros rc v H. destruct rc; try discriminate. apply Nat.eqb_eq in H. subst. reflexivity. Qed.

Lemma is_same_var_false : forall rc v, is_same_var rc v = false -> rc <> TVar v.
Proof. intros rc v H E. subst. cbn in H. rewrite Nat.eqb_refl in H. discriminate. Qed.

Lemma bound_not_same : forall m v, bound m v -> is_same_var (lookup m v) v = false.
Proof.
  intros m v H. destruct (is_same_var (lookup m v) v) eqn:E; [|reflexivity].
  apply is_same_var_true in E. contradiction.
Qed.

Lemma depth_pos : forall t, 1 <= depth t.
Proof. destruct t; cbn; lia. Qed.

Lemma depth_in_le : forall e ts, In e ts ->
  depth e <= fold_right (fun e acc => Nat.max (depth e) acc) 0 ts.
Proof.
  induction ts as [|a ts IH]; intros H; [destruct H|].
  cbn [fold_right]. destruct H as [->|H]; [lia|]. specialize (IH H). lia.
Qed.

Lemma lookup_entry : forall m v, lookup m v = TVar v \/ In (v, lookup m v) m.
Proof.
  induction m as [|[k t] m IH]; intros v; cbn [lookup]; [left; reflexivity|].
  destruct (k =? v) eqn:E.
  - apply Nat.eqb_eq in E. subst. right. left. reflexivity.
  - destruct (IH v) as [H|H]; [left; exact H|right; right; exact H].
Qed.

Lemma depth_entry_le : forall m k t, In (k, t) m -> depth t <= max_depth m.
Proof.
  induction m as [|[k' t'] m IH]; intros k t H; [destruct H|].
  unfold max_depth in *. cbn [fold_right snd]. destruct H as [H|H].
  - inversion H; subst. lia.
  - specialize (IH _ _ H). lia.
Qed.

(* ------------------------------------------------------------------ map_res *)

Lemma map_res_no_fuel : forall f ts,
  (forall e, In e ts -> f e <> ROutOfFuel) -> map_res f ts <> MOutOfFuel.
Proof.
  induction ts as [|a ts IH]; intros H; cbn [map_res]; [discriminate|].
  pose proof (H a (or_introl eq_refl)) as Ha.
  destruct (f a); [|discriminate|contradiction].
  specialize (IH (fun e He => H e (or_intror He))).
  destruct (map_res f ts); [discriminate|discriminate|contradiction].
Qed.

Lemma map_res_cyclic : forall f ts, map_res f ts = MCyclic -> exists e, In e ts /\ f e = Cyclic.
Proof.
  induction ts as [|a ts IH]; intros H; cbn [map_res] in H; [discriminate|].
  destruct (f a) eqn:Ea.
  - destruct (map_res f ts); try discriminate.
    destruct (IH eq_refl) as (e & He & Hc). exists e. split; [right; exact He|exact Hc].
  - exists a. split; [left; reflexivity|exact Ea].
  - discriminate.
Qed.

Lemma map_res_resolved : forall f ts ts', map_res f ts = MResolved ts' ->
  (forall e, In e ts -> exists e', f e = Resolved e') /\
  (forall e', In e' ts' -> exists e, In e ts /\ f e = Resolved e').
Proof.
  induction ts as [|a ts IH]; intros ts' H; cbn [map_res] in H.
  - inversion H; subst. split; intros e He; destruct He.
  - destruct (f a) eqn:Ea; try discriminate.
    destruct (map_res f ts) as [r| |]; try discriminate.
    inversion H; subst. destruct (IH r eq_refl) as [H1 H2]. split.
    + intros e [->|He]; [eauto|apply H1; exact He].
    + intros e' [<-|He'].
      * exists a. split; [left; reflexivity|exact Ea].
      * destruct (H2 e' He') as (e & He & Hr). exists e. split; [right; exact He|exact Hr].
Qed.

(* ------------------------------------------------------------------ (a) enough fuel *)

(** entries that can still be entered: distinct keys of the resolver that are not on the path *)
Definition avail (m : resolver) (path : list nat) : nat :=
  List.length (filter (fun k => negb (mem k path)) (nodup Nat.eq_dec (map fst m))).

Lemma filter_length_le : forall (p : nat -> bool) l, List.length (filter p l) <= List.length l.
Proof. induction l as [|a l IH]; cbn; [lia|]. destruct (p a); cbn; lia. Qed.

Lemma nodup_length_le : forall l : list nat, List.length (nodup Nat.eq_dec l) <= List.length l.
Proof. induction l as [|a l IH]; cbn; [lia|]. destruct (in_dec Nat.eq_dec a l); cbn; lia. Qed.

Lemma avail_le : forall m path, avail m path <= List.length m.
Proof.
  intros. unfold avail. etransitivity; [apply filter_length_le|].
  etransitivity; [apply nodup_length_le|]. rewrite map_length. lia.
Qed.

Lemma filter_length_mono : forall (p q : nat -> bool) l,
  (forall x, q x = true -> p x = true) -> List.length (filter q l) <= List.length (filter p l).
Proof.
  induction l as [|a l IH]; intros H; cbn; [lia|]. specialize (IH H).
  destruct (q a) eqn:Eq.
  - rewrite (H a Eq). cbn. lia.
  - destruct (p a); cbn; lia.
Qed.

Lemma filter_length_lt : forall (p q : nat -> bool) l x,
  (forall y, q y = true -> p y = true) -> In x l -> p x = true -> q x = false ->
  List.length (filter q l) < List.length (filter p l).
Proof.
  induction l as [|a l IH]; intros x H Hin Hp Hq; [destruct Hin|].
  cbn. destruct Hin as [->|Hin].
  - rewrite Hp, Hq. cbn. pose proof (filter_length_mono p q l H). lia.
  - specialize (IH x H Hin Hp Hq). destruct (q a) eqn:Eq.
    + rewrite (H a Eq). cbn. lia.
    + destruct (p a); cbn; lia.
Qed.

Lemma bound_in_keys : forall m v, bound m v -> In v (map fst m).
Proof.
  intros m v H. destruct (lookup_entry m v) as [E|E]; [contradiction|].
  apply in_map_iff. exists (v, lookup m v). split; [reflexivity|exact E].
Qed.

Lemma avail_push : forall m path v,
  bound m v -> mem v path = false -> avail m (v :: path) < avail m path.
Proof.
  intros m path v Hb Hm. unfold avail.
  apply filter_length_lt with (x := v).
  - intros y Hy. cbn [mem] in Hy. apply negb_true_iff in Hy. apply orb_false_iff in Hy.
    apply negb_true_iff. tauto.
  - apply nodup_In. apply bound_in_keys. exact Hb.
  - rewrite Hm. reflexivity.
  - cbn [mem]. rewrite Nat.eqb_refl. reflexivity.
Qed.

Lemma bound_depth_le : forall m v, bound m v -> depth (lookup m v) <= max_depth m.
Proof.
  intros m v H. destruct (lookup_entry m v) as [E|E]; [contradiction|].
  eapply depth_entry_le; eauto.
Qed.

Lemma resolve_fuel_enough : forall fuel m path t,
  depth t + avail m path * S (max_depth m) <= fuel ->
  resolve_path fuel m path t <> ROutOfFuel.
Proof.
  induction fuel as [|f IH]; intros m path t Hf.
  { pose proof (depth_pos t). lia. }
  cbn [resolve_path]. destruct t as [v|b|e|ts|ts].
  - destruct (mem v path) eqn:Em; [discriminate|].
    destruct (is_same_var (lookup m v) v) eqn:Es; [discriminate|].
    apply is_same_var_false in Es.
    pose proof (avail_push m path v Es Em) as Hlt.
    pose proof (bound_depth_le m v Es) as Hd.
    apply IH.
    assert (Hmul : S (avail m (v :: path)) * S (max_depth m) <= avail m path * S (max_depth m))
      by (apply Nat.mul_le_mono_r; lia).
    cbn [depth] in Hf. lia.
  - discriminate.
  - cbn [depth] in Hf. specialize (IH m path e ltac:(lia)).
    destruct (resolve_path f m path e); [discriminate|discriminate|contradiction].
  - cbn [depth] in Hf.
    assert (H : map_res (resolve_path f m path) ts <> MOutOfFuel).
    { apply map_res_no_fuel. intros e He. apply IH. pose proof (depth_in_le e ts He). lia. }
    destruct (map_res (resolve_path f m path) ts); cbn; [discriminate|discriminate|contradiction].
  - cbn [depth] in Hf.
    assert (H : map_res (resolve_path f m path) ts <> MOutOfFuel).
    { apply map_res_no_fuel. intros e He. apply IH. pose proof (depth_in_le e ts He). lia. }
    destruct (map_res (resolve_path f m path) ts); cbn; [discriminate|discriminate|contradiction].
Qed.

(** C16: for every finite resolver and type, resolution with fuel
    depth + entries * (deepest entry + 1) ends with a resolved type or the diagnostic —
    never ROutOfFuel: the path strictly grows among the finitely many bound variables *)
Theorem resolve_terminates : forall m t,
  exists r, resolve m t = r /\ (r = Cyclic \/ exists t', r = Resolved t').
Proof.
  intros m t. pose proof (resolve_fuel_enough (resolve_fuel m t) m [] t) as H.
  unfold resolve. destruct (resolve_path (resolve_fuel m t) m [] t) as [t'| |] eqn:E.
  - eexists. split; [reflexivity|]. right. eauto.
  - eexists. split; [reflexivity|]. left. reflexivity.
  - exfalso. apply H; [|reflexivity]. unfold resolve_fuel.
    pose proof (avail_le m []) as Ha.
    assert (avail m [] * S (max_depth m) <= List.length m * S (max_depth m))
      by (apply Nat.mul_le_mono_r; exact Ha).
    lia.
Qed.

(* ------------------------------------------------------------------ (b) Cyclic only on a cycle *)

Fixpoint chain (m : resolver) (path : list nat) : Prop :=
  match path with
  | [] => True
  | a :: r => match r with [] => True | b :: _ => edge m b a end /\ chain m r
  end.

Definition head_ok (m : resolver) (path : list nat) (t : ty) : Prop :=
  forall w, occurs w t -> match path with [] => True | p :: _ => edge m p w end.

Lemma walk_snoc : forall m a b c, walk m a b -> edge m b c -> walk m a c.
Proof.
  intros m a b c H. induction H as [a|a x b He Hw IH]; intros Hc.
  - eapply walk_step; [exact Hc|apply walk_refl].
  - eapply walk_step; [exact He|apply IH; exact Hc].
Qed.

Lemma chain_walk : forall m path p v, chain m (p :: path) -> In v (p :: path) -> walk m v p.
Proof.
  induction path as [|b path IH]; intros p v Hc Hin.
  - destruct Hin as [->|[]]. apply walk_refl.
  - destruct Hin as [->|Hin]; [apply walk_refl|].
    cbn [chain] in Hc. destruct Hc as [Hbp Hc].
    eapply walk_snoc; [apply IH; [exact Hc|exact Hin]|exact Hbp].
Qed.

Lemma cyclic_sound_path : forall fuel m path t,
  chain m path -> head_ok m path t -> resolve_path fuel m path t = Cyclic ->
  exists v, on_cycle m v.
Proof.
  induction fuel as [|f IH]; intros m path t Hc Hh H; cbn [resolve_path] in H; [discriminate|].
  destruct t as [v|b|e|ts|ts].
  - destruct (mem v path) eqn:Em.
    + apply mem_In in Em. destruct path as [|p path]; [destruct Em|].
      pose proof (Hh v (OVar v)) as Hpv. cbn in Hpv.
      exists p. exists v. split; [exact Hpv|]. eapply chain_walk; eauto.
    + destruct (is_same_var (lookup m v) v) eqn:Es; [discriminate|].
      apply is_same_var_false in Es.
      apply IH in H; [exact H| |].
      * cbn [chain]. split; [|exact Hc]. destruct path as [|p path]; [exact I|].
        exact (Hh v (OVar v)).
      * intros w Hw. split; [exact Es|exact Hw].
  - discriminate.
  - destruct (resolve_path f m path e) eqn:Ee; try discriminate.
    eapply IH; [exact Hc| |exact Ee].
    intros w Hw. apply Hh. apply OSlice. exact Hw.
  - destruct (map_res (resolve_path f m path) ts) eqn:Em; try discriminate.
    apply map_res_cyclic in Em. destruct Em as (e & He & Hce).
    eapply IH; [exact Hc| |exact Hce].
    intros w Hw. apply Hh. eapply OTuple; eauto.
  - destruct (map_res (resolve_path f m path) ts) eqn:Em; try discriminate.
    apply map_res_cyclic in Em. destruct Em as (e & He & Hce).
    eapply IH; [exact Hc| |exact Hce].
    intros w Hw. apply Hh. eapply OFunc; eauto.
Qed.

(** the diagnostic is only given when the resolver really has a variable that depends on itself *)
Theorem resolve_cyclic_sound : forall m t, resolve m t = Cyclic -> exists v, on_cycle m v.
Proof.
  intros m t H. unfold resolve in H.
  eapply cyclic_sound_path; [| |exact H]; [exact I|intros w _; exact I].
Qed.

(* ------------------------------------------------------------------ (d) a result is fully resolved *)

Lemma resolved_only_unbound : forall fuel m path t t',
  resolve_path fuel m path t = Resolved t' ->
  forall w, occurs w t' -> lookup m w = TVar w.
Proof.
  induction fuel as [|f IH]; intros m path t t' H w Hw; cbn [resolve_path] in H; [discriminate|].
  destruct t as [v|b|e|ts|ts].
  - destruct (mem v path); [discriminate|].
    destruct (is_same_var (lookup m v) v) eqn:Es.
    + inversion H; subst. apply is_same_var_true in Es. rewrite Es in Hw.
      inversion Hw; subst. exact Es.
    + eapply IH; eauto.
  - inversion H; subst. inversion Hw.
  - destruct (resolve_path f m path e) eqn:Ee; try discriminate.
    inversion H; subst. inversion Hw; subst. eapply IH; eauto.
  - destruct (map_res (resolve_path f m path) ts) eqn:Em; try discriminate.
    cbn in H. inversion H; subst. inversion Hw; subst.
    apply map_res_resolved in Em. destruct Em as [_ Hout].
    destruct (Hout _ H1) as (e0 & _ & Hr). eapply IH; eauto.
  - destruct (map_res (resolve_path f m path) ts) eqn:Em; try discriminate.
    cbn in H. inversion H; subst. inversion Hw; subst.
    apply map_res_resolved in Em. destruct Em as [_ Hout].
    destruct (Hout _ H1) as (e0 & _ & Hr). eapply IH; eauto.
Qed.

(** C16: on an acyclic resolver the routcome is a resolved type, and that type mentions only
    variables the resolver leaves unresolved *)
Theorem resolve_acyclic_ok : forall m t,
  acyclic m ->
  exists t', resolve m t = Resolved t' /\ forall w, occurs w t' -> ~ bound m w.
Proof.
  intros m t Hac. destruct (resolve_terminates m t) as (r & Hr & [->|(t' & ->)]).
  - exfalso. destruct (resolve_cyclic_sound m t Hr) as (v & Hv). exact (Hac v Hv).
  - exists t'. split; [exact Hr|]. intros w Hw Hb. apply Hb.
    unfold resolve in Hr. eapply resolved_only_unbound; eauto.
Qed.

(* ------------------------------------------------------------------ (c) every reachable cycle is met *)

Definition R (m : resolver) (p : list nat) (w : nat) : Prop :=
  exists f r, resolve_path f m p (TVar w) = Resolved r.

Lemma resolved_sub : forall fuel m path t t',
  resolve_path fuel m path t = Resolved t' -> forall w, occurs w t -> R m path w.
Proof.
  induction fuel as [|f IH]; intros m path t t' H w Hw; [discriminate|].
  destruct t as [v|b|e|ts|ts].
  - inversion Hw; subst. exists (S f), t'. exact H.
  - inversion Hw.
  - cbn [resolve_path] in H. destruct (resolve_path f m path e) eqn:Ee; try discriminate.
    inversion Hw; subst. eapply IH; eauto.
  - cbn [resolve_path] in H. destruct (map_res (resolve_path f m path) ts) eqn:Em; try discriminate.
    inversion Hw; subst. apply map_res_resolved in Em. destruct Em as [Hin _].
    destruct (Hin _ H1) as (e' & He'). eapply IH; eauto.
  - cbn [resolve_path] in H. destruct (map_res (resolve_path f m path) ts) eqn:Em; try discriminate.
    inversion Hw; subst. apply map_res_resolved in Em. destruct Em as [Hin _].
    destruct (Hin _ H1) as (e' & He'). eapply IH; eauto.
Qed.

Lemma R_notin : forall m p w, R m p w -> ~ In w p.
Proof.
  intros m p w (f & r & H). destruct f as [|f]; [discriminate|]. cbn [resolve_path] in H.
  destruct (mem w p) eqn:Em; [discriminate|]. apply mem_false_notin. exact Em.
Qed.

Lemma R_step : forall m p w x, R m p w -> edge m w x -> R m (w :: p) x.
Proof.
  intros m p w x (f & r & H) [Hb Ho]. destruct f as [|f]; [discriminate|]. cbn [resolve_path] in H.
  destruct (mem w p); [discriminate|]. rewrite (bound_not_same m w Hb) in H.
  eapply resolved_sub; eauto.
Qed.

Lemma R_walk : forall m a b, walk m a b ->
  forall p, R m p a -> exists p', R m p' b /\ incl p p' /\ (a = b \/ In a p').
Proof.
  intros m a b H. induction H as [a|a x b He Hw IH]; intros p HR.
  - exists p. split; [exact HR|]. split; [apply incl_refl|left; reflexivity].
  - destruct (IH (a :: p) (R_step _ _ _ _ HR He)) as (p' & HR' & Hincl & _).
    exists p'. split; [exact HR'|]. split.
    + intros z Hz. apply Hincl. right. exact Hz.
    + right. apply Hincl. left. reflexivity.
Qed.

Lemma resolved_no_reachable_cycle : forall fuel m t t',
  resolve_path fuel m [] t = Resolved t' ->
  forall w v, occurs w t -> walk m w v -> ~ on_cycle m v.
Proof.
  intros fuel m t t' H w v Hw Hwalk (y & Hvy & Hyv).
  pose proof (resolved_sub _ _ _ _ _ H w Hw) as HR.
  destruct (R_walk m w v Hwalk [] HR) as (p & HRv & _ & _).
  pose proof (R_step _ _ _ _ HRv Hvy) as HRy.
  destruct (R_walk m y v Hyv (v :: p) HRy) as (p' & HRv' & Hincl & _).
  apply (R_notin _ _ _ HRv'). apply Hincl. left. reflexivity.
Qed.

(** C16: if a variable reachable from the type depends on itself the routcome is the diagnostic
    (not divergence, not a wrong type) *)
Theorem resolve_cyclic_detected : forall m t w v,
  occurs w t -> walk m w v -> on_cycle m v -> resolve m t = Cyclic.
Proof.
  intros m t w v Hw Hwalk Hcyc.
  destruct (resolve_terminates m t) as (r & Hr & [->|(t' & ->)]); [exact Hr|].
  exfalso. unfold resolve in Hr.
  exact (resolved_no_reachable_cycle _ _ _ _ Hr w v Hw Hwalk Hcyc).
Qed.

(* ------------------------------------------------------------------ the repaired defect *)

(** T0 := func(T0) T1   (what `let f x = x x` produces) *)
Definition self_applied : resolver := [(0, TFunc [TVar 0; TVar 1])].

Lemma resolve_old_self_applied : forall fuel,
  resolve_old fuel self_applied (TVar 0) = ROutOfFuel /\
  resolve_old fuel self_applied (TFunc [TVar 0; TVar 1]) = ROutOfFuel.
Proof.
  induction fuel as [|f [IH1 IH2]]; [split; reflexivity|]. split.
  - cbn [resolve_old]. replace (lookup self_applied 0) with (TFunc [TVar 0; TVar 1]) by reflexivity.
    cbn [is_same_var]. exact IH2.
  - cbn [resolve_old map_res]. rewrite IH1. reflexivity.
Qed.

(** before commit 9e9e4ad (no path check) the resolution of a self-applied function's type
    exhausts every amount of fuel: unbounded recursion, in Go a fatal stack overflow *)
Theorem resolve_old_refuted :
  exists m t, forall fuel, resolve_old fuel m t = ROutOfFuel.
Proof. exists self_applied, (TVar 0). intros fuel. apply resolve_old_self_applied. Qed.

Example resolve_now_self_applied : resolve self_applied (TVar 0) = Cyclic.
Proof. vm_compute. reflexivity. Qed.
