(** C17 — tinyfo's lowering preserves behaviour: the simulation of Core/Sim.v is generic in the dialect,
    so the theorem is the instance [DTiny] (with tinyfo's initial temporary counter). *)
From Coq Require Import List ZArith String Ascii Bool Lia.
From FoVerif Require Import Core.Common Core.Lib Core.MiniFo Core.MiniGo Core.Compile Core.SimDefs
  Core.CompileProof Core.FuelMono Core.CompileMore Core.CompileExamples Core.CompileTiny.
Import ListNotations.
Open Scope list_scope.

Lemma compile_tiny_correct_eventually p (Hp:pap_args_pure p) n out :
  run_src n p = ODone out -> exists m0, forall m, m0 <= m -> run_go m (compile_tiny p) = ODone out.
Proof. exact (compile_correct_eventually_d DTiny (tiny_start p) p Hp n out). Qed.

Theorem compile_tiny_correct : forall p n out,
  tiny_subset p -> wt p -> pap_args_pure p ->
  run_src n p = ODone out -> exists m, run_go m (compile_tiny p) = ODone out.
Proof.
  intros p n out _ _ Hp R. destruct (compile_tiny_correct_eventually p Hp n out R) as (m0 & H).
  exists m0. apply H. apply le_n.
Qed.

(** every completed run of tinyfo's Go prints what the source prints *)
Theorem tiny_output_is_source_output p n out :
  tiny_subset p -> wt p -> pap_args_pure p -> run_src n p = ODone out ->
  forall m out', run_go m (compile_tiny p) = ODone out' -> out' = out.
Proof.
  intros _ _ Hp R m out' G. destruct (compile_tiny_correct_eventually p Hp n out R) as (m0 & H).
  symmetry. eapply run_go_unique; [apply (H m0 (le_n _))|exact G].
Qed.

(** … hence the same as fc's translation of the same program *)
Theorem tiny_agrees_with_fc p n o m1 m2 out out' :
  tiny_subset p -> wt p -> pap_args_pure p -> run_src n p = ODone o ->
  run_go m1 (compile_tiny p) = ODone out -> run_go m2 (compile_prog p) = ODone out' -> out = out'.
Proof.
  intros Ht Hw Hp R G1 G2.
  rewrite (tiny_output_is_source_output p n o Ht Hw Hp R m1 out G1).
  rewrite (go_output_is_source_output p n o Hp R m2 out' G2). reflexivity.
Qed.

(** both translations of a terminating program of the subset terminate, with the same output *)
Theorem tiny_and_fc_both_run p n o :
  tiny_subset p -> wt p -> pap_args_pure p -> run_src n p = ODone o ->
  exists m, run_go m (compile_tiny p) = ODone o /\ run_go m (compile_prog p) = ODone o.
Proof.
  intros _ _ Hp R.
  destruct (compile_tiny_correct_eventually p Hp n o R) as (m1 & H1).
  destruct (compile_correct_eventually p Hp n o R) as (m2 & H2).
  exists (Nat.max m1 m2). split; [apply H1|apply H2]; lia.
Qed.

(** ** examples *)
Definition ex_tiny : prog :=
{| p_unions := [("Shape"%string, [("Circle"%string, true); ("Rect"%string, true); ("Empty"%string, false)])];
   p_funs := [("say"%string, (["s"%string; "n"%string],
 (BDo (EExt LPrintln [(EVar "s"%string)])
 (BRet (EVar "n"%string) false)))); ("add"%string, (["a"%string; "b"%string],
 (BRet (EBin OAdd (EVar "a"%string) (EVar "b"%string)) false))); ("hello"%string, ([],
 (BRet (EExt LPrintln [(EStr "hello"%string)]) true))); ("fact"%string, (["n"%string],
 (BRet (EIf (EBin OLe (EVar "n"%string) (EInt (0)%Z)) (BRet (EInt (1)%Z) false) (BRet (EBin OAdd (EVar "n"%string) (ECall "fact"%string 0 false [(EBin OSub (EVar "n"%string) (EInt (1)%Z))])) false)) false))); ("area"%string, (["s"%string],
 (BRet (EMatchU (EVar "s"%string) "Shape"%string [("Circle"%string, (Some "r"%string), (BRet (EBin OAdd (EVar "r"%string) (EVar "r"%string)) false)); ("Rect"%string, (Some "p"%string), (BDestr ["w"%string; "h"%string] (EVar "p"%string)
 (BRet (EBin OAdd (EVar "w"%string) (EVar "h"%string)) false))); ("Empty"%string, None, (BRet (EInt (0)%Z) false))] None) false))); ("isCircle"%string, (["s"%string],
 (BRet (EMatchU (EVar "s"%string) "Shape"%string [("Circle"%string, None, (BRet (EBool true) false))] (Some (BRet (EBool false) false))) false))); ("name"%string, (["s"%string],
 (BRet (EMatchU (EVar "s"%string) "Shape"%string [("Circle"%string, None, (BRet (EStr "circle"%string) false)); ("Rect"%string, None, (BRet (EStr "rect"%string) false)); ("Empty"%string, None, (BRet (EStr "empty"%string) false))] None) false))); ("show"%string, (["n"%string],
 (BRet (EExt LPrintf1 [(EStr "%d
"%string); (EVar "n"%string)]) true)))];
   p_main := (BLet "x"%string (EBin OSub (EBin OAdd (EInt (1)%Z) (EInt (2)%Z)) (EInt (3)%Z))
 (BLet "g"%string (ECall "add"%string 1 false [(EInt (1)%Z)])
 (BLet "y"%string (ECall "g"%string 0 false [(EInt (2)%Z)])
 (BDo (EExt LPrintf1 [(EStr "%d
"%string); (EVar "y"%string)])
 (BDo (ECall "hello"%string 0 true [])
 (BLet "r"%string (ERecord "Rec"%string ["X"%string; "Name"%string] ["X"%string; "Name"%string] [(EInt (1)%Z); (EStr "abc"%string)])
 (BDo (EExt LPrintln [(EField (EVar "r"%string) "Name"%string)])
 (BLet "t"%string (ETuple [(EInt (1)%Z); (EStr "two"%string)])
 (BDestr ["a"%string; "b"%string] (EVar "t"%string)
 (BDo (EExt LPrintf1 [(EStr "%d
"%string); (EVar "a"%string)])
 (BDo (EExt LPrintln [(EVar "b"%string)])
 (BLet "z"%string (EIf (EBin OAnd (EBin OGt (EVar "x"%string) (EInt (3)%Z)) (EBin OLt (EVar "y"%string) (EInt (5)%Z))) (BRet (EInt (10)%Z) false) (BRet (EInt (20)%Z) false))
 (BDo (EIf (EEq false (EVar "x"%string) (EInt (7)%Z)) (BRet (EExt LPrintln [(EStr "seven"%string)]) true) (BRet (EIf (EEq false (EVar "x"%string) (EInt (8)%Z)) (BRet (EExt LPrintln [(EStr "eight"%string)]) true) (BRet (EExt LPrintln [(EStr "not seven"%string)]) true)) true))
 (BDo (EIfOnly (EEq true (EVar "x"%string) (EInt (7)%Z)) (BRet (EExt LPrintln [(EStr "only"%string)]) true))
 (BLet "s"%string (ESlice [(EInt (1)%Z); (EInt (2)%Z); (EInt (3)%Z)])
 (BLet "s2"%string (EPipeExt (EPipeExt (EVar "s"%string) LMap [(ECall "add"%string 1 false [(EInt (1)%Z)])] false) LTake [(EInt (2)%Z)] false)
 (BDo (EExt LPrintf1 [(EStr "%v
"%string); (EVar "s2"%string)])
 (BDo (EPipeExt (EVar "s2"%string) LIter [(EVar "show"%string)] true)
 (BLet "c"%string (ECtor "Shape"%string "Circle"%string (Some (EInt (3)%Z)))
 (BDo (EExt LPrintf1 [(EStr "%d
"%string); (ECall "area"%string 0 false [(EVar "c"%string)])])
 (BDo (EExt LPrintf1 [(EStr "%d
"%string); (ECall "area"%string 0 false [(ECtor "Shape"%string "Empty"%string None)])])
 (BDo (EExt LPrintf1 [(EStr "%d
"%string); (ECall "area"%string 0 false [(ECtor "Shape"%string "Rect"%string (Some (ETuple [(EInt (2)%Z); (EInt (3)%Z)])))])])
 (BDo (EExt LPrintf1 [(EStr "%v
"%string); (ECall "isCircle"%string 0 false [(EVar "c"%string)])])
 (BDo (EExt LPrintln [(ECall "name"%string 0 false [(EVar "c"%string)])])
 (BLet "w"%string (EBin OOr (ENot (EEq false (EVar "x"%string) (EInt (3)%Z))) (EBin OGt (EVar "z"%string) (EInt (4)%Z)))
 (BDo (EExt LPrintf1 [(EStr "%v
"%string); (EVar "w"%string)])
 (BLet "m"%string (EMatchU (EVar "c"%string) "Shape"%string [("Circle"%string, (Some "rr"%string), (BRet (EBin OAdd (EVar "rr"%string) (EInt (1)%Z)) false))] (Some (BRet (EInt (0)%Z) false)))
 (BDo (EExt LPrintf1 [(EStr "%d
"%string); (EVar "m"%string)])
 (BDo (EMatchU (EVar "c"%string) "Shape"%string [("Circle"%string, (Some "r2"%string), (BRet (EExt LPrintf1 [(EStr "%d
"%string); (EVar "r2"%string)]) true)); ("Rect"%string, None, (BRet (EExt LPrintln [(EStr "rect"%string)]) true)); ("Empty"%string, None, (BRet (EExt LPrintln [(EStr "empty"%string)]) true))] None)
 (BDo (EPipeVar (EPipeCall (EInt (3)%Z) "add"%string [(EInt (2)%Z)] false) "show"%string true)
 (BDo (EExt LPrintf1 [(EStr "%d
"%string); (ECall "say"%string 0 false [(EStr "eff"%string); (EInt (3)%Z)])])
 (BDo (EExt LPrintf1 [(EStr "%d
"%string); (ECall "fact"%string 0 false [(EInt (5)%Z)])])
 (BRet (EExt LPrintln [(EStr "done"%string)]) true))))))))))))))))))))))))))))))))) |}.

Lemma ex_tiny_subset : tiny_subset ex_tiny.
Proof. apply (tiny_b_sound 40). vm_compute. reflexivity. Qed.
Lemma ex_tiny_pure : pap_args_pure ex_tiny.
Proof. unfold pap_args_pure, wfp, ex_tiny; cbn [p_unions p_funs p_main]. wf_solve. Qed.
Lemma ex_tiny_wt : wt ex_tiny.
Proof. unfold wt, wfp, ex_tiny; cbn [p_unions p_funs p_main]. wf_solve. Qed.

(** the effectful partial application of C01 lies in tinyfo's subset: tinyfo has the same defect as fc
    (its closure re-evaluates the supplied arguments at each call) and agrees with fc, not with the source *)
Lemma ex_effectful_pap_tiny : tiny_subset ex_effectful_pap.
Proof. apply (tiny_b_sound 40). vm_compute. reflexivity. Qed.
Lemma ex_effectful_pap_tiny_go :
  run_go 200 (compile_tiny ex_effectful_pap) = run_go 200 (compile_prog ex_effectful_pap).
Proof. vm_compute. reflexivity. Qed.
