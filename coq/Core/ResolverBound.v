(** C02/C16 — the bounded loop of updateResolver as it is in fc/infer.fo since cc92c84
    (definitions only):

      let updateResolverN (count:int) (work:int) res rels =
        if (count > 1000) || (work > 100000) then PanicNow "Type inference does not converge, ..."
        let nrels = rels |> slice.Map (updateResOne res) |> slice.Concat
        if slice.IsEmpty nrels then res
        else updateResolverN (count+1) (work + slice.Length nrels) res nrels
      let updateResolver res rels = updateResolverN 0 0 res rels

    [count] = rounds so far, [work] = relations produced so far (both in N; the fuel is a nat).
    Outcomes: solved resolver / the "does not converge" diagnostic / out of fuel - and, as before,
    the panic of compositeTp on a shape clash. *)
From Coq Require Import NArith Arith Bool List.
From FoVerif Require Import Core.Unify Core.Infer Core.Resolver.
Import ListNotations.

Definition round_bound : N := 1000.
Definition work_bound : N := 100000.

Inductive bres := BDone (st:resolver) (ignored:bool) | BNoConv | BPanic | BFuel.

Section Bounded.
Variable later : nat -> nat -> bool.
Variable enum : list nat -> list nat.

Fixpoint update_resolver_n (fuel:nat) (count work:N) (st:resolver) (rels:list rel) : bres :=
  match fuel with
  | O => BFuel
  | S n =>
      if (N.ltb round_bound count || N.ltb work_bound work)%bool then BNoConv
      else
        match update_round later enum st rels with
        | UOk st1 nrels g =>
            match nrels with
            | [] => BDone st1 g
            | _ => match update_resolver_n n (count + 1) (work + N.of_nat (length nrels)) st1 nrels with
                   | BDone st2 g2 => BDone st2 (g || g2)
                   | o => o end
            end
        | UPanic => BPanic
        end
  end.

Definition update_resolver_b (fuel:nat) (st:resolver) (rels:list rel) : bres :=
  update_resolver_n fuel 0 0 st rels.

(** rounds continued and relations produced by a run of the unbounded loop that ends *)
Fixpoint run_stats (fuel:nat) (st:resolver) (rels:list rel) : option (N * N) :=
  match fuel with
  | O => None
  | S n =>
      match update_round later enum st rels with
      | UOk st1 nrels _ =>
          match nrels with
          | [] => Some (0, 0)%N
          | _ => match run_stats n st1 nrels with
                 | Some (r, w) => Some (r + 1, w + N.of_nat (length nrels))%N
                 | None => None end
          end
      | UPanic => None
      end
  end.

(** the relation list after k passes (for the examples) *)
Fixpoint rels_after (k:nat) (st:resolver) (rels:list rel) : option (list rel) :=
  match k with
  | O => Some rels
  | S k' => match update_round later enum st rels with
            | UOk st1 nrels _ => rels_after k' st1 nrels
            | UPanic => None end
  end.

(** whole problems with the bounded loop, from explicit relations or from equations *)
Inductive bsolve_res := BSSolved (st:resolver) (ignored:bool) | BSNoConv | BSPanic | BSFuel.

Definition bsolve_rels (fuel:nat) (R:list rel) : bsolve_res :=
  match update_resolver_b fuel [] R with
  | BDone st g => BSSolved st g
  | BNoConv => BSNoConv
  | BPanic => BSPanic
  | BFuel => BSFuel
  end.

Definition bsolve (fuel:nat) (es:list eqn) : bsolve_res :=
  match rels_of later es with
  | None => BSPanic
  | Some (R, g) =>
      match bsolve_rels fuel R with
      | BSSolved st g2 => BSSolved st (g || g2)
      | o => o end
  end.

End Bounded.

(** enough fuel for every input (theorem update_resolver_n_terminates): 1002 *)
Definition bound_fuel : nat := N.to_nat 1002.
