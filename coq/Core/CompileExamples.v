(** C01 — concrete programs: a non-vacuity witness for [compile_correct_partial] and the program that
    refutes the statement without [pap_args_pure] (finding (a): fc re-evaluates the arguments of a
    partial application at every call).  The ASTs are the elaborations of oracle/c01_tests/p11_demo.sexp
    and p04_effectful_pap.sexp, printed by [C01 (coq <prog>)]. *)
From Coq Require Import List ZArith String Ascii Bool.
From FoVerif Require Import Core.Common Core.Lib Core.MiniFo Core.MiniGo Core.Compile Core.SimDefs.
Import ListNotations.
Open Scope list_scope.

Definition ex_demo : prog :=
{| p_unions := [("Shape"%string, [("Circle"%string, true); ("Rect"%string, true); ("Empty"%string, false)])];
   p_funs := [("say"%string, (["s"%string; "n"%string],
 (BDo (EExt LPrintln [(EVar "s"%string)])
 (BRet (EVar "n"%string) false)))); ("add"%string, (["a"%string; "b"%string],
 (BRet (EBin OAdd (EVar "a"%string) (EVar "b"%string)) false))); ("area"%string, (["s"%string],
 (BRet (EMatchU (EVar "s"%string) "Shape"%string [("Circle"%string, (Some "r"%string), (BRet (EBin OMul (EBin OMul (EVar "r"%string) (EVar "r"%string)) (EInt (3)%Z)) false)); ("Rect"%string, (Some "p"%string), (BDestr ["w"%string; "h"%string] (EVar "p"%string)
 (BRet (EBin OMul (EVar "w"%string) (EVar "h"%string)) false))); ("Empty"%string, None, (BRet (EInt (0)%Z) false))] None) false))); ("kind"%string, (["s"%string],
 (BRet (EMatchS (EVar "s"%string) [("a"%string, (BRet (EStr "first"%string) false))] (Some "other"%string) (BRet (EBin OSAdd (EVar "other"%string) (EStr "?"%string)) false)) false))); ("fact"%string, (["n"%string],
 (BRet (EIf (EBin OLe (EVar "n"%string) (EInt (0)%Z)) (BRet (EInt (1)%Z) false) (BRet (EBin OMul (EVar "n"%string) (ECall "fact"%string 0 false [(EBin OSub (EVar "n"%string) (EInt (1)%Z))])) false)) false)))];
   p_main := (BLet "inc"%string (ECall "add"%string 1 false [(EInt (1)%Z)])
 (BLet "xs"%string (ESlice [(EInt (3)%Z); (ECall "say"%string 0 false [(EStr "elem"%string); (EInt (1)%Z)]); (EInt (2)%Z)])
 (BLet "ys"%string (EPipeExt (EPipeExt (EVar "xs"%string) LMap [(EVar "inc"%string)] false) LFilter [(ELam ["v"%string] (BRet (EBin OGt (EVar "v"%string) (EInt (2)%Z)) false))] false)
 (BDo (EExt LPrintf1 [(EStr "%v
"%string); (EVar "ys"%string)])
 (BLet "total"%string (EExt LFold [(ELam ["acc"%string; "v"%string] (BRet (EBin OAdd (EVar "acc"%string) (EVar "v"%string)) false)); (EInt (0)%Z); (EVar "ys"%string)])
 (BLet "pt"%string (ERecord "Pt"%string ["X"%string; "Tag"%string] ["X"%string; "Tag"%string] [(EVar "total"%string); (ECall "kind"%string 0 false [(EStr "b"%string)])])
 (BLet "tag"%string (EField (EVar "pt"%string) "Tag"%string)
 (BLet "px"%string (EField (EVar "pt"%string) "X"%string)
 (BDo (EExt LPrintln [(EInterp [(inl "total="%string); (inr "px"%string); (inl " tag="%string); (inr "tag"%string)])])
 (BLet "shapes"%string (ESlice [(ECtor "Shape"%string "Circle"%string (Some (EInt (2)%Z))); (ECtor "Shape"%string "Rect"%string (Some (ETuple [(EInt (2)%Z); (EInt (5)%Z)]))); (ECtor "Shape"%string "Empty"%string None)])
 (BDo (EPipeExt (EExt LMap [(EVar "area"%string); (EVar "shapes"%string)]) LPrintf1 [(EStr "%v
"%string)] true)
 (BDo (EIf (EBin OAnd (EBin OGt (EVar "total"%string) (EInt (100)%Z)) (EEq false (ECall "say"%string 0 false [(EStr "not printed"%string); (EInt (1)%Z)]) (EInt (1)%Z))) (BRet (EExt LPrintln [(EStr "big"%string)]) true) (BRet (EExt LPrintln [(EStr "small"%string)]) true))
 (BDo (EExt LIter [(ELam ["q"%string] (BRet (EExt LPrintf1 [(EStr "%d;"%string); (EVar "q"%string)]) true)); (EVar "ys"%string)])
 (BRet (EExt LPrintf1 [(EStr "%d
"%string); (ECall "fact"%string 0 false [(EInt (5)%Z)])]) true)))))))))))))) |}.

Definition ex_effectful_pap : prog :=
{| p_unions := [];
   p_funs := [("say"%string, (["s"%string; "n"%string],
 (BDo (EExt LPrintln [(EVar "s"%string)])
 (BRet (EVar "n"%string) false)))); ("add"%string, (["a"%string; "b"%string],
 (BRet (EBin OAdd (EVar "a"%string) (EVar "b"%string)) false)))];
   p_main := (BLet "g"%string (ECall "add"%string 1 false [(ECall "say"%string 0 false [(EStr "arg"%string); (EInt (1)%Z)])])
 (BDo (EExt LPrintln [(EStr "made"%string)])
 (BDo (EExt LPrintf1 [(EStr "%d
"%string); (ECall "g"%string 0 false [(EInt (10)%Z)])])
 (BDo (EExt LPrintf1 [(EStr "%d
"%string); (ECall "g"%string 0 false [(EInt (20)%Z)])])
 (BRet (EExt LPrintf1 [(EStr "%v
"%string); (EExt LMap [(EVar "g"%string); (ESlice [(EInt (1)%Z); (EInt (2)%Z)])])]) true))))) |}.

(** record literals written in an order other than the declaration's, with effectful initialisers, compared by [=] *)
Definition ex_record_order : prog :=
{| p_unions := [];
   p_funs := [("noisy"%string, (["n"%string],
 (BDo (EExt LPrintf1 [(EStr "n%d
"%string); (EVar "n"%string)])
 (BRet (EVar "n"%string) false)))); ("total"%string, (["o"%string],
 (BRet (EBin OAdd (EField (EVar "o"%string) "Id"%string) (EField (EVar "o"%string) "Qty"%string)) false)))];
   p_main := (BLet "a"%string (ERecord "Order"%string ["Id"%string; "Item"%string; "Qty"%string] ["Qty"%string; "Item"%string; "Id"%string] [(ECall "noisy"%string 0 false [(EInt (1)%Z)]); (EStr "x"%string); (ECall "noisy"%string 0 false [(EInt (2)%Z)])])
 (BLet "b"%string (ERecord "Order"%string ["Id"%string; "Item"%string; "Qty"%string] ["Id"%string; "Item"%string; "Qty"%string] [(EInt (2)%Z); (EStr "x"%string); (EInt (1)%Z)])
 (BLet "c"%string (ERecord "Order"%string ["Id"%string; "Item"%string; "Qty"%string] ["Item"%string; "Id"%string; "Qty"%string] [(EStr "y"%string); (ECall "noisy"%string 0 false [(EInt (3)%Z)]); (ECall "noisy"%string 0 false [(EInt (4)%Z)])])
 (BDo (EExt LPrintf1 [(EStr "%v
"%string); (EEq false (EVar "a"%string) (EVar "b"%string))])
 (BDo (EExt LPrintf1 [(EStr "%v
"%string); (EEq true (EVar "a"%string) (EVar "c"%string))])
 (BDo (EExt LPrintf1 [(EStr "%v
"%string); (EEq false (ERecord "Order"%string ["Id"%string; "Item"%string; "Qty"%string] ["Qty"%string; "Id"%string; "Item"%string] [(EInt (4)%Z); (EInt (3)%Z); (EStr "y"%string)]) (EVar "c"%string))])
 (BDo (EExt LPrintf1 [(EStr "%d
"%string); (EField (EVar "a"%string) "Id"%string)])
 (BDo (EExt LPrintf1 [(EStr "%d
"%string); (EField (EVar "a"%string) "Qty"%string)])
 (BDo (EExt LPrintln [(EField (EVar "c"%string) "Item"%string)])
 (BLet "mk"%string (ECall "total"%string 0 false [(ERecord "Order"%string ["Id"%string; "Item"%string; "Qty"%string] ["Qty"%string; "Id"%string; "Item"%string] [(ECall "noisy"%string 0 false [(EInt (10)%Z)]); (ECall "noisy"%string 0 false [(EInt (20)%Z)]); (EStr "z"%string)])])
 (BRet (EExt LPrintf1 [(EStr "%d
"%string); (EVar "mk"%string)]) true))))))))))) |}.

Ltac wf_solve :=
  repeat first
    [ reflexivity
    | match goal with |- _ /\ _ => split end
    | match goal with |- Forall _ _ => constructor end
    | match goal with |- NoDup _ => constructor end
    | match goal with |- ~ In _ _ => cbn; intuition discriminate end
    | match goal with |- wfe _ _ _ => econstructor end
    | match goal with |- wfb _ _ _ => econstructor end
    | match goal with |- pure _ => constructor end
    | match goal with |- fields_ok _ _ => unfold fields_ok end
    | match goal with |- incl _ _ => let x := fresh in let I := fresh in intros x I; cbn in I |- *; tauto end
    | match goal with |- two_or_three _ => (left; reflexivity) || (right; reflexivity) end
    | match goal with |- ctor_declared _ _ _ _ => eexists; split; [cbn; eauto 10|cbn; eauto 10] end
    | match goal with |- True => exact I end
    | match goal with |- forall _, _ => intros end
    | discriminate
    | match goal with H : Some _ = Some _ |- _ => inversion H; subst; clear H end ].

Lemma ex_demo_pure : pap_args_pure ex_demo.
Proof. unfold pap_args_pure, wfp, ex_demo; cbn [p_unions p_funs p_main]. wf_solve. Qed.
Lemma ex_demo_wt : wt ex_demo.
Proof. unfold wt, wfp, ex_demo; cbn [p_unions p_funs p_main]. wf_solve. Qed.

Definition nl : string := String "010" EmptyString.

Lemma ex_demo_runs :
  run_src 100 ex_demo =
  ODone ("elem" ++ nl ++ "[4 3]" ++ nl ++ "total=7 tag=b?" ++ nl ++ "[12 10 0]" ++ nl ++ "small" ++ nl ++ "4;3;120" ++ nl)%string.
Proof. vm_compute. reflexivity. Qed.
Lemma ex_demo_go_runs :
  run_go 200 (compile_prog ex_demo) =
  ODone ("elem" ++ nl ++ "[4 3]" ++ nl ++ "total=7 tag=b?" ++ nl ++ "[12 10 0]" ++ nl ++ "small" ++ nl ++ "4;3;120" ++ nl)%string.
Proof. vm_compute. reflexivity. Qed.

(** the partial application [add (say "arg" 1)] prints once in the source, at every call in the emitted Go *)
Lemma ex_effectful_pap_wt : wt ex_effectful_pap.
Proof. unfold wt, wfp, ex_effectful_pap; cbn [p_unions p_funs p_main]. wf_solve. Qed.
Lemma ex_effectful_pap_src :
  run_src 100 ex_effectful_pap =
  ODone ("arg" ++ nl ++ "made" ++ nl ++ "11" ++ nl ++ "21" ++ nl ++ "[2 3]" ++ nl)%string.
Proof. vm_compute. reflexivity. Qed.
Lemma ex_effectful_pap_go :
  run_go 200 (compile_prog ex_effectful_pap) =
  ODone ("made" ++ nl ++ "arg" ++ nl ++ "11" ++ nl ++ "arg" ++ nl ++ "21" ++ nl ++ "arg" ++ nl ++ "arg" ++ nl ++ "[2 3]" ++ nl)%string.
Proof. vm_compute. reflexivity. Qed.

Lemma ex_record_order_pure : pap_args_pure ex_record_order.
Proof. unfold pap_args_pure, wfp, ex_record_order; cbn [p_unions p_funs p_main]. wf_solve. Qed.
Lemma ex_record_order_runs :
  run_src 100 ex_record_order =
  ODone ("n1" ++ nl ++ "n2" ++ nl ++ "n3" ++ nl ++ "n4" ++ nl ++ "true" ++ nl ++ "true" ++ nl ++ "true" ++ nl ++
         "2" ++ nl ++ "1" ++ nl ++ "y" ++ nl ++ "n10" ++ nl ++ "n20" ++ nl ++ "30" ++ nl)%string /\
  run_go 200 (compile_prog ex_record_order) = run_src 100 ex_record_order.
Proof. vm_compute. split; reflexivity. Qed.
