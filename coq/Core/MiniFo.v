(** C01 — MiniFo: the source language and its semantics.

    The AST is the one of Core/FORMAT.md after elaboration (oracle/drv_c01.ml, [elab]):
    - types are erased, except for the three places where fc's lowering depends on whether a type is
      [unit] (a block's final expression, the result of a piped stage, the result of a partially
      applied function) — these carry a [bool];
    - [(ctor Case …)] and [(matchu …)] carry the union's name; a record literal carries the declared field
      order of its type beside the fields as written;
    - a parameter list [((u unit))] is the empty list and the argument list [((unit))] of a call to such
      a function is empty;
    - [(letfun f ps T B)] is [let f = fun ps -> B] (what fc's parser does: lfdToLetVar);
    - [(block (S…) E)] is the right-nested sequence [BLet]/[BDestr]/[BDo]/[BRet].

    Semantics: strict, left to right, lexically scoped, fuelled big-step with an output trace.
    A partial application evaluates the supplied arguments once and yields a [VPap] value.
    Where the AST says "this is unit" the evaluator checks that the value is [VUnit] and is [Stuck]
    otherwise (cannot happen for well-typed programs; the check makes the annotation harmless). *)
From Coq Require Import List ZArith String Ascii Bool.
From FoVerif Require Import Core.Common Core.Lib.
Import ListNotations.
Open Scope list_scope.

Inductive expr :=
| EInt (z:Z) | EStr (s:string) | EBool (b:bool) | EUnit
| EVar (x:var)
| EBin (op:binop) (a b:expr)
| EEq (neg:bool) (a b:expr)                         (* [=] (neg=false) and [<>] (neg=true) *)
| ENot (a:expr)
| EIf (c:expr) (bt bf:block)
| EIfOnly (c:expr) (bt:block)
| ELam (ps:list var) (b:block)
| ECall (f:var) (missing:nat) (retunit:bool) (args:list expr)   (* missing = 0: full application *)
| EExt (fn:libfn) (args:list expr)                  (* fully applied library call *)
| EPipeVar (a:expr) (f:var) (retunit:bool)          (* a |> f *)
| EPipeCall (a:expr) (f:var) (args:list expr) (retunit:bool)    (* a |> f args   (f lacks its last argument) *)
| EPipeExt (a:expr) (fn:libfn) (args:list expr) (retunit:bool)  (* a |> lib.F args *)
| ETuple (es:list expr)
| ERecord (name:string) (decl:list string) (fields:list string) (es:list expr)
    (* fields / es: as written; decl: the record type's fields in declaration order (elaborator) *)
| EField (e:expr) (f:string)
| ECtor (uname cname:string) (arg:option expr)
| EMatchU (e:expr) (uname:string) (arms:list (string * option var * block)) (def:option block)
| EMatchS (e:expr) (arms:list (string * block)) (bx:option var) (last:block)
| ESlice (es:list expr)
| EInterp (parts:list (string + var))
| EBlock (b:block)
with block :=
| BLet (x:var) (e:expr) (b:block)
| BDestr (xs:list var) (e:expr) (b:block)
| BDo (e:expr) (b:block)
| BRet (e:expr) (isunit:bool).

Fixpoint block_unit (b:block) : bool :=
  match b with
  | BLet _ _ b' | BDestr _ _ b' | BDo _ b' => block_unit b'
  | BRet _ u => u
  end.

Inductive val :=
| VInt (z:Z) | VStr (s:string) | VBool (b:bool) | VUnit
| VTuple (vs:list val)
| VRec (name:string) (fs:list (string*val))
| VUnion (uname cname:string) (payload:option val)
| VSlice (vs:list val)
| VClo (env:list (var*val)) (ps:list var) (b:block)
| VPap (f:val) (args:list val) (missing:nat) (retunit:bool).

Definition senv := list (var*val).

(** a union declaration: name, cases with "has a payload" *)
Definition udecl := (string * list (string * bool))%type.

Record prog := {
  p_unions : list udecl;
  p_funs : list (var * (list var * block));      (* top-level functions, in source order *)
  p_main : block                                 (* body of [let main () = …] *)
}.

(** structural equality of first-order values; [None] on functions and on ill-typed comparisons *)
Fixpoint val_eq (a b:val) {struct a} : option bool :=
  let fix list_eq (xs ys:list val) {struct xs} : option bool :=
      match xs, ys with
      | [], [] => Some true
      | x :: xs', y :: ys' =>
          match val_eq x y with
          | Some true => list_eq xs' ys'
          | Some false => match list_eq xs' ys' with Some _ => Some false | None => None end
          | None => None
          end
      | _, _ => Some false
      end in
  let fix fields_eq (xs ys:list (string*val)) {struct xs} : option bool :=
      match xs, ys with
      | [], [] => Some true
      | (f, x) :: xs', (g, y) :: ys' =>
          if String.eqb f g then
            match val_eq x y with
            | Some true => fields_eq xs' ys'
            | Some false => match fields_eq xs' ys' with Some _ => Some false | None => None end
            | None => None
            end
          else None
      | _, _ => None
      end in
  match a, b with
  | VInt x, VInt y => Some (Z.eqb x y)
  | VStr x, VStr y => Some (String.eqb x y)
  | VBool x, VBool y => Some (Bool.eqb x y)
  | VUnit, VUnit => Some true
  | VTuple xs, VTuple ys => if Nat.eqb (List.length xs) (List.length ys) then list_eq xs ys else None
  | VRec n fs, VRec m gs => if String.eqb n m then fields_eq fs gs else None
  | VUnion u c p, VUnion u' c' p' =>
      if String.eqb u u' then
        if String.eqb c c' then
          match p, p' with
          | None, None => Some true
          | Some x, Some y => val_eq x y
          | _, _ => None
          end
        else Some false
      else None
  | VSlice xs, VSlice ys => list_eq xs ys
  | _, _ => None
  end.

Definition sops : vops val := {|
  mkInt := VInt; mkStr := VStr; mkBool := VBool; mkUnit := VUnit;
  mkSlice := VSlice; mkTuple := VTuple; mkMulti := VTuple;
  asInt := fun v => match v with VInt z => Some z | _ => None end;
  asStr := fun v => match v with VStr s => Some s | _ => None end;
  asBool := fun v => match v with VBool b => Some b | _ => None end;
  asSlice := fun v => match v with VSlice l => Some l | _ => None end;
  asTuple := fun v => match v with VTuple l => Some l | _ => None end;
  veq := val_eq |}.

Fixpoint find_arm (c:string) (arms:list (string * option var * block)) : option (option var * block) :=
  match arms with
  | [] => None
  | (c', bx, b) :: r => if String.eqb c c' then Some (bx, b) else find_arm c r
  end.

Fixpoint find_sarm (s:string) (arms:list (string * block)) : option block :=
  match arms with
  | [] => None
  | (l, b) :: r => if String.eqb s l then Some b else find_sarm s r
  end.

Definition check_unit (u:bool) (v:val) (t:trace) : res val :=
  if u then match v with VUnit => Done VUnit t | _ => Stuck "a value of a unit-typed expression is not ()" end
  else Done v t.

(** text of an interpolation hole (frt.toS on int, string, bool) *)
Definition hole_text (v:val) : option string := fmt_atom sops v.

Definition fundefs := list (var * (list var * block)).

Definition lookup_var (funs:fundefs) (x:var) (env:senv) : option val :=
  match lookup x env with
  | Some v => Some v
  | None => match lookup x funs with
            | Some (ps, b) => Some (VClo [] ps b)
            | None => None
            end
  end.

Fixpoint interp_text (funs:fundefs) (env:senv) (parts:list (string + var)) : option string :=
  match parts with
  | [] => Some EmptyString
  | inl s :: r => option_map (String.append s) (interp_text funs env r)
  | inr x :: r =>
      match lookup_var funs x env with
      | Some v => match hole_text v, interp_text funs env r with
                  | Some a, Some b => Some (a ++ b)%string
                  | _, _ => None
                  end
      | None => None
      end
  end.

Fixpoint eval (funs:fundefs) (n:nat) (env:senv) (e:expr) (t:trace) {struct n} : res val :=
  match n with O => Fuel | S n =>
  match e with
  | EInt z => Done (VInt z) t
  | EStr s => Done (VStr s) t
  | EBool b => Done (VBool b) t
  | EUnit => Done VUnit t
  | EVar x => of_opt "unbound variable" (lookup_var funs x env) t
  | EBin OAnd a b =>
      doo va, t1 <- eval funs n env a t;
      match va with
      | VBool true => doo vb, t2 <- eval funs n env b t1;
                      match vb with VBool y => Done (VBool y) t2 | _ => Stuck "&&: operand" end
      | VBool false => Done (VBool false) t1
      | _ => Stuck "&&: operand"
      end
  | EBin OOr a b =>
      doo va, t1 <- eval funs n env a t;
      match va with
      | VBool true => Done (VBool true) t1
      | VBool false => doo vb, t2 <- eval funs n env b t1;
                       match vb with VBool y => Done (VBool y) t2 | _ => Stuck "||: operand" end
      | _ => Stuck "||: operand"
      end
  | EBin op a b =>
      doo va, t1 <- eval funs n env a t;
      doo vb, t2 <- eval funs n env b t1;
      of_opt (arith_why sops op va vb) (arith sops op va vb) t2
  | EEq neg a b =>
      doo va, t1 <- eval funs n env a t;
      doo vb, t2 <- eval funs n env b t1;
      match val_eq va vb with
      | Some r => Done (VBool (if neg then negb r else r)) t2
      | None => Stuck "=: operands are not comparable first-order values"
      end
  | ENot a =>
      doo va, t1 <- eval funs n env a t;
      match va with VBool b => Done (VBool (negb b)) t1 | _ => Stuck "not: operand" end
  | EIf c bt bf =>
      doo vc, t1 <- eval funs n env c t;
      match vc with
      | VBool true => eval_block funs n env bt t1
      | VBool false => eval_block funs n env bf t1
      | _ => Stuck "if: condition"
      end
  | EIfOnly c bt =>
      doo vc, t1 <- eval funs n env c t;
      match vc with
      | VBool true => doo v, t2 <- eval_block funs n env bt t1; Done VUnit t2
      | VBool false => Done VUnit t1
      | _ => Stuck "if: condition"
      end
  | ELam ps b => Done (VClo env ps b) t
  | ECall f missing u args =>
      match lookup_var funs f env with
      | None => Stuck "unbound function"
      | Some fv =>
          doo vs, t1 <- evals funs n env args t;
          match missing with
          | O => apply funs n fv vs t1
          | S _ => Done (VPap fv vs missing u) t1
          end
      end
  | EExt fn args =>
      if src_fn fn then
        doo vs, t1 <- evals funs n env args t;
        lib_sem sops (apply funs n) fn vs t1
      else Stuck "not a source-level library function"
  | EPipeVar a f u =>
      doo va, t1 <- eval funs n env a t;
      match lookup_var funs f env with
      | None => Stuck "unbound function"
      | Some fv => doo v, t2 <- apply funs n fv [va] t1; check_unit u v t2
      end
  | EPipeCall a f args u =>
      doo va, t1 <- eval funs n env a t;
      match lookup_var funs f env with
      | None => Stuck "unbound function"
      | Some fv =>
          doo vs, t2 <- evals funs n env args t1;
          doo v, t3 <- apply funs n fv (vs ++ [va]) t2;
          check_unit u v t3
      end
  | EPipeExt a fn args u =>
      if src_fn fn then
        doo va, t1 <- eval funs n env a t;
        doo vs, t2 <- evals funs n env args t1;
        doo v, t3 <- lib_sem sops (apply funs n) fn (vs ++ [va]) t2;
        check_unit u v t3
      else Stuck "not a source-level library function"
  | ETuple es => doo vs, t1 <- evals funs n env es t; Done (VTuple vs) t1
  | ERecord name decl fields es =>
      (* the initialisers run in the order written; the value holds the fields in declaration order *)
      doo vs, t1 <- evals funs n env es t;
      if Nat.eqb (List.length fields) (List.length vs) then
        match arrange decl (combine fields vs) with
        | Some fs => Done (VRec name fs) t1
        | None => Stuck "record: a declared field is not initialised"
        end
      else Stuck "record: field count"
  | EField e f =>
      doo v, t1 <- eval funs n env e t;
      match v with
      | VRec _ fs => of_opt "no such field" (lookup f fs) t1
      | _ => Stuck "field access: not a record"
      end
  | ECtor u c None => Done (VUnion u c None) t
  | ECtor u c (Some a) => doo v, t1 <- eval funs n env a t; Done (VUnion u c (Some v)) t1
  | EMatchU e uname arms def =>
      doo v, t1 <- eval funs n env e t;
      match v with
      | VUnion u c payload =>
          if String.eqb u uname then
            match find_arm c arms with
            | Some (Some x, b) =>
                match payload with
                | Some pv => eval_block funs n ((x, pv) :: env) b t1
                | None => Stuck "match: binder for a case without payload"
                end
            | Some (None, b) => eval_block funs n env b t1
            | None =>
                match def with
                | Some b => eval_block funs n env b t1
                | None => Stuck "match: no arm for the case"
                end
            end
          else Stuck "match: value of another union"
      | _ => Stuck "match: not a union value"
      end
  | EMatchS e arms bx last =>
      doo v, t1 <- eval funs n env e t;
      match v with
      | VStr s =>
          (* the variable of a trailing variable arm is in scope in the whole match (it is only
             referenced by the last arm in an elaborated program) *)
          let env' := match bx with Some x => (x, v) :: env | None => env end in
          match find_sarm s arms with
          | Some b => eval_block funs n env' b t1
          | None => eval_block funs n env' last t1
          end
      | _ => Stuck "match: not a string"
      end
  | ESlice es => doo vs, t1 <- evals funs n env es t; Done (VSlice vs) t1
  | EInterp parts =>
      match interp_text funs env parts with
      | Some s => Done (VStr s) t
      | None => Stuck "interpolation: hole"
      end
  | EBlock b => eval_block funs n env b t
  end end
with evals (funs:fundefs) (n:nat) (env:senv) (es:list expr) (t:trace) {struct n} : res (list val) :=
  match n with O => Fuel | S n =>
  match es with
  | [] => Done [] t
  | e :: r => doo v, t1 <- eval funs n env e t; doo vs, t2 <- evals funs n env r t1; Done (v :: vs) t2
  end end
with eval_block (funs:fundefs) (n:nat) (env:senv) (b:block) (t:trace) {struct n} : res val :=
  match n with O => Fuel | S n =>
  match b with
  | BLet x e b' => doo v, t1 <- eval funs n env e t; eval_block funs n ((x, v) :: env) b' t1
  | BDestr xs e b' =>
      doo v, t1 <- eval funs n env e t;
      match v with
      | VTuple vs => match bind xs vs env with
                     | Some env' => eval_block funs n env' b' t1
                     | None => Stuck "destructuring: arity"
                     end
      | _ => Stuck "destructuring: not a tuple"
      end
  | BDo e b' => doo v, t1 <- eval funs n env e t; eval_block funs n env b' t1
  | BRet e u => doo v, t1 <- eval funs n env e t; check_unit u v t1
  end end
with apply (funs:fundefs) (n:nat) (f:val) (vs:list val) (t:trace) {struct n} : res val :=
  match n with O => Fuel | S n =>
  match f with
  | VClo env ps b =>
      match bind ps vs env with
      | Some env' => eval_block funs n env' b t
      | None => Stuck "call: arity"
      end
  | VPap g ws k u =>
      if Nat.eqb (List.length vs) k then doo v, t1 <- apply funs n g (ws ++ vs) t; check_unit u v t1
      else Stuck "call: arity of a partial application"
  | _ => Stuck "call: not a function"
  end end.



Definition run_src (n:nat) (p:prog) : outcome :=
  match eval_block (p_funs p) n [] (p_main p) [] with
  | Done _ t => ODone (output t)
  | Stuck w => OStuck w
  | Fuel => OFuel
  end.
