(** C16 model: resolution of type variables (fc/infer.fo resolveOneTypeVarP / resolveOneTypeVar /
    resolveType with fc/ast_util.fo transTVFType).

      resolveOneTypeVarP path rsv tv =
        if tv.Name is in path then PanicNow "Recursive type is not supported."
        recurse = resolveOneTypeVarP (tv.Name :: path) rsv
        rcand   = (rsLookupEI rsv tv.Name).resType          (a variable without entry stands for itself)
        if rcand is the variable tv itself then rcand else transTVFType recurse rcand
      transTVFType transTV t = t with every variable v replaced by (transTV v), elements left to right
      resolveType rsv t = transTVFType (resolveOneTypeVarP [] rsv) t

    The resolver is a finite map (association list, first entry wins, default: the variable
    itself) from variable names to first-order types with variables, base types, slices, tuples
    and function types. Records and unions are leaves here: transTVFType guards them with its own
    visited set (commit a762673). Recursion depth is made explicit as fuel. Definitions only;
    proofs are in ResolveProofs.v. *)
From Coq Require Import List Arith Bool.
Import ListNotations.

Inductive ty :=
| TVar (v : nat)
| TBase (b : nat)                 (* int, string, a record or union name, ... *)
| TSlice (e : ty)
| TTuple (ts : list ty)
| TFunc (ts : list ty).           (* FFunc Targets: arguments then result *)

Definition resolver := list (nat * ty).

Fixpoint lookup (m : resolver) (v : nat) : ty :=
  match m with
  | [] => TVar v
  | (k, t) :: r => if k =? v then t else lookup r v
  end.

Definition is_same_var (rc : ty) (v : nat) : bool :=
  match rc with
  | TVar v2 => v2 =? v
  | _ => false
  end.

Inductive routcome :=
| Resolved (t : ty)
| Cyclic                          (* the diagnostic "Recursive type is not supported." *)
| ROutOfFuel.

Inductive moutcome :=
| MResolved (ts : list ty)
| MCyclic
| MOutOfFuel.

(** slice.Map f ts, left to right, the first panic wins *)
Fixpoint map_res (f : ty -> routcome) (ts : list ty) : moutcome :=
  match ts with
  | [] => MResolved []
  | e :: r =>
    match f e with
    | Resolved e' =>
      match map_res f r with
      | MResolved r' => MResolved (e' :: r')
      | o => o
      end
    | Cyclic => MCyclic
    | ROutOfFuel => MOutOfFuel
    end
  end.

Definition wrap (c : list ty -> ty) (o : moutcome) : routcome :=
  match o with
  | MResolved ts => Resolved (c ts)
  | MCyclic => Cyclic
  | MOutOfFuel => ROutOfFuel
  end.

Fixpoint mem (v : nat) (l : list nat) : bool :=
  match l with
  | [] => false
  | x :: r => (x =? v) || mem v r
  end.

(** [resolve_path fuel m path t] = transTVFType (resolveOneTypeVarP path m) t;
    one unit of fuel per call (of transTVFTypeWithSet or resolveOneTypeVarP) *)
Fixpoint resolve_path (fuel : nat) (m : resolver) (path : list nat) (t : ty) : routcome :=
  match fuel with
  | 0 => ROutOfFuel
  | S f =>
    match t with
    | TVar v =>
      if mem v path then Cyclic
      else
        let rc := lookup m v in
        if is_same_var rc v then Resolved rc
        else resolve_path f m (v :: path) rc
    | TBase _ => Resolved t
    | TSlice e =>
      match resolve_path f m path e with
      | Resolved e' => Resolved (TSlice e')
      | o => o
      end
    | TTuple ts => wrap TTuple (map_res (resolve_path f m path) ts)
    | TFunc ts => wrap TFunc (map_res (resolve_path f m path) ts)
    end
  end.

(** the resolution before commit 9e9e4ad: no path, no check *)
Fixpoint resolve_old (fuel : nat) (m : resolver) (t : ty) : routcome :=
  match fuel with
  | 0 => ROutOfFuel
  | S f =>
    match t with
    | TVar v =>
      let rc := lookup m v in
      if is_same_var rc v then Resolved rc
      else resolve_old f m rc
    | TBase _ => Resolved t
    | TSlice e =>
      match resolve_old f m e with
      | Resolved e' => Resolved (TSlice e')
      | o => o
      end
    | TTuple ts => wrap TTuple (map_res (resolve_old f m) ts)
    | TFunc ts => wrap TFunc (map_res (resolve_old f m) ts)
    end
  end.

(** nesting depth of a type / of the types in the resolver *)
Fixpoint depth (t : ty) : nat :=
  match t with
  | TVar _ | TBase _ => 1
  | TSlice e => S (depth e)
  | TTuple ts | TFunc ts => S (fold_right (fun e acc => Nat.max (depth e) acc) 0 ts)
  end.

Definition max_depth (m : resolver) : nat :=
  fold_right (fun kt acc => Nat.max (depth (snd kt)) acc) 0 m.

(** enough fuel: depth of the type + (number of entries) * (deepest entry + 1) *)
Definition resolve_fuel (m : resolver) (t : ty) : nat :=
  depth t + List.length m * S (max_depth m).

(** resolveType *)
Definition resolve (m : resolver) (t : ty) : routcome := resolve_path (resolve_fuel m t) m [] t.

(** variables of a type; the dependency relation of a resolver *)
Inductive occurs (w : nat) : ty -> Prop :=
| OVar : occurs w (TVar w)
| OSlice : forall e, occurs w e -> occurs w (TSlice e)
| OTuple : forall ts e, In e ts -> occurs w e -> occurs w (TTuple ts)
| OFunc : forall ts e, In e ts -> occurs w e -> occurs w (TFunc ts).

(** [v] is resolved to something else than itself *)
Definition bound (m : resolver) (v : nat) : Prop := lookup m v <> TVar v.

(** [v] is resolved to a type that mentions [w] *)
Definition edge (m : resolver) (v w : nat) : Prop := bound m v /\ occurs w (lookup m v).

(** [walk m a b]: b is reachable from a along the dependency relation (zero or more steps) *)
Inductive walk (m : resolver) : nat -> nat -> Prop :=
| walk_refl : forall a, walk m a a
| walk_step : forall a x b, edge m a x -> walk m x b -> walk m a b.

(** [v] depends on itself: T0 := func(T0) T1 *)
Definition on_cycle (m : resolver) (v : nat) : Prop := exists y, edge m v y /\ walk m y v.

Definition acyclic (m : resolver) : Prop := forall v, ~ on_cycle m v.
