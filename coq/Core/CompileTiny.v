(** C17 — tinyfo, the bootstrap transpiler (tinyfo/ast.go, tinyfo/parser.go), on the same MiniFo / MiniGo.

    [compile_tiny]: tinyfo's lowering.  Reading tinyfo/ast.go against fc/expr_to_go.fo, ir_factory.fo and
    stmt_to_go.fo construct by construct, the emitted Go has the same shape:
      FunCall.ToGo / toGoPartialApply   = fcFullApplyGo / fcPartialApplyGo  (closure over _r0…, arguments inside)
      NewIfElseCall / NewIfOnlyCall     = newIfElseCall / newIfOnlyCall     (frt.IfElse / IfElseUnit / IfOnly over thunks)
      NewPipeCall                       = newPipeCall                       (frt.Pipe / frt.PipeUnit)
      NewBinOpCall on = <>, 'not'       = newEqNeq, newUnaryNotCall         (frt.OpEqual / OpNotEqual / OpNot)
      Block.ToGoReturn / ToGo, wrapFunc = buildReturn / blockToGo / lbToGo
      MatchExpr.ToGoReturn / ToGo       = umrToGoReturn / meToGo            (type switch, x := _vN.Value, default panic)
      RecordGen, TupleExpr, SliceExpr, FieldAccess, LetVarDef, UnionDef     = rgToGo, tupleToGo, sliceToGo, faToGo, lvdToGo, udfToGo
    and differs in exactly two places ([Compile.dialect], constructor [DTiny]):
      - LetDestVarDef.ToGo emits [frt.Destr] (fc: [frt.Destr2]);
      - MatchExpr.ToGoReturn calls UniqueTmpVarName for every match, and the counter is shared with the
        type-parameter names allocated while parsing and never reset, so the numbering of the [_vN] differs.
    Neither is a behavioural difference (frt.Destr is frt.Destr2; the temporaries are bound and used locally).

    [tiny_subset]: the constructs tinyfo's parser accepts (parser.go): no [fun] and no inner functions, no
    string match, no interpolation, no block expression, no [*] and no [/], pairs only, non-empty slice literals, field
    access only on a variable (or a chain x.a.b). *)
From Coq Require Import List ZArith String Ascii Bool Lia.
From FoVerif Require Import Core.Common Core.Lib Core.MiniFo Core.MiniGo Core.Compile.
Import ListNotations.
Open Scope list_scope.

(** tinyfo: the counter has been advanced by the parser (NewBinOpCall: one [_T] per [=]/[<>]; NewPipeCall: two per [|>]) *)
Fixpoint tallocs (e:expr) : nat :=
  let fix tl (es:list expr) : nat :=
      match es with [] => 0 | e :: r => tallocs e + tl r end in
  let fix ta (arms:list (string * option var * block)) : nat :=
      match arms with [] => 0 | (_, _, b) :: r => tallocsb b + ta r end in
  let fix ts (arms:list (string * block)) : nat :=
      match arms with [] => 0 | (_, b) :: r => tallocsb b + ts r end in
  match e with
  | EInt _ | EStr _ | EBool _ | EUnit | EVar _ | EInterp _ => 0
  | EBin _ a b => tallocs a + tallocs b
  | EEq _ a b => 1 + tallocs a + tallocs b
  | ENot a => tallocs a
  | EIf c bt bf => tallocs c + tallocsb bt + tallocsb bf
  | EIfOnly c bt => tallocs c + tallocsb bt
  | ELam _ b => tallocsb b
  | ECall _ _ _ args | EExt _ args | ETuple args | ERecord _ _ _ args | ESlice args => tl args
  | EPipeVar a _ _ => 2 + tallocs a
  | EPipeCall a _ args _ | EPipeExt a _ args _ => 2 + tallocs a + tl args
  | EField a _ => tallocs a
  | ECtor _ _ None => 0
  | ECtor _ _ (Some a) => tallocs a
  | EMatchU a _ arms def => tallocs a + ta arms + match def with Some b => tallocsb b | None => 0 end
  | EMatchS a arms _ last => tallocs a + ts arms + tallocsb last
  | EBlock b => tallocsb b
  end
with tallocsb (b:block) : nat :=
  match b with
  | BLet _ e b' | BDestr _ e b' | BDo e b' => tallocs e + tallocsb b'
  | BRet e _ => tallocs e
  end.

Definition tiny_start (p:prog) : nat :=
  fold_right (fun f acc => tallocsb (snd (snd f)) + acc) 0 (p_funs p) + tallocsb (p_main p).

Definition compile_tiny (p:prog) : gprog := compile_prog_d DTiny (tiny_start p) p.

(** ** the subset *)
Inductive field_target : expr -> Prop :=
| FT_var x : field_target (EVar x)
| FT_field e f : field_target e -> field_target (EField e f).

Inductive tinye : expr -> Prop :=
| T_int z : tinye (EInt z)
| T_str s : tinye (EStr s)
| T_bool b : tinye (EBool b)
| T_unit : tinye EUnit
| T_var x : tinye (EVar x)
| T_bin op a b : op <> OMul -> op <> ODiv -> tinye a -> tinye b -> tinye (EBin op a b)
| T_eq neg a b : tinye a -> tinye b -> tinye (EEq neg a b)
| T_not a : tinye a -> tinye (ENot a)
| T_if c bt bf : tinye c -> tinyb bt -> tinyb bf -> tinye (EIf c bt bf)
| T_ifonly c bt : tinye c -> tinyb bt -> tinye (EIfOnly c bt)
| T_call f m u args : Forall tinye args -> tinye (ECall f m u args)
| T_ext fn args : Forall tinye args -> tinye (EExt fn args)                 (* a function of the program's package_info *)
| T_pipevar a f u : tinye a -> tinye (EPipeVar a f u)
| T_pipecall a f args u : tinye a -> Forall tinye args -> tinye (EPipeCall a f args u)
| T_pipeext a fn args u : tinye a -> Forall tinye args -> tinye (EPipeExt a fn args u)
| T_tuple es : List.length es = 2 -> Forall tinye es -> tinye (ETuple es)
| T_record name decl fields es : Forall tinye es -> tinye (ERecord name decl fields es)
| T_field e f : field_target e -> tinye (EField e f)
| T_ctor0 u c : tinye (ECtor u c None)
| T_ctor1 u c a : tinye a -> tinye (ECtor u c (Some a))
| T_matchu e u arms def :
    tinye e -> Forall (fun arm : string * option var * block => tinyb (snd arm)) arms ->
    (forall b, def = Some b -> tinyb b) -> tinye (EMatchU e u arms def)
| T_slice es : es <> [] -> Forall tinye es -> tinye (ESlice es)
with tinyb : block -> Prop :=
| TB_let x e b : tinye e -> tinyb b -> tinyb (BLet x e b)
| TB_destr xs e b : List.length xs = 2 -> tinye e -> tinyb b -> tinyb (BDestr xs e b)
| TB_do e b : tinye e -> tinyb b -> tinyb (BDo e b)
| TB_ret e u : tinye e -> tinyb (BRet e u).

Definition tiny_subset (p:prog) : Prop :=
  Forall (fun f : var * (list var * block) => tinyb (snd (snd f))) (p_funs p) /\ tinyb (p_main p).

(** ** decision procedure (fuelled: the AST has nested lists); sound for every fuel *)
Fixpoint field_target_b (n:nat) (e:expr) : bool :=
  match n with O => false | S n =>
  match e with EVar _ => true | EField e' _ => field_target_b n e' | _ => false end end.

Fixpoint tinye_b (n:nat) (e:expr) {struct n} : bool :=
  match n with O => false | S n =>
  match e with
  | EInt _ | EStr _ | EBool _ | EUnit | EVar _ => true
  | EBin op a b => match op with OMul | ODiv => false | _ => tinye_b n a && tinye_b n b end
  | EEq _ a b => tinye_b n a && tinye_b n b
  | ENot a => tinye_b n a
  | EIf c bt bf => tinye_b n c && tinyb_b n bt && tinyb_b n bf
  | EIfOnly c bt => tinye_b n c && tinyb_b n bt
  | ECall _ _ _ args | EExt _ args | ERecord _ _ _ args => forallb (tinye_b n) args
  | EPipeVar a _ _ => tinye_b n a
  | EPipeCall a _ args _ | EPipeExt a _ args _ => tinye_b n a && forallb (tinye_b n) args
  | ETuple es => Nat.eqb (List.length es) 2 && forallb (tinye_b n) es
  | EField e' _ => field_target_b n e'
  | ECtor _ _ None => true
  | ECtor _ _ (Some a) => tinye_b n a
  | EMatchU a _ arms def =>
      tinye_b n a && forallb (fun arm : string * option var * block => tinyb_b n (snd arm)) arms &&
      match def with Some b => tinyb_b n b | None => true end
  | ESlice es => match es with [] => false | _ => forallb (tinye_b n) es end
  | ELam _ _ | EMatchS _ _ _ _ | EInterp _ | EBlock _ => false
  end end
with tinyb_b (n:nat) (b:block) {struct n} : bool :=
  match n with O => false | S n =>
  match b with
  | BLet _ e b' => tinye_b n e && tinyb_b n b'
  | BDestr xs e b' => Nat.eqb (List.length xs) 2 && tinye_b n e && tinyb_b n b'
  | BDo e b' => tinye_b n e && tinyb_b n b'
  | BRet e _ => tinye_b n e
  end end.

Definition tiny_b (n:nat) (p:prog) : bool :=
  forallb (fun f : var * (list var * block) => tinyb_b n (snd (snd f))) (p_funs p) && tinyb_b n (p_main p).

Lemma field_target_b_ok n : forall e, field_target_b n e = true -> field_target e.
Proof.
  induction n as [|n IH]; intros e H; [discriminate|].
  destruct e; cbn in H; try discriminate; constructor; auto.
Qed.

Lemma tiny_sound n :
  (forall e, tinye_b n e = true -> tinye e) /\ (forall b, tinyb_b n b = true -> tinyb b).
Proof.
  induction n as [|n (IHe & IHb)]; [split; intros; discriminate|].
  assert (IHes : forall es, forallb (tinye_b n) es = true -> Forall tinye es).
  { intros es H. apply Forall_forall. intros x I. apply IHe. rewrite forallb_forall in H. apply H; exact I. }
  split.
  - intros e H. destruct e; cbn [tinye_b] in H; try discriminate;
      try (destruct op; try discriminate);
      repeat match goal with Hc : _ && _ = true |- _ => apply andb_true_iff in Hc; destruct Hc end;
      try (constructor; auto; discriminate || fail).
    all: try (constructor; auto; try discriminate; fail).
    + constructor; [apply Nat.eqb_eq; assumption|auto].
    + constructor. eapply field_target_b_ok; eauto.
    + destruct arg; constructor; auto.
    + constructor; auto.
      * apply Forall_forall. intros arm I.
        match goal with Hf : forallb _ arms = true |- _ => rewrite forallb_forall in Hf; specialize (Hf _ I) end. auto.
      * intros b ->. auto.
    + destruct es as [|e0 es]; [discriminate|]. constructor; [discriminate|auto].
  - intros b H. destruct b; cbn [tinyb_b] in H;
      repeat match goal with Hc : _ && _ = true |- _ => apply andb_true_iff in Hc; destruct Hc end.
    + constructor; auto.
    + constructor; auto. apply Nat.eqb_eq; assumption.
    + constructor; auto.
    + constructor; auto.
Qed.

Theorem tiny_b_sound n p : tiny_b n p = true -> tiny_subset p.
Proof.
  unfold tiny_b, tiny_subset. intros H. apply andb_true_iff in H. destruct H as [Hf Hm].
  destruct (tiny_sound n) as (_ & Sb). split; [|apply Sb; exact Hm].
  apply Forall_forall. intros f I. rewrite forallb_forall in Hf. apply Sb. apply Hf; exact I.
Qed.
