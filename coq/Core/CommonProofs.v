(** C01 — facts about names, environments and the string helpers of Core/Common.v *)
From Coq Require Import List ZArith String Ascii Bool Lia DecimalString DecimalNat.
From FoVerif Require Import Core.Common.
Import ListNotations.
Open Scope list_scope.

(** ** temporaries *)
Lemma nat_dec_inj i j : nat_dec i = nat_dec j -> i = j.
Proof.
  unfold nat_dec; intros H.
  assert (E : Some (Nat.to_uint i) = Some (Nat.to_uint j)).
  { rewrite <- !NilEmpty.usu. rewrite H. reflexivity. }
  inversion E as [E']. rewrite <- (Unsigned.of_to i), <- (Unsigned.of_to j), E'. reflexivity.
Qed.

Lemma rname_inj i j : rname i = rname j -> i = j.
Proof. unfold rname; cbn. intros H; inversion H. apply nat_dec_inj; assumption. Qed.

Lemma rname_tmp i : is_tmp (rname i) = true.
Proof. reflexivity. Qed.
Lemma vname_tmp i : is_tmp (vname i) = true.
Proof. reflexivity. Qed.
Lemma rname_not_ctor i : ctor_like (rname i) = false.
Proof. reflexivity. Qed.
Lemma vname_not_ctor i : ctor_like (vname i) = false.
Proof. reflexivity. Qed.
Lemma ctor_name_like u c : ctor_like (ctor_name u c) = true.
Proof. unfold ctor_like, ctor_name. cbn. destruct (case_struct u c); reflexivity. Qed.
Lemma ctor_name_not_tmp u c : is_tmp (ctor_name u c) = false.
Proof. unfold is_tmp, ctor_name. cbn. reflexivity. Qed.

Lemma ctor_like_not_tmp x : ctor_like x = true -> is_tmp x = false.
Proof.
  unfold ctor_like, is_tmp. destruct x as [|a x]; [reflexivity|].
  cbn [prefix]. destruct (ascii_dec "N" a) as [<-|N]; [intros _|discriminate].
  destruct (ascii_dec "_" "N") as [E|_]; [discriminate E|reflexivity].
Qed.

Lemma reserved_false x : reserved x = false -> is_tmp x = false /\ ctor_like x = false.
Proof. unfold reserved; intros H; apply orb_false_iff in H; exact H. Qed.
Lemma tmp_reserved x : is_tmp x = true -> reserved x = true.
Proof. unfold reserved; intros ->; reflexivity. Qed.

Lemma rnames_length k i : List.length (rnames k i) = k.
Proof. revert i; induction k; intros; cbn; auto. Qed.
Lemma rnames_In k : forall i x, In x (rnames k i) -> exists j, i <= j /\ x = rname j.
Proof.
  induction k as [|k IH]; intros i x H; cbn in H; [contradiction|].
  destruct H as [<-|H]; [exists i; auto | destruct (IH _ _ H) as (j & Hj & ->); exists j; split; [lia|reflexivity]].
Qed.
Lemma rnames_tmp k i x : In x (rnames k i) -> is_tmp x = true.
Proof. intros H; destruct (rnames_In _ _ _ H) as (j & _ & ->); reflexivity. Qed.

(** ** lookup / bind *)
Lemma lookup_cons_eq {A} x (v:A) e : lookup x ((x, v) :: e) = Some v.
Proof. cbn; rewrite String.eqb_refl; reflexivity. Qed.
Lemma lookup_cons_neq {A} x y (v:A) e : x <> y -> lookup x ((y, v) :: e) = lookup x e.
Proof. intros N; cbn. destruct (String.eqb x y) eqn:E; [apply String.eqb_eq in E; contradiction|reflexivity]. Qed.

Lemma bind_lookup_notin {A} ps : forall (vs:list A) env env' x,
  bind ps vs env = Some env' -> ~ In x ps -> lookup x env' = lookup x env.
Proof.
  induction ps as [|p ps IH]; intros [|v vs] env env' x B N; cbn in B; try discriminate.
  - inversion B; reflexivity.
  - rewrite (IH _ _ _ _ B) by (intro; apply N; right; assumption).
    apply lookup_cons_neq. intros ->; apply N; left; reflexivity.
Qed.

Lemma bind_length {A} ps : forall (vs:list A) env,
  List.length ps = List.length vs -> exists env', bind ps vs env = Some env'.
Proof. induction ps as [|p ps IH]; intros [|v vs] env L; cbn in *; try discriminate; eauto. Qed.

Lemma bind_some_length {A} ps : forall (vs:list A) env env',
  bind ps vs env = Some env' -> List.length ps = List.length vs.
Proof.
  induction ps as [|p ps IH]; intros [|v vs] env env' B; cbn in *; try discriminate; auto.
  f_equal; eapply IH; eauto.
Qed.

Lemma Forall2_length' {A B} (R:A->B->Prop) l1 l2 : Forall2 R l1 l2 -> List.length l1 = List.length l2.
Proof. induction 1; cbn; congruence. Qed.

(** ** strings *)
Lemma append_inj_l a : forall b c, (a ++ b)%string = (a ++ c)%string -> b = c.
Proof. induction a as [|x a IH]; cbn; intros b c H; [exact H|]. inversion H; auto. Qed.

Lemma case_struct_eqb u c c' : String.eqb (case_struct u c) (case_struct u c') = String.eqb c c'.
Proof.
  unfold case_struct.
  destruct (String.eqb c c') eqn:E.
  - apply String.eqb_eq in E; subst. apply String.eqb_refl.
  - apply String.eqb_neq in E. apply String.eqb_neq. intros H; apply E.
    apply append_inj_l in H. apply append_inj_l in H. exact H.
Qed.

Lemma append_assoc (a b c:string) : ((a ++ b) ++ c)%string = (a ++ (b ++ c))%string.
Proof. induction a; cbn; congruence. Qed.

(** format_s undoes escape_percent *)
Lemma format_s_escape s : forall rest args,
  format_s (escape_percent s ++ rest)%string args = option_map (String.append s) (format_s rest args).
Proof.
  induction s as [|c s IH]; intros rest args; cbn.
  - destruct (format_s rest args); reflexivity.
  - destruct (Ascii.eqb c "%") eqn:E.
    + apply Ascii.eqb_eq in E; subst c. cbn. rewrite IH.
      destruct (format_s rest args); reflexivity.
    + cbn.
      assert (H : forall r, match c with
                            | "%"%char => match r with EmptyString => None | String c0 r0 => None (A:=string) end
                            | _ => Some EmptyString end = Some EmptyString -> True) by auto.
      clear H.
      destruct c as [b0 b1 b2 b3 b4 b5 b6 b7].
      destruct b0, b1, b2, b3, b4, b5, b6, b7; cbn in E; try discriminate; cbn; rewrite IH;
        destruct (format_s rest args); reflexivity.
Qed.
