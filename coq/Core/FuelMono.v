(** C01 — more fuel never changes a completed run (both evaluators), so "the output of the program" is
    well defined and independent of the fuel at which it is observed. *)
From Coq Require Import List ZArith String Ascii Bool Lia.
From FoVerif Require Import Core.Common Core.Lib Core.MiniFo Core.MiniGo.
Import ListNotations.
Open Scope list_scope.

(** ** the library, for any two callback evaluators *)
Section LibMono.
Context {V:Type} (ops:vops V).
Variables app1 app2 : V -> list V -> trace -> res V.
Hypothesis Happ : forall f vs t v t', app1 f vs t = Done v t' -> app2 f vs t = Done v t'.

Ltac cb_step H :=
  match type of H with
  | rbind (app1 ?f ?vs ?t) _ = Done _ _ =>
      let E := fresh "E" in
      destruct (app1 f vs t) as [? ?| |] eqn:E; cbn [rbind] in H; [|discriminate H|discriminate H];
      rewrite (Happ _ _ _ _ _ E); cbn [rbind]
  end.

Lemma map_cb_mono f : forall l t r t', map_cb app1 f l t = Done r t' -> map_cb app2 f l t = Done r t'.
Proof.
  induction l as [|x l IH]; intros t r t' H; cbn in H |- *; [exact H|]. cb_step H.
  destruct (map_cb app1 f l t0) as [ys t2| |] eqn:E2; cbn [rbind] in H; try discriminate.
  rewrite (IH _ _ _ E2). exact H.
Qed.
Lemma mapi_cb_mono f : forall l i t r t', mapi_cb ops app1 f i l t = Done r t' -> mapi_cb ops app2 f i l t = Done r t'.
Proof.
  induction l as [|x l IH]; intros i t r t' H; cbn in H |- *; [exact H|]. cb_step H.
  destruct (mapi_cb ops app1 f (i + 1) l t0) as [ys t2| |] eqn:E2; cbn [rbind] in H; try discriminate.
  rewrite (IH _ _ _ _ E2). exact H.
Qed.
Lemma filter_cb_mono f : forall l t r t', filter_cb ops app1 f l t = Done r t' -> filter_cb ops app2 f l t = Done r t'.
Proof.
  induction l as [|x l IH]; intros t r t' H; cbn in H |- *; [exact H|]. cb_step H.
  destruct (asBool ops a); [|discriminate].
  destruct (filter_cb ops app1 f l t0) as [ys t2| |] eqn:E2; cbn [rbind] in H; try discriminate.
  rewrite (IH _ _ _ E2). exact H.
Qed.
Lemma iter_cb_mono f : forall l t r t', iter_cb ops app1 f l t = Done r t' -> iter_cb ops app2 f l t = Done r t'.
Proof. induction l as [|x l IH]; intros t r t' H; cbn in H |- *; [exact H|]. cb_step H. auto. Qed.
Lemma fold_cb_mono f : forall l s t r t', fold_cb app1 f s l t = Done r t' -> fold_cb app2 f s l t = Done r t'.
Proof. induction l as [|x l IH]; intros s t r t' H; cbn in H |- *; [exact H|]. cb_step H. auto. Qed.
Lemma forall_cb_mono f : forall l t r t', forall_cb ops app1 f l t = Done r t' -> forall_cb ops app2 f l t = Done r t'.
Proof.
  induction l as [|x l IH]; intros t r t' H; cbn in H |- *; [exact H|]. cb_step H.
  destruct (asBool ops a) as [[|]|]; auto.
Qed.
Lemma forany_cb_mono f : forall l t r t', forany_cb ops app1 f l t = Done r t' -> forany_cb ops app2 f l t = Done r t'.
Proof.
  induction l as [|x l IH]; intros t r t' H; cbn in H |- *; [exact H|]. cb_step H.
  destruct (asBool ops a) as [[|]|]; auto.
Qed.

Lemma lib_sem_mono fn vs t v t' :
  lib_sem ops app1 fn vs t = Done v t' -> lib_sem ops app2 fn vs t = Done v t'.
Proof.
  intros H.
  destruct fn; try exact H.
  - (* Map *)
    destruct vs as [|f [|s [|? ?]]]; try exact H. cbn [lib_sem] in H |- *.
    destruct (asSlice ops s) as [l|]; [|exact H].
    destruct (map_cb app1 f l t) as [ys t1| |] eqn:E; cbn [rbind] in H; try discriminate.
    rewrite (map_cb_mono _ _ _ _ _ E). exact H.
  - destruct vs as [|f [|s [|? ?]]]; try exact H. cbn [lib_sem] in H |- *.
    destruct (asSlice ops s) as [l|]; [|exact H].
    destruct (mapi_cb ops app1 f 0 l t) as [ys t1| |] eqn:E; cbn [rbind] in H; try discriminate.
    rewrite (mapi_cb_mono _ _ _ _ _ _ E). exact H.
  - destruct vs as [|f [|s [|? ?]]]; try exact H. cbn [lib_sem] in H |- *.
    destruct (asSlice ops s) as [l|]; [|exact H].
    destruct (filter_cb ops app1 f l t) as [ys t1| |] eqn:E; cbn [rbind] in H; try discriminate.
    rewrite (filter_cb_mono _ _ _ _ _ E). exact H.
  - destruct vs as [|f [|s [|? ?]]]; try exact H. cbn [lib_sem] in H |- *.
    destruct (asSlice ops s) as [l|]; [|exact H]. apply iter_cb_mono; exact H.
  - destruct vs as [|f [|s0 [|s [|? ?]]]]; try exact H. cbn [lib_sem] in H |- *.
    destruct (asSlice ops s) as [l|]; [|exact H]. apply fold_cb_mono; exact H.
  - destruct vs as [|f [|s [|? ?]]]; try exact H. cbn [lib_sem] in H |- *.
    destruct (asSlice ops s) as [l|]; [|exact H]. apply forall_cb_mono; exact H.
  - destruct vs as [|f [|s [|? ?]]]; try exact H. cbn [lib_sem] in H |- *.
    destruct (asSlice ops s) as [l|]; [|exact H]. apply forany_cb_mono; exact H.
  - (* Pipe *)
    destruct vs as [|x [|f [|? ?]]]; try exact H. cbn [lib_sem] in H |- *. apply Happ; exact H.
  - destruct vs as [|x [|f [|? ?]]]; try exact H. cbn [lib_sem] in H |- *. cb_step H. exact H.
  - (* IfElse *)
    destruct vs as [|c [|a [|b [|? ?]]]]; try exact H. cbn [lib_sem] in H |- *.
    destruct (asBool ops c) as [[|]|]; try exact H; apply Happ; exact H.
  - destruct vs as [|c [|a [|b [|? ?]]]]; try exact H. cbn [lib_sem] in H |- *.
    destruct (asBool ops c) as [[|]|]; try exact H; cb_step H; exact H.
  - destruct vs as [|c [|a [|? ?]]]; try exact H. cbn [lib_sem] in H |- *.
    destruct (asBool ops c) as [[|]|]; try exact H. cb_step H; exact H.
Qed.

End LibMono.

(** ** MiniGo *)
Section GoMono.
Variable funcs : gfundefs.
Variable vars : gvardefs.
Notation geval := (geval funcs vars).
Notation gevals := (gevals funcs vars).
Notation gexec := (gexec funcs vars).
Notation gapply := (gapply funcs vars).

Definition GoMono (m:nat) : Prop :=
  (forall env e t v t', geval m env e t = Done v t' -> geval (S m) env e t = Done v t') /\
  (forall env es t v t', gevals m env es t = Done v t' -> gevals (S m) env es t = Done v t') /\
  (forall env ss t v t', gexec m env ss t = Done v t' -> gexec (S m) env ss t = Done v t') /\
  (forall f vs t v t', gapply m f vs t = Done v t' -> gapply (S m) f vs t = Done v t').

Ltac go_solve IHe IHs IHx IHa H :=
  first
  [ exact H
  | discriminate H
  | apply IHe; exact H | apply IHs; exact H | apply IHx; exact H | apply IHa; exact H
  | eapply lib_sem_mono; [|exact H]; intros; apply IHa; assumption
  | match type of H with
    | rbind ?r _ = Done _ _ =>
        let E := fresh "E" in
        destruct r as [? ?| |] eqn:E; cbn [rbind] in H; [|discriminate H|discriminate H];
        first [rewrite (IHe _ _ _ _ _ E) | rewrite (IHs _ _ _ _ _ E) | rewrite (IHx _ _ _ _ _ E) | rewrite (IHa _ _ _ _ _ E)];
        cbn [rbind]; go_solve IHe IHs IHx IHa H
    | match ?x with _ => _ end = Done _ _ => destruct x; go_solve IHe IHs IHx IHa H
    end ].

Lemma go_mono_step m : GoMono m -> GoMono (S m).
Proof.
  intros (IHe & IHs & IHx & IHa). unfold GoMono. repeat apply conj.
  - intros env e t v t' H. remember (S m) as m1.
    destruct e; rewrite Heqm1 in H; cbn [MiniGo.geval] in H |- *; rewrite <- ?Heqm1;
      try (destruct op); go_solve IHe IHs IHx IHa H.
  - intros env es t v t' H. remember (S m) as m1.
    destruct es; rewrite Heqm1 in H; cbn [MiniGo.gevals] in H |- *; rewrite <- ?Heqm1;
      go_solve IHe IHs IHx IHa H.
  - intros env ss t v t' H. remember (S m) as m1.
    destruct ss as [|s ss]; rewrite Heqm1 in H; cbn [MiniGo.gexec] in H |- *; rewrite <- ?Heqm1;
      [go_solve IHe IHs IHx IHa H|].
    destruct s; go_solve IHe IHs IHx IHa H.
  - intros f vs t v t' H. remember (S m) as m1.
    destruct f; rewrite Heqm1 in H; cbn [MiniGo.gapply] in H |- *; rewrite <- ?Heqm1;
      go_solve IHe IHs IHx IHa H.
Qed.

Lemma go_mono_all m : GoMono m.
Proof.
  induction m as [|m IH]; [|apply go_mono_step; exact IH].
  unfold GoMono; repeat apply conj; intros; discriminate.
Qed.

Lemma gapply_mono m m' f vs t v t' :
  m <= m' -> gapply m f vs t = Done v t' -> gapply m' f vs t = Done v t'.
Proof.
  induction 1 as [|m' L IH]; intros H; [exact H|].
  destruct (go_mono_all m') as (_ & _ & _ & Ha). apply Ha. apply IH. exact H.
Qed.

End GoMono.

Theorem run_go_mono m m' p out : m <= m' -> run_go m p = ODone out -> run_go m' p = ODone out.
Proof.
  unfold run_go. intros L H.
  destruct (gapply (g_funcs p) (g_vars p) m (GVClo [] [] (g_main p)) [] []) as [v t| |] eqn:E; try discriminate.
  rewrite (gapply_mono _ _ _ _ _ _ _ _ _ L E). exact H.
Qed.

(** ** MiniFo *)
Section FoMono.
Variable funs : fundefs.
Notation eval := (eval funs).
Notation evals := (evals funs).
Notation eval_block := (eval_block funs).
Notation apply := (apply funs).

Definition FoMono (m:nat) : Prop :=
  (forall env e t v t', eval m env e t = Done v t' -> eval (S m) env e t = Done v t') /\
  (forall env es t v t', evals m env es t = Done v t' -> evals (S m) env es t = Done v t') /\
  (forall env b t v t', eval_block m env b t = Done v t' -> eval_block (S m) env b t = Done v t') /\
  (forall f vs t v t', apply m f vs t = Done v t' -> apply (S m) f vs t = Done v t').

Ltac fo_solve IHe IHs IHb IHa H :=
  first
  [ exact H
  | discriminate H
  | apply IHe; exact H | apply IHs; exact H | apply IHb; exact H | apply IHa; exact H
  | eapply lib_sem_mono; [|exact H]; intros; apply IHa; assumption
  | match type of H with
    | rbind ?r _ = Done _ _ =>
        let E := fresh "E" in
        destruct r as [? ?| |] eqn:E; cbn [rbind] in H; [|discriminate H|discriminate H];
        first [rewrite (IHe _ _ _ _ _ E) | rewrite (IHs _ _ _ _ _ E) | rewrite (IHb _ _ _ _ _ E) | rewrite (IHa _ _ _ _ _ E)
              | rewrite (lib_sem_mono sops _ _ IHa _ _ _ _ _ E)];
        cbn [rbind]; fo_solve IHe IHs IHb IHa H
    | match ?x with _ => _ end = Done _ _ => destruct x; fo_solve IHe IHs IHb IHa H
    end ].

Lemma fo_mono_step m : FoMono m -> FoMono (S m).
Proof.
  intros (IHe & IHs & IHb & IHa). unfold FoMono. repeat apply conj.
  - intros env e t v t' H. remember (S m) as m1.
    destruct e; rewrite Heqm1 in H; cbn [MiniFo.eval] in H |- *; rewrite <- ?Heqm1;
      try (destruct op); fo_solve IHe IHs IHb IHa H.
  - intros env es t v t' H. remember (S m) as m1.
    destruct es; rewrite Heqm1 in H; cbn [MiniFo.evals] in H |- *; rewrite <- ?Heqm1;
      fo_solve IHe IHs IHb IHa H.
  - intros env b t v t' H. remember (S m) as m1.
    destruct b; rewrite Heqm1 in H; cbn [MiniFo.eval_block] in H |- *; rewrite <- ?Heqm1;
      fo_solve IHe IHs IHb IHa H.
  - intros f vs t v t' H. remember (S m) as m1.
    destruct f; rewrite Heqm1 in H; cbn [MiniFo.apply] in H |- *; rewrite <- ?Heqm1;
      fo_solve IHe IHs IHb IHa H.
Qed.

Lemma fo_mono_all m : FoMono m.
Proof.
  induction m as [|m IH]; [|apply fo_mono_step; exact IH].
  unfold FoMono; repeat apply conj; intros; discriminate.
Qed.

Lemma eval_block_mono m m' env b t v t' :
  m <= m' -> eval_block m env b t = Done v t' -> eval_block m' env b t = Done v t'.
Proof.
  induction 1 as [|m' L IH]; intros H; [exact H|].
  destruct (fo_mono_all m') as (_ & _ & Hb & _). apply Hb. apply IH. exact H.
Qed.

End FoMono.

Theorem run_src_mono m m' p out : m <= m' -> run_src m p = ODone out -> run_src m' p = ODone out.
Proof.
  unfold run_src. intros L H.
  destruct (eval_block (p_funs p) m [] (p_main p) []) as [v t| |] eqn:E; try discriminate.
  rewrite (eval_block_mono _ _ _ _ _ _ _ _ L E). exact H.
Qed.
