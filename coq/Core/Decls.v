(** C03 model: what fc emits for declarations and for calls into package_info functions.
    Transcribes stmt_to_go.fo (rdfToGo, udfToGo: udUnionDef, udCSConformMethods, udCSStringerMethods,
    udCSDef, csConstruct/csIsVar/csConstructFunc/csConstructVar, rfdToGo, rootVarDefToGo),
    ftype.fo unionCSName, expr_to_go.fo (varRefToGo, fcFullApplyGo, fcPartialApplyGo) and
    parse_state.fo piFullName. Go types are opaque strings here (their mapping is C15).
    Definitions only. *)
From Coq Require Import List String Bool Arith.
Import ListNotations.
Open Scope string_scope.

Definition gotype := string.

(** Folang declarations *)
Record recdef := mkRecDef { rd_name : string; rd_tparams : list string; rd_fields : list (string * gotype) }.
Record uniondef := mkUnion { ud_name : string; ud_tparams : list string;
                             ud_cases : list (string * option gotype) }.   (* None = no payload *)
(** top-level let: parameters (None = unit parameter) and result (None = unit) *)
Record fundef := mkFun { fd_name : string; fd_tparams : list string;
                         fd_params : list (string * option gotype); fd_result : option gotype }.

(** Go declarations, structurally *)
Inductive godecl :=
| GStruct (name : string) (tparams : list string) (fields : list (string * gotype))
| GInterface (name : string) (tparams : list string) (method : string)
| GMethod (recv_var : option string) (recv : string) (recv_targs : list string) (name : string) (result : option gotype)
| GFunc (name : string) (tparams : list string) (params : list (string * gotype)) (result : option gotype)
| GVar (name : string) (type : option gotype).

Definition cs_name (u c : string) : string := u ++ "_" ++ c.             (* unionCSName *)
Definition ctor_name (u c : string) : string := "New_" ++ cs_name u c.    (* csConstructorName *)

Definition targs_text (tps : list string) : string :=                    (* toStringTParamsIfAny *)
  match tps with [] => "" | _ => "[" ++ String.concat ", " tps ++ "]" end.

Definition emit_record (r : recdef) : list godecl :=
  [GStruct (rd_name r) (rd_tparams r) (rd_fields r)].

Definition cs_is_var (tps : list string) (payload : option gotype) : bool :=   (* csIsVar *)
  match payload, tps with None, [] => true | _, _ => false end.

Definition emit_case (u : uniondef) (c : string * option gotype) : list godecl :=
  let '(cn, payload) := c in
  [ GStruct (cs_name (ud_name u) cn) (ud_tparams u)
            (match payload with Some t => [("Value", t)] | None => [] end);
    if cs_is_var (ud_tparams u) payload
    then GVar (ctor_name (ud_name u) cn) (Some (ud_name u))
    else GFunc (ctor_name (ud_name u) cn) (ud_tparams u)
               (match payload with Some t => [("v", t)] | None => [] end)
               (Some (ud_name u ++ targs_text (ud_tparams u))) ].

Definition emit_union (u : uniondef) : list godecl :=
  GInterface (ud_name u) (ud_tparams u) (ud_name u ++ "_Union")
  :: map (fun c => GMethod None (cs_name (ud_name u) (fst c)) (ud_tparams u) (ud_name u ++ "_Union") None) (ud_cases u)
  ++ map (fun c => GMethod (Some "v") (cs_name (ud_name u) (fst c)) (ud_tparams u) "String" (Some "string")) (ud_cases u)
  ++ flat_map (emit_case u) (ud_cases u).

(** top-level function: unit parameter = no parameter, unit result = no result *)
Definition go_params (ps : list (string * option gotype)) : list (string * gotype) :=
  flat_map (fun p => match snd p with Some t => [(fst p, t)] | None => [] end) ps.

Definition emit_root_func (f : fundef) : godecl :=
  GFunc (fd_name f) (fd_tparams f) (go_params (fd_params f)) (fd_result f).

Definition emit_root_var (name : string) : godecl := GVar name None.

(** ---- calls to package_info functions ---- *)
(** piFullName: package-qualified unless the package is "_" *)
Definition pi_full_name (pkg name : string) : string :=
  if String.eqb pkg "_" then name else pkg ++ "." ++ name.

Inductive goexpr :=
| XArg (text : string)                        (* an already translated argument *)
| XVar (name : string)
| XCall (fn : string) (targs : list string) (args : list goexpr)
| XClosure (params : list (string * gotype)) (result : option gotype) (body : goexpr).

Fixpoint rparams (i : nat) (ts : list gotype) : list (string * gotype) :=
  match ts with
  | [] => []
  | t :: ts' => (("_r" ++ String (Ascii.ascii_of_nat (48 + i)) "")%string, t) :: rparams (S i) ts'
  end.

(** call of a declared function with [supplied] arguments (unit arguments already dropped), the
    remaining parameter types [missing] (empty = full application) and explicit type arguments *)
Definition emit_ext_call (pkg name : string) (targs : list string)
           (supplied : list string) (missing : list gotype) (result : option gotype) : goexpr :=
  let fn := pi_full_name pkg name in
  match missing with
  | [] => XCall fn targs (map XArg supplied)
  | _ => let rs := rparams 0 missing in
         XClosure rs result (XCall fn targs (map XArg supplied ++ map (fun p => XVar (fst p)) rs))
  end.

(** all arguments the callee finally receives, in order *)
Definition call_args (e : goexpr) : list goexpr :=
  match e with
  | XCall _ _ args => args
  | XClosure _ _ (XCall _ _ args) => args
  | _ => []
  end.
Definition call_fn (e : goexpr) : string :=
  match e with
  | XCall fn _ _ => fn
  | XClosure _ _ (XCall fn _ _) => fn
  | _ => ""
  end.
