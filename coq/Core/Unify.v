(** C02 — first-order unification on binary-encoded types (definitions only).

    Types are first-order terms in a *binary* encoding so that plain structural induction works:
    an n-ary constructor [C(t1..tn)] is [TNode (TAtom C) (TNode t1 (... (TAtom a_nil)))]
    (see Core/Infer.v for the constructors used by the C02 fragment).

    [unify] is Robinson's algorithm on a list of equations, with occurs check, sequential
    substitutions (the first binding is applied first) and explicit fuel
    ([Fuel] = out of fuel, excluded by [unify_terminates]).  This is a *reference* algorithm:
    fc/infer.fo uses equivalence classes (EquivInfo/Resolver) and has no occurs check; the two are
    tied together by the correspondence on generated programs (harness/c02.go). *)
From Coq Require Import List Arith Bool.
Import ListNotations.

Inductive ty := TVar (x:nat) | TAtom (a:nat) | TNode (l r:ty).

Fixpoint size (t:ty) : nat := match t with TNode l r => S (size l + size r) | _ => 1 end.

Fixpoint occurs (x:nat) (t:ty) : bool :=
  match t with
  | TVar y => Nat.eqb x y
  | TAtom _ => false
  | TNode l r => occurs x l || occurs x r
  end.

(** single-binding substitution *)
Fixpoint sub1 (x:nat) (u:ty) (t:ty) : ty :=
  match t with
  | TVar y => if Nat.eqb x y then u else t
  | TAtom _ => t
  | TNode l r => TNode (sub1 x u l) (sub1 x u r)
  end.

Definition eqn := (ty * ty)%type.
Definition sub1_eqs x u (es:list eqn) : list eqn :=
  map (fun '(s,t) => (sub1 x u s, sub1 x u t)) es.

(** sequential (triangular) substitution: the first binding is applied first *)
Definition subst := list (nat * ty).
Fixpoint app_seq (s:subst) (t:ty) : ty :=
  match s with [] => t | (x,u)::r => app_seq r (sub1 x u t) end.

(** semantic substitutions (total functions) *)
Fixpoint app (th:nat -> ty) (t:ty) : ty :=
  match t with
  | TVar x => th x
  | TAtom _ => t
  | TNode l r => TNode (app th l) (app th r)
  end.

Definition unifies (th:nat->ty) (es:list eqn) : Prop :=
  forall s t, In (s,t) es -> app th s = app th t.

Definition solves (sg:subst) (es:list eqn) : Prop :=
  forall s t, In (s,t) es -> app_seq sg s = app_seq sg t.

Inductive res := Ok (s:subst) | Clash | Fuel.

Fixpoint unify (n:nat) (es:list eqn) : res :=
  match n with O => Fuel | S n =>
  match es with
  | [] => Ok []
  | (s,t)::r =>
      let elim x u :=
        if occurs x u then Clash
        else match unify n (sub1_eqs x u r) with
             | Ok sg => Ok ((x,u)::sg) | Clash => Clash | Fuel => Fuel end in
      match s, t with
      | TVar x, TVar y => if Nat.eqb x y then unify n r else elim x t
      | TVar x, _ => elim x t
      | _, TVar y => elim y s
      | TAtom a, TAtom b => if Nat.eqb a b then unify n r else Clash
      | TNode a b, TNode c d => unify n ((a,c)::(b,d)::r)
      | _, _ => Clash
      end
  end end.

Fixpoint esize (es:list eqn) : nat :=
  match es with [] => 0 | (s,t)::r => size s + size t + esize r end.
Definition vars_in (V:list nat) (t:ty) : Prop := forall x, occurs x t = true -> In x V.
Definition evars_in (V:list nat) (es:list eqn) : Prop :=
  forall s t, In (s,t) es -> vars_in V s /\ vars_in V t.
