(** C01 — a decision procedure for the hypotheses [wt] / [pap_args_pure] of the theorem, so that the
    oracle can tell the harness whether a generated program is inside the proved fragment
    ([C01 (fragment <prog>)]).  Fuelled (the AST has nested lists); sound for every fuel. *)
From Coq Require Import List ZArith String Ascii Bool Lia.
From FoVerif Require Import Core.Common Core.Lib Core.MiniFo Core.SimDefs.
Import ListNotations.
Open Scope list_scope.

Fixpoint pure_b (n:nat) (e:expr) {struct n} : bool :=
  match n with O => false | S n =>
  match e with
  | EInt _ | EStr _ | EBool _ | EVar _ | ELam _ _ => true
  | ECall _ (S _) _ _ => true
  | EBin _ a b | EEq _ a b => pure_b n a && pure_b n b
  | ENot a | EField a _ => pure_b n a
  | ETuple es | ERecord _ _ _ es | ESlice es => forallb (pure_b n) es
  | ECtor _ _ None => true
  | ECtor _ _ (Some a) => pure_b n a
  | _ => false
  end end.

Definition user_b (x:var) : bool := negb (reserved x).
Definition two_or_three_b (n:nat) : bool := Nat.eqb n 2 || Nat.eqb n 3.

Fixpoint str_in (x:string) (l:list string) : bool :=
  match l with [] => false | y :: r => String.eqb x y || str_in x r end.
Fixpoint nodup_b (l:list string) : bool :=
  match l with [] => true | x :: r => negb (str_in x r) && nodup_b r end.

Definition fields_ok_b (written decl:list string) : bool :=
  nodup_b written && nodup_b decl && Nat.eqb (List.length written) (List.length decl) &&
  forallb (fun f => str_in f decl) written.

Definition ctor_declared_b (unions:list udecl) (u c:string) (p:bool) : bool :=
  existsb (fun d : udecl => String.eqb (fst d) u &&
                            existsb (fun cs : string * bool => String.eqb (fst cs) c && Bool.eqb (snd cs) p) (snd d)) unions.

Section Check.
Variable strict : bool.
Variable unions : list udecl.

Fixpoint wfe_b (n:nat) (e:expr) {struct n} : bool :=
  match n with O => false | S n =>
  match e with
  | EInt _ | EStr _ | EBool _ | EUnit => true
  | EVar x => user_b x
  | EBin _ a b | EEq _ a b => wfe_b n a && wfe_b n b
  | ENot a => wfe_b n a
  | EIf c bt bf => wfe_b n c && wfb_b n bt && wfb_b n bf && Bool.eqb (block_unit bt) (block_unit bf)
  | EIfOnly c bt => wfe_b n c && wfb_b n bt
  | ELam ps b => forallb user_b ps && wfb_b n b
  | ECall f O _ args => user_b f && forallb (wfe_b n) args
  | ECall f (S _) _ args => user_b f && forallb (wfe_b n) args && (negb strict || forallb (pure_b n) args)
  | EExt fn args => src_fn fn && forallb (wfe_b n) args
  | EPipeVar a f _ => wfe_b n a && user_b f
  | EPipeCall a f args _ => wfe_b n a && user_b f && forallb (wfe_b n) args
  | EPipeExt a fn args _ => wfe_b n a && src_fn fn && forallb (wfe_b n) args
  | ETuple es => forallb (wfe_b n) es && two_or_three_b (List.length es)
  | ERecord _ decl fields es => forallb (wfe_b n) es && fields_ok_b fields decl
  | EField a _ => wfe_b n a
  | ECtor u c None => ctor_declared_b unions u c false
  | ECtor u c (Some a) => ctor_declared_b unions u c true && wfe_b n a
  | EMatchU a _ arms def =>
      wfe_b n a &&
      forallb (fun arm : string * option var * block =>
                 match snd (fst arm) with Some x => user_b x | None => true end && wfb_b n (snd arm)) arms &&
      match def with Some b => wfb_b n b | None => true end
  | EMatchS a arms bx last =>
      wfe_b n a && forallb (fun arm : string * block => wfb_b n (snd arm)) arms &&
      match bx with Some x => user_b x | None => true end && wfb_b n last
  | ESlice es => forallb (wfe_b n) es
  | EInterp parts => forallb (fun p : string + var => match p with inr x => user_b x | inl _ => true end) parts
  | EBlock b => wfb_b n b
  end end
with wfb_b (n:nat) (b:block) {struct n} : bool :=
  match n with O => false | S n =>
  match b with
  | BLet x e b' => user_b x && wfe_b n e && wfb_b n b'
  | BDestr xs e b' => forallb user_b xs && two_or_three_b (List.length xs) && wfe_b n e && wfb_b n b'
  | BDo e b' => wfe_b n e && wfb_b n b'
  | BRet e _ => wfe_b n e
  end end.

Definition wfp_b (n:nat) (p:prog) : bool :=
  nodup_b (all_ctor_names (p_unions p)) &&
  forallb (fun d : var * (list var * block) =>
             user_b (fst d) && forallb user_b (fst (snd d)) && wfb_b n (snd (snd d))) (p_funs p) &&
  wfb_b n (p_main p).

End Check.

(** ** soundness *)
Lemma user_b_ok x : user_b x = true -> reserved x = false.
Proof. unfold user_b. destruct (reserved x); [discriminate|reflexivity]. Qed.

Lemma forallb_user ps : forallb user_b ps = true -> Forall (fun p => reserved p = false) ps.
Proof.
  intros H. apply Forall_forall. intros x I. apply user_b_ok.
  rewrite forallb_forall in H. apply H; exact I.
Qed.

Lemma two_or_three_b_ok n : two_or_three_b n = true -> two_or_three n.
Proof.
  unfold two_or_three_b, two_or_three. intros H. apply orb_true_iff in H.
  destruct H as [H|H]; apply Nat.eqb_eq in H; auto.
Qed.

Lemma pure_b_ok n : forall e, pure_b n e = true -> pure e.
Proof.
  induction n as [|n IH]; intros e H; [discriminate|].
  assert (IHs : forall es, forallb (pure_b n) es = true -> Forall pure es).
  { intros es Hf. apply Forall_forall. intros x I. apply IH. rewrite forallb_forall in Hf. apply Hf; exact I. }
  destruct e; cbn [pure_b] in H; try discriminate;
    repeat match goal with Hc : _ && _ = true |- _ => apply andb_true_iff in Hc; destruct Hc end;
    try (constructor; auto; fail).
  - destruct missing; [discriminate|constructor].
  - destruct arg; constructor; auto.
Qed.

Lemma str_in_ok x l : str_in x l = false -> ~ In x l.
Proof.
  induction l as [|y l IH]; cbn; intros H; [tauto|].
  apply orb_false_iff in H. destruct H as [E H]. apply String.eqb_neq in E.
  intros [->|I]; [apply E; reflexivity|apply IH; assumption].
Qed.
Lemma nodup_b_ok l : nodup_b l = true -> NoDup l.
Proof.
  induction l as [|x l IH]; cbn; intros H; [constructor|].
  apply andb_true_iff in H. destruct H as [N H]. constructor; [|auto].
  apply str_in_ok. destruct (str_in x l); [discriminate|reflexivity].
Qed.

Lemma str_in_true x l : str_in x l = true -> In x l.
Proof.
  induction l as [|y l IH]; cbn; intros H; [discriminate|].
  apply orb_true_iff in H. destruct H as [E|H]; [apply String.eqb_eq in E; left; auto|right; auto].
Qed.
Lemma fields_ok_b_ok w dcl : fields_ok_b w dcl = true -> fields_ok w dcl.
Proof.
  unfold fields_ok_b, fields_ok. intros H.
  repeat match goal with Hc : _ && _ = true |- _ => apply andb_true_iff in Hc; destruct Hc end.
  repeat split; auto using nodup_b_ok.
  - apply Nat.eqb_eq; assumption.
  - intros x I. apply str_in_true. match goal with Hf : forallb _ w = true |- _ => rewrite forallb_forall in Hf; apply Hf; exact I end.
Qed.

Lemma ctor_declared_b_ok us u c p : ctor_declared_b us u c p = true -> ctor_declared us u c p.
Proof.
  unfold ctor_declared_b, ctor_declared. intros H. apply existsb_exists in H.
  destruct H as ([u' cases] & Iu & H). cbn in H. apply andb_true_iff in H. destruct H as [Eu H].
  apply String.eqb_eq in Eu; subst u'. apply existsb_exists in H. destruct H as ([c' p'] & Ic & H). cbn in H.
  apply andb_true_iff in H. destruct H as [Ec Ep]. apply String.eqb_eq in Ec. apply Bool.eqb_prop in Ep. subst.
  exists cases; split; assumption.
Qed.

Lemma wf_sound strict us n :
  (forall e, wfe_b strict us n e = true -> wfe strict (ctor_declared us) e) /\
  (forall b, wfb_b strict us n b = true -> wfb strict (ctor_declared us) b).
Proof.
  induction n as [|n (IHe & IHb)]; [split; intros; discriminate|].
  assert (IHes : forall es, forallb (wfe_b strict us n) es = true -> Forall (wfe strict (ctor_declared us)) es).
  { intros es H. apply Forall_forall. intros x I. apply IHe. rewrite forallb_forall in H. apply H; exact I. }
  split.
  - intros e H. destruct e; cbn [wfe_b] in H;
      repeat match goal with
             | H : _ && _ = true |- _ => apply andb_true_iff in H; destruct H
             end.
    + constructor. + constructor. + constructor. + constructor.
    + constructor. apply user_b_ok; assumption.
    + constructor; auto.
    + constructor; auto.
    + constructor; auto.
    + constructor; auto. apply Bool.eqb_prop; assumption.
    + constructor; auto.
    + constructor; auto using forallb_user.
    + destruct missing.
      * apply andb_true_iff in H; destruct H. constructor; auto using user_b_ok.
      * repeat match goal with
               | H : _ && _ = true |- _ => apply andb_true_iff in H; destruct H
               end.
        constructor; auto using user_b_ok.
        intros ->. cbn in *. apply Forall_forall. intros x I. apply (pure_b_ok n).
        match goal with Hf : forallb (pure_b n) args = true |- _ => rewrite forallb_forall in Hf; apply Hf; exact I end.
    + constructor; auto.
    + constructor; auto using user_b_ok.
    + constructor; auto using user_b_ok.
    + constructor; auto.
    + constructor; auto using two_or_three_b_ok.
    + constructor; auto using fields_ok_b_ok.
    + constructor; auto.
    + destruct arg.
      * apply andb_true_iff in H; destruct H. constructor; auto using ctor_declared_b_ok.
      * constructor; auto using ctor_declared_b_ok.
    + constructor; auto.
      * apply Forall_forall. intros arm I.
        match goal with Hf : forallb _ arms = true |- _ =>
          rewrite forallb_forall in Hf; specialize (Hf _ I); apply andb_true_iff in Hf; destruct Hf as [Hx Hb] end.
        split; [|auto].
        destruct (snd (fst arm)); [apply user_b_ok; assumption|exact Logic.I].
      * intros b ->. auto.
    + constructor; auto.
      * apply Forall_forall. intros arm I.
        match goal with Hf : forallb _ arms = true |- _ => rewrite forallb_forall in Hf; specialize (Hf _ I) end. auto.
      * destruct bx; [apply user_b_ok; assumption|exact Logic.I].
    + constructor; auto.
    + constructor. apply Forall_forall. intros x I.
      rewrite forallb_forall in H. specialize (H _ I). destruct x; [exact Logic.I|apply user_b_ok; assumption].
    + constructor; auto.
  - intros b H. destruct b; cbn [wfb_b] in H;
      repeat match goal with
             | H : _ && _ = true |- _ => apply andb_true_iff in H; destruct H
             end.
    + constructor; auto using user_b_ok.
    + constructor; auto using forallb_user, two_or_three_b_ok.
    + constructor; auto.
    + constructor; auto.
Qed.

Theorem wfp_b_sound strict n p : wfp_b strict (p_unions p) n p = true -> wfp strict p.
Proof.
  unfold wfp_b, wfp. intros H.
  apply andb_true_iff in H. destruct H as [H Hm]. apply andb_true_iff in H. destruct H as [Hn Hf].
  destruct (wf_sound strict (p_unions p) n) as (_ & Sb).
  split; [apply nodup_b_ok; exact Hn|]. split; [|apply Sb; exact Hm].
  apply Forall_forall. intros d I. rewrite forallb_forall in Hf. specialize (Hf _ I).
  apply andb_true_iff in Hf. destruct Hf as [Hf Hb]. apply andb_true_iff in Hf. destruct Hf as [Hu Hps].
  split; [apply user_b_ok; exact Hu|]. split; [apply forallb_user; exact Hps|apply Sb; exact Hb].
Qed.
