(** C02/C16 — the bounded resolver loop: termination without any assumption, agreement with the
    unbounded loop on converging inputs, and the two diverging relation sets. *)
From Coq Require Import NArith Arith Lia Bool List.
From FoVerif Require Import Core.Unify Core.Infer Core.Resolver Core.ResolverProofs Core.ResolverBound.
Import ListNotations.

Section Proofs.
Variable later : nat -> nat -> bool.
Variable enum : list nat -> list nat.

(** (a) termination: the measure is the round counter *)
Lemma update_resolver_n_fuel : forall fuel count work st rels,
  (1 <= fuel)%nat -> (1002 <= N.of_nat fuel + count)%N ->
  update_resolver_n later enum fuel count work st rels <> BFuel.
Proof.
  induction fuel as [|n IH]; intros count work st rels H1 H2; [lia|]. cbn [update_resolver_n].
  destruct (N.ltb round_bound count) eqn:E1; [cbn; discriminate|].
  destruct (N.ltb work_bound work) eqn:E2; [cbn; discriminate|]. cbn [orb].
  destruct (update_round later enum st rels) as [st1 nrels g|]; [|discriminate].
  destruct nrels as [|r0 nrels]; [discriminate|].
  apply N.ltb_ge in E1. unfold round_bound in E1.
  assert (K : update_resolver_n later enum n (count + 1) (work + N.of_nat (length (r0 :: nrels))) st1 (r0 :: nrels) <> BFuel).
  { apply IH; lia. }
  destruct (update_resolver_n later enum n (count + 1) (work + N.of_nat (length (r0 :: nrels))) st1 (r0 :: nrels));
    congruence.
Qed.

Theorem update_resolver_b_terminates : forall fuel st rels,
  (1002 <= N.of_nat fuel)%N -> update_resolver_b later enum fuel st rels <> BFuel.
Proof. intros fuel st rels H. unfold update_resolver_b. apply update_resolver_n_fuel; lia. Qed.

(** (b) agreement with the unbounded loop on inputs that converge within the bounds *)
Lemma update_resolver_n_agrees : forall fuel count work st rels st' g r w,
  update_resolver later enum fuel st rels = LDone st' g ->
  run_stats later enum fuel st rels = Some (r, w) ->
  (count + r <= round_bound)%N -> (work + w <= work_bound)%N ->
  update_resolver_n later enum fuel count work st rels = BDone st' g.
Proof.
  induction fuel as [|n IH]; intros count work st rels st' g r w H S Hr Hw; cbn in H; [discriminate|].
  cbn [update_resolver_n]. cbn [run_stats] in S.
  assert (E1 : N.ltb round_bound count = false) by (apply N.ltb_ge; lia).
  assert (E2 : N.ltb work_bound work = false) by (apply N.ltb_ge; lia).
  rewrite E1, E2. cbn [orb].
  destruct (update_round later enum st rels) as [st1 nrels g1|]; [|discriminate].
  destruct nrels as [|r0 nrels]; [congruence|].
  destruct (run_stats later enum n st1 (r0 :: nrels)) as [(r1, w1)|] eqn:S1; [|discriminate].
  set (L := N.of_nat (length (r0 :: nrels))) in *.
  injection S as <- <-.
  destruct (update_resolver later enum n st1 (r0 :: nrels)) as [s2 g2| |] eqn:U; try discriminate.
  injection H as <- <-.
  rewrite (IH (count + 1)%N (work + L)%N st1 (r0 :: nrels) s2 g2 r1 w1 U S1); [reflexivity|lia|lia].
Qed.

Theorem update_resolver_b_agrees : forall fuel st rels st' g r w,
  update_resolver later enum fuel st rels = LDone st' g ->
  run_stats later enum fuel st rels = Some (r, w) ->
  (r <= round_bound)%N -> (w <= work_bound)%N ->
  update_resolver_b later enum fuel st rels = BDone st' g.
Proof. intros. unfold update_resolver_b. eapply update_resolver_n_agrees; eauto. Qed.

(** an unbounded run that ends always has its statistics *)
Lemma run_stats_defined : forall fuel st rels st' g,
  update_resolver later enum fuel st rels = LDone st' g -> exists r w, run_stats later enum fuel st rels = Some (r, w).
Proof.
  induction fuel as [|n IH]; intros st rels st' g H; cbn in H; [discriminate|]. cbn [run_stats].
  destruct (update_round later enum st rels) as [st1 nrels g1|]; [|discriminate].
  destruct nrels as [|r0 nrels]; [eauto|].
  destruct (update_resolver later enum n st1 (r0 :: nrels)) as [s2 g2| |] eqn:U; try discriminate.
  destruct (IH _ _ _ _ U) as (r & w & E). rewrite E. eauto.
Qed.

End Proofs.

(* ------------------------------------------------------------------ the two diverging sets *)
(** x = (x, x) together with x = ((x, x), (x, x)): the number of relations doubles in every pass *)
Definition x1 : ty := TVar 1.
Definition rels_dbl : list rel := [(1, ttuple [x1; x1]); (1, ttuple [ttuple [x1; x1]; ttuple [x1; x1]])].
Definition rels_slc : list rel := [(1, tslice x1); (1, tslice (tslice x1))].

Example doubling_relations_grow :
  match rels_after Nat.ltb enum_id 5 [] rels_dbl with
  | Some R => (32 <=? length R) = true
  | None => False end.
Proof. vm_compute. reflexivity. Qed.

Example doubling_relations_double :
  map (fun k => option_map (@length rel) (rels_after Nat.ltb enum_id k [] rels_dbl)) [1; 2; 3; 4; 5; 6; 7; 8]
  = [Some 3; Some 6; Some 12; Some 24; Some 48; Some 96; Some 192; Some 384].
Proof. vm_compute. reflexivity. Qed.

(** the bounded loop answers the diagnostic on both sets (the work bound stops the first after 17
    passes, the round bound the second after 1001) *)
Example bounded_loop_reports_doubling : bsolve_rels Nat.ltb enum_id bound_fuel rels_dbl = BSNoConv.
Proof. vm_compute. reflexivity. Qed.

Example bounded_loop_reports_slices : bsolve_rels Nat.ltb enum_id bound_fuel rels_slc = BSNoConv.
Proof. vm_compute. reflexivity. Qed.

(** and converging inputs are untouched, e.g. T0 = []T1, T1 = int, T0 = []T2 *)
Example bounded_loop_solves :
  match bsolve_rels Nat.ltb enum_id bound_fuel [(0, tslice (TVar 1)); (1, tint); (0, tslice (TVar 2))] with
  | BSSolved st false => resolve_type 10 st (TVar 2) = ROk tint /\ resolve_type 10 st (TVar 0) = ROk (tslice tint)
  | _ => False end.
Proof. vm_compute. split; reflexivity. Qed.
