(** C01 — big-step rules for MiniGo derived from the fuelled evaluator, in the "eventually" form
    [exists m, forall m' >= m, geval m' … = Done …] (so that no fuel-monotonicity lemma is needed). *)
From Coq Require Import List ZArith String Ascii Bool Lia.
From FoVerif Require Import Core.Common Core.CommonProofs Core.Lib Core.MiniGo.
Import ListNotations.
Open Scope list_scope.

Definition ret_val (o:option gval) : gval := match o with Some v => v | None => GVUnit end.

Section Rules.
Variable funcs : list (var * (list var * list gstmt)).
Variable vars : list (var * gexpr).

Notation geval := (geval funcs vars).
Notation gevals := (gevals funcs vars).
Notation gexec := (gexec funcs vars).
Notation gapply := (gapply funcs vars).

Definition Geval env e t gv t' := exists m, forall m', m <= m' -> geval m' env e t = Done gv t'.
Definition Gevals env es t gvs t' := exists m, forall m', m <= m' -> gevals m' env es t = Done gvs t'.
Definition Gexec env ss t (o:option gval) t' := exists m, forall m', m <= m' -> gexec m' env ss t = Done o t'.
Definition Gapply f vs t gv t' := exists m, forall m', m <= m' -> gapply m' f vs t = Done gv t'.
Definition Glib fn vs t gv t' := exists m, forall m', m <= m' -> lib_sem gops (gapply m') fn vs t = Done gv t'.

(** local variable, else package-level function *)
Definition glookup (x:var) (env:genv) : option gval :=
  match lookup x env with
  | Some v => Some v
  | None => match lookup x funcs with
            | Some (ps, body) => Some (GVClo [] ps body)
            | None => None
            end
  end.

Ltac fuel_step m' := destruct m' as [|m']; [lia|]; cbn [MiniGo.geval MiniGo.gevals MiniGo.gexec MiniGo.gapply rbind].

Lemma G_int env z t : Geval env (GInt z) t (GVInt z) t.
Proof. exists 1; intros m' H; fuel_step m'; reflexivity. Qed.
Lemma G_str env s t : Geval env (GStr s) t (GVStr s) t.
Proof. exists 1; intros m' H; fuel_step m'; reflexivity. Qed.
Lemma G_bool env b t : Geval env (GBool b) t (GVBool b) t.
Proof. exists 1; intros m' H; fuel_step m'; reflexivity. Qed.
Lemma G_none env t : Geval env GNone t GVUnit t.
Proof. exists 1; intros m' H; fuel_step m'; reflexivity. Qed.
Lemma G_lib env fn t : Geval env (GLib fn) t (GVLib fn) t.
Proof. exists 1; intros m' H; fuel_step m'; reflexivity. Qed.
Lemma G_func env ps b t : Geval env (GFunc ps b) t (GVClo env ps b) t.
Proof. exists 1; intros m' H; fuel_step m'; reflexivity. Qed.

Lemma G_var env x v t : glookup x env = Some v -> Geval env (GVar x) t v t.
Proof.
  unfold glookup; intros L; exists 1; intros m' H; fuel_step m'.
  destruct (lookup x env) as [v0|]; [inversion L; reflexivity|].
  destruct (lookup x funcs) as [[ps body]|]; [inversion L; reflexivity|discriminate].
Qed.

Lemma G_var_pkgvar env x init t v t' :
  lookup x env = None -> lookup x funcs = None -> lookup x vars = Some init ->
  Geval [] init t v t' -> Geval env (GVar x) t v t'.
Proof.
  intros L1 L2 L3 [m1 H1]; exists (S m1); intros m' H; fuel_step m'.
  rewrite L1, L2, L3. apply H1; lia.
Qed.

Lemma G_arith env op a b t va t1 vb t2 v :
  op <> OAnd -> op <> OOr ->
  Geval env a t va t1 -> Geval env b t1 vb t2 -> arith gops op va vb = Some v ->
  Geval env (GBin op a b) t v t2.
Proof.
  intros N1 N2 [m1 H1] [m2 H2] A; exists (S (Nat.max m1 m2)); intros m' H; fuel_step m'.
  destruct op; try congruence; rewrite H1 by lia; cbn [rbind]; rewrite H2 by lia; cbn [rbind]; rewrite A; reflexivity.
Qed.

Lemma G_and_false env a b t t1 :
  Geval env a t (GVBool false) t1 -> Geval env (GBin OAnd a b) t (GVBool false) t1.
Proof. intros [m1 H1]; exists (S m1); intros m' H; fuel_step m'. rewrite H1 by lia; reflexivity. Qed.
Lemma G_and_true env a b t t1 y t2 :
  Geval env a t (GVBool true) t1 -> Geval env b t1 (GVBool y) t2 -> Geval env (GBin OAnd a b) t (GVBool y) t2.
Proof.
  intros [m1 H1] [m2 H2]; exists (S (Nat.max m1 m2)); intros m' H; fuel_step m'.
  rewrite H1 by lia; cbn [rbind]. rewrite H2 by lia; reflexivity.
Qed.
Lemma G_or_true env a b t t1 :
  Geval env a t (GVBool true) t1 -> Geval env (GBin OOr a b) t (GVBool true) t1.
Proof. intros [m1 H1]; exists (S m1); intros m' H; fuel_step m'. rewrite H1 by lia; reflexivity. Qed.
Lemma G_or_false env a b t t1 y t2 :
  Geval env a t (GVBool false) t1 -> Geval env b t1 (GVBool y) t2 -> Geval env (GBin OOr a b) t (GVBool y) t2.
Proof.
  intros [m1 H1] [m2 H2]; exists (S (Nat.max m1 m2)); intros m' H; fuel_step m'.
  rewrite H1 by lia; cbn [rbind]. rewrite H2 by lia; reflexivity.
Qed.

Lemma G_call env f args t fv t0 vs t1 v t2 :
  Geval env f t fv t0 -> Gevals env args t0 vs t1 -> Gapply fv vs t1 v t2 ->
  Geval env (GCall f args) t v t2.
Proof.
  intros [m1 H1] [m2 H2] [m3 H3]; exists (S (Nat.max m1 (Nat.max m2 m3))); intros m' H; fuel_step m'.
  rewrite H1 by lia; cbn [rbind]. rewrite H2 by lia; cbn [rbind]. apply H3; lia.
Qed.

Lemma G_struct env tname decl fs t vs t1 gfs :
  Gevals env (map snd fs) t vs t1 -> arrange decl (combine (map fst fs) vs) = Some gfs ->
  Geval env (GStructLit tname decl fs) t (GVStruct tname gfs) t1.
Proof.
  intros [m1 H1] A; exists (S m1); intros m' H; fuel_step m'. rewrite H1 by lia; cbn [rbind]. rewrite A; reflexivity.
Qed.

Lemma G_slice env es t vs t1 :
  Gevals env es t vs t1 -> Geval env (GSliceLit es) t (GVSlice vs) t1.
Proof. intros [m1 H1]; exists (S m1); intros m' H; fuel_step m'. rewrite H1 by lia; reflexivity. Qed.

Lemma G_sel env e f t tn fs t1 v :
  Geval env e t (GVStruct tn fs) t1 -> lookup f fs = Some v -> Geval env (GSel e f) t v t1.
Proof. intros [m1 H1] L; exists (S m1); intros m' H; fuel_step m'. rewrite H1 by lia; cbn [rbind]. rewrite L; reflexivity. Qed.

Lemma Gs_nil env t : Gevals env [] t [] t.
Proof. exists 1; intros m' H; fuel_step m'; reflexivity. Qed.
Lemma Gs_cons env e es t v t1 vs t2 :
  Geval env e t v t1 -> Gevals env es t1 vs t2 -> Gevals env (e :: es) t (v :: vs) t2.
Proof.
  intros [m1 H1] [m2 H2]; exists (S (Nat.max m1 m2)); intros m' H; fuel_step m'.
  rewrite H1 by lia; cbn [rbind]. rewrite H2 by lia; reflexivity.
Qed.
(** statements *)
Lemma Gx_nil env t : Gexec env [] t None t.
Proof. exists 1; intros m' H; fuel_step m'; reflexivity. Qed.

Lemma Gx_define1 env x e r t v t1 o t2 :
  Geval env e t v t1 -> Gexec ((x, v) :: env) r t1 o t2 -> Gexec env (GSDefine [x] e :: r) t o t2.
Proof.
  intros [m1 H1] [m2 H2]; exists (S (Nat.max m1 m2)); intros m' H; fuel_step m'.
  rewrite H1 by lia; cbn [rbind]. apply H2; lia.
Qed.

Lemma Gx_define_multi env xs e r t vs t1 env' o t2 :
  List.length xs <> 1 ->
  Geval env e t (GVMulti vs) t1 -> bind xs vs env = Some env' -> Gexec env' r t1 o t2 ->
  Gexec env (GSDefine xs e :: r) t o t2.
Proof.
  intros N [m1 H1] B [m2 H2]; exists (S (Nat.max m1 m2)); intros m' H; fuel_step m'.
  rewrite H1 by lia; cbn [rbind].
  destruct xs as [|x [|y xs]]; [| cbn in N; congruence |]; rewrite B; apply H2; lia.
Qed.

Lemma Gx_expr env e r t v t1 o t2 :
  Geval env e t v t1 -> Gexec env r t1 o t2 -> Gexec env (GSExpr e :: r) t o t2.
Proof.
  intros [m1 H1] [m2 H2]; exists (S (Nat.max m1 m2)); intros m' H; fuel_step m'.
  rewrite H1 by lia; cbn [rbind]. apply H2; lia.
Qed.

Lemma Gx_return env e r t v t1 :
  Geval env e t v t1 -> Gexec env (GSReturn e :: r) t (Some v) t1.
Proof. intros [m1 H1]; exists (S m1); intros m' H; fuel_step m'. rewrite H1 by lia; reflexivity. Qed.

Definition switch_env (bx:option var) (v:gval) (env:genv) : genv :=
  match bx with Some x => (x, v) :: env | None => env end.
Definition switch_body (n:string) (cases:list (string * list gstmt)) (def:list gstmt) : list gstmt :=
  match find_case n cases with Some ss => ss | None => def end.

(** a switch that is the last statement of its list (the only way fc emits it) *)
Lemma Gx_typeswitch_last env bx e cases def t tn fs t1 o t2 :
  Geval env e t (GVStruct tn fs) t1 ->
  Gexec (switch_env bx (GVStruct tn fs) env) (switch_body tn cases def) t1 o t2 ->
  Gexec env [GSTypeSwitch bx e cases def] t o t2.
Proof.
  intros [m1 H1] [m2 H2]; exists (S (S (Nat.max m1 m2))); intros m' H; fuel_step m'.
  rewrite H1 by lia; cbn [rbind].
  unfold switch_env, switch_body in H2. rewrite H2 by lia; cbn [rbind].
  destruct o; [reflexivity|]. destruct m' as [|m']; [lia|]. reflexivity.
Qed.

Lemma Gx_switch_last env bx e cases def t s t1 o t2 :
  Geval env e t (GVStr s) t1 ->
  Gexec (switch_env bx (GVStr s) env) (switch_body s cases def) t1 o t2 ->
  Gexec env [GSSwitch bx e cases def] t o t2.
Proof.
  intros [m1 H1] [m2 H2]; exists (S (S (Nat.max m1 m2))); intros m' H; fuel_step m'.
  rewrite H1 by lia; cbn [rbind].
  unfold switch_env, switch_body in H2. rewrite H2 by lia; cbn [rbind].
  destruct o; [reflexivity|]. destruct m' as [|m']; [lia|]. reflexivity.
Qed.

(** calls *)
Lemma Ga_clo env ps body vs env' t o t2 :
  bind ps vs env = Some env' -> Gexec env' body t o t2 -> Gapply (GVClo env ps body) vs t (ret_val o) t2.
Proof.
  intros B [m1 H1]; exists (S m1); intros m' H; fuel_step m'.
  rewrite B, H1 by lia; reflexivity.
Qed.

Lemma Ga_lib fn vs t v t2 : Glib fn vs t v t2 -> Gapply (GVLib fn) vs t v t2.
Proof. intros [m1 H1]; exists (S m1); intros m' H; fuel_step m'. apply H1; lia. Qed.

(** an immediately invoked function literal *)
Lemma G_iife env body t o t2 :
  Gexec env body t o t2 -> Geval env (GCall (GFunc [] body) []) t (ret_val o) t2.
Proof.
  intros G. eapply G_call; [apply G_func|apply Gs_nil|]. eapply Ga_clo; [reflexivity|exact G].
Qed.

(** a call of a library function *)
Lemma G_libcall env fn args t vs t1 v t2 :
  Gevals env args t vs t1 -> Glib fn vs t1 v t2 -> Geval env (GCall (GLib fn) args) t v t2.
Proof. intros G1 G2. eapply G_call; [apply G_lib|exact G1|apply Ga_lib; exact G2]. Qed.

(** the runtime functions that take thunks / functions *)
Lemma Gl_pipe x f t v t2 : Gapply f [x] t v t2 -> Glib LPipe [x; f] t v t2.
Proof. intros [m1 H1]; exists m1; intros m' H. cbn. apply H1; lia. Qed.
Lemma Gl_pipeunit x f t v t2 : Gapply f [x] t v t2 -> Glib LPipeUnit [x; f] t GVUnit t2.
Proof. intros [m1 H1]; exists m1; intros m' H. cbn. rewrite H1 by lia; reflexivity. Qed.
Lemma Gl_ifelse (c:bool) a b t v t2 :
  Gapply (if c then a else b) [] t v t2 -> Glib LIfElse [GVBool c; a; b] t v t2.
Proof. intros [m1 H1]; exists m1; intros m' H. cbn. destruct c; apply H1; lia. Qed.
Lemma Gl_ifelseunit (c:bool) a b t v t2 :
  Gapply (if c then a else b) [] t v t2 -> Glib LIfElseUnit [GVBool c; a; b] t GVUnit t2.
Proof. intros [m1 H1]; exists m1; intros m' H. cbn. destruct c; rewrite H1 by lia; reflexivity. Qed.
Lemma Gl_ifonly_true a t v t2 :
  Gapply a [] t v t2 -> Glib LIfOnly [GVBool true; a] t GVUnit t2.
Proof. intros [m1 H1]; exists m1; intros m' H. cbn. rewrite H1 by lia; reflexivity. Qed.
Lemma Gl_ifonly_false a t : Glib LIfOnly [GVBool false; a] t GVUnit t.
Proof. exists 0; intros m' H. reflexivity. Qed.

(** functions without callbacks *)
Definition pure_fn (fn:libfn) : bool :=
  match fn with
  | LPrintln | LPrintf1 | LMap | LMapi | LFilter | LIter | LFold | LForall | LForany
  | LPipe | LPipeUnit | LIfElse | LIfElseUnit | LIfOnly => false
  | _ => true
  end.
Lemma Gl_pure fn vs t v :
  pure_fn fn = true -> lib_pure gops fn vs = Some v -> Glib fn vs t v t.
Proof.
  intros P L; exists 0; intros m' _.
  destruct fn; try discriminate P; cbn [lib_sem]; rewrite L; reflexivity.
Qed.

End Rules.
