(** C02 — fc's own unification machinery (fc/infer.fo), transcribed (definitions only).

    [ctp] = compositeTp, [unify_type] = unifyType, equivalence sets as key-unique lists
    ([eqs_union] = eqsUnion), [einfo] = EquivInfo, [rs_lookup] = rsLookupEI, [rs_register] =
    rsRegisterNewEI, [update_one] = updateResOne, [update_resolver] = updateResolver (the loop,
    with fuel), [resolve] = resolveOneTypeVarP with the path check, [trans_tv] = transTVFType.

    Types are the binary-encoded terms of Core/Unify.v with the constructors of Core/Infer.v
    (a_slice, a_tuple, a_fun, a_named id, base atoms).  Parameters of the section:
      [later x y]  = the comparison [tv.Name > tv2.Name] of compositeTp (names are strings such as
                     _T2 and _T10: lexicographic, so any total or even arbitrary relation; no theorem
                     depends on it);
      [enum]       = the enumeration order of dict.Keys (arbitrary; theorems assume only that it
                     keeps membership).
    Ghost instrumentation (not in fc): [ctp] also returns a flag telling that one of fc's
    "both types are concrete / names differ -> emptyRels" branches was taken on two DIFFERENT types,
    i.e. that a clash was silently ignored.
    Not transcribed: FFieldAccess (deferred field access) and FParamd (foreign parametrised types)
    cases of compositeTp; the revisit guard of transTVFType for records/unions (it exists for
    recursive declarations and is the origin of the known finding generic-union-two-instantiations);
    panics are the outcome [CPanic]/[UPanic]. *)
From Coq Require Import Arith Bool List.
From FoVerif Require Import Core.Unify Core.Infer.
Import ListNotations.

Definition rel := (nat * ty)%type.     (* UniRel {SrcV; Dest} *)

Fixpoint ty_eqb (a b:ty) : bool :=
  match a, b with
  | TVar x, TVar y => Nat.eqb x y
  | TAtom x, TAtom y => Nat.eqb x y
  | TNode a1 a2, TNode b1 b2 => ty_eqb a1 b1 && ty_eqb a2 b2
  | _, _ => false
  end.

Inductive cres := COk (t:ty) (rels:list rel) (ignored:bool) | CPanic.

Section Resolver.
Variable later : nat -> nat -> bool.
Variable enum : list nat -> list nat.

(** compositeTp: the more concrete of two types + the relations between type variables and types.
    [clist] = compositeTpList on the argument spines (a length mismatch is a panic). *)
Fixpoint ctp (l r:ty) {struct l} : cres :=
  match l with
  | TVar x =>
      match r with
      | TVar y => if Nat.eqb x y then COk l [] false
                  else if later x y then COk r [(x, r)] false else COk l [(y, l)] false
      | _ => COk r [(x, r)] false
      end
  | TAtom _ =>
      match r with
      | TVar y => COk l [(y, l)] false
      | TAtom _ => COk l [] (negb (ty_eqb l r))             (* both type is concrete *)
      | TNode (TAtom c') _ =>
          if Nat.leb 8 c' then COk l [] true                (* FRecord / FUnion on the right: ignored *)
          else CPanic                                       (* slice / func / tuple on the right: panic or failed cast *)
      | _ => CPanic
      end
  | TNode hl b1 =>
      match r with
      | TVar y => COk l [(y, l)] false
      | TAtom _ => COk l [] true                            (* both type is concrete *)
      | TNode (TAtom c') b2 =>
          match hl with
          | TAtom c =>
              if Nat.eqb c' a_slice then
                if Nat.eqb c a_slice then
                  match ctp b1 b2 with
                  | COk t R g => COk (TNode (TAtom a_slice) t) R g
                  | CPanic => CPanic end
                else CPanic
              else if Nat.eqb c' a_fun then
                if Nat.eqb c a_fun then
                  match b1, b2 with
                  | TNode al1 r1, TNode al2 r2 =>
                      match clist al1 al2 with
                      | COk ta Ra ga =>
                          match ctp r1 r2 with
                          | COk tr Rr gr => COk (TNode (TAtom a_fun) (TNode ta tr)) (Ra ++ Rr) (ga || gr)
                          | CPanic => CPanic end
                      | CPanic => CPanic end
                  | _, _ => CPanic
                  end
                else CPanic
              else if Nat.eqb c' a_tuple then
                if Nat.eqb c a_tuple then
                  match clist b1 b2 with
                  | COk t R g => COk (TNode (TAtom a_tuple) t) R g
                  | CPanic => CPanic end
                else CPanic
              else if Nat.leb 8 c' then
                (* FRecord / FUnion: type arguments pairwise when name and arity agree; result = lhs *)
                if Nat.eqb c c' && Nat.eqb (spine_len b1) (spine_len b2) then
                  match clist b1 b2 with
                  | COk _ R g => COk l R g
                  | CPanic => CPanic end
                else COk l [] true
              else CPanic
          | _ => CPanic
          end
      | _ => CPanic
      end
  end
with clist (l r:ty) {struct l} : cres :=
  match l with
  | TNode a l' =>
      match r with
      | TNode b r' =>
          match ctp a b with
          | COk ta Ra ga =>
              match clist l' r' with
              | COk tl Rl gl => COk (TNode ta tl) (Ra ++ Rl) (ga || gl)
              | CPanic => CPanic end
          | CPanic => CPanic end
      | _ => CPanic
      end
  | TAtom a => match r with TAtom b => if Nat.eqb a b then COk l [] false else CPanic | _ => CPanic end
  | TVar _ => CPanic
  end.

(** unifyType: the relations only *)
Definition unify_type (l r:ty) : option (list rel * bool) :=
  match ctp l r with COk _ R g => Some (R, g) | CPanic => None end.

(* ------------------------------------------------------------------ equivalence sets and classes *)
Definition set_add (k:nat) (s:list nat) : list nat := if existsb (Nat.eqb k) s then s else s ++ [k].
Definition eqs_union (s1 s2:list nat) : list nat :=
  fold_left (fun s k => set_add k s) (enum s2) (fold_left (fun s k => set_add k s) (enum s1) []).

Record einfo := mkEI { eset : list nat; eres : ty }.
Definition ei_init (x:nat) : einfo := mkEI [x] (TVar x).

Definition resolver := list (nat * einfo).       (* Resolver.eid; the newest binding of a key first *)

Fixpoint rs_find (st:resolver) (x:nat) : option einfo :=
  match st with [] => None | (k,e)::r => if Nat.eqb x k then Some e else rs_find r x end.
Definition rs_lookup (st:resolver) (x:nat) : einfo :=
  match rs_find st x with Some e => e | None => ei_init x end.
Definition rs_register (st:resolver) (e:einfo) : resolver :=
  fold_left (fun s k => (k, e) :: s) (enum (eset e)) st.

Inductive ures := UOk (st:resolver) (rels:list rel) (ignored:bool) | UPanic.

(** updateResOne *)
Definition update_one (st:resolver) (rl:rel) : ures :=
  let e1 := rs_lookup st (fst rl) in
  match snd rl with
  | TVar y =>
      let e2 := rs_lookup st y in
      match ctp (eres e1) (eres e2) with
      | COk t R g => UOk (rs_register st (mkEI (eqs_union (eset e1) (eset e2)) t)) R g
      | CPanic => UPanic end
  | d =>
      match ctp (eres e1) d with
      | COk t R g =>
          match R with
          | [] => UOk st [] g
          | _ => UOk (rs_register st (mkEI (eset e1) t)) R g
          end
      | CPanic => UPanic end
  end.

(** one pass of updateResolver: rels |> slice.Map (updateResOne res) |> slice.Concat *)
Fixpoint update_round (st:resolver) (rels:list rel) : ures :=
  match rels with
  | [] => UOk st [] false
  | rl :: rest =>
      match update_one st rl with
      | UOk st1 R1 g1 =>
          match update_round st1 rest with
          | UOk st2 R2 g2 => UOk st2 (R1 ++ R2) (g1 || g2)
          | UPanic => UPanic end
      | UPanic => UPanic end
  end.

Inductive lres := LDone (st:resolver) (ignored:bool) | LPanic | LFuel.

(** updateResolver: repeat until a pass produces no new relation *)
Fixpoint update_resolver (fuel:nat) (st:resolver) (rels:list rel) : lres :=
  match fuel with
  | O => LFuel
  | S n =>
      match update_round st rels with
      | UOk st1 nrels g =>
          match nrels with
          | [] => LDone st1 g
          | _ => match update_resolver n st1 nrels with
                 | LDone st2 g2 => LDone st2 (g || g2)
                 | o => o end
          end
      | UPanic => LPanic
      end
  end.

(* ------------------------------------------------------------------ resolution *)
Inductive rres := ROk (t:ty) | RCycle | RFuel.

(** transTVFType (without the revisit guard for records/unions) *)
Fixpoint trans_tv (f:nat -> rres) (t:ty) : rres :=
  match t with
  | TVar x => f x
  | TAtom _ => ROk t
  | TNode a b =>
      match trans_tv f a with
      | ROk ta => match trans_tv f b with ROk tb => ROk (TNode ta tb) | o => o end
      | o => o end
  end.

(** resolveOneTypeVarP: [path] = the variables being resolved now *)
Fixpoint resolve (fuel:nat) (path:list nat) (st:resolver) (x:nat) : rres :=
  match fuel with
  | O => RFuel
  | S n =>
      if existsb (Nat.eqb x) path then RCycle
      else
        let rcand := eres (rs_lookup st x) in
        match rcand with
        | TVar y => if Nat.eqb y x then ROk rcand else trans_tv (resolve n (x :: path) st) rcand
        | _ => trans_tv (resolve n (x :: path) st) rcand
        end
  end.

Definition resolve_type (fuel:nat) (st:resolver) (t:ty) : rres := trans_tv (resolve fuel [] st) t.

(* ------------------------------------------------------------------ whole problems *)
(** the relations of a list of equations (collectXxxRel: unifyType per constraint, concatenated) *)
Fixpoint rels_of (es:list eqn) : option (list rel * bool) :=
  match es with
  | [] => Some ([], false)
  | (l, r) :: rest =>
      match unify_type l r, rels_of rest with
      | Some (R1, g1), Some (R2, g2) => Some (R1 ++ R2, g1 || g2)
      | _, _ => None
      end
  end.

Inductive solve_res :=
| SSolved (st:resolver) (ignored:bool)
| SPanic
| SFuel.

Definition solve (fuel:nat) (es:list eqn) : solve_res :=
  match rels_of es with
  | None => SPanic
  | Some (R, g) =>
      match update_resolver fuel [] R with
      | LDone st g2 => SSolved st (g || g2)
      | LPanic => SPanic
      | LFuel => SFuel
      end
  end.

End Resolver.

(* ------------------------------------------------------------------ inference with fc's resolver *)
Inductive routcome :=
| RInferred (k:nat) (ptys:list ty) (rty:ty) (ignored_clash:bool)
| RPanicked
| RCyclic
| ROutOfFuel
| RNoConstraints.      (* unbound name / wrong arity: no constraints to solve *)

Fixpoint all_ok (l:list rres) : option (list ty) :=
  match l with
  | [] => Some []
  | ROk t :: r => option_map (cons t) (all_ok r)
  | _ :: _ => None
  end.

(** as [infer_fun], but the constraints are solved by the transcription of fc's resolver *)
Definition infer_fun_resolver (later:nat->nat->bool) (enum:list nat->list nat) (D:decls) (fuel:nat) (fd:fundef) : routcome :=
  let np := length (f_params fd) in
  let G := combine (param_names fd) (map TVar (seq 0 np)) in
  match gen D G (f_body fd) np with
  | None => RNoConstraints
  | Some (t, es, _) =>
      match solve later enum fuel (ann_eqs (f_params fd) 0 ++ es) with
      | SPanic => RPanicked
      | SFuel => ROutOfFuel
      | SSolved st g =>
          let rs := map (fun u => resolve_type fuel st u) (map TVar (seq 0 np) ++ [t]) in
          if existsb (fun r => match r with RCycle => true | _ => false end) rs then RCyclic
          else match all_ok rs with
               | None => ROutOfFuel
               | Some ts =>
                   let ptys := firstn np ts in
                   let rty := nth np ts (TAtom 0) in
                   let vs := fo_vars_list (ptys ++ [rty]) [] in
                   RInferred (length vs) (map (rename vs) ptys) (rename vs rty) g
               end
      end
  end.
