(** C01 — forward simulation MiniFo -> MiniGo for the lowering of Core/Compile.v.
    One induction on the source fuel proves the statements for expressions, expression lists, blocks,
    application, pure expressions (re-evaluable partial-application arguments) and the return-position
    forms together. *)
From Coq Require Import List ZArith String Ascii Bool Lia.
From FoVerif Require Import Core.Common Core.CommonProofs Core.Lib Core.MiniFo Core.MiniGo Core.Compile
  Core.GoRules Core.SimDefs Core.SimLemmas Core.EqSim Core.LibSim.
Import ListNotations.
Open Scope list_scope.

Section Sim.
Variable d : dialect.
Variable ctor_ok : string -> string -> bool -> Prop.
Notation compile := (Compile.compile d).
Notation compile_block := (Compile.compile_block d).
Notation compile_list := (Compile.compile_list d).
Notation compile_arms := (Compile.compile_arms d).
Notation compile_sarms := (Compile.compile_sarms d).
Notation switch_u := (Compile.switch_u d).
Notation switch_s := (Compile.switch_s d).
Notation nv := (Compile.nv d).
Notation nvb := (Compile.nvb d).
Notation nva := (Compile.nva d).
Notation nvs := (Compile.nvs d).

Variable sfuns : list (var * (list var * block)).
Variable gfuncs : list (var * (list var * list gstmt)).
Variable gvars : list (var * gexpr).

Notation wfe := (wfe true ctor_ok).
Notation wfb := (wfb true ctor_ok).
Notation vrel := (vrel d ctor_ok gfuncs).
Notation erel := (erel d ctor_ok gfuncs).
Notation peval := (peval d ctor_ok gfuncs).
Notation pevals := (pevals d ctor_ok gfuncs).
Notation Geval := (Geval gfuncs gvars).
Notation Gevals := (Gevals gfuncs gvars).
Notation Gexec := (Gexec gfuncs gvars).
Notation Gapply := (Gapply gfuncs gvars).
Notation Glib := (Glib gfuncs gvars).
Notation glookup := (glookup gfuncs).

Hypothesis Hfuns : forall f ps b, lookup f sfuns = Some (ps, b) ->
  exists k, lookup f gfuncs = Some (ps, compile_block k b) /\
            Forall (fun x => reserved x = false) ps /\ wfb b.
Hypothesis Hctor1 : forall u c, ctor_ok u c true ->
  lookup (ctor_name u c) gfuncs =
  Some (["v"%string], [GSReturn (GStructLit (case_struct u c) ["Value"%string] [("Value"%string, GVar "v"%string)])]).
Hypothesis Hctor0 : forall u c, ctor_ok u c false ->
  lookup (ctor_name u c) gfuncs = None /\
  lookup (ctor_name u c) gvars = Some (GStructLit (case_struct u c) [] []).

Lemma var_sim' senv genv x v :
  erel senv genv -> reserved x = false -> lookup_var sfuns x senv = Some v ->
  exists gv, glookup x genv = Some gv /\ vrel v gv.
Proof. exact (var_sim d ctor_ok sfuns gfuncs Hfuns senv genv x v). Qed.

Lemma peval_Geval' env k a gv t : peval env k a gv -> Geval env (compile k a) t gv t.
Proof. apply (peval_Geval d ctor_ok gfuncs gvars Hctor1 Hctor0). Qed.
Lemma pevals_Gevals' env args k gws rest t rvs t' :
  pevals env k args gws -> Gevals env rest t rvs t' ->
  Gevals env (compile_list k args ++ rest) t (gws ++ rvs) t'.
Proof. apply (pevals_Gevals d ctor_ok gfuncs gvars Hctor1 Hctor0). Qed.

Lemma Gs_close genv (ces:list gexpr) t (gs:list gval) t' :
  (forall rest rvs t2, Gevals genv rest t' rvs t2 -> Gevals genv (ces ++ rest) t (gs ++ rvs) t2) ->
  Gevals genv ces t gs t'.
Proof. intros G. specialize (G [] [] t' (Gs_nil _ _ _ _)). rewrite !app_nil_r in G. exact G. Qed.

Definition SimE n := forall senv genv e t v t' k, wfe e -> erel senv genv ->
  eval sfuns n senv e t = Done v t' ->
  exists gv, Geval genv (compile k e) t gv t' /\ vrel v gv.
Definition SimEs n := forall senv genv es t vs t' k, Forall wfe es -> erel senv genv ->
  evals sfuns n senv es t = Done vs t' ->
  exists gvs, Forall2 vrel vs gvs /\
    forall rest rvs t2, Gevals genv rest t' rvs t2 ->
      Gevals genv (compile_list k es ++ rest) t (gvs ++ rvs) t2.
Definition SimB n := forall senv genv b t v t' k, wfb b -> erel senv genv ->
  eval_block sfuns n senv b t = Done v t' ->
  exists o, Gexec genv (compile_block k b) t o t' /\ vrel v (ret_val o).
Definition SimA n := forall fv gf vs gvs t v t', vrel fv gf -> Forall2 vrel vs gvs ->
  apply sfuns n fv vs t = Done v t' ->
  exists gv, Gapply gf gvs t gv t' /\ vrel v gv.
Definition SimP n := forall senv genv a t v t', wfe a -> pure a -> erel senv genv ->
  eval sfuns n senv a t = Done v t' ->
  t' = t /\ forall env' k, equiv genv env' -> exists gv, peval env' k a gv /\ vrel v gv.
Definition SimPs n := forall senv genv es t vs t', Forall wfe es -> Forall pure es -> erel senv genv ->
  evals sfuns n senv es t = Done vs t' ->
  t' = t /\ forall env' k, equiv genv env' -> exists gvs, pevals env' k es gvs /\ Forall2 vrel vs gvs.
(** forms that buildReturn emits without wrapping when they are the last expression of a body *)
Definition SimMU n := forall senv genv e u arms def t v t' k, wfe (EMatchU e u arms def) -> erel senv genv ->
  eval sfuns n senv (EMatchU e u arms def) t = Done v t' ->
  exists o, Gexec genv [switch_u k e u arms def] t o t' /\ vrel v (ret_val o).
Definition SimMS n := forall senv genv e arms bx last t v t' k, wfe (EMatchS e arms bx last) -> erel senv genv ->
  eval sfuns n senv (EMatchS e arms bx last) t = Done v t' ->
  exists o, Gexec genv [switch_s k e arms bx last] t o t' /\ vrel v (ret_val o).
Definition SimBE n := forall senv genv b t v t' k, wfe (EBlock b) -> erel senv genv ->
  eval sfuns n senv (EBlock b) t = Done v t' ->
  exists o, Gexec genv (compile_block k b) t o t' /\ vrel v (ret_val o).

Ltac sstep H := cbn [eval evals eval_block apply] in H.
Ltac rb H E :=
  match type of H with
  | rbind ?r _ = Done _ _ =>
      let v := fresh "v" in let t1 := fresh "t" in
      destruct r as [v t1| |] eqn:E; cbn [rbind] in H; [|discriminate H|discriminate H]
  end.
Ltac useE IE E k g G V :=
  match type of E with
  | eval _ _ ?senv ?a ?t = Done ?v ?t' =>
      match goal with
      | Wa : wfe a, R : erel senv ?genv |- _ =>
          destruct (IE senv genv a t v t' k Wa R E) as (g & G & V)
      end
  end.
Ltac useEs IEs E k gs Vs Gs :=
  match type of E with
  | evals _ _ ?senv ?es ?t = Done ?vs ?t' =>
      match goal with
      | Wa : Forall wfe es, R : erel senv ?genv |- _ =>
          destruct (IEs senv genv es t vs t' k Wa R E) as (gs & Vs & Gs)
      end
  end.
Ltac useB IB E k o G V :=
  match type of E with
  | eval_block _ _ ?senv ?b ?t = Done ?v ?t' =>
      match goal with
      | Wa : wfb b, R : erel senv ?genv |- _ =>
          destruct (IB senv genv b t v t' k Wa R E) as (o & G & V)
      end
  end.

(** *** helpers *)
Lemma tuple_pure (gvs:list gval) n :
  n = List.length gvs -> two_or_three n ->
  lib_pure gops (tuple_fn n) gvs = Some (GVStruct (tuple_struct (List.length gvs)) (combine tuple_fields gvs)).
Proof.
  intros -> T.
  destruct gvs as [|a [|b [|c [|d0 gvs]]]]; cbn [List.length] in *; destruct T as [T|T]; try discriminate T;
    reflexivity.
Qed.

Lemma combine_fst {A B} : forall (l1:list A) (l2:list B), List.length l1 = List.length l2 -> map fst (combine l1 l2) = l1.
Proof. induction l1; intros [|b l2] L; cbn in *; try discriminate; auto. f_equal; auto. Qed.
Lemma combine_snd {A B} : forall (l1:list A) (l2:list B), List.length l1 = List.length l2 -> map snd (combine l1 l2) = l2.
Proof. induction l1; intros [|b l2] L; cbn in *; try discriminate; auto. f_equal; auto. Qed.
Lemma compile_list_length : forall es k, List.length (compile_list k es) = List.length es.
Proof. induction es; intros; cbn; auto. Qed.

Lemma evals_length n : forall senv es t vs t', evals sfuns n senv es t = Done vs t' -> List.length vs = List.length es.
Proof.
  induction n as [|n IH]; intros senv es t vs t' H; [discriminate|]. sstep H.
  destruct es as [|e es]; [inversion H; reflexivity|].
  rb H E1. rb H E2. inversion H; subst. cbn. f_equal. eapply IH; eauto.
Qed.

Lemma fields_rel : forall (fields:list string) vs gvs,
  Forall2 vrel vs gvs ->
  Forall2 (fun a b => fst a = fst b /\ vrel (snd a) (snd b)) (combine fields vs) (combine fields gvs).
Proof.
  induction fields as [|f fields IH]; intros vs gvs V; cbn; [constructor|].
  inversion V; subst; [constructor|]. constructor; [cbn; auto|apply IH; assumption].
Qed.

Lemma field_lookup f : forall fs gfs v,
  Forall2 (fun a b => fst a = fst b /\ vrel (snd a) (snd b)) fs gfs ->
  lookup f fs = Some v -> exists gv, lookup f gfs = Some gv /\ vrel v gv.
Proof.
  induction fs as [|[g w] fs IH]; intros gfs v F L; cbn in L; [discriminate|].
  inversion F as [|? [g' gw] ? ? [Eq Vw] F']; subst. cbn in Eq, Vw; subst g'. cbn.
  destruct (String.eqb f g); [inversion L; subst; eauto|eauto].
Qed.


Lemma veq_sim' va vb ga gb r :
  vrel va ga -> vrel vb gb -> val_eq va vb = Some r -> gval_eq ga gb = Some r.
Proof. apply (veq_sim d ctor_ok gfuncs va). Qed.

(** *** pure arguments *)
Lemma step_P n : SimP n -> SimPs n -> SimP (S n).
Proof.
  intros IP IPs. red; intros senv genv a t v t' W P E H. inversion P; subst.
  - sstep H. inversion H; subst; split; [reflexivity|]. intros; eexists; split; constructor.
  - sstep H. inversion H; subst; split; [reflexivity|]. intros; eexists; split; constructor.
  - sstep H. inversion H; subst; split; [reflexivity|]. intros; eexists; split; constructor.
  - sstep H. inversion W; subst.
    destruct (lookup_var sfuns x senv) as [v0|] eqn:L; cbn in H; inversion H; subst.
    split; [reflexivity|]. intros env' k Q.
    destruct (var_sim' _ _ _ _ E H1 L) as (gv & L' & V).
    exists gv; split; [|exact V]. constructor.
    rewrite (glookup_equiv _ _ _ _ Q) by (apply reserved_false; assumption). exact L'.
  - sstep H. inversion W; subst. inversion H; subst. split; [reflexivity|]. intros env' k Q.
    eexists; split; [constructor|].
    destruct (erel_equiv _ _ _ _ _ _ E Q) as (E1 & E2 & E3). constructor; auto.
  - sstep H. inversion W; subst.
    destruct (lookup_var sfuns f senv) as [fv|] eqn:L; try discriminate.
    rb H Es. inversion H; subst.
    match goal with Hp : true = true -> Forall pure args |- _ => specialize (Hp eq_refl) end.
    match goal with Wa : Forall wfe args, Hp : Forall pure args |- _ =>
      destruct (IPs _ _ _ _ _ _ Wa Hp E Es) as (-> & K) end.
    split; [reflexivity|].
    intros env' k0 Q. eexists; split; [constructor|].
    constructor; auto. intros env'' Q'. pose proof (equiv_trans _ _ _ Q Q') as Q2. split.
    + match goal with Hr : reserved f = false |- _ =>
        destruct (var_sim' _ _ _ _ E Hr L) as (gf & L' & V);
        exists gf; split; [|exact V];
        rewrite (glookup_equiv _ _ _ _ Q2) by (apply reserved_false; assumption); exact L' end.
    + apply K; exact Q2.
  - (* operators *)
    inversion W; subst.
    match goal with Wa : wfe a0, Wb : wfe b, Pa : pure a0, Pb : pure b |- _ =>
      pose proof (fun t v t' => IP senv genv a0 t v t' Wa Pa E) as IPa;
      pose proof (fun t v t' => IP senv genv b t v t' Wb Pb E) as IPb end.
    destruct op; sstep H; rb H E1; destruct (IPa _ _ _ E1) as (-> & K1);
      try (rb H E2; destruct (IPb _ _ _ E2) as (-> & K2);
           destruct (arith sops _ v0 v1) as [r|] eqn:A; cbn in H; inversion H; subst;
           split; [reflexivity|]; intros env' k Q;
           destruct (K1 env' k Q) as (ga & Pga & Va); destruct (K2 env' (k + nv a0) Q) as (gb & Pgb & Vb);
           destruct (arith_sim _ _ _ _ _ _ _ _ _ Va Vb A) as (gv & A' & V);
           exists gv; split; [eapply PE_arith; eauto; discriminate|exact V]).
    + destruct v0 as [| |[|]| | | | | | |]; try discriminate.
      * rb H E2. destruct (IPb _ _ _ E2) as (-> & K2). destruct v0; try discriminate. inversion H; subst.
        split; [reflexivity|]. intros env' k Q.
        destruct (K1 env' k Q) as (ga & Pga & Va). destruct (K2 env' (k + nv a0) Q) as (gb & Pgb & Vb).
        apply vrel_bool_inv in Va. apply vrel_bool_inv in Vb. subst.
        eexists; split; [eapply PE_and_true; eauto|constructor].
      * inversion H; subst. split; [reflexivity|]. intros env' k Q.
        destruct (K1 env' k Q) as (ga & Pga & Va). apply vrel_bool_inv in Va. subst.
        eexists; split; [eapply PE_and_false; eauto|constructor].
    + destruct v0 as [| |[|]| | | | | | |]; try discriminate.
      * inversion H; subst. split; [reflexivity|]. intros env' k Q.
        destruct (K1 env' k Q) as (ga & Pga & Va). apply vrel_bool_inv in Va. subst.
        eexists; split; [eapply PE_or_true; eauto|constructor].
      * rb H E2. destruct (IPb _ _ _ E2) as (-> & K2). destruct v0; try discriminate. inversion H; subst.
        split; [reflexivity|]. intros env' k Q.
        destruct (K1 env' k Q) as (ga & Pga & Va). destruct (K2 env' (k + nv a0) Q) as (gb & Pgb & Vb).
        apply vrel_bool_inv in Va. apply vrel_bool_inv in Vb. subst.
        eexists; split; [eapply PE_or_false; eauto|constructor].
  - (* = <> *)
    inversion W; subst. sstep H. rb H E1. rb H E2.
    match goal with Wa : wfe a0, Wb : wfe b, Pa : pure a0, Pb : pure b |- _ =>
      destruct (IP _ _ _ _ _ _ Wa Pa E E1) as (-> & K1); destruct (IP _ _ _ _ _ _ Wb Pb E E2) as (-> & K2) end.
    destruct (val_eq v0 v1) as [r|] eqn:Q0; inversion H; subst.
    split; [reflexivity|]. intros env' k Q.
    destruct (K1 env' k Q) as (ga & Pga & Va). destruct (K2 env' (k + nv a0) Q) as (gb & Pgb & Vb).
    eexists; split; [eapply PE_eq; eauto; eapply veq_sim'; eauto|destruct neg; constructor].
  - (* not *)
    inversion W; subst. sstep H. rb H E1.
    match goal with Wa : wfe a0, Pa : pure a0 |- _ => destruct (IP _ _ _ _ _ _ Wa Pa E E1) as (-> & K1) end.
    destruct v0; try discriminate. inversion H; subst.
    split; [reflexivity|]. intros env' k Q.
    destruct (K1 env' k Q) as (ga & Pga & Va). apply vrel_bool_inv in Va. subst.
    eexists; split; [eapply PE_not; eauto|constructor].
  - (* tuple *)
    inversion W; subst. sstep H. rb H Es. inversion H; subst.
    match goal with Wa : Forall wfe es, Hp : Forall pure es |- _ =>
      destruct (IPs _ _ _ _ _ _ Wa Hp E Es) as (-> & K) end.
    split; [reflexivity|]. intros env' k Q. destruct (K env' k Q) as (gvs & Ps & Vs).
    eexists; split; [eapply PE_tuple; eauto|].
    constructor; [exact Vs|]. rewrite (evals_length _ _ _ _ _ _ Es). assumption.
  - (* record *)
    inversion W; subst. sstep H. rb H Es.
    destruct (Nat.eqb (List.length fs) (List.length v0)) eqn:Ln; [|discriminate]. apply Nat.eqb_eq in Ln.
    destruct (arrange decl (combine fs v0)) as [rfs|] eqn:Ar; inversion H; subst.
    match goal with Wa : Forall wfe es, Hp : Forall pure es |- _ =>
      destruct (IPs _ _ _ _ _ _ Wa Hp E Es) as (-> & K) end.
    split; [reflexivity|]. intros env' k Q. destruct (K env' k Q) as (gvs & Ps & Vs).
    destruct (arrange_rel d ctor_ok gfuncs decl _ _ _ (fields_rel fs _ _ Vs) Ar) as (gfs & Ag & Fr).
    exists (GVStruct n0 gfs); split; [eapply PE_record; eauto|constructor; exact Fr].
    rewrite Ln. apply (evals_length _ _ _ _ _ _ Es).
  - (* field *)
    inversion W; subst. sstep H. rb H E1.
    match goal with Wa : wfe e, Pa : pure e |- _ => destruct (IP _ _ _ _ _ _ Wa Pa E E1) as (-> & K1) end.
    destruct v0 as [| | | | |rn fs| | | |]; try discriminate.
    destruct (lookup f fs) as [fv|] eqn:L; cbn in H; inversion H; subst.
    split; [reflexivity|]. intros env' k Q.
    destruct (K1 env' k Q) as (ge & Pge & Ve). inversion Ve; subst.
    match goal with F : Forall2 _ fs ?gfs |- _ => destruct (field_lookup _ _ _ _ F L) as (gv & Lg & V) end.
    exists gv; split; [eapply PE_field; eauto|exact V].
  - (* constructor without payload *)
    inversion W; subst. sstep H. inversion H; subst. split; [reflexivity|]. intros env' k Q.
    destruct (erel_equiv _ _ _ _ _ _ E Q) as (_ & _ & E3).
    eexists; split; [eapply PE_ctor0; [eassumption|apply E3; apply ctor_name_like]|constructor].
  - (* constructor with payload *)
    inversion W; subst. sstep H. rb H E1. inversion H; subst.
    match goal with Wa : wfe a0, Pa : pure a0 |- _ => destruct (IP _ _ _ _ _ _ Wa Pa E E1) as (-> & K1) end.
    split; [reflexivity|]. intros env' k Q.
    destruct (erel_equiv _ _ _ _ _ _ E Q) as (_ & _ & E3).
    destruct (K1 env' k Q) as (ga & Pga & Va).
    eexists; split; [eapply PE_ctor1; [eassumption|apply E3; apply ctor_name_like|exact Pga]|constructor; exact Va].
  - (* slice literal *)
    inversion W; subst. sstep H. rb H Es. inversion H; subst.
    match goal with Wa : Forall wfe es, Hp : Forall pure es |- _ =>
      destruct (IPs _ _ _ _ _ _ Wa Hp E Es) as (-> & K) end.
    split; [reflexivity|]. intros env' k Q. destruct (K env' k Q) as (gvs & Ps & Vs).
    eexists; split; [eapply PE_slice; eauto|constructor; exact Vs].
Qed.

Lemma step_Ps n : SimP n -> SimPs n -> SimPs (S n).
Proof.
  intros IP IPs. red; intros senv genv es t vs t' W P E H. destruct es as [|a es]; sstep H.
  - inversion H; subst. split; [reflexivity|]. intros; exists []; split; constructor.
  - inversion W; inversion P; subst.
    rb H E1. rb H E2. inversion H; subst.
    match goal with Wa : wfe a, Pa : pure a |- _ => destruct (IP _ _ _ _ _ _ Wa Pa E E1) as (-> & K1) end.
    match goal with Wa : Forall wfe es, Pa : Forall pure es |- _ =>
      destruct (IPs _ _ _ _ _ _ Wa Pa E E2) as (-> & K2) end.
    split; [reflexivity|]. intros env' k Q.
    destruct (K1 _ k Q) as (gv & P1 & V1). destruct (K2 _ (k + nv a) Q) as (gvs & P2 & V2).
    exists (gv :: gvs); split; constructor; auto.
Qed.

(** *** expression lists *)
Lemma step_Es n : SimE n -> SimEs n -> SimEs (S n).
Proof.
  intros IE IEs. red; intros senv genv es t vs t' k W E H. destruct es as [|a es]; sstep H.
  - inversion H; subst. exists []; split; [constructor|]. intros; cbn; assumption.
  - inversion W; subst. rb H E1. rb H E2. inversion H; subst.
    useE IE E1 k g1 G1 V1. useEs IEs E2 (k + nv a) gs Vs Gs.
    exists (g1 :: gs); split; [constructor; auto|].
    intros rest rvs t2 Gr. cbn. eapply Gs_cons; [exact G1|apply Gs; exact Gr].
Qed.

(** *** application *)
Lemma step_A n : SimB n -> SimA n -> SimA (S n).
Proof.
  intros IB IA. red; intros fv gf vs gvs t v t' V Vs H. sstep H. inversion V; subst; try discriminate.
  - (* closure *)
    destruct (bind ps vs senv) as [senv'|] eqn:B; try discriminate.
    destruct (bind_rel_exists _ _ gvs _ _ genv B (Forall2_length' _ _ _ Vs)) as (genv' & B').
    assert (E' : erel senv' genv').
    { eapply bind_erel; [eassumption| |exact Vs|exact B|exact B']. repeat split; assumption. }
    match goal with Wb : wfb b |- _ => destruct (IB _ _ _ _ _ _ k Wb E' H) as (o & G & Vo) end.
    exists (ret_val o); split; [eapply Ga_clo; eauto|exact Vo].
  - (* partial application value *)
    destruct (Nat.eqb (List.length vs) (S m)) eqn:Lk; try discriminate.
    apply Nat.eqb_eq in Lk. rb H Ea. apply check_unit_inv in H. destruct H as (-> & Hu).
    assert (List.length (rnames (S m) 0) = List.length gvs) as Lg.
    { rewrite rnames_length, <- (Forall2_length' _ _ _ Vs); auto. }
    destruct (bind_length _ gvs genv Lg) as (env' & B').
    pose proof (bind_rnames_equiv _ _ _ _ _ B') as Q.
    match goal with K : forall env', equiv genv env' -> _ |- _ =>
      destruct (K _ Q) as ((gf0 & Lf & Vf) & gws & Pw & Vw) end.
    destruct (IA fv0 gf0 (vs0 ++ vs) (gws ++ gvs) t v0 t0) as (gv & G & V'); auto.
    { apply Forall2_app; auto. }
    assert (Gc : Geval env' (GCall (GVar f) (compile_list k args ++ map GVar (rnames (S m) 0))) t gv t0).
    { eapply G_call; [apply G_var; exact Lf | | exact G].
      rewrite <- (app_nil_r (map GVar (rnames (S m) 0))), <- (app_nil_r gvs).
      eapply pevals_Gevals'; [exact Pw|]. eapply bind_rnames_vars; [exact B'|apply Gs_nil]. }
    destruct u.
    + destruct Hu as (-> & ->). exists GVUnit; split; [|constructor].
      change GVUnit with (ret_val None). eapply Ga_clo; [exact B'|].
      cbn [ret_stmt]. eapply Gx_expr; [exact Gc|apply Gx_nil].
    + subst v. exists gv; split; [|exact V'].
      change gv with (ret_val (Some gv)). eapply Ga_clo; [exact B'|].
      cbn [ret_stmt]. eapply Gx_return; exact Gc.
Qed.

(** *** match arms *)
Lemma find_arm_compile u tmp c : forall arms k bx b,
  find_arm c arms = Some (bx, b) ->
  exists k', find_case (case_struct u c) (compile_arms u tmp k arms)
             = Some (case_header tmp bx ++ compile_block k' b) /\
             In (c, bx, b) arms.
Proof.
  induction arms as [|[[c' bx'] b'] arms IH]; intros k bx b F; cbn in F; [discriminate|].
  cbn [compile_arms find_case]. rewrite case_struct_eqb.
  destruct (String.eqb c c') eqn:Ec.
  - inversion F; subst. apply String.eqb_eq in Ec; subst. eexists; split; [reflexivity|left; reflexivity].
  - destruct (IH (k + nvb b') _ _ F) as (k' & Fc & I). exists k'; split; [exact Fc|right; exact I].
Qed.

Lemma find_arm_none u tmp c : forall arms k,
  find_arm c arms = None -> find_case (case_struct u c) (compile_arms u tmp k arms) = None.
Proof.
  induction arms as [|[[c' bx'] b'] arms IH]; intros k F; cbn in F; [reflexivity|].
  cbn [compile_arms find_case]. rewrite case_struct_eqb.
  destruct (String.eqb c c'); [discriminate|]. apply IH; exact F.
Qed.

Lemma has_case_var_in c x b arms : In (c, Some x, b) arms -> has_case_var arms = true.
Proof.
  intros I. unfold has_case_var. apply existsb_exists. exists (c, Some x, b); split; [exact I|reflexivity].
Qed.

Lemma find_sarm_compile s : forall arms k b,
  find_sarm s arms = Some b ->
  exists k', find_case s (compile_sarms k arms) = Some (compile_block k' b) /\ In (s, b) arms.
Proof.
  induction arms as [|[l b'] arms IH]; intros k b F; cbn in F; [discriminate|].
  cbn [compile_sarms find_case].
  destruct (String.eqb s l) eqn:Ec.
  - inversion F; subst. apply String.eqb_eq in Ec; subst. eexists; split; [reflexivity|left; reflexivity].
  - destruct (IH (k + nvb b') _ F) as (k' & Fc & I). exists k'; split; [exact Fc|right; exact I].
Qed.

Lemma find_sarm_none s : forall arms k,
  find_sarm s arms = None -> find_case s (compile_sarms k arms) = None.
Proof.
  induction arms as [|[l b'] arms IH]; intros k F; cbn in F; [reflexivity|].
  cbn [compile_sarms find_case]. destruct (String.eqb s l); [discriminate|]. apply IH; exact F.
Qed.

Lemma step_MU n : SimE n -> SimB n -> SimMU (S n).
Proof.
  intros IE IB. red; intros senv genv e u arms def t v t' k W E H.
  sstep H. rb H E1. destruct v0 as [| | | | | |un c payload| | |]; try discriminate.
  destruct (String.eqb un u) eqn:Eu; [|discriminate]. apply String.eqb_eq in Eu; subst un.
  inversion W as [| | | | | | | | | | | | | | | | | | | | | |? ? ? ? We Warms Wdef| | | |]; subst.
  unfold switch_u.
  set (hv := has_case_var arms) in *. set (tmp := vname (S k)).
  set (k0 := k + match_tmps d arms).
  useE IE E1 k0 g1 G1 V1.
  assert (exists fs, g1 = GVStruct (case_struct u c) fs /\
            match payload with
            | Some pv => exists gpv, fs = [("Value"%string, gpv)] /\ vrel pv gpv
            | None => fs = []
            end) as (fs & -> & Hfs).
  { inversion V1; subst; eexists; split; try reflexivity; eauto. }
  assert (Ee : erel senv (switch_env (if hv then Some tmp else None) (GVStruct (case_struct u c) fs) genv)).
  { destruct hv; cbn [switch_env]; [apply erel_tmp; [exact E|reflexivity]|exact E]. }
  destruct (find_arm c arms) as [[[x|] b]|] eqn:Fa.
  - (* arm with a binder *)
    destruct payload as [pv|]; [|discriminate].
    destruct Hfs as (gpv & -> & Vp).
    destruct (find_arm_compile u tmp c _ (k0 + nv e) _ _ Fa) as (k' & Fc & I).
    assert (Hhv : hv = true) by (eapply has_case_var_in; exact I).
    rewrite Forall_forall in Warms. destruct (Warms _ I) as (Rx & Wb). cbn in Rx, Wb.
    assert (E' : erel ((x, pv) :: senv) ((x, gpv) :: (tmp, GVStruct (case_struct u c) [("Value"%string, gpv)]) :: genv)).
    { apply erel_bind1; [exact Rx|exact Vp|]. apply erel_tmp; [exact E|reflexivity]. }
    destruct (IB _ _ _ _ _ _ k' Wb E' H) as (o & G & Vo).
    exists o; split; [|exact Vo].
    eapply Gx_typeswitch_last; [exact G1|].
    unfold switch_body. rewrite Fc. rewrite Hhv. cbn [switch_env case_header app].
    eapply Gx_define1; [|exact G].
    eapply G_sel; [apply G_var; unfold GoRules.glookup; rewrite lookup_cons_eq; reflexivity|].
    apply lookup_cons_eq.
  - (* arm without binder *)
    destruct (find_arm_compile u tmp c _ (k0 + nv e) _ _ Fa) as (k' & Fc & I).
    rewrite Forall_forall in Warms. destruct (Warms _ I) as (_ & Wb). cbn in Wb.
    destruct (IB _ _ _ _ _ _ k' Wb Ee H) as (o & G & Vo).
    exists o; split; [|exact Vo].
    eapply Gx_typeswitch_last; [exact G1|].
    unfold switch_body. rewrite Fc. cbn [case_header app]. exact G.
  - (* default *)
    destruct def as [b|]; [|discriminate].
    pose proof (Wdef b eq_refl) as Wb.
    destruct (IB _ _ _ _ _ _ (k0 + nv e + nva arms) Wb Ee H) as (o & G & Vo).
    exists o; split; [|exact Vo].
    eapply Gx_typeswitch_last; [exact G1|].
    unfold switch_body. rewrite (find_arm_none u tmp c _ _ Fa). exact G.
Qed.

Lemma step_MS n : SimE n -> SimB n -> SimMS (S n).
Proof.
  intros IE IB. red; intros senv genv e arms bx last t v t' k W E H.
  sstep H. rb H E1. destruct v0 as [|s| | | | | | | |]; try discriminate.
  inversion W as [| | | | | | | | | | | | | | | | | | | | | | |? ? ? ? We Warms Wbx Wlast| | |]; subst.
  unfold switch_s.
  useE IE E1 k g1 G1 V1. apply vrel_str_inv in V1; subst g1.
  assert (Ee : erel (match bx with Some x => (x, VStr s) :: senv | None => senv end)
                    (switch_env bx (GVStr s) genv)).
  { destruct bx as [x|]; cbn [switch_env]; [apply erel_bind1; [exact Wbx|constructor|exact E]|exact E]. }
  destruct (find_sarm s arms) as [b|] eqn:Fa.
  - destruct (find_sarm_compile s _ (k + nv e) _ Fa) as (k' & Fc & I).
    rewrite Forall_forall in Warms. pose proof (Warms _ I) as Wb. cbn in Wb.
    destruct (IB _ _ _ _ _ _ k' Wb Ee H) as (o & G & Vo).
    exists o; split; [|exact Vo].
    eapply Gx_switch_last; [exact G1|]. unfold switch_body. rewrite Fc. exact G.
  - destruct (IB _ _ _ _ _ _ (k + nv e + nvs arms) Wlast Ee H) as (o & G & Vo).
    exists o; split; [|exact Vo].
    eapply Gx_switch_last; [exact G1|]. unfold switch_body. rewrite (find_sarm_none s _ _ Fa). exact G.
Qed.

Lemma step_BE n : SimB n -> SimBE (S n).
Proof.
  intros IB. red; intros senv genv b t v t' k W E H. sstep H. inversion W; subst.
  useB IB H k o G V. exists o; auto.
Qed.

(** *** blocks *)
Lemma destr_pure (gvs:list gval) (xs:list var) :
  List.length xs = List.length gvs -> two_or_three (List.length gvs) ->
  lib_pure gops (destr_fn d (List.length xs)) [GVStruct (tuple_struct (List.length gvs)) (combine tuple_fields gvs)]
  = Some (GVMulti gvs).
Proof.
  intros L T. rewrite L.
  destruct gvs as [|a [|b [|c [|d0 gvs]]]]; cbn [List.length] in *; destruct T as [T|T]; try discriminate T;
    destruct d; reflexivity.
Qed.

Lemma step_B n : SimE n -> SimB n -> SimMU n -> SimMS n -> SimBE n -> SimB (S n).
Proof.
  intros IE IB IMU IMS IBE. red; intros senv genv b t v t' k W E H.
  destruct b as [x e b'|xs e b'|e b'|e u]; sstep H; inversion W; subst.
  - (* let *)
    rb H E1. useE IE E1 k g1 G1 V1.
    assert (E' : erel ((x, v0) :: senv) ((x, g1) :: genv)) by (apply erel_bind1; assumption).
    match goal with Wb : wfb b' |- _ => destruct (IB _ _ _ _ _ _ (k + nv e) Wb E' H) as (o & G & Vo) end.
    exists o; split; [|exact Vo]. cbn [compile_block]. eapply Gx_define1; eauto.
  - (* destructuring let *)
    rb H E1. destruct v0 as [| | | |vs| | | | |]; try discriminate.
    destruct (bind xs vs senv) as [senv'|] eqn:B; [|discriminate].
    useE IE E1 k g1 G1 V1.
    inversion V1 as [| | | |? gvs Vs T| | | | | |]; subst.
    pose proof (Forall2_length' _ _ _ Vs) as Lv.
    pose proof (bind_some_length _ _ _ _ B) as Lx.
    destruct (bind_rel_exists _ _ gvs _ _ genv B Lv) as (genv' & B').
    assert (E' : erel senv' genv') by (eapply bind_erel; eauto).
    match goal with Wb : wfb b' |- _ => destruct (IB _ _ _ _ _ _ (k + nv e) Wb E' H) as (o & G & Vo) end.
    exists o; split; [|exact Vo]. cbn [compile_block].
    eapply Gx_define_multi; [| |exact B'|exact G].
    + match goal with T2 : two_or_three (List.length xs) |- _ => destruct T2 as [T2|T2]; rewrite T2; discriminate end.
    + eapply G_libcall; [eapply Gs_cons; [exact G1|apply Gs_nil]|].
      apply Gl_pure.
      * match goal with T2 : two_or_three (List.length xs) |- _ => destruct T2 as [T2|T2]; rewrite T2; destruct d; reflexivity end.
      * apply destr_pure; [congruence|]. rewrite <- Lv. exact T.
  - (* do *)
    rb H E1. useE IE E1 k g1 G1 V1.
    match goal with Wb : wfb b' |- _ => destruct (IB _ _ _ _ _ _ (k + nv e) Wb E H) as (o & G & Vo) end.
    exists o; split; [|exact Vo]. cbn [compile_block]. eapply Gx_expr; eauto.
  - (* final expression *)
    rb H E1. apply check_unit_inv in H. destruct H as (-> & Hu).
    assert (Hv : v = v0) by (destruct u; [destruct Hu as (-> & ->); reflexivity|exact Hu]).
    assert (Generic : compile_block k (BRet e u) = [ret_stmt u (compile k e)] ->
            exists o, Gexec genv (compile_block k (BRet e u)) t o t0 /\ vrel v (ret_val o)).
    { intros ->. useE IE E1 k g1 G1 V1. destruct u.
      - destruct Hu as (-> & ->). exists None; split; [eapply Gx_expr; [exact G1|apply Gx_nil]|constructor].
      - subst v. exists (Some g1); split; [eapply Gx_return; exact G1|exact V1]. }
    destruct e; try (apply Generic; reflexivity).
    + (* () *)
      destruct n as [|n']; [discriminate|]. sstep E1. inversion E1; subst.
      destruct u; cbn [compile_block].
      * exists None; split; [apply Gx_nil|constructor].
      * exists (Some GVUnit); split; [eapply Gx_return; apply G_none|constructor].
    + (* union match *)
      match goal with We : wfe (EMatchU _ _ _ _) |- _ =>
        destruct (IMU _ _ _ _ _ _ _ _ _ k We E E1) as (o & G & Vo) end.
      exists o; split; [exact G|subst v; exact Vo].
    + (* string match *)
      match goal with We : wfe (EMatchS _ _ _ _) |- _ =>
        destruct (IMS _ _ _ _ _ _ _ _ _ k We E E1) as (o & G & Vo) end.
      exists o; split; [exact G|subst v; exact Vo].
    + (* block *)
      match goal with We : wfe (EBlock _) |- _ =>
        destruct (IBE _ _ _ _ _ _ k We E E1) as (o & G & Vo) end.
      exists o; split; [exact G|subst v; exact Vo].
Qed.

(** *** expressions *)
(** string interpolation: frt.SInterP on the format built by ParseSInterP *)
Lemma interp_sim senv genv : forall parts s,
  erel senv genv ->
  Forall (fun p : string + var => match p with inr x => reserved x = false | inl _ => True end) parts ->
  interp_text sfuns senv parts = Some s ->
  exists gvs ss,
    (forall t rest rvs t2, Gevals genv rest t rvs t2 -> Gevals genv (interp_args parts ++ rest) t (gvs ++ rvs) t2) /\
    all_some (map (to_s gops) gvs) = Some ss /\
    format_s (interp_fmt parts) ss = Some s.
Proof.
  induction parts as [|[txt|x] parts IH]; intros s E W H; cbn in H.
  - inversion H; subst. exists [], []. repeat split; auto.
  - inversion W; subst.
    destruct (interp_text sfuns senv parts) as [s'|] eqn:I; [|discriminate]. cbn in H. inversion H; subst.
    destruct (IH _ E H3 eq_refl) as (gvs & ss & G & A & F).
    exists gvs, ss. repeat split; auto.
    cbn [interp_fmt]. rewrite format_s_escape, F. reflexivity.
  - inversion W; subst.
    destruct (lookup_var sfuns x senv) as [v|] eqn:L; [|discriminate].
    destruct (hole_text v) as [a|] eqn:Ht; [|discriminate].
    destruct (interp_text sfuns senv parts) as [s'|] eqn:I; [|discriminate]. inversion H; subst.
    destruct (IH _ E H3 eq_refl) as (gvs & ss & G & A & F).
    destruct (var_sim' _ _ _ _ E H2 L) as (gv & Lg & V).
    exists (gv :: gvs), (a :: ss). repeat split.
    + intros t rest rvs t2 Gr. cbn. eapply Gs_cons; [apply G_var; exact Lg|apply G; exact Gr].
    + cbn [map all_some]. unfold to_s, hole_text in *.
      assert (Hf : fmt_atom gops gv = fmt_atom sops v).
      { unfold fmt_atom. rewrite (vrel_asInt _ _ _ _ _ V), (vrel_asStr _ _ _ _ _ V), (vrel_asBool _ _ _ _ _ V). reflexivity. }
      rewrite Hf, Ht. unfold to_s in A. rewrite A. reflexivity.
    + cbn. rewrite F. reflexivity.
Qed.



Lemma step_E n : SimE n -> SimEs n -> SimB n -> SimA n -> SimP (S n) -> SimMU (S n) -> SimMS (S n) -> SimBE (S n) ->
  SimE (S n).
Proof.
  intros IE IEs IB IA HP HMU HMS HBE. red; intros senv genv e t v t' k W E H.
  destruct e.
  - (* int *) sstep H. inversion H; subst. eexists; split; [apply G_int|constructor].
  - sstep H. inversion H; subst. eexists; split; [apply G_str|constructor].
  - sstep H. inversion H; subst. eexists; split; [apply G_bool|constructor].
  - sstep H. inversion H; subst. eexists; split; [apply G_none|constructor].
  - (* var *)
    sstep H. inversion W; subst.
    destruct (lookup_var sfuns x senv) as [v0|] eqn:L; cbn in H; inversion H; subst.
    destruct (var_sim' _ _ _ _ E H1 L) as (gv & L' & V). exists gv; split; [apply G_var; exact L'|exact V].
  - (* binary operators *)
    inversion W; subst. cbn [compile].
    destruct op; sstep H; rb H E1;
      try (rb H E2; destruct (arith sops _ v0 v1) as [r|] eqn:A; cbn in H; inversion H; subst;
           useE IE E1 k g1 G1 V1; useE IE E2 (k + nv e1) g2 G2 V2;
           destruct (arith_sim _ _ _ _ _ _ _ _ _ V1 V2 A) as (gv & A' & V);
           exists gv; split; [eapply G_arith; eauto; discriminate|exact V]).
    + (* && *)
      useE IE E1 k g1 G1 V1.
      destruct v0 as [| |[|]| | | | | | |]; try discriminate; apply vrel_bool_inv in V1; subst g1.
      * rb H E2. destruct v0; try discriminate. inversion H; subst.
        useE IE E2 (k + nv e1) g2 G2 V2. apply vrel_bool_inv in V2; subst g2.
        eexists; split; [eapply G_and_true; eauto|constructor].
      * inversion H; subst. eexists; split; [eapply G_and_false; eauto|constructor].
    + (* || *)
      useE IE E1 k g1 G1 V1.
      destruct v0 as [| |[|]| | | | | | |]; try discriminate; apply vrel_bool_inv in V1; subst g1.
      * inversion H; subst. eexists; split; [eapply G_or_true; eauto|constructor].
      * rb H E2. destruct v0; try discriminate. inversion H; subst.
        useE IE E2 (k + nv e1) g2 G2 V2. apply vrel_bool_inv in V2; subst g2.
        eexists; split; [eapply G_or_false; eauto|constructor].
  - (* = <> *)
    inversion W; subst. sstep H. rb H E1. rb H E2.
    destruct (val_eq v0 v1) as [r|] eqn:Q; inversion H; subst.
    useE IE E1 k g1 G1 V1. useE IE E2 (k + nv e1) g2 G2 V2.
    pose proof (veq_sim' _ _ _ _ _ V1 V2 Q) as Q'.
    destruct neg; cbn [compile]; (eexists; split;
      [eapply G_libcall; [eapply Gs_cons; [exact G1|eapply Gs_cons; [exact G2|apply Gs_nil]]|];
       apply Gl_pure; [reflexivity|]; cbn [lib_pure gops veq]; rewrite Q'; reflexivity
      |constructor]).
  - (* not *)
    inversion W; subst. sstep H. rb H E1. destruct v0; try discriminate. inversion H; subst.
    useE IE E1 k g1 G1 V1. apply vrel_bool_inv in V1; subst g1.
    cbn [compile]. eexists; split.
    + eapply G_libcall; [eapply Gs_cons; [exact G1|apply Gs_nil]|]. apply Gl_pure; reflexivity.
    + constructor.
  - (* if *)
    inversion W; subst. sstep H. rb H E1.
    useE IE E1 k g1 G1 V1.
    destruct v0 as [| |c0| | | | | | |]; try discriminate. apply vrel_bool_inv in V1; subst g1.
    assert (exists o, Gexec genv (if c0 then compile_block (k + nv e) bt else compile_block (k + nv e + nvb bt) bf) t0 o t'
                      /\ vrel v (ret_val o) /\ (block_unit bt = true -> v = VUnit)) as (o & G & Vo & Hu).
    { destruct c0.
      - useB IB H (k + nv e) o G Vo. exists o; repeat split; auto.
        intros U. eapply eval_block_unit; eauto.
      - useB IB H (k + nv e + nvb bt) o G Vo. exists o; repeat split; auto.
        intros U. eapply eval_block_unit; eauto; congruence. }
    cbn [compile].
    assert (Ga : Gapply (if c0 then GVClo genv [] (compile_block (k + nv e) bt)
                              else GVClo genv [] (compile_block (k + nv e + nvb bt) bf)) [] t0 (ret_val o) t').
    { destruct c0; (eapply Ga_clo; [reflexivity|exact G]). }
    destruct (block_unit bt) eqn:U.
    + exists GVUnit; split; [|rewrite (Hu eq_refl); constructor].
      eapply G_libcall;
        [eapply Gs_cons; [exact G1|eapply Gs_cons; [apply G_func|eapply Gs_cons; [apply G_func|apply Gs_nil]]]|].
      eapply Gl_ifelseunit; exact Ga.
    + exists (ret_val o); split; [|exact Vo].
      eapply G_libcall;
        [eapply Gs_cons; [exact G1|eapply Gs_cons; [apply G_func|eapply Gs_cons; [apply G_func|apply Gs_nil]]]|].
      eapply Gl_ifelse; exact Ga.
  - (* if without else *)
    inversion W; subst. sstep H. rb H E1.
    useE IE E1 k g1 G1 V1.
    destruct v0 as [| |[|]| | | | | | |]; try discriminate; apply vrel_bool_inv in V1; subst g1; cbn [compile].
    + rb H E2. inversion H; subst. useB IB E2 (k + nv e) o G Vo.
      exists GVUnit; split; [|constructor].
      eapply G_libcall; [eapply Gs_cons; [exact G1|eapply Gs_cons; [apply G_func|apply Gs_nil]]|].
      eapply Gl_ifonly_true. eapply Ga_clo; [reflexivity|exact G].
    + inversion H; subst. exists GVUnit; split; [|constructor].
      eapply G_libcall; [eapply Gs_cons; [exact G1|eapply Gs_cons; [apply G_func|apply Gs_nil]]|].
      apply Gl_ifonly_false.
  - (* lambda *)
    inversion W; subst. sstep H. inversion H; subst. cbn [compile].
    eexists; split; [apply G_func|]. destruct E as (E1 & E2 & E3). constructor; auto.
  - (* call *)
    destruct missing as [|m].
    + inversion W; subst. sstep H.
      destruct (lookup_var sfuns f senv) as [fv|] eqn:L; [|discriminate].
      rb H Es.
      match goal with Hr : reserved f = false |- _ => destruct (var_sim' _ _ _ _ E Hr L) as (gf & L' & Vf) end.
      useEs IEs Es k gs Vs Gs.
      destruct (IA _ _ _ _ _ _ _ Vf Vs H) as (gv & Ga & V).
      exists gv; split; [|exact V].
      change (compile k (ECall f 0 retunit args)) with (GCall (GVar f) (compile_list k args)).
      eapply G_call; [apply G_var; exact L'| |exact Ga].
      apply Gs_close; exact Gs.
    + destruct (HP senv genv (ECall f (S m) retunit args) t v t' W (P_pap _ _ _ _) E H) as (-> & K).
      destruct (K genv k (equiv_refl _)) as (gv & P & V). exists gv; split; [|exact V].
      eapply peval_Geval'; eauto.
  - (* library call *)
    inversion W; subst. sstep H.
    match goal with Hs : src_fn fn = true |- _ => rewrite Hs in H end.
    rb H Es. useEs IEs Es k gs Vs Gs.
    destruct (lib_sim d ctor_ok gfuncs gvars (apply sfuns n) IA fn _ _ _ _ _ ltac:(assumption) Vs H) as (gv & Gl & V).
    exists gv; split; [|exact V].
    change (compile k (EExt fn args)) with (GCall (GLib fn) (compile_list k args)).
    eapply G_libcall; [|exact Gl].
    apply Gs_close; exact Gs.
  - (* a |> f *)
    inversion W; subst. sstep H. rb H E1.
    destruct (lookup_var sfuns f senv) as [fv|] eqn:L; [|discriminate].
    rb H Ea. apply check_unit_inv in H. destruct H as (-> & Hu).
    useE IE E1 k g1 G1 V1.
    match goal with Hr : reserved f = false |- _ => destruct (var_sim' _ _ _ _ E Hr L) as (gf & L' & Vf) end.
    destruct (IA _ _ [v0] [g1] _ _ _ Vf ltac:(constructor; [exact V1|constructor]) Ea) as (gv & Ga & V).
    cbn [compile].
    assert (Gs2 : Gevals genv [compile k e; GVar f] t [g1; gf] t0).
    { eapply Gs_cons; [exact G1|eapply Gs_cons; [apply G_var; exact L'|apply Gs_nil]]. }
    destruct retunit; cbn [pipe_fn].
    + destruct Hu as (-> & ->). exists GVUnit; split; [|constructor].
      eapply G_libcall; [exact Gs2|]. eapply Gl_pipeunit; exact Ga.
    + subst v. exists gv; split; [|exact V].
      eapply G_libcall; [exact Gs2|]. eapply Gl_pipe; exact Ga.
  - (* a |> f args *)
    inversion W; subst. sstep H. rb H E1.
    destruct (lookup_var sfuns f senv) as [fv|] eqn:L; [|discriminate].
    rb H Es. rb H Ea. apply check_unit_inv in H. destruct H as (-> & Hu).
    useE IE E1 k g1 G1 V1.
    set (env' := (rname 0, g1) :: genv).
    assert (E' : erel senv env') by (apply erel_tmp; [exact E|reflexivity]).
    match goal with Hr : reserved f = false |- _ => destruct (var_sim' _ _ _ _ E' Hr L) as (gf & L' & Vf) end.
    match goal with Wa : Forall wfe args |- _ =>
      destruct (IEs senv env' args _ _ _ (k + nv e) Wa E' Es) as (gs & Vs & Gs) end.
    destruct (IA _ _ (v1 ++ [v0]) (gs ++ [g1]) _ _ _ Vf
                 ltac:(apply Forall2_app; [exact Vs|constructor; [exact V1|constructor]]) Ea) as (gv & Ga & V).
    assert (Gc : Geval env' (GCall (GVar f) (compile_list (k + nv e) args ++ map GVar (rnames 1 0))) t0 gv t2).
    { eapply G_call; [apply G_var; exact L'| |exact Ga].
      apply Gs. cbn [rnames map]. eapply Gs_cons; [|apply Gs_nil].
      apply G_var. unfold GoRules.glookup, env'. rewrite lookup_cons_eq. reflexivity. }
    change (compile k (EPipeCall e f args retunit)) with
      (GCall (GLib (pipe_fn retunit))
         [compile k e; GFunc (rnames 1 0)
            [ret_stmt retunit (GCall (GVar f) (compile_list (k + nv e) args ++ map GVar (rnames 1 0)))]]).
    assert (Gs2 : forall body, Gevals genv [compile k e; GFunc (rnames 1 0) body] t [g1; GVClo genv (rnames 1 0) body] t0).
    { intros body. eapply Gs_cons; [exact G1|eapply Gs_cons; [apply G_func|apply Gs_nil]]. }
    destruct retunit; cbn [pipe_fn ret_stmt].
    + destruct Hu as (-> & ->). exists GVUnit; split; [|constructor].
      eapply G_libcall; [apply Gs2|]. eapply Gl_pipeunit.
      eapply Ga_clo; [reflexivity|]. eapply Gx_expr; [exact Gc|apply Gx_nil].
    + subst v. exists gv; split; [|exact V].
      eapply G_libcall; [apply Gs2|]. eapply Gl_pipe.
      change gv with (ret_val (Some gv)). eapply Ga_clo; [reflexivity|]. eapply Gx_return; exact Gc.
  - (* a |> lib.F args *)
    inversion W; subst. sstep H.
    match goal with Hs : src_fn fn = true |- _ => rewrite Hs in H end.
    rb H E1. rb H Es. rb H Ea. apply check_unit_inv in H. destruct H as (-> & Hu).
    useE IE E1 k g1 G1 V1.
    set (env' := (rname 0, g1) :: genv).
    assert (E' : erel senv env') by (apply erel_tmp; [exact E|reflexivity]).
    match goal with Wa : Forall wfe args |- _ =>
      destruct (IEs senv env' args _ _ _ (k + nv e) Wa E' Es) as (gs & Vs & Gs) end.
    destruct (lib_sim d ctor_ok gfuncs gvars (apply sfuns n) IA fn (v1 ++ [v0]) (gs ++ [g1]) _ _ _ ltac:(assumption)
                 ltac:(apply Forall2_app; [exact Vs|constructor; [exact V1|constructor]]) Ea) as (gv & Gl & V).
    assert (Hres : exists r, vrel v r /\
              forall stage sv, Geval genv stage t0 sv t0 -> Gapply sv [g1] t0 gv t2 ->
                Geval genv (GCall (GLib (pipe_fn retunit)) [compile k e; stage]) t r t2).
    { destruct retunit; cbn [pipe_fn].
      - destruct Hu as (-> & ->). exists GVUnit; split; [constructor|]. intros stage sv Gst Gap.
        eapply G_libcall; [eapply Gs_cons; [exact G1|eapply Gs_cons; [exact Gst|apply Gs_nil]]|].
        eapply Gl_pipeunit; exact Gap.
      - subst v. exists gv; split; [exact V|]. intros stage sv Gst Gap.
        eapply G_libcall; [eapply Gs_cons; [exact G1|eapply Gs_cons; [exact Gst|apply Gs_nil]]|].
        eapply Gl_pipe; exact Gap. }
    destruct Hres as (r & Vr & Hres). exists r; split; [|exact Vr].
    destruct args as [|a0 args].
    + (* the library function itself is the stage *)
      change (compile k (EPipeExt e fn [] retunit)) with (GCall (GLib (pipe_fn retunit)) [compile k e; GLib fn]).
      destruct n as [|n']; [discriminate|]. sstep Es. inversion Es; subst. inversion Vs; subst. cbn [app] in *.
      eapply Hres; [apply G_lib|]. apply Ga_lib. exact Gl.
    + change (compile k (EPipeExt e fn (a0 :: args) retunit)) with
        (GCall (GLib (pipe_fn retunit))
           [compile k e; GFunc (rnames 1 0)
              [ret_stmt retunit (GCall (GLib fn) (compile_list (k + nv e) (a0 :: args) ++ map GVar (rnames 1 0)))]]).
      eapply Hres; [apply G_func|].
      assert (Gc : Geval env' (GCall (GLib fn) (compile_list (k + nv e) (a0 :: args) ++ map GVar (rnames 1 0))) t0 gv t2).
      { eapply G_libcall; [|exact Gl].
        apply Gs. cbn [rnames map]. eapply Gs_cons; [|apply Gs_nil].
        apply G_var. unfold GoRules.glookup, env'. rewrite lookup_cons_eq. reflexivity. }
      destruct retunit; cbn [ret_stmt].
      * destruct Hu as (Hv2 & _). subst v2. inversion V; subst.
        change GVUnit with (ret_val None). eapply Ga_clo; [reflexivity|].
        eapply Gx_expr; [exact Gc|apply Gx_nil].
      * change gv with (ret_val (Some gv)). eapply Ga_clo; [reflexivity|]. eapply Gx_return; exact Gc.
  - (* tuple *)
    inversion W; subst. sstep H. rb H Es. inversion H; subst.
    useEs IEs Es k gs Vs Gs.
    pose proof (evals_length _ _ _ _ _ _ Es) as Le. pose proof (Forall2_length' _ _ _ Vs) as Lv.
    exists (GVStruct (tuple_struct (List.length gs)) (combine tuple_fields gs)); split.
    + change (compile k (ETuple es)) with (GCall (GLib (tuple_fn (List.length es))) (compile_list k es)).
      eapply G_libcall.
      * apply Gs_close; exact Gs.
      * apply Gl_pure.
        -- match goal with T : two_or_three (List.length es) |- _ => destruct T as [T|T]; rewrite T; reflexivity end.
        -- apply tuple_pure; [congruence|assumption].
    + constructor; [exact Vs|]. rewrite Le. assumption.
  - (* record *)
    inversion W; subst. sstep H. rb H Es.
    destruct (Nat.eqb (List.length fields) (List.length v0)) eqn:Ln; [|discriminate].
    apply Nat.eqb_eq in Ln.
    destruct (arrange decl (combine fields v0)) as [rfs|] eqn:Ar; inversion H; subst.
    useEs IEs Es k gs Vs Gs.
    pose proof (evals_length _ _ _ _ _ _ Es) as Le. pose proof (Forall2_length' _ _ _ Vs) as Lv.
    assert (Lc : List.length fields = List.length (compile_list k es)) by (rewrite compile_list_length; congruence).
    destruct (arrange_rel d ctor_ok gfuncs decl _ _ _ (fields_rel fields _ _ Vs) Ar) as (gfs & Ag & Fr).
    exists (GVStruct name gfs); split; [|constructor; exact Fr].
    change (compile k (ERecord name decl fields es)) with (GStructLit name decl (combine fields (compile_list k es))).
    eapply G_struct.
    + rewrite (combine_snd _ _ Lc). apply Gs_close; exact Gs.
    + rewrite (combine_fst _ _ Lc). exact Ag.
  - (* field *)
    inversion W; subst. sstep H. rb H E1. destruct v0 as [| | | | |rn fs| | | |]; try discriminate.
    destruct (lookup f fs) as [fv|] eqn:L; cbn in H; inversion H; subst.
    useE IE E1 k g1 G1 V1. inversion V1; subst.
    match goal with F : Forall2 _ fs ?gfs |- _ => destruct (field_lookup _ _ _ _ F L) as (gv & Lg & V) end.
    exists gv; split; [|exact V]. cbn [compile]. eapply G_sel; eauto.
  - (* constructors *)
    destruct arg as [a|]; inversion W; subst; sstep H.
    + rb H E1. inversion H; subst. useE IE E1 k g1 G1 V1.
      destruct E as (Ea & Eb & Ec).
      exists (GVStruct (case_struct uname cname) [("Value"%string, g1)]); split; [|constructor; exact V1].
      cbn [compile]. eapply G_call.
      * apply G_var. unfold GoRules.glookup. rewrite (Ec _ (ctor_name_like _ _)).
        match goal with Hc : ctor_ok _ _ true |- _ => rewrite (Hctor1 _ _ Hc) end. reflexivity.
      * eapply Gs_cons; [exact G1|apply Gs_nil].
      * change (GVStruct (case_struct uname cname) [("Value"%string, g1)])
          with (ret_val (Some (GVStruct (case_struct uname cname) [("Value"%string, g1)]))).
        eapply Ga_clo; [reflexivity|]. eapply Gx_return.
        eapply G_struct; [cbn [map snd]; eapply Gs_cons; [apply G_var; reflexivity|apply Gs_nil]|reflexivity].
    + inversion H; subst. destruct E as (Ea & Eb & Ec).
      match goal with Hc : ctor_ok _ _ false |- _ => destruct (Hctor0 _ _ Hc) as (L1 & L2) end.
      exists (GVStruct (case_struct uname cname) []); split; [|constructor].
      cbn [compile]. eapply G_var_pkgvar; [apply Ec; apply ctor_name_like|exact L1|exact L2|].
      eapply G_struct; [apply Gs_nil|reflexivity].
  - (* union match *)
    destruct (HMU _ _ _ _ _ _ _ _ _ k W E H) as (o & G & Vo).
    exists (ret_val o); split; [|exact Vo].
    change (compile k (EMatchU e uname arms def)) with (GCall (GFunc [] [switch_u k e uname arms def]) []).
    apply G_iife; exact G.
  - (* string match *)
    destruct (HMS _ _ _ _ _ _ _ _ _ k W E H) as (o & G & Vo).
    exists (ret_val o); split; [|exact Vo].
    change (compile k (EMatchS e arms bx last)) with (GCall (GFunc [] [switch_s k e arms bx last]) []).
    apply G_iife; exact G.
  - (* slice literal *)
    inversion W; subst. sstep H. rb H Es. inversion H; subst.
    useEs IEs Es k gs Vs Gs.
    exists (GVSlice gs); split; [|constructor; exact Vs].
    change (compile k (ESlice es)) with (GSliceLit (compile_list k es)).
    apply G_slice. apply Gs_close; exact Gs.
  - (* interpolation *)
    inversion W; subst. sstep H.
    destruct (interp_text sfuns senv parts) as [s|] eqn:I; inversion H; subst.
    match goal with Wp : Forall _ parts |- _ => destruct (interp_sim _ _ _ _ E Wp I) as (gvs & ss & G & A & F) end.
    exists (GVStr s); split; [|constructor].
    cbn [compile]. eapply G_libcall.
    + eapply Gs_cons; [apply G_str|].
      apply Gs_close. apply G.
    + apply Gl_pure; [reflexivity|]. cbn [lib_pure gops asStr]. rewrite A, F. reflexivity.
  - (* block *)
    destruct (HBE _ _ _ _ _ _ k W E H) as (o & G & Vo).
    exists (ret_val o); split; [|exact Vo].
    cbn [compile]. apply G_iife; exact G.
Qed.

(** *** the induction *)
Definition Sims n :=
  SimE n /\ SimEs n /\ SimB n /\ SimA n /\ SimP n /\ SimPs n /\ SimMU n /\ SimMS n /\ SimBE n.

Lemma sim_all n : Sims n.
Proof.
  induction n as [|n (IE & IEs & IB & IA & IP & IPs & IMU & IMS & IBE)].
  { unfold Sims, SimE, SimEs, SimB, SimA, SimP, SimPs, SimMU, SimMS, SimBE.
    repeat (split; [intros; cbn in *; discriminate|]). intros; cbn in *; discriminate. }
  pose proof (step_P n IP IPs) as HP.
  pose proof (step_Ps n IP IPs) as HPs.
  pose proof (step_Es n IE IEs) as HEs.
  pose proof (step_A n IB IA) as HA.
  pose proof (step_MU n IE IB) as HMU.
  pose proof (step_MS n IE IB) as HMS.
  pose proof (step_BE n IB) as HBE.
  pose proof (step_B n IE IB IMU IMS IBE) as HB.
  pose proof (step_E n IE IEs IB IA HP HMU HMS HBE) as HE.
  exact (conj HE (conj HEs (conj HB (conj HA (conj HP (conj HPs (conj HMU (conj HMS HBE)))))))).
Qed.

Theorem sim_block n senv genv b t v t' k :
  wfb b -> erel senv genv -> eval_block sfuns n senv b t = Done v t' ->
  exists o, Gexec genv (compile_block k b) t o t' /\ vrel v (ret_val o).
Proof. intros. destruct (sim_all n) as (_ & _ & IB & _). eapply IB; eauto. Qed.

End Sim.
