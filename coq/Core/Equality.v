(** C10 — [=] and [<>] on first-order values: model of frt.OpEqual / frt.OpNotEqual.
    Definitions only.

    Go source modelled (pkg/frt/frt.go, as repaired):
      var opEqualOpts = []gcmp.Option{ gcmp.Exporter(func(reflect.Type) bool { return true }),
                                       cmpopts.EquateEmpty() }
      func OpEqual[T any](e1 T, e2 T) bool    { return gcmp.Equal(e1, e2, opEqualOpts...) }
      func OpNotEqual[T any](e1 T, e2 T) bool { return !OpEqual(e1, e2) }

    Values carry their Go REPRESENTATION as produced by fc:
      - a record is a struct whose field names are spelled as in the Folang source, so a
        lower-case field is an UNEXPORTED struct field;
      - a union value is an interface holding the case struct [U_Case{Value..}] (exported fields);
      - a tuple is frt.TupleN{E0..} (exported fields);
      - a slice is nil (e.g. [var res []T] never appended to: slice.Filter/Take results) or
        non-nil (literal, slice.New = make([]T, 0)), a flag that matters only at length 0.

    [go_equal o] is a hand model of go-cmp's cmp.Equal (v0.6.0) on these shapes under the options
    [o]: both operands have the same static type (Go generics: [T] twice), so types are compared
    only where an interface is unwrapped (union values: the case struct types); a struct is compared
    field by field, ALL fields (compareStruct has no early exit), and an unexported field panics
    unless an Exporter allows it; slices: without EquateEmpty nil and non-nil differ, with it all
    slices of length 0 are equal. *)
From Coq Require Import List Ascii ZArith Bool.
From FoVerif Require Import Pkg.Buf.
Import ListNotations.

Inductive val :=
| VInt (z : Z)
| VStr (s : bytes)
| VBool (b : bool)
| VTuple (elems : vals)
| VRecord (tname : bytes) (fnames : list bytes) (fvals : vals)
| VUnion (uname cname : bytes) (payload : vals)
| VSlice (isnil : bool) (elems : vals)
with vals :=
| VNil
| VCons (v : val) (r : vals).

Scheme val_mind := Induction for val Sort Prop
with vals_mind := Induction for vals Sort Prop.
Combined Scheme val_vals_ind from val_mind, vals_mind.

Fixpoint vlen (l : vals) : nat := match l with VNil => 0 | VCons _ r => S (vlen r) end.

Fixpoint byeq (a b : bytes) : bool :=
  match a, b with
  | [], [] => true
  | x :: a', y :: b' => Ascii.eqb x y && byeq a' b'
  | _, _ => false
  end.
Fixpoint names_eq (a b : list bytes) : bool :=
  match a, b with
  | [], [] => true
  | x :: a', y :: b' => byeq x y && names_eq a' b'
  | _, _ => false
  end.

(** * the specification: structural equality, blind to representation *)

Fixpoint struct_eq (a b : val) : bool :=
  match a, b with
  | VInt x, VInt y => Z.eqb x y
  | VStr x, VStr y => byeq x y
  | VBool x, VBool y => Bool.eqb x y
  | VTuple l1, VTuple l2 => struct_eq_list l1 l2
  | VRecord n1 f1 l1, VRecord n2 f2 l2 => byeq n1 n2 && names_eq f1 f2 && struct_eq_list l1 l2
  | VUnion u1 c1 l1, VUnion u2 c2 l2 => byeq u1 u2 && byeq c1 c2 && struct_eq_list l1 l2
  | VSlice _ l1, VSlice _ l2 => struct_eq_list l1 l2
  | _, _ => false
  end
with struct_eq_list (l1 l2 : vals) : bool :=
  match l1, l2 with
  | VNil, VNil => true
  | VCons a r1, VCons b r2 => struct_eq a b && struct_eq_list r1 r2
  | _, _ => false
  end.

(** * hand model of cmp.Equal *)

Inductive outcome := Ok (r : bool) | Panic.

Record opts := { exporter : bool; equate_empty : bool }.

(** isExported: the first byte is an upper-case ASCII letter *)
Definition is_exported (name : bytes) : bool :=
  match name with
  | [] => false
  | c :: _ => let n := nat_of_ascii c in Nat.leb 65 n && Nat.leb n 90
  end.

(** combine the verdicts of all the fields of a struct: a panic anywhere wins *)
Definition both (x y : outcome) : outcome :=
  match x, y with
  | Panic, _ => Panic
  | _, Panic => Panic
  | Ok p, Ok q => Ok (p && q)
  end.

Definition is_empty (l : vals) : bool := match l with VNil => true | _ => false end.

Section GoEqual.
  Variable o : opts.

  Fixpoint go_equal (a b : val) : outcome :=
    match a, b with
    | VInt x, VInt y => Ok (Z.eqb x y)
    | VStr x, VStr y => Ok (byeq x y)
    | VBool x, VBool y => Ok (Bool.eqb x y)
    | VTuple l1, VTuple l2 =>
        if Nat.eqb (vlen l1) (vlen l2) then go_equal_exported l1 l2 else Ok false
    | VRecord n1 f1 l1, VRecord n2 f2 l2 =>
        if byeq n1 n2 && names_eq f1 f2 && Nat.eqb (vlen l1) (vlen l2)
        then go_equal_fields f1 l1 l2
        else Ok false                                    (* different struct types *)
    | VUnion u1 c1 l1, VUnion u2 c2 l2 =>
        if byeq u1 u2 && byeq c1 c2 && Nat.eqb (vlen l1) (vlen l2)
        then go_equal_exported l1 l2
        else Ok false                                    (* different dynamic types *)
    | VSlice n1 l1, VSlice n2 l2 =>
        if equate_empty o && is_empty l1 && is_empty l2 then Ok true
        else if (n1 && is_empty l1) || (n2 && is_empty l2)
             then Ok ((n1 && is_empty l1) && (n2 && is_empty l2))   (* a nil operand *)
             else if Nat.eqb (vlen l1) (vlen l2) then go_equal_elems l1 l2
                  else (* different lengths: the answer is false, but the edit-script search
                          still compares elements, starting with the first pair; a panic
                          there propagates (only the first pair is modelled) *)
                       match l1, l2 with
                       | VCons a _, VCons b _ => both (go_equal a b) (Ok false)
                       | _, _ => Ok false
                       end
    | _, _ => Ok false
    end
  (** struct fields, every field name exported (tuples, union cases) *)
  with go_equal_exported (l1 l2 : vals) : outcome :=
    match l1, l2 with
    | VCons a r1, VCons b r2 => both (go_equal a b) (go_equal_exported r1 r2)
    | _, _ => Ok true
    end
  (** struct fields with their names: an unexported one panics without an Exporter *)
  with go_equal_fields (names : list bytes) (l1 l2 : vals) : outcome :=
    match l1, l2 with
    | VCons a r1, VCons b r2 =>
        let name := match names with n :: _ => n | [] => [] end in
        both (if is_exported name || exporter o then go_equal a b else Panic)
             (go_equal_fields (tl names) r1 r2)
    | _, _ => Ok true
    end
  (** slice elements of equal length *)
  with go_equal_elems (l1 l2 : vals) : outcome :=
    match l1, l2 with
    | VCons a r1, VCons b r2 => both (go_equal a b) (go_equal_elems r1 r2)
    | _, _ => Ok true
    end.
End GoEqual.

(** the options frt.OpEqual passes now, and before the repair (none) *)
Definition opts_now : opts := {| exporter := true; equate_empty := true |}.
Definition opts_old : opts := {| exporter := false; equate_empty := false |}.

Definition op_equal (a b : val) : outcome := go_equal opts_now a b.
Definition op_not_equal (a b : val) : outcome :=
  match op_equal a b with Ok r => Ok (negb r) | Panic => Panic end.

Definition op_equal_old (a b : val) : outcome := go_equal opts_old a b.
