(** C01 — the lowering fc performs (ir_factory.fo, expr_to_go.fo, stmt_to_go.fo) as a function
    [compile_prog : MiniFo.prog -> MiniGo.gprog].  Types are erased.

    [k] is the value of fc's global counter [uniqueId] (wrapper.go) before the construct is emitted:
    the type switch of a union match that binds at least one payload is [switch _v<k+1> := (e).(type)],
    and emission is pre-order, left to right, so offsets are computed with [nv] (number of temporaries
    a construct consumes). *)
From Coq Require Import List ZArith String Ascii Bool.
From FoVerif Require Import Core.Common Core.Lib Core.MiniFo Core.MiniGo.
Import ListNotations.
Open Scope list_scope.

Definition arm_has_var (a:string * option var * block) : bool :=
  match a with (_, Some _, _) => true | _ => false end.
(** umrHasCaseVar *)
Definition has_case_var (arms:list (string * option var * block)) : bool := existsb arm_has_var arms.

Fixpoint nv (e:expr) : nat :=
  let fix nvl (es:list expr) : nat :=
      match es with [] => 0 | e :: r => nv e + nvl r end in
  let fix nva (arms:list (string * option var * block)) : nat :=
      match arms with [] => 0 | (_, _, b) :: r => nvb b + nva r end in
  let fix nvs (arms:list (string * block)) : nat :=
      match arms with [] => 0 | (_, b) :: r => nvb b + nvs r end in
  match e with
  | EInt _ | EStr _ | EBool _ | EUnit | EVar _ | EInterp _ => 0
  | EBin _ a b | EEq _ a b => nv a + nv b
  | ENot a => nv a
  | EIf c bt bf => nv c + nvb bt + nvb bf
  | EIfOnly c bt => nv c + nvb bt
  | ELam _ b => nvb b
  | ECall _ _ _ args | EExt _ args | ETuple args | ERecord _ _ args | ESlice args => nvl args
  | EPipeVar a _ _ => nv a
  | EPipeCall a _ args _ | EPipeExt a _ args _ => nv a + nvl args
  | EField a _ => nv a
  | ECtor _ _ None => 0
  | ECtor _ _ (Some a) => nv a
  | EMatchU a _ arms def =>
      (if has_case_var arms then 1 else 0) + nv a + nva arms
      + match def with Some b => nvb b | None => 0 end
  | EMatchS a arms _ last => nv a + nvs arms + nvb last
  | EBlock b => nvb b
  end
with nvb (b:block) : nat :=
  match b with
  | BLet _ e b' | BDestr _ e b' | BDo e b' => nv e + nvb b'
  | BRet e _ => nv e
  end.

Fixpoint nvl (es:list expr) : nat :=
  match es with [] => 0 | e :: r => nv e + nvl r end.
Fixpoint nva (arms:list (string * option var * block)) : nat :=
  match arms with [] => 0 | (_, _, b) :: r => nvb b + nva r end.
Fixpoint nvs (arms:list (string * block)) : nat :=
  match arms with [] => 0 | (_, b) :: r => nvb b + nvs r end.

Definition tuple_fn (n:nat) : libfn := match n with 2 => LNewTuple2 | _ => LNewTuple3 end.
Definition destr_fn (n:nat) : libfn := match n with 2 => LDestr2 | _ => LDestr3 end.

(** "return e" unless the type is unit (buildReturn, fcPartialApplyGo) *)
Definition ret_stmt (u:bool) (e:gexpr) : gstmt := if u then GSExpr e else GSReturn e.

Definition panic_msg : string := "Union pattern fail. Never reached here.".

(** sinterpToGo ∘ ParseSInterP *)
Fixpoint interp_fmt (parts:list (string + var)) : string :=
  match parts with
  | [] => EmptyString
  | inl s :: r => (escape_percent s ++ interp_fmt r)%string
  | inr _ :: r => ("%s" ++ interp_fmt r)%string
  end.
Fixpoint interp_args (parts:list (string + var)) : list gexpr :=
  match parts with
  | [] => []
  | inl _ :: r => interp_args r
  | inr x :: r => GVar x :: interp_args r
  end.

(** umpToCaseHeader *)
Definition case_header (tmp:var) (bx:option var) : list gstmt :=
  match bx with Some x => [GSDefine [x] (GSel (GVar tmp) "Value")] | None => [] end.

Definition pipe_fn (u:bool) : libfn := if u then LPipeUnit else LPipe.

Fixpoint compile (k:nat) (e:expr) {struct e} : gexpr :=
  let fix cl (k:nat) (es:list expr) {struct es} : list gexpr :=
      match es with [] => [] | e :: r => compile k e :: cl (k + nv e) r end in
  let fix ca (uname:string) (tmp:var) (k:nat) (arms:list (string * option var * block)) {struct arms}
      : list (string * list gstmt) :=
      match arms with
      | [] => []
      | (c, bx, b) :: r =>
          (case_struct uname c, case_header tmp bx ++ compile_block k b) :: ca uname tmp (k + nvb b) r
      end in
  let fix cs (k:nat) (arms:list (string * block)) {struct arms} : list (string * list gstmt) :=
      match arms with
      | [] => []
      | (l, b) :: r => (l, compile_block k b) :: cs (k + nvb b) r
      end in
  match e with
  | EInt z => GInt z
  | EStr s => GStr s
  | EBool b => GBool b
  | EUnit => GNone
  | EVar x => GVar x
  | EBin op a b => GBin op (compile k a) (compile (k + nv a) b)                           (* binOpToGo *)
  | EEq neg a b =>                                                                        (* newEqNeq *)
      GCall (GLib (if neg then LOpNotEqual else LOpEqual)) [compile k a; compile (k + nv a) b]
  | ENot a => GCall (GLib LOpNot) [compile k a]                                           (* newUnaryNotCall *)
  | EIf c bt bf =>                                                                        (* newIfElseCall, lbToGo *)
      GCall (GLib (if block_unit bt then LIfElseUnit else LIfElse))
            [compile k c; GFunc [] (compile_block (k + nv c) bt);
             GFunc [] (compile_block (k + nv c + nvb bt) bf)]
  | EIfOnly c bt =>                                                                       (* newIfOnlyCall *)
      GCall (GLib LIfOnly) [compile k c; GFunc [] (compile_block (k + nv c) bt)]
  | ELam ps b => GFunc ps (compile_block k b)                                             (* lambdaToGo *)
  | ECall f O _ args => GCall (GVar f) (cl k args)                                        (* fcFullApplyGo *)
  | ECall f (S m) u args =>                                                               (* fcPartialApplyGo *)
      let rs := rnames (S m) 0 in
      GFunc rs [ret_stmt u (GCall (GVar f) (cl k args ++ map GVar rs))]
  | EExt fn args => GCall (GLib fn) (cl k args)
  | EPipeVar a f u => GCall (GLib (pipe_fn u)) [compile k a; GVar f]                      (* newPipeCall *)
  | EPipeCall a f args u =>
      let rs := rnames 1 0 in
      GCall (GLib (pipe_fn u))
            [compile k a; GFunc rs [ret_stmt u (GCall (GVar f) (cl (k + nv a) args ++ map GVar rs))]]
  | EPipeExt a fn args u =>
      let rs := rnames 1 0 in
      GCall (GLib (pipe_fn u))
            [compile k a;
             match args with
             | [] => GLib fn
             | _ => GFunc rs [ret_stmt u (GCall (GLib fn) (cl (k + nv a) args ++ map GVar rs))]
             end]
  | ETuple es => GCall (GLib (tuple_fn (List.length es))) (cl k es)                       (* tupleToGo *)
  | ERecord name fields es => GStructLit name (combine fields (cl k es))                  (* rgToGo *)
  | EField a f => GSel (compile k a) f                                                    (* faToGo *)
  | ECtor u c None => GVar (ctor_name u c)
  | ECtor u c (Some a) => GCall (GVar (ctor_name u c)) [compile k a]
  | EMatchU a uname arms def =>                                                           (* meToGo: wrapFunCall *)
      let hv := has_case_var arms in
      let tmp := vname (S k) in
      let k0 := if hv then S k else k in
      GCall (GFunc []
        [GSTypeSwitch (if hv then Some tmp else None) (compile k0 a)
           (ca uname tmp (k0 + nv a) arms)
           (match def with
            | Some b => compile_block (k0 + nv a + nva arms) b
            | None => [GSPanic panic_msg]
            end)]) []
  | EMatchS a arms bx last =>
      GCall (GFunc []
        [GSSwitch bx (compile k a) (cs (k + nv a) arms) (compile_block (k + nv a + nvs arms) last)]) []
  | ESlice es => GSliceLit (cl k es)                                                      (* sliceToGo *)
  | EInterp parts => GCall (GLib LSInterP) (GStr (interp_fmt parts) :: interp_args parts) (* sinterpToGo *)
  | EBlock b => GCall (GFunc [] (compile_block k b)) []                                   (* blockToGo *)
  end
(** blockToGoReturn / buildReturn *)
with compile_block (k:nat) (b:block) {struct b} : list gstmt :=
  match b with
  | BLet x e b' => GSDefine [x] (compile k e) :: compile_block (k + nv e) b'               (* lvdToGo *)
  | BDestr xs e b' =>                                                                     (* ldvdToGo *)
      GSDefine xs (GCall (GLib (destr_fn (List.length xs))) [compile k e]) :: compile_block (k + nv e) b'
  | BDo e b' => GSExpr (compile k e) :: compile_block (k + nv e) b'
  | BRet e u =>
      let fix ca (uname:string) (tmp:var) (k:nat) (arms:list (string * option var * block)) {struct arms}
          : list (string * list gstmt) :=
          match arms with
          | [] => []
          | (c, bx, b) :: r =>
              (case_struct uname c, case_header tmp bx ++ compile_block k b) :: ca uname tmp (k + nvb b) r
          end in
      let fix cs (k:nat) (arms:list (string * block)) {struct arms} : list (string * list gstmt) :=
          match arms with
          | [] => []
          | (l, b) :: r => (l, compile_block k b) :: cs (k + nvb b) r
          end in
      match e with
      | EMatchU a uname arms def =>                                                       (* umrToGoReturn *)
          let hv := has_case_var arms in
          let tmp := vname (S k) in
          let k0 := if hv then S k else k in
          [GSTypeSwitch (if hv then Some tmp else None) (compile k0 a)
             (ca uname tmp (k0 + nv a) arms)
             (match def with
              | Some b => compile_block (k0 + nv a + nva arms) b
              | None => [GSPanic panic_msg]
              end)]
      | EMatchS a arms bx last =>                                                         (* smrToGoReturn *)
          [GSSwitch bx (compile k a) (cs (k + nv a) arms) (compile_block (k + nv a + nvs arms) last)]
      | EBlock b' => compile_block k b'
      | EUnit => if u then [] else [GSReturn GNone]
      | _ => [ret_stmt u (compile k e)]
      end
  end.

(** the list functions, at top level (convertible with the local ones above) *)
Fixpoint compile_list (k:nat) (es:list expr) {struct es} : list gexpr :=
  match es with [] => [] | e :: r => compile k e :: compile_list (k + nv e) r end.
Fixpoint compile_arms (uname:string) (tmp:var) (k:nat) (arms:list (string * option var * block)) {struct arms}
  : list (string * list gstmt) :=
  match arms with
  | [] => []
  | (c, bx, b) :: r =>
      (case_struct uname c, case_header tmp bx ++ compile_block k b) :: compile_arms uname tmp (k + nvb b) r
  end.
Fixpoint compile_sarms (k:nat) (arms:list (string * block)) {struct arms} : list (string * list gstmt) :=
  match arms with
  | [] => []
  | (l, b) :: r => (l, compile_block k b) :: compile_sarms (k + nvb b) r
  end.

(** the switch statements, shared by expression position (wrapped) and return position *)
Definition switch_u (k:nat) (a:expr) (uname:string) (arms:list (string * option var * block)) (def:option block) : gstmt :=
  let hv := has_case_var arms in
  let tmp := vname (S k) in
  let k0 := if hv then S k else k in
  GSTypeSwitch (if hv then Some tmp else None) (compile k0 a)
    (compile_arms uname tmp (k0 + nv a) arms)
    (match def with
     | Some b => compile_block (k0 + nv a + nva arms) b
     | None => [GSPanic panic_msg]
     end).
Definition switch_s (k:nat) (a:expr) (arms:list (string * block)) (bx:option var) (last:block) : gstmt :=
  GSSwitch bx (compile k a) (compile_sarms (k + nv a) arms) (compile_block (k + nv a + nvs arms) last).

(** *** declarations *)
Definition ctor_funcs_of (u:udecl) : list (var * (list var * list gstmt)) :=
  flat_map (fun c : string * bool =>
              if snd c
              then [(ctor_name (fst u) (fst c),
                     (["v"%string], [GSReturn (GStructLit (case_struct (fst u) (fst c)) [("Value"%string, GVar "v"%string)])]))]
              else []) (snd u).
Definition ctor_vars_of (u:udecl) : list (var * gexpr) :=
  flat_map (fun c : string * bool =>
              if snd c then [] else [(ctor_name (fst u) (fst c), GStructLit (case_struct (fst u) (fst c)) [])])
           (snd u).

Fixpoint compile_funs (k:nat) (fs:list (var * (list var * block))) : list (var * (list var * list gstmt)) :=
  match fs with
  | [] => []
  | (f, (ps, b)) :: r => (f, (ps, compile_block k b)) :: compile_funs (k + nvb b) r
  end.
Fixpoint nvfuns (fs:list (var * (list var * block))) : nat :=
  match fs with [] => 0 | (_, (_, b)) :: r => nvb b + nvfuns r end.

Definition compile_prog (p:prog) : gprog := {|
  g_funcs := flat_map ctor_funcs_of (p_unions p) ++ compile_funs 0 (p_funs p);
  g_vars := flat_map ctor_vars_of (p_unions p);
  g_main := compile_block (nvfuns (p_funs p)) (p_main p) |}.
