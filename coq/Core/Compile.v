(** C01 / C17 — the lowering fc performs (ir_factory.fo, expr_to_go.fo, stmt_to_go.fo) as a function
    [compile_prog : MiniFo.prog -> MiniGo.gprog], and the lowering of the bootstrap transpiler tinyfo
    (tinyfo/ast.go) as [compile_tiny].  Types are erased.

    The two lowerings have the same shape; they differ in two places, selected by the [dialect]:
    - tinyfo emits [frt.Destr] where fc emits [frt.Destr2] (LetDestVarDef.ToGo vs ldvdToGo);
    - tinyfo's MatchExpr.ToGoReturn takes a fresh [_vN] for EVERY union match (and only writes it when a
      payload is bound), fc's umrToGoReturn only when a payload is bound; moreover tinyfo's counter is shared
      with the type-parameter names [_TN] it allocates while PARSING ([=]/[<>]: one, [|>]: two) and is never
      reset, so its first temporary is [_v(N+1)] where N is the number of those allocations in the file.

    [k] is the value of fc's global counter [uniqueId] (wrapper.go) before the construct is emitted:
    the type switch of a union match that binds at least one payload is [switch _v<k+1> := (e).(type)],
    and emission is pre-order, left to right, so offsets are computed with [nv] (number of temporaries
    a construct consumes). *)
From Coq Require Import List ZArith String Ascii Bool.
From FoVerif Require Import Core.Common Core.Lib Core.MiniFo Core.MiniGo.
Import ListNotations.
Open Scope list_scope.

Inductive dialect := DFc | DTiny.

Definition arm_has_var (a:string * option var * block) : bool :=
  match a with (_, Some _, _) => true | _ => false end.
(** umrHasCaseVar *)
Definition has_case_var (arms:list (string * option var * block)) : bool := existsb arm_has_var arms.

(** temporaries consumed by one union match *)
Definition match_tmps (d:dialect) (arms:list (string * option var * block)) : nat :=
  match d with
  | DFc => if has_case_var arms then 1 else 0
  | DTiny => 1
  end.

Fixpoint nv (d:dialect) (e:expr) : nat :=
  let fix nvl (es:list expr) : nat :=
      match es with [] => 0 | e :: r => nv d e + nvl r end in
  let fix nva (arms:list (string * option var * block)) : nat :=
      match arms with [] => 0 | (_, _, b) :: r => nvb d b + nva r end in
  let fix nvs (arms:list (string * block)) : nat :=
      match arms with [] => 0 | (_, b) :: r => nvb d b + nvs r end in
  match e with
  | EInt _ | EStr _ | EBool _ | EUnit | EVar _ | EInterp _ => 0
  | EBin _ a b | EEq _ a b => nv d a + nv d b
  | ENot a => nv d a
  | EIf c bt bf => nv d c + nvb d bt + nvb d bf
  | EIfOnly c bt => nv d c + nvb d bt
  | ELam _ b => nvb d b
  | ECall _ _ _ args | EExt _ args | ETuple args | ERecord _ _ _ args | ESlice args => nvl args
  | EPipeVar a _ _ => nv d a
  | EPipeCall a _ args _ | EPipeExt a _ args _ => nv d a + nvl args
  | EField a _ => nv d a
  | ECtor _ _ None => 0
  | ECtor _ _ (Some a) => nv d a
  | EMatchU a _ arms def =>
      match_tmps d arms + nv d a + nva arms
      + match def with Some b => nvb d b | None => 0 end
  | EMatchS a arms _ last => nv d a + nvs arms + nvb d last
  | EBlock b => nvb d b
  end
with nvb (d:dialect) (b:block) : nat :=
  match b with
  | BLet _ e b' | BDestr _ e b' | BDo e b' => nv d e + nvb d b'
  | BRet e _ => nv d e
  end.

(** ([d] is kept outside the [fix] so that these are convertible with the local functions above) *)
Definition nvl (d:dialect) : list expr -> nat :=
  fix nvl (es:list expr) : nat :=
    match es with [] => 0 | e :: r => nv d e + nvl r end.
Definition nva (d:dialect) : list (string * option var * block) -> nat :=
  fix nva (arms:list (string * option var * block)) : nat :=
    match arms with [] => 0 | (_, _, b) :: r => nvb d b + nva r end.
Definition nvs (d:dialect) : list (string * block) -> nat :=
  fix nvs (arms:list (string * block)) : nat :=
    match arms with [] => 0 | (_, b) :: r => nvb d b + nvs r end.

Definition tuple_fn (n:nat) : libfn := match n with 2 => LNewTuple2 | _ => LNewTuple3 end.
(** ldvdToGo: frt.Destr<len>; tinyfo's LetDestVarDef.ToGo: frt.Destr (pairs only; for three names, which
    tinyfo rejects, the model keeps fc's function so that [compile] is total) *)
Definition destr_fn (d:dialect) (n:nat) : libfn :=
  match n with
  | 2 => match d with DFc => LDestr2 | DTiny => LDestr end
  | _ => LDestr3
  end.

(** "return e" unless the type is unit (buildReturn, fcPartialApplyGo) *)
Definition ret_stmt (u:bool) (e:gexpr) : gstmt := if u then GSExpr e else GSReturn e.

Definition panic_msg : string := "Union pattern fail. Never reached here.".

(** sinterpToGo ∘ ParseSInterP *)
Fixpoint interp_fmt (parts:list (string + var)) : string :=
  match parts with
  | [] => EmptyString
  | inl s :: r => (escape_percent s ++ interp_fmt r)%string
  | inr _ :: r => ("%s" ++ interp_fmt r)%string
  end.
Fixpoint interp_args (parts:list (string + var)) : list gexpr :=
  match parts with
  | [] => []
  | inl _ :: r => interp_args r
  | inr x :: r => GVar x :: interp_args r
  end.

(** umpToCaseHeader *)
Definition case_header (tmp:var) (bx:option var) : list gstmt :=
  match bx with Some x => [GSDefine [x] (GSel (GVar tmp) "Value")] | None => [] end.

Definition pipe_fn (u:bool) : libfn := if u then LPipeUnit else LPipe.

Fixpoint compile (d:dialect) (k:nat) (e:expr) {struct e} : gexpr :=
  let fix cl (k:nat) (es:list expr) {struct es} : list gexpr :=
      match es with [] => [] | e :: r => compile d k e :: cl (k + nv d e) r end in
  let fix ca (uname:string) (tmp:var) (k:nat) (arms:list (string * option var * block)) {struct arms}
      : list (string * list gstmt) :=
      match arms with
      | [] => []
      | (c, bx, b) :: r =>
          (case_struct uname c, case_header tmp bx ++ compile_block d k b) :: ca uname tmp (k + nvb d b) r
      end in
  let fix cs (k:nat) (arms:list (string * block)) {struct arms} : list (string * list gstmt) :=
      match arms with
      | [] => []
      | (l, b) :: r => (l, compile_block d k b) :: cs (k + nvb d b) r
      end in
  match e with
  | EInt z => GInt z
  | EStr s => GStr s
  | EBool b => GBool b
  | EUnit => GNone
  | EVar x => GVar x
  | EBin op a b => GBin op (compile d k a) (compile d (k + nv d a) b)                     (* binOpToGo *)
  | EEq neg a b =>                                                                        (* newEqNeq *)
      GCall (GLib (if neg then LOpNotEqual else LOpEqual)) [compile d k a; compile d (k + nv d a) b]
  | ENot a => GCall (GLib LOpNot) [compile d k a]                                         (* newUnaryNotCall *)
  | EIf c bt bf =>                                                                        (* newIfElseCall, lbToGo *)
      GCall (GLib (if block_unit bt then LIfElseUnit else LIfElse))
            [compile d k c; GFunc [] (compile_block d (k + nv d c) bt);
             GFunc [] (compile_block d (k + nv d c + nvb d bt) bf)]
  | EIfOnly c bt =>                                                                       (* newIfOnlyCall *)
      GCall (GLib LIfOnly) [compile d k c; GFunc [] (compile_block d (k + nv d c) bt)]
  | ELam ps b => GFunc ps (compile_block d k b)                                           (* lambdaToGo *)
  | ECall f O _ args => GCall (GVar f) (cl k args)                                        (* fcFullApplyGo *)
  | ECall f (S m) u args =>                                                               (* fcPartialApplyGo *)
      let rs := rnames (S m) 0 in
      GFunc rs [ret_stmt u (GCall (GVar f) (cl k args ++ map GVar rs))]
  | EExt fn args => GCall (GLib fn) (cl k args)
  | EPipeVar a f u => GCall (GLib (pipe_fn u)) [compile d k a; GVar f]                    (* newPipeCall *)
  | EPipeCall a f args u =>
      let rs := rnames 1 0 in
      GCall (GLib (pipe_fn u))
            [compile d k a; GFunc rs [ret_stmt u (GCall (GVar f) (cl (k + nv d a) args ++ map GVar rs))]]
  | EPipeExt a fn args u =>
      let rs := rnames 1 0 in
      GCall (GLib (pipe_fn u))
            [compile d k a;
             match args with
             | [] => GLib fn
             | _ => GFunc rs [ret_stmt u (GCall (GLib fn) (cl (k + nv d a) args ++ map GVar rs))]
             end]
  | ETuple es => GCall (GLib (tuple_fn (List.length es))) (cl k es)                       (* tupleToGo *)
  | ERecord name decl fields es => GStructLit name decl (combine fields (cl k es))        (* rgToGo: as written *)
  | EField a f => GSel (compile d k a) f                                                  (* faToGo *)
  | ECtor u c None => GVar (ctor_name u c)
  | ECtor u c (Some a) => GCall (GVar (ctor_name u c)) [compile d k a]
  | EMatchU a uname arms def =>                                                           (* meToGo: wrapFunCall *)
      let tmp := vname (S k) in
      let k0 := k + match_tmps d arms in
      GCall (GFunc []
        [GSTypeSwitch (if has_case_var arms then Some tmp else None) (compile d k0 a)
           (ca uname tmp (k0 + nv d a) arms)
           (match def with
            | Some b => compile_block d (k0 + nv d a + nva d arms) b
            | None => [GSPanic panic_msg]
            end)]) []
  | EMatchS a arms bx last =>
      GCall (GFunc []
        [GSSwitch bx (compile d k a) (cs (k + nv d a) arms) (compile_block d (k + nv d a + nvs d arms) last)]) []
  | ESlice es => GSliceLit (cl k es)                                                      (* sliceToGo *)
  | EInterp parts => GCall (GLib LSInterP) (GStr (interp_fmt parts) :: interp_args parts) (* sinterpToGo *)
  | EBlock b => GCall (GFunc [] (compile_block d k b)) []                                 (* blockToGo *)
  end
(** blockToGoReturn / buildReturn *)
with compile_block (d:dialect) (k:nat) (b:block) {struct b} : list gstmt :=
  match b with
  | BLet x e b' => GSDefine [x] (compile d k e) :: compile_block d (k + nv d e) b'        (* lvdToGo *)
  | BDestr xs e b' =>                                                                     (* ldvdToGo *)
      GSDefine xs (GCall (GLib (destr_fn d (List.length xs))) [compile d k e]) :: compile_block d (k + nv d e) b'
  | BDo e b' => GSExpr (compile d k e) :: compile_block d (k + nv d e) b'
  | BRet e u =>
      let fix ca (uname:string) (tmp:var) (k:nat) (arms:list (string * option var * block)) {struct arms}
          : list (string * list gstmt) :=
          match arms with
          | [] => []
          | (c, bx, b) :: r =>
              (case_struct uname c, case_header tmp bx ++ compile_block d k b) :: ca uname tmp (k + nvb d b) r
          end in
      let fix cs (k:nat) (arms:list (string * block)) {struct arms} : list (string * list gstmt) :=
          match arms with
          | [] => []
          | (l, b) :: r => (l, compile_block d k b) :: cs (k + nvb d b) r
          end in
      match e with
      | EMatchU a uname arms def =>                                                       (* umrToGoReturn *)
          let tmp := vname (S k) in
          let k0 := k + match_tmps d arms in
          [GSTypeSwitch (if has_case_var arms then Some tmp else None) (compile d k0 a)
             (ca uname tmp (k0 + nv d a) arms)
             (match def with
              | Some b => compile_block d (k0 + nv d a + nva d arms) b
              | None => [GSPanic panic_msg]
              end)]
      | EMatchS a arms bx last =>                                                         (* smrToGoReturn *)
          [GSSwitch bx (compile d k a) (cs (k + nv d a) arms) (compile_block d (k + nv d a + nvs d arms) last)]
      | EBlock b' => compile_block d k b'
      | EUnit => if u then [] else [GSReturn GNone]
      | _ => [ret_stmt u (compile d k e)]
      end
  end.

(** the list functions, at top level (convertible with the local ones above) *)
Definition compile_list (d:dialect) : nat -> list expr -> list gexpr :=
  fix cl (k:nat) (es:list expr) {struct es} : list gexpr :=
    match es with [] => [] | e :: r => compile d k e :: cl (k + nv d e) r end.
Definition compile_arms (d:dialect) : string -> var -> nat -> list (string * option var * block) -> list (string * list gstmt) :=
  fix ca (uname:string) (tmp:var) (k:nat) (arms:list (string * option var * block)) {struct arms}
    : list (string * list gstmt) :=
    match arms with
    | [] => []
    | (c, bx, b) :: r =>
        (case_struct uname c, case_header tmp bx ++ compile_block d k b) :: ca uname tmp (k + nvb d b) r
    end.
Definition compile_sarms (d:dialect) : nat -> list (string * block) -> list (string * list gstmt) :=
  fix cs (k:nat) (arms:list (string * block)) {struct arms} : list (string * list gstmt) :=
    match arms with
    | [] => []
    | (l, b) :: r => (l, compile_block d k b) :: cs (k + nvb d b) r
    end.

Lemma compile_list_nil d k : compile_list d k [] = [].
Proof. reflexivity. Qed.
Lemma compile_list_cons d k e es : compile_list d k (e :: es) = compile d k e :: compile_list d (k + nv d e) es.
Proof. reflexivity. Qed.
Lemma compile_arms_nil d u tmp k : compile_arms d u tmp k [] = [].
Proof. reflexivity. Qed.
Lemma compile_arms_cons d u tmp k c bx b r :
  compile_arms d u tmp k ((c, bx, b) :: r) =
  (case_struct u c, case_header tmp bx ++ compile_block d k b) :: compile_arms d u tmp (k + nvb d b) r.
Proof. reflexivity. Qed.
Lemma compile_sarms_nil d k : compile_sarms d k [] = [].
Proof. reflexivity. Qed.
Lemma compile_sarms_cons d k l b r :
  compile_sarms d k ((l, b) :: r) = (l, compile_block d k b) :: compile_sarms d (k + nvb d b) r.
Proof. reflexivity. Qed.

(** the switch statements, shared by expression position (wrapped) and return position *)
Definition switch_u (d:dialect) (k:nat) (a:expr) (uname:string) (arms:list (string * option var * block)) (def:option block) : gstmt :=
  let tmp := vname (S k) in
  let k0 := k + match_tmps d arms in
  GSTypeSwitch (if has_case_var arms then Some tmp else None) (compile d k0 a)
    (compile_arms d uname tmp (k0 + nv d a) arms)
    (match def with
     | Some b => compile_block d (k0 + nv d a + nva d arms) b
     | None => [GSPanic panic_msg]
     end).
Definition switch_s (d:dialect) (k:nat) (a:expr) (arms:list (string * block)) (bx:option var) (last:block) : gstmt :=
  GSSwitch bx (compile d k a) (compile_sarms d (k + nv d a) arms) (compile_block d (k + nv d a + nvs d arms) last).

(** *** declarations *)
Definition ctor_funcs_of (u:udecl) : list (var * (list var * list gstmt)) :=
  flat_map (fun c : string * bool =>
              if snd c
              then [(ctor_name (fst u) (fst c),
                     (["v"%string], [GSReturn (GStructLit (case_struct (fst u) (fst c)) ["Value"%string] [("Value"%string, GVar "v"%string)])]))]
              else []) (snd u).
Definition ctor_vars_of (u:udecl) : list (var * gexpr) :=
  flat_map (fun c : string * bool =>
              if snd c then [] else [(ctor_name (fst u) (fst c), GStructLit (case_struct (fst u) (fst c)) [] [])])
           (snd u).

Fixpoint compile_funs (d:dialect) (k:nat) (fs:list (var * (list var * block))) : list (var * (list var * list gstmt)) :=
  match fs with
  | [] => []
  | (f, (ps, b)) :: r => (f, (ps, compile_block d k b)) :: compile_funs d (k + nvb d b) r
  end.
Fixpoint nvfuns (d:dialect) (fs:list (var * (list var * block))) : nat :=
  match fs with [] => 0 | (_, (_, b)) :: r => nvb d b + nvfuns d r end.

(** [start]: value of the temporary counter when emission begins *)
Definition compile_prog_d (d:dialect) (start:nat) (p:prog) : gprog := {|
  g_funcs := flat_map ctor_funcs_of (p_unions p) ++ compile_funs d start (p_funs p);
  g_vars := flat_map ctor_vars_of (p_unions p);
  g_main := compile_block d (start + nvfuns d (p_funs p)) (p_main p) |}.

(** fc *)
Definition compile_prog (p:prog) : gprog := compile_prog_d DFc 0 p.

