(** C10 — proofs about the model of frt.OpEqual / OpNotEqual (Equality.v). *)
From Coq Require Import List Ascii ZArith Bool Lia.
From FoVerif Require Import Pkg.Buf Core.Equality.
Import ListNotations.

(** * leaf equalities *)

Lemma byeq_eq : forall a b, byeq a b = true <-> a = b.
Proof.
  induction a as [|x a IH]; destruct b as [|y b]; cbn; split; intro H; try congruence; auto.
  - apply andb_true_iff in H. destruct H as [H1 H2].
    apply Ascii.eqb_eq in H1. apply IH in H2. congruence.
  - inversion H; subst. apply andb_true_iff. split; [apply Ascii.eqb_refl|apply IH; reflexivity].
Qed.

Lemma names_eq_eq : forall a b, names_eq a b = true <-> a = b.
Proof.
  induction a as [|x a IH]; destruct b as [|y b]; cbn; split; intro H; try congruence; auto.
  - apply andb_true_iff in H. destruct H as [H1 H2].
    apply byeq_eq in H1. apply IH in H2. congruence.
  - inversion H; subst. apply andb_true_iff. split; [apply byeq_eq; reflexivity|apply IH; reflexivity].
Qed.

(** * struct_eq is equality up to representation *)

(** forget the representation: every slice becomes non-nil *)
Fixpoint erase (a : val) : val :=
  match a with
  | VTuple l => VTuple (erase_list l)
  | VRecord n f l => VRecord n f (erase_list l)
  | VUnion u c l => VUnion u c (erase_list l)
  | VSlice _ l => VSlice false (erase_list l)
  | _ => a
  end
with erase_list (l : vals) : vals :=
  match l with
  | VNil => VNil
  | VCons a r => VCons (erase a) (erase_list r)
  end.

Lemma struct_eq_erase :
  (forall a b, struct_eq a b = true <-> erase a = erase b) /\
  (forall l1 l2, struct_eq_list l1 l2 = true <-> erase_list l1 = erase_list l2).
Proof.
  apply val_vals_ind.
  - intros z b. destruct b; cbn; try (split; intro; discriminate).
    rewrite Z.eqb_eq. split; congruence.
  - intros s b. destruct b; cbn; try (split; intro; discriminate).
    rewrite byeq_eq. split; congruence.
  - intros x b. destruct b; cbn; try (split; intro; discriminate).
    rewrite Bool.eqb_true_iff. split; congruence.
  - intros l IH b. destruct b; cbn; try (split; intro; discriminate).
    rewrite IH. split; congruence.
  - intros n f l IH b. destruct b; cbn; try (split; intro; discriminate).
    rewrite !andb_true_iff, byeq_eq, names_eq_eq, IH. split.
    + intros [[-> ->] ->]. reflexivity.
    + intro H. inversion H. auto.
  - intros u c l IH b. destruct b; cbn; try (split; intro; discriminate).
    rewrite !andb_true_iff, !byeq_eq, IH. split.
    + intros [[-> ->] ->]. reflexivity.
    + intro H. inversion H. auto.
  - intros n l IH b. destruct b; cbn; try (split; intro; discriminate).
    rewrite IH. split; congruence.
  - intros l2. destruct l2; cbn; split; intro; try discriminate; reflexivity.
  - intros a IHa r IHr l2. destruct l2; cbn; try (split; intro; discriminate).
    rewrite andb_true_iff, IHa, IHr. split.
    + intros [-> ->]. reflexivity.
    + intro H. inversion H. auto.
Qed.

Theorem struct_eq_iff_erase : forall a b, struct_eq a b = true <-> erase a = erase b.
Proof. exact (proj1 struct_eq_erase). Qed.

Theorem struct_eq_refl : forall a, struct_eq a a = true.
Proof. intro a. apply struct_eq_iff_erase. reflexivity. Qed.

Theorem struct_eq_sym : forall a b, struct_eq a b = struct_eq b a.
Proof.
  intros a b. destruct (struct_eq a b) eqn:E1, (struct_eq b a) eqn:E2; try reflexivity.
  - apply struct_eq_iff_erase in E1. symmetry in E1. apply struct_eq_iff_erase in E1. congruence.
  - apply struct_eq_iff_erase in E2. symmetry in E2. apply struct_eq_iff_erase in E2. congruence.
Qed.

Theorem struct_eq_trans : forall a b c,
  struct_eq a b = true -> struct_eq b c = true -> struct_eq a c = true.
Proof.
  intros a b c H1 H2. apply struct_eq_iff_erase in H1. apply struct_eq_iff_erase in H2.
  apply struct_eq_iff_erase. congruence.
Qed.

(** * cmp.Equal with Exporter + EquateEmpty is struct_eq, and never panics *)

Lemma struct_eq_list_length : forall l1 l2, vlen l1 <> vlen l2 -> struct_eq_list l1 l2 = false.
Proof.
  induction l1 as [|a r IH]; destruct l2 as [|c r2]; cbn; intro H; try reflexivity; try lia.
  rewrite IH by lia. apply andb_false_r.
Qed.

Lemma go_equal_now :
  (forall a b, go_equal opts_now a b = Ok (struct_eq a b)) /\
  (forall l1,
     match l1 with VCons a _ => forall b, go_equal opts_now a b = Ok (struct_eq a b) | VNil => True end /\
     forall l2, vlen l1 = vlen l2 ->
     go_equal_exported opts_now l1 l2 = Ok (struct_eq_list l1 l2) /\
     (forall names, go_equal_fields opts_now names l1 l2 = Ok (struct_eq_list l1 l2)) /\
     go_equal_elems opts_now l1 l2 = Ok (struct_eq_list l1 l2)).
Proof.
  apply val_vals_ind.
  - intros z b. destruct b; reflexivity.
  - intros s b. destruct b; reflexivity.
  - intros x b. destruct b; reflexivity.
  - intros l IH b. destruct b as [| | |l2| | |]; try reflexivity. cbn [go_equal struct_eq].
    destruct (Nat.eqb (vlen l) (vlen l2)) eqn:E.
    + apply Nat.eqb_eq in E. apply (proj2 IH l2 E).
    + apply Nat.eqb_neq in E. rewrite struct_eq_list_length by exact E. reflexivity.
  - intros n f l IH b. destruct b as [| | | |n2 f2 l2| |]; try reflexivity. cbn [go_equal struct_eq].
    destruct (byeq n n2 && names_eq f f2) eqn:E1; cbn [andb]; [|reflexivity].
    destruct (Nat.eqb (vlen l) (vlen l2)) eqn:E.
    + apply Nat.eqb_eq in E. apply (proj2 IH l2 E).
    + apply Nat.eqb_neq in E. rewrite struct_eq_list_length by exact E. reflexivity.
  - intros u c l IH b. destruct b as [| | | | |u2 c2 l2|]; try reflexivity. cbn [go_equal struct_eq].
    destruct (byeq u u2 && byeq c c2) eqn:E1; cbn [andb]; [|reflexivity].
    destruct (Nat.eqb (vlen l) (vlen l2)) eqn:E.
    + apply Nat.eqb_eq in E. apply (proj2 IH l2 E).
    + apply Nat.eqb_neq in E. rewrite struct_eq_list_length by exact E. reflexivity.
  - intros n l IH b. destruct b as [| | | | | |n2 l2]; try reflexivity. cbn [go_equal struct_eq].
    cbn [equate_empty opts_now andb].
    destruct l as [|a r], l2 as [|a2 r2]; cbn [is_empty andb orb].
    + reflexivity.
    + rewrite andb_false_r, orb_false_r. destruct n; reflexivity.
    + rewrite !andb_false_r. cbn [orb]. destruct n2; reflexivity.
    + rewrite !andb_false_r. cbn [orb].
      destruct (Nat.eqb (vlen (VCons a r)) (vlen (VCons a2 r2))) eqn:E.
      * apply Nat.eqb_eq in E. apply (proj2 IH (VCons a2 r2) E).
      * apply Nat.eqb_neq in E. rewrite struct_eq_list_length by exact E.
        rewrite (proj1 IH a2). cbn [both]. rewrite andb_false_r. reflexivity.
  - split; [exact I|]. intros l2 H. destruct l2; [|discriminate]. repeat split.
  - intros a IHa r IHr. split; [exact IHa|]. intros l2 H. destruct l2 as [|a2 r2]; [discriminate|]. cbn in H.
    assert (H' : vlen r = vlen r2) by lia.
    destruct (proj2 IHr r2 H') as [E1 [E2 E3]].
    cbn [go_equal_exported go_equal_fields go_equal_elems struct_eq_list].
    rewrite IHa, E1, E3. repeat split.
    intro names. rewrite E2. cbn [exporter opts_now]. rewrite orb_true_r. rewrite ?IHa. reflexivity.
Qed.

Theorem op_equal_is_struct_eq : forall a b, op_equal a b = Ok (struct_eq a b).
Proof. exact (proj1 go_equal_now). Qed.

Theorem op_not_equal_is_negation : forall a b, op_not_equal a b = Ok (negb (struct_eq a b)).
Proof. intros a b. unfold op_not_equal. rewrite op_equal_is_struct_eq. reflexivity. Qed.

(** representation is invisible: rebuilding any slice by another library path changes nothing *)
Theorem op_equal_ignores_representation : forall a a' b,
  erase a = erase a' -> op_equal a b = op_equal a' b.
Proof.
  intros a a' b H. rewrite !op_equal_is_struct_eq. f_equal.
  destruct (struct_eq a b) eqn:E1, (struct_eq a' b) eqn:E2; try reflexivity.
  - apply struct_eq_iff_erase in E1. rewrite H in E1. apply struct_eq_iff_erase in E1. congruence.
  - apply struct_eq_iff_erase in E2. rewrite <- H in E2. apply struct_eq_iff_erase in E2. congruence.
Qed.
