(** C01 — MiniGo: the fragment of Go that fc emits, with a fuelled big-step semantics.

    Hand model of Go (trusted, exercised against the real toolchain by the correspondence):
    - operands of a call / composite literal / binary operator are evaluated left to right, then the
      call happens; [&&] and [||] evaluate their right operand only when needed;
    - a keyed composite literal evaluates its operands in the order written and yields a struct whose fields
      are laid out in the order of the type declaration;
    - a function literal captures its environment (all variables are immutable after [:=]);
    - a function body that ends without [return] yields no value ([GVUnit] here);
    - a type switch [switch x := (e).(type)] selects the first case whose type is the dynamic type of
      [e] (union cases are distinct struct types named [Union_Case]) and binds [x] in the clause;
    - an expression switch on strings selects the first equal case, else [default];
    - [int] is 64 bit two's complement;
    - the runtime functions of [frt], [slice], [strings] are builtins with the list-level
      specifications of Core/Lib.v (callbacks are applied through this evaluator). *)
From Coq Require Import List ZArith String Ascii Bool.
From FoVerif Require Import Core.Common Core.Lib.
Import ListNotations.
Open Scope list_scope.

Inductive gexpr :=
| GInt (z:Z) | GStr (s:string) | GBool (b:bool)
| GNone                                         (* the empty text fc emits for [()] *)
| GVar (x:var)
| GLib (fn:libfn)                               (* frt.F / slice.F / strings.F *)
| GBin (op:binop) (a b:gexpr)
| GFunc (ps:list var) (body:list gstmt)         (* func (ps) T { body } *)
| GCall (f:gexpr) (args:list gexpr)
| GStructLit (tname:string) (decl:list string) (fs:list (string * gexpr))
    (* T{f: e, …} as written (also T{e} for union cases); decl: the fields of [type T struct] in declaration order *)
| GSliceLit (es:list gexpr)                     (* []T{e, …} *)
| GSel (e:gexpr) (f:string)                     (* e.f *)
with gstmt :=
| GSDefine (xs:list var) (e:gexpr)              (* x := e   /   x, y := e (multi-value call) *)
| GSExpr (e:gexpr)
| GSReturn (e:gexpr)
| GSTypeSwitch (bx:option var) (e:gexpr) (cases:list (string * list gstmt)) (def:list gstmt)
| GSSwitch (bx:option var) (e:gexpr) (cases:list (string * list gstmt)) (def:list gstmt)
| GSPanic (msg:string).

Inductive gval :=
| GVInt (z:Z) | GVStr (s:string) | GVBool (b:bool) | GVUnit
| GVStruct (tname:string) (fs:list (string * gval))
| GVSlice (vs:list gval)
| GVClo (env:list (var * gval)) (ps:list var) (body:list gstmt)
| GVLib (fn:libfn)
| GVMulti (vs:list gval).                       (* the results of a multi-value call *)

Definition genv := list (var * gval).

Record gprog := {
  g_funcs : list (var * (list var * list gstmt));   (* package-level funcs (generated constructors, user functions) *)
  g_vars : list (var * gexpr);                      (* package-level vars (constructors of payload-less cases) *)
  g_main : list gstmt                               (* body of func main() *)
}.

(** go-cmp Equal (with the options of frt.OpEqual) on the value shapes fc produces *)
Fixpoint gval_eq (a b:gval) {struct a} : option bool :=
  let fix list_eq (xs ys:list gval) {struct xs} : option bool :=
      match xs, ys with
      | [], [] => Some true
      | x :: xs', y :: ys' =>
          match gval_eq x y with
          | Some true => list_eq xs' ys'
          | Some false => match list_eq xs' ys' with Some _ => Some false | None => None end
          | None => None
          end
      | _, _ => Some false
      end in
  let fix fields_eq (xs ys:list (string*gval)) {struct xs} : option bool :=
      match xs, ys with
      | [], [] => Some true
      | (f, x) :: xs', (g, y) :: ys' =>
          if String.eqb f g then
            match gval_eq x y with
            | Some true => fields_eq xs' ys'
            | Some false => match fields_eq xs' ys' with Some _ => Some false | None => None end
            | None => None
            end
          else None
      | _, _ => None
      end in
  match a, b with
  | GVInt x, GVInt y => Some (Z.eqb x y)
  | GVStr x, GVStr y => Some (String.eqb x y)
  | GVBool x, GVBool y => Some (Bool.eqb x y)
  | GVUnit, GVUnit => Some true
  | GVStruct n fs, GVStruct m gs => if String.eqb n m then fields_eq fs gs else Some false
  | GVSlice xs, GVSlice ys => list_eq xs ys
  | _, _ => None
  end.

Definition is_tuple_struct (n:string) : bool :=
  String.eqb n (tuple_struct 2) || String.eqb n (tuple_struct 3).

Definition gops : vops gval := {|
  mkInt := GVInt; mkStr := GVStr; mkBool := GVBool; mkUnit := GVUnit;
  mkSlice := GVSlice;
  mkTuple := fun l => GVStruct (tuple_struct (List.length l)) (combine tuple_fields l);
  mkMulti := GVMulti;
  asInt := fun v => match v with GVInt z => Some z | _ => None end;
  asStr := fun v => match v with GVStr s => Some s | _ => None end;
  asBool := fun v => match v with GVBool b => Some b | _ => None end;
  asSlice := fun v => match v with GVSlice l => Some l | _ => None end;
  asTuple := fun v => match v with
                      | GVStruct n fs => if is_tuple_struct n then Some (map snd fs) else None
                      | _ => None end;
  veq := gval_eq |}.

Fixpoint find_case (n:string) (cases:list (string * list gstmt)) : option (list gstmt) :=
  match cases with
  | [] => None
  | (c, ss) :: r => if String.eqb n c then Some ss else find_case n r
  end.

Definition gfundefs := list (var * (list var * list gstmt)).
Definition gvardefs := list (var * gexpr).

Fixpoint geval (funcs:gfundefs) (vars:gvardefs) (n:nat) (env:genv) (e:gexpr) (t:trace) {struct n} : res gval :=
  match n with O => Fuel | S n =>
  match e with
  | GInt z => Done (GVInt z) t
  | GStr s => Done (GVStr s) t
  | GBool b => Done (GVBool b) t
  | GNone => Done GVUnit t
  | GVar x =>
      match lookup x env with
      | Some v => Done v t
      | None =>
          match lookup x funcs with
          | Some (ps, body) => Done (GVClo [] ps body) t
          | None =>
              match lookup x vars with
              | Some init => geval funcs vars n [] init t
              | None => Stuck "undefined name"
              end
          end
      end
  | GLib fn => Done (GVLib fn) t
  | GBin OAnd a b =>
      doo va, t1 <- geval funcs vars n env a t;
      match va with
      | GVBool true => doo vb, t2 <- geval funcs vars n env b t1;
                       match vb with GVBool y => Done (GVBool y) t2 | _ => Stuck "&&: operand" end
      | GVBool false => Done (GVBool false) t1
      | _ => Stuck "&&: operand"
      end
  | GBin OOr a b =>
      doo va, t1 <- geval funcs vars n env a t;
      match va with
      | GVBool true => Done (GVBool true) t1
      | GVBool false => doo vb, t2 <- geval funcs vars n env b t1;
                        match vb with GVBool y => Done (GVBool y) t2 | _ => Stuck "||: operand" end
      | _ => Stuck "||: operand"
      end
  | GBin op a b =>
      doo va, t1 <- geval funcs vars n env a t;
      doo vb, t2 <- geval funcs vars n env b t1;
      of_opt (arith_why gops op va vb) (arith gops op va vb) t2
  | GFunc ps body => Done (GVClo env ps body) t
  | GCall f args =>
      doo fv, t0 <- geval funcs vars n env f t;
      doo vs, t1 <- gevals funcs vars n env args t0;
      gapply funcs vars n fv vs t1
  | GStructLit tname decl fs =>
      (* operands in the order written; the struct value has the layout of the type declaration *)
      doo vs, t1 <- gevals funcs vars n env (map snd fs) t;
      match arrange decl (combine (map fst fs) vs) with
      | Some gfs => Done (GVStruct tname gfs) t1
      | None => Stuck "composite literal: missing field"
      end
  | GSliceLit es => doo vs, t1 <- gevals funcs vars n env es t; Done (GVSlice vs) t1
  | GSel e f =>
      doo v, t1 <- geval funcs vars n env e t;
      match v with
      | GVStruct _ fs => of_opt "no such field" (lookup f fs) t1
      | _ => Stuck "selector: not a struct"
      end
  end end
with gevals (funcs:gfundefs) (vars:gvardefs) (n:nat) (env:genv) (es:list gexpr) (t:trace) {struct n} : res (list gval) :=
  match n with O => Fuel | S n =>
  match es with
  | [] => Done [] t
  | e :: r => doo v, t1 <- geval funcs vars n env e t; doo vs, t2 <- gevals funcs vars n env r t1; Done (v :: vs) t2
  end end
(** statements: [Some v] = returned [v]; [None] = fell off the end *)
with gexec (funcs:gfundefs) (vars:gvardefs) (n:nat) (env:genv) (ss:list gstmt) (t:trace) {struct n} : res (option gval) :=
  match n with O => Fuel | S n =>
  match ss with
  | [] => Done None t
  | GSDefine xs e :: r =>
      doo v, t1 <- geval funcs vars n env e t;
      match xs with
      | [x] => gexec funcs vars n ((x, v) :: env) r t1
      | _ => match v with
             | GVMulti vs => match bind xs vs env with
                             | Some env' => gexec funcs vars n env' r t1
                             | None => Stuck ":= : assignment mismatch"
                             end
             | _ => Stuck ":= : not a multi-value call"
             end
      end
  | GSExpr e :: r => doo v, t1 <- geval funcs vars n env e t; gexec funcs vars n env r t1
  | GSReturn e :: _ => doo v, t1 <- geval funcs vars n env e t; Done (Some v) t1
  | GSTypeSwitch bx e cases def :: r =>
      doo v, t1 <- geval funcs vars n env e t;
      match v with
      | GVStruct tname _ =>
          let env' := match bx with Some x => (x, v) :: env | None => env end in
          let body := match find_case tname cases with Some ss' => ss' | None => def end in
          doo o, t2 <- gexec funcs vars n env' body t1;
          match o with
          | Some rv => Done (Some rv) t2
          | None => gexec funcs vars n env r t2
          end
      | _ => Stuck "type switch: not a union value"
      end
  | GSSwitch bx e cases def :: r =>
      doo v, t1 <- geval funcs vars n env e t;
      match v with
      | GVStr s =>
          let env' := match bx with Some x => (x, v) :: env | None => env end in
          let body := match find_case s cases with Some ss' => ss' | None => def end in
          doo o, t2 <- gexec funcs vars n env' body t1;
          match o with
          | Some rv => Done (Some rv) t2
          | None => gexec funcs vars n env r t2
          end
      | _ => Stuck "switch: not a string"
      end
  | GSPanic msg :: _ => Stuck ("panic: " ++ msg)
  end end
with gapply (funcs:gfundefs) (vars:gvardefs) (n:nat) (f:gval) (vs:list gval) (t:trace) {struct n} : res gval :=
  match n with O => Fuel | S n =>
  match f with
  | GVClo env ps body =>
      match bind ps vs env with
      | Some env' =>
          doo o, t1 <- gexec funcs vars n env' body t;
          Done (match o with Some v => v | None => GVUnit end) t1
      | None => Stuck "call: arity"
      end
  | GVLib fn => lib_sem gops (gapply funcs vars n) fn vs t
  | _ => Stuck "call: not a function"
  end end.



Definition run_go (n:nat) (p:gprog) : outcome :=
  match gapply (g_funcs p) (g_vars p) n (GVClo [] [] (g_main p)) [] [] with
  | Done _ t => ODone (output t)
  | Stuck w => OStuck w
  | Fuel => OFuel
  end.
