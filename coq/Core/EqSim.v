(** C01 — structural equality ([=] / frt.OpEqual) agrees on related first-order values *)
From Coq Require Import List ZArith String Ascii Bool Lia.
From FoVerif Require Import Core.Common Core.CommonProofs Core.Lib Core.MiniFo Core.MiniGo Core.Compile
  Core.GoRules Core.SimDefs Core.SimLemmas.
Import ListNotations.
Open Scope list_scope.

(** induction principle for values with nested lists *)
Section val_ind'.
Variable P : val -> Prop.
Hypothesis Hint : forall z, P (VInt z).
Hypothesis Hstr : forall s, P (VStr s).
Hypothesis Hbool : forall b, P (VBool b).
Hypothesis Hunit : P VUnit.
Hypothesis Htuple : forall vs, Forall P vs -> P (VTuple vs).
Hypothesis Hrec : forall n fs, Forall (fun p => P (snd p)) fs -> P (VRec n fs).
Hypothesis Hunion0 : forall u c, P (VUnion u c None).
Hypothesis Hunion1 : forall u c v, P v -> P (VUnion u c (Some v)).
Hypothesis Hslice : forall vs, Forall P vs -> P (VSlice vs).
Hypothesis Hclo : forall env ps b, P (VClo env ps b).
Hypothesis Hpap : forall f args m u, P (VPap f args m u).

Fixpoint val_ind' (v:val) : P v :=
  match v with
  | VInt z => Hint z
  | VStr s => Hstr s
  | VBool b => Hbool b
  | VUnit => Hunit
  | VTuple vs =>
      Htuple vs ((fix go (l:list val) : Forall P l :=
                    match l with [] => Forall_nil _ | x :: r => Forall_cons _ (val_ind' x) (go r) end) vs)
  | VRec n fs =>
      Hrec n fs ((fix go (l:list (string*val)) : Forall (fun p => P (snd p)) l :=
                    match l with [] => Forall_nil _ | x :: r => Forall_cons _ (val_ind' (snd x)) (go r) end) fs)
  | VUnion u c None => Hunion0 u c
  | VUnion u c (Some v) => Hunion1 u c v (val_ind' v)
  | VSlice vs =>
      Hslice vs ((fix go (l:list val) : Forall P l :=
                    match l with [] => Forall_nil _ | x :: r => Forall_cons _ (val_ind' x) (go r) end) vs)
  | VClo env ps b => Hclo env ps b
  | VPap f args m u => Hpap f args m u
  end.
End val_ind'.

(** the local list functions of [val_eq] / [gval_eq], at top level *)
Fixpoint vlist_eq (xs ys:list val) {struct xs} : option bool :=
  match xs, ys with
  | [], [] => Some true
  | x :: xs', y :: ys' =>
      match val_eq x y with
      | Some true => vlist_eq xs' ys'
      | Some false => match vlist_eq xs' ys' with Some _ => Some false | None => None end
      | None => None
      end
  | _, _ => Some false
  end.
Fixpoint vfields_eq (xs ys:list (string*val)) {struct xs} : option bool :=
  match xs, ys with
  | [], [] => Some true
  | (f, x) :: xs', (g, y) :: ys' =>
      if String.eqb f g then
        match val_eq x y with
        | Some true => vfields_eq xs' ys'
        | Some false => match vfields_eq xs' ys' with Some _ => Some false | None => None end
        | None => None
        end
      else None
  | _, _ => None
  end.
Fixpoint glist_eq (xs ys:list gval) {struct xs} : option bool :=
  match xs, ys with
  | [], [] => Some true
  | x :: xs', y :: ys' =>
      match gval_eq x y with
      | Some true => glist_eq xs' ys'
      | Some false => match glist_eq xs' ys' with Some _ => Some false | None => None end
      | None => None
      end
  | _, _ => Some false
  end.
Fixpoint gfields_eq (xs ys:list (string*gval)) {struct xs} : option bool :=
  match xs, ys with
  | [], [] => Some true
  | (f, x) :: xs', (g, y) :: ys' =>
      if String.eqb f g then
        match gval_eq x y with
        | Some true => gfields_eq xs' ys'
        | Some false => match gfields_eq xs' ys' with Some _ => Some false | None => None end
        | None => None
        end
      else None
  | _, _ => None
  end.

Lemma val_eq_tuple xs ys :
  val_eq (VTuple xs) (VTuple ys) = if Nat.eqb (List.length xs) (List.length ys) then vlist_eq xs ys else None.
Proof. reflexivity. Qed.
Lemma val_eq_slice xs ys : val_eq (VSlice xs) (VSlice ys) = vlist_eq xs ys.
Proof. reflexivity. Qed.
Lemma val_eq_rec n fs m gs : val_eq (VRec n fs) (VRec m gs) = if String.eqb n m then vfields_eq fs gs else None.
Proof. reflexivity. Qed.
Lemma gval_eq_struct n fs m gs :
  gval_eq (GVStruct n fs) (GVStruct m gs) = if String.eqb n m then gfields_eq fs gs else Some false.
Proof. reflexivity. Qed.
Lemma gval_eq_slice xs ys : gval_eq (GVSlice xs) (GVSlice ys) = glist_eq xs ys.
Proof. reflexivity. Qed.

Section EqSim.
Variable d : dialect.
Variable ctor_ok : string -> string -> bool -> Prop.

Variable gfuncs : list (var * (list var * list gstmt)).
Notation vrel := (vrel d ctor_ok gfuncs).

Definition eq_ok (va:val) : Prop :=
  forall vb ga gb r, vrel va ga -> vrel vb gb -> val_eq va vb = Some r -> gval_eq ga gb = Some r.

Lemma list_eq_sim : forall xs, Forall eq_ok xs -> forall ys gxs gys r,
  Forall2 vrel xs gxs -> Forall2 vrel ys gys -> vlist_eq xs ys = Some r -> glist_eq gxs gys = Some r.
Proof.
  induction xs as [|x xs IH]; intros F ys gxs gys r Vx Vy H; inversion Vx as [|? gx ? gxs' Vgx Vgxs]; subst.
  - destruct ys; inversion Vy; subst; cbn in *; exact H.
  - inversion F as [|? ? Fx Fxs]; subst.
    destruct ys as [|yy ys]; inversion Vy as [|? gy ? gys' Vgy Vgys]; subst; cbn in H |- *; [exact H|].
    destruct (val_eq x yy) as [[|]|] eqn:Q; try discriminate.
    + rewrite (Fx _ _ _ _ ltac:(eassumption) ltac:(eassumption) Q). eapply IH; eauto.
    + rewrite (Fx _ _ _ _ ltac:(eassumption) ltac:(eassumption) Q).
      destruct (vlist_eq xs ys) as [r'|] eqn:Q2; [|discriminate].
      rewrite (IH Fxs _ _ _ _ ltac:(eassumption) ltac:(eassumption) Q2). exact H.
Qed.

Lemma tuple_eq_sim : forall xs, Forall eq_ok xs -> forall ys gxs gys r (F:list string),
  Forall2 vrel xs gxs -> Forall2 vrel ys gys -> List.length xs = List.length ys ->
  List.length xs <= List.length F ->
  vlist_eq xs ys = Some r -> gfields_eq (combine F gxs) (combine F gys) = Some r.
Proof.
  induction xs as [|x xs IH]; intros Fo ys gxs gys r F Vx Vy L LF H; inversion Vx as [|? gx ? gxs' Vgx Vgxs]; subst.
  - destruct ys; [|discriminate L]. inversion Vy; subst. destruct F; cbn in *; exact H.
  - inversion Fo as [|? ? Fx Fxs]; subst.
    destruct ys as [|yy ys]; [discriminate L|]. inversion Vy as [|? gy ? gys' Vgy Vgys]; subst.
    destruct F as [|f F]; [cbn in LF; lia|]. cbn in H |- *. rewrite String.eqb_refl.
    cbn in L, LF.
    destruct (val_eq x yy) as [[|]|] eqn:Q; try discriminate.
    + rewrite (Fx _ _ _ _ ltac:(eassumption) ltac:(eassumption) Q). eapply IH; eauto; lia.
    + rewrite (Fx _ _ _ _ ltac:(eassumption) ltac:(eassumption) Q).
      destruct (vlist_eq xs ys) as [r'|] eqn:Q2; [|discriminate].
      rewrite (IH Fxs _ _ _ _ F ltac:(eassumption) ltac:(eassumption) ltac:(lia) ltac:(lia) Q2). exact H.
Qed.

Lemma fields_eq_sim : forall fs, Forall (fun p => eq_ok (snd p)) fs -> forall gs gfs ggs r,
  Forall2 (fun a b => fst a = fst b /\ vrel (snd a) (snd b)) fs gfs ->
  Forall2 (fun a b => fst a = fst b /\ vrel (snd a) (snd b)) gs ggs ->
  vfields_eq fs gs = Some r -> gfields_eq gfs ggs = Some r.
Proof.
  induction fs as [|[f x] fs IH]; intros Fo gs gfs ggs r Vx Vy H;
    inversion Vx as [|? [f' gx] ? gfs' [Ef Vgx] Vgfs]; subst.
  - destruct gs; inversion Vy; subst; cbn in *; [exact H|discriminate].
  - inversion Fo as [|? ? Fx Fxs]; subst. cbn in Fx, Ef, Vgx. subst f'.
    destruct gs as [|[g yy] gs]; inversion Vy as [|? [g' gy] ? ggs' [Eg Vgy] Vggs]; subst; cbn in H; [discriminate|].
    cbn in Eg, Vgy. subst g'.
    cbn. destruct (String.eqb f g); [|discriminate].
    destruct (val_eq x yy) as [[|]|] eqn:Q; try discriminate.
    + rewrite (Fx _ _ _ _ Vgx Vgy Q). eapply IH; eauto.
    + rewrite (Fx _ _ _ _ Vgx Vgy Q).
      destruct (vfields_eq fs gs) as [r'|] eqn:Q2; [|discriminate].
      rewrite (IH Fxs _ _ _ _ ltac:(eassumption) ltac:(eassumption) Q2). exact H.
Qed.

Lemma veq_sim : forall va, eq_ok va.
Proof.
  induction va using val_ind'; intros vb ga gb r Va Vb Hq.
  - destruct vb; try discriminate. inversion Va; inversion Vb; subst. exact Hq.
  - destruct vb; try discriminate. inversion Va; inversion Vb; subst. exact Hq.
  - destruct vb; try discriminate. inversion Va; inversion Vb; subst. exact Hq.
  - destruct vb; try discriminate. inversion Va; inversion Vb; subst. exact Hq.
  - (* tuples *)
    destruct vb as [| | | |ys| | | | |]; try discriminate.
    rewrite val_eq_tuple in Hq.
    destruct (Nat.eqb (List.length vs) (List.length ys)) eqn:L; [|discriminate]. apply Nat.eqb_eq in L.
    inversion Va as [| | | |? gxs Vxs Tx| | | | | |]; inversion Vb as [| | | |? gys Vys Ty| | | | | |]; subst.
    rewrite gval_eq_struct.
    rewrite <- (Forall2_length' _ _ _ Vxs), <- (Forall2_length' _ _ _ Vys), L, String.eqb_refl.
    eapply tuple_eq_sim; eauto.
    destruct Tx as [Tx|Tx]; rewrite Tx; cbn; lia.
  - (* records *)
    destruct vb as [| | | | |m gs| | | |]; try discriminate.
    rewrite val_eq_rec in Hq. destruct (String.eqb n m) eqn:En; [|discriminate].
    inversion Va; inversion Vb; subst. rewrite gval_eq_struct, En.
    eapply fields_eq_sim; eauto.
  - (* union, no payload *)
    destruct vb as [| | | | | |u' c' p'| | |]; try discriminate. cbn in Hq.
    destruct (String.eqb u u') eqn:Eu; [|discriminate]. apply String.eqb_eq in Eu; subst u'.
    inversion Va; subst.
    inversion Vb; subst; rewrite gval_eq_struct, case_struct_eqb;
      destruct (String.eqb c c') eqn:Ec; try exact Hq; try discriminate Hq.
  - (* union, payload *)
    destruct vb as [| | | | | |u' c' p'| | |]; try discriminate. cbn in Hq.
    destruct (String.eqb u u') eqn:Eu; [|discriminate]. apply String.eqb_eq in Eu; subst u'.
    inversion Va; subst.
    inversion Vb; subst; rewrite gval_eq_struct, case_struct_eqb;
      destruct (String.eqb c c') eqn:Ec; try exact Hq; try discriminate Hq.
    cbn. rewrite (IHva _ _ _ _ ltac:(eassumption) ltac:(eassumption) Hq). destruct r; reflexivity.
  - (* slices *)
    destruct vb as [| | | | | | |ys| |]; try discriminate.
    rewrite val_eq_slice in Hq. inversion Va; inversion Vb; subst. rewrite gval_eq_slice.
    eapply list_eq_sim; eauto.
  - destruct vb; discriminate.
  - destruct vb; discriminate.
Qed.

End EqSim.
