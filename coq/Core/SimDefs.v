(** C01 — definitions for the simulation proof: well-formedness (the proved fragment), purity of
    partial-application arguments, the value / environment relations. *)
From Coq Require Import List ZArith String Ascii Bool Lia.
From FoVerif Require Import Core.Common Core.CommonProofs Core.Lib Core.MiniFo Core.MiniGo Core.Compile Core.GoRules.
Import ListNotations.
Open Scope list_scope.

(** arguments that may be supplied to a partial application: fc re-evaluates them at every call of the
    closure it emits, so the theorem requires them to be effect-free and re-evaluable *)
Inductive pure : expr -> Prop :=
| P_int z : pure (EInt z)
| P_str s : pure (EStr s)
| P_bool b : pure (EBool b)
| P_var x : pure (EVar x)
| P_lam ps b : pure (ELam ps b)
| P_pap f k u args : pure (ECall f (S k) u args)
(* effect-free, always terminating constructions over such arguments *)
| P_bin op a b : pure a -> pure b -> pure (EBin op a b)
| P_eq neg a b : pure a -> pure b -> pure (EEq neg a b)
| P_not a : pure a -> pure (ENot a)
| P_tuple es : Forall pure es -> pure (ETuple es)
| P_record n decl fs es : Forall pure es -> pure (ERecord n decl fs es)
| P_field e f : pure e -> pure (EField e f)
| P_ctor0 u c : pure (ECtor u c None)
| P_ctor1 u c a : pure a -> pure (ECtor u c (Some a))
| P_slice es : Forall pure es -> pure (ESlice es).

Definition two_or_three (n:nat) : Prop := n = 2 \/ n = 3.

(** a record literal mentions every declared field exactly once, in any order *)
Definition fields_ok (written decl:list string) : Prop :=
  NoDup written /\ NoDup decl /\ List.length written = List.length decl /\ incl written decl.

Section WF.
(** [strict = true] additionally demands [pure] arguments in partial applications *)
Variable strict : bool.
(** [ctor_ok u c p]: union [u] declares case [c], with a payload iff [p] *)
Variable ctor_ok : string -> string -> bool -> Prop.

(** The proved fragment.  Every construct of MiniFo has a rule; the side conditions are:
    binders and referenced variables are not reserved ([_…], [New_…]); both branches of an [if] agree on
    being unit; tuples / destructurings have 2 or 3 components; constructors are declared;
    library functions are source-level ones; a record literal mentions every declared field once. *)
Inductive wfe : expr -> Prop :=
| W_int z : wfe (EInt z)
| W_str s : wfe (EStr s)
| W_bool b : wfe (EBool b)
| W_unit : wfe EUnit
| W_var x : reserved x = false -> wfe (EVar x)
| W_bin op a b : wfe a -> wfe b -> wfe (EBin op a b)
| W_eq neg a b : wfe a -> wfe b -> wfe (EEq neg a b)
| W_not a : wfe a -> wfe (ENot a)
| W_if c bt bf : wfe c -> wfb bt -> wfb bf -> block_unit bt = block_unit bf -> wfe (EIf c bt bf)
| W_ifonly c bt : wfe c -> wfb bt -> wfe (EIfOnly c bt)
| W_lam ps b : Forall (fun p => reserved p = false) ps -> wfb b -> wfe (ELam ps b)
| W_call f u args : reserved f = false -> Forall wfe args -> wfe (ECall f O u args)
| W_pap f k u args :
    reserved f = false -> Forall wfe args -> (strict = true -> Forall pure args) ->
    wfe (ECall f (S k) u args)
| W_ext fn args : src_fn fn = true -> Forall wfe args -> wfe (EExt fn args)
| W_pipevar a f u : wfe a -> reserved f = false -> wfe (EPipeVar a f u)
| W_pipecall a f args u : wfe a -> reserved f = false -> Forall wfe args -> wfe (EPipeCall a f args u)
| W_pipeext a fn args u : wfe a -> src_fn fn = true -> Forall wfe args -> wfe (EPipeExt a fn args u)
| W_tuple es : Forall wfe es -> two_or_three (List.length es) -> wfe (ETuple es)
| W_record name decl fields es :
    Forall wfe es -> fields_ok fields decl -> wfe (ERecord name decl fields es)
| W_field e f : wfe e -> wfe (EField e f)
| W_ctor0 u c : ctor_ok u c false -> wfe (ECtor u c None)
| W_ctor1 u c a : ctor_ok u c true -> wfe a -> wfe (ECtor u c (Some a))
| W_matchu e u arms def :
    wfe e ->
    Forall (fun arm : string * option var * block =>
              match snd (fst arm) with Some x => reserved x = false | None => True end /\ wfb (snd arm)) arms ->
    (forall b, def = Some b -> wfb b) ->
    wfe (EMatchU e u arms def)
| W_matchs e arms bx last :
    wfe e -> Forall (fun arm : string * block => wfb (snd arm)) arms ->
    match bx with Some x => reserved x = false | None => True end -> wfb last ->
    wfe (EMatchS e arms bx last)
| W_slice es : Forall wfe es -> wfe (ESlice es)
| W_interp parts :
    Forall (fun p : string + var => match p with inr x => reserved x = false | inl _ => True end) parts ->
    wfe (EInterp parts)
| W_block b : wfb b -> wfe (EBlock b)
with wfb : block -> Prop :=
| WB_let x e b : reserved x = false -> wfe e -> wfb b -> wfb (BLet x e b)
| WB_destr xs e b :
    Forall (fun p => reserved p = false) xs -> two_or_three (List.length xs) -> wfe e -> wfb b ->
    wfb (BDestr xs e b)
| WB_do e b : wfe e -> wfb b -> wfb (BDo e b)
| WB_ret e u : wfe e -> wfb (BRet e u).

End WF.

Definition ctor_declared (unions:list udecl) (u c:string) (p:bool) : Prop :=
  exists cases, In (u, cases) unions /\ In (c, p) cases.

Definition all_ctor_names (unions:list udecl) : list string :=
  flat_map (fun u : udecl => map (fun c : string * bool => ctor_name (fst u) (fst c)) (snd u)) unions.

(** whole programs *)
Definition wfp (strict:bool) (p:prog) : Prop :=
  NoDup (all_ctor_names (p_unions p)) /\
  Forall (fun d : var * (list var * block) =>
            reserved (fst d) = false /\
            Forall (fun x => reserved x = false) (fst (snd d)) /\
            wfb strict (ctor_declared (p_unions p)) (snd (snd d))) (p_funs p) /\
  wfb strict (ctor_declared (p_unions p)) (p_main p).

(** [wt]: the proved fragment (see [wfe]); [pap_args_pure]: moreover every argument supplied to a partial
    application is a variable, a literal, a lambda or such a partial application *)
Definition wt (p:prog) : Prop := wfp false p.
Definition pap_args_pure (p:prog) : Prop := wfp true p.

(** ** relations *)
Section Rel.
Variable d : dialect.
Variable ctor_ok : string -> string -> bool -> Prop.
Notation compile := (Compile.compile d).
Notation compile_block := (Compile.compile_block d).
Notation compile_list := (Compile.compile_list d).
Notation compile_arms := (Compile.compile_arms d).
Notation compile_sarms := (Compile.compile_sarms d).
Notation switch_u := (Compile.switch_u d).
Notation switch_s := (Compile.switch_s d).
Notation nv := (Compile.nv d).
Notation nvb := (Compile.nvb d).
Notation nva := (Compile.nva d).
Notation nvs := (Compile.nvs d).

Variable gfuncs : list (var * (list var * list gstmt)).

Notation wfe := (wfe true ctor_ok).
Notation wfb := (wfb true ctor_ok).

(** the same bindings for every name that is not a temporary of the lowering *)
Definition equiv (g1 g2:genv) : Prop :=
  forall x, is_tmp x = false -> lookup x g2 = lookup x g1.

(** re-evaluation of a pure argument in a target environment *)
Inductive peval (env:genv) : nat -> expr -> gval -> Prop :=
| PE_int k z : peval env k (EInt z) (GVInt z)
| PE_str k s : peval env k (EStr s) (GVStr s)
| PE_bool k b : peval env k (EBool b) (GVBool b)
| PE_var k x v : glookup gfuncs x env = Some v -> peval env k (EVar x) v
| PE_lam k ps b : peval env k (ELam ps b) (GVClo env ps (compile_block k b))
| PE_pap k f m u args :
    peval env k (ECall f (S m) u args)
          (GVClo env (rnames (S m) 0)
                 [ret_stmt u (GCall (GVar f) (compile_list k args ++ map GVar (rnames (S m) 0)))])
| PE_arith k op a b ga gb gv :
    op <> OAnd -> op <> OOr -> peval env k a ga -> peval env (k + nv a) b gb ->
    arith gops op ga gb = Some gv -> peval env k (EBin op a b) gv
| PE_and_false k a b : peval env k a (GVBool false) -> peval env k (EBin OAnd a b) (GVBool false)
| PE_and_true k a b y :
    peval env k a (GVBool true) -> peval env (k + nv a) b (GVBool y) -> peval env k (EBin OAnd a b) (GVBool y)
| PE_or_true k a b : peval env k a (GVBool true) -> peval env k (EBin OOr a b) (GVBool true)
| PE_or_false k a b y :
    peval env k a (GVBool false) -> peval env (k + nv a) b (GVBool y) -> peval env k (EBin OOr a b) (GVBool y)
| PE_eq k neg a b ga gb r :
    peval env k a ga -> peval env (k + nv a) b gb -> gval_eq ga gb = Some r ->
    peval env k (EEq neg a b) (GVBool (if neg then negb r else r))
| PE_not k a b : peval env k a (GVBool b) -> peval env k (ENot a) (GVBool (negb b))
| PE_tuple k es gvs :
    pevals env k es gvs -> two_or_three (List.length es) ->
    peval env k (ETuple es) (GVStruct (tuple_struct (List.length gvs)) (combine tuple_fields gvs))
| PE_record k n decl fs es gvs gfs :
    pevals env k es gvs -> List.length fs = List.length es -> arrange decl (combine fs gvs) = Some gfs ->
    peval env k (ERecord n decl fs es) (GVStruct n gfs)
| PE_field k e f tn gfs gv :
    peval env k e (GVStruct tn gfs) -> lookup f gfs = Some gv -> peval env k (EField e f) gv
| PE_ctor0 k u c :
    ctor_ok u c false -> lookup (ctor_name u c) env = None ->
    peval env k (ECtor u c None) (GVStruct (case_struct u c) [])
| PE_ctor1 k u c a ga :
    ctor_ok u c true -> lookup (ctor_name u c) env = None -> peval env k a ga ->
    peval env k (ECtor u c (Some a)) (GVStruct (case_struct u c) [("Value"%string, ga)])
| PE_slice k es gvs : pevals env k es gvs -> peval env k (ESlice es) (GVSlice gvs)
with pevals (env:genv) : nat -> list expr -> list gval -> Prop :=
| PEs_nil k : pevals env k [] []
| PEs_cons k e es gv gvs :
    peval env k e gv -> pevals env (k + nv e) es gvs -> pevals env k (e :: es) (gv :: gvs).

Scheme peval_mind := Minimality for peval Sort Prop
  with pevals_mind := Minimality for pevals Sort Prop.
Combined Scheme peval_mutind from peval_mind, pevals_mind.

Inductive vrel : val -> gval -> Prop :=
| VR_int z : vrel (VInt z) (GVInt z)
| VR_str s : vrel (VStr s) (GVStr s)
| VR_bool b : vrel (VBool b) (GVBool b)
| VR_unit : vrel VUnit GVUnit
| VR_tuple vs gvs :
    Forall2 vrel vs gvs -> two_or_three (List.length vs) ->
    vrel (VTuple vs) (GVStruct (tuple_struct (List.length gvs)) (combine tuple_fields gvs))
| VR_rec name fs gfs :
    Forall2 (fun a b => fst a = fst b /\ vrel (snd a) (snd b)) fs gfs ->
    vrel (VRec name fs) (GVStruct name gfs)
| VR_union0 u c : vrel (VUnion u c None) (GVStruct (case_struct u c) [])
| VR_union1 u c v gv :
    vrel v gv -> vrel (VUnion u c (Some v)) (GVStruct (case_struct u c) [("Value"%string, gv)])
| VR_slice vs gvs : Forall2 vrel vs gvs -> vrel (VSlice vs) (GVSlice gvs)
| VR_clo senv genv ps b k :
    (forall x v, reserved x = false -> lookup x senv = Some v ->
       exists gv, lookup x genv = Some gv /\ vrel v gv) ->
    (forall x, reserved x = false -> lookup x senv = None -> lookup x genv = None) ->
    (forall x, ctor_like x = true -> lookup x genv = None) ->
    Forall (fun p => reserved p = false) ps -> wfb b ->
    vrel (VClo senv ps b) (GVClo genv ps (compile_block k b))
| VR_pap fv vs m u genv f args k :
    reserved f = false -> Forall wfe args -> Forall pure args ->
    (forall env', equiv genv env' ->
       (exists gf, glookup gfuncs f env' = Some gf /\ vrel fv gf) /\
       exists gvs, pevals env' k args gvs /\ Forall2 vrel vs gvs) ->
    vrel (VPap fv vs (S m) u)
         (GVClo genv (rnames (S m) 0)
                [ret_stmt u (GCall (GVar f) (compile_list k args ++ map GVar (rnames (S m) 0)))]).

Definition erel (senv:senv) (genv:genv) : Prop :=
  (forall x v, reserved x = false -> lookup x senv = Some v ->
     exists gv, lookup x genv = Some gv /\ vrel v gv) /\
  (forall x, reserved x = false -> lookup x senv = None -> lookup x genv = None) /\
  (forall x, ctor_like x = true -> lookup x genv = None).

End Rel.
