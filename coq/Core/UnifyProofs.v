(** C02 — proofs about Core/Unify.v: soundness, most-generality, completeness, termination. *)
From Coq Require Import List Arith Lia Bool.
From FoVerif Require Import Core.Unify.
Import ListNotations.

(* ---------- basic lemmas ---------- *)
Lemma app_sub1 th x u t : th x = app th u -> app th (sub1 x u t) = app th t.
Proof. intros H; induction t as [y|a|l IHl r IHr]; cbn; auto.
  - destruct (Nat.eqb x y) eqn:E; [apply Nat.eqb_eq in E; subst; auto|reflexivity].
  - congruence. Qed.

Lemma unifies_sub1 th x u es : th x = app th u -> unifies th es -> unifies th (sub1_eqs x u es).
Proof. intros H U s t I. unfold sub1_eqs in I. apply in_map_iff in I. destruct I as ((s0,t0) & E & I).
  inversion E; subst. rewrite !app_sub1 by exact H. apply U; exact I. Qed.

Lemma unifies_sub1_inv th x u es : th x = app th u -> unifies th (sub1_eqs x u es) -> unifies th es.
Proof. intros H U s t I. rewrite <- (app_sub1 th x u s H), <- (app_sub1 th x u t H). apply U.
  unfold sub1_eqs. apply in_map_iff. exists (s,t); auto. Qed.

Lemma app_seq_node sg l r : app_seq sg (TNode l r) = TNode (app_seq sg l) (app_seq sg r).
Proof. revert l r; induction sg as [|(x,u) sg IH]; intros; cbn; auto. Qed.

Lemma sub1_notocc x u t : occurs x t = false -> sub1 x u t = t.
Proof. induction t as [y|a|l IHl r IHr]; cbn; intros H; auto.
  - rewrite H; reflexivity.
  - apply orb_false_iff in H; destruct H; f_equal; auto. Qed.

(* occurs check: a proper subterm cannot be unified with its superterm *)
Lemma size_app_occurs th x t : occurs x t = true -> size (th x) <= size (app th t).
Proof. induction t as [y|a|l IHl r IHr]; cbn; intros H; try discriminate.
  - apply Nat.eqb_eq in H; subst; lia.
  - apply orb_true_iff in H; destruct H as [H|H]; [specialize (IHl H)|specialize (IHr H)]; lia. Qed.

Lemma occurs_no_unifier th x t : occurs x t = true -> t <> TVar x -> th x <> app th t.
Proof. intros O N E. destruct t as [y|a|l r]; cbn in *; try discriminate.
  - apply Nat.eqb_eq in O; subst; congruence.
  - apply orb_true_iff in O. assert (size (th x) < size (app th (TNode l r))).
    { cbn. destruct O as [O|O]; [pose proof (size_app_occurs th x l O)|pose proof (size_app_occurs th x r O)]; lia. }
    cbn in H. rewrite E in H. cbn in H. lia. Qed.

(* ---------- soundness ---------- *)

Lemma solves_elim x u sg r : occurs x u = false -> solves sg (sub1_eqs x u r) ->
  solves ((x,u)::sg) ((TVar x, u)::r).
Proof. intros O S s t [E|I].
  - inversion E; subst. cbn. rewrite Nat.eqb_refl, (sub1_notocc _ _ _ O). reflexivity.
  - cbn. apply S. unfold sub1_eqs. apply in_map_iff. exists (s,t); auto. Qed.

Lemma solves_swap sg s t r : solves sg ((s,t)::r) -> solves sg ((t,s)::r).
Proof. intros S a b [E|I]; [inversion E; subst; symmetry; apply S; left; reflexivity | apply S; right; exact I]. Qed.

Theorem unify_sound : forall n es sg, unify n es = Ok sg -> solves sg es.
Proof.
  induction n as [|n IH]; intros es sg H; cbn in H; [discriminate|].
  destruct es as [|(s,t) r]; [inversion H; subst; intros ? ? []|].
  assert (ELIM : forall x u, (if occurs x u then Clash else match unify n (sub1_eqs x u r) with
             | Ok sg0 => Ok ((x,u)::sg0) | Clash => Clash | Fuel => Fuel end) = Ok sg ->
             solves sg ((TVar x, u)::r)).
  { intros x u E. destruct (occurs x u) eqn:O; [discriminate|].
    destruct (unify n (sub1_eqs x u r)) as [sg0| |] eqn:U; try discriminate. inversion E; subst.
    apply solves_elim; auto. }
  destruct s as [x|a|a b], t as [y|c|c d]; try discriminate; try (apply ELIM; exact H);
    try (apply solves_swap, ELIM; exact H).
  - destruct (Nat.eqb x y) eqn:E; [|apply ELIM; exact H]. apply Nat.eqb_eq in E; subst.
    intros s t [E|I]; [inversion E; reflexivity|apply (IH _ _ H); exact I].
  - destruct (Nat.eqb a c) eqn:E; [|discriminate]. apply Nat.eqb_eq in E; subst.
    intros s t [E|I]; [inversion E; reflexivity|apply (IH _ _ H); exact I].
  - specialize (IH _ _ H). intros s t [E|I].
    + inversion E; subst. rewrite !app_seq_node. f_equal; apply IH; [left|right; left]; reflexivity.
    + apply IH; right; right; exact I.
Qed.

(* ---------- most general: every unifier factors through sigma (theta o sigma = theta) ---------- *)
Theorem unify_mgu : forall n es sg, unify n es = Ok sg ->
  forall th, unifies th es -> forall t, app th (app_seq sg t) = app th t.
Proof.
  induction n as [|n IH]; intros es sg H th U; cbn in H; [discriminate|].
  destruct es as [|(s,t) r]; [inversion H; subst; reflexivity|].
  assert (Ur : unifies th r) by (intros a b I; apply U; right; exact I).
  assert (Est : app th s = app th t) by (apply U; left; reflexivity).
  assert (ELIM : forall x u, th x = app th u ->
             (if occurs x u then Clash else match unify n (sub1_eqs x u r) with
             | Ok sg0 => Ok ((x,u)::sg0) | Clash => Clash | Fuel => Fuel end) = Ok sg ->
             forall t0, app th (app_seq sg t0) = app th t0).
  { intros x u Exu E t0. destruct (occurs x u); [discriminate|].
    destruct (unify n (sub1_eqs x u r)) as [sg0| |] eqn:Un; try discriminate. inversion E; subst.
    cbn. rewrite (IH _ _ Un th (unifies_sub1 _ _ _ _ Exu Ur)). apply app_sub1; exact Exu. }
  destruct s as [x|a|a b], t as [y|c|c d]; try discriminate;
    try (apply (ELIM _ _ Est H)); try (apply (ELIM _ _ (eq_sym Est) H)).
  - destruct (Nat.eqb x y) eqn:E; [apply (IH _ _ H th Ur)|apply (ELIM _ _ Est H)].
  - destruct (Nat.eqb a c); [apply (IH _ _ H th Ur)|discriminate].
  - apply (IH _ _ H th). cbn in Est. inversion Est.
    intros p q [E|[E|I]]; [inversion E; subst; auto | inversion E; subst; auto | apply Ur; exact I].
Qed.

(* ---------- completeness: Clash means no unifier ---------- *)
Theorem unify_complete : forall n es, unify n es = Clash -> forall th, ~ unifies th es.
Proof.
  induction n as [|n IH]; intros es H th U; cbn in H; [discriminate|].
  destruct es as [|(s,t) r]; [discriminate|].
  assert (Ur : unifies th r) by (intros a b I; apply U; right; exact I).
  assert (Est : app th s = app th t) by (apply U; left; reflexivity).
  assert (ELIM : forall x u, th x = app th u -> u <> TVar x ->
             (if occurs x u then Clash else match unify n (sub1_eqs x u r) with
             | Ok sg0 => Ok ((x,u)::sg0) | Clash => Clash | Fuel => Fuel end) = Clash -> False).
  { intros x u Exu N E. destruct (occurs x u) eqn:O.
    - exact (occurs_no_unifier th x u O N Exu).
    - destruct (unify n (sub1_eqs x u r)) as [sg0| |] eqn:Un; try discriminate.
      exact (IH _ Un th (unifies_sub1 _ _ _ _ Exu Ur)). }
  destruct s as [x|a|a b], t as [y|c|c d]; cbn in Est; try discriminate Est.
  - destruct (Nat.eqb x y) eqn:E; [exact (IH _ H th Ur)|].
    apply (ELIM x (TVar y) Est); [|exact H]. intros C; inversion C; subst. rewrite Nat.eqb_refl in E; discriminate.
  - apply (ELIM x (TAtom c) Est); [discriminate|exact H].
  - apply (ELIM x (TNode c d) Est); [discriminate|exact H].
  - apply (ELIM y (TAtom a) (eq_sym Est)); [discriminate|exact H].
  - destruct (Nat.eqb a c) eqn:E; [exact (IH _ H th Ur)|]. inversion Est; subst. rewrite Nat.eqb_refl in E; discriminate.
  - apply (ELIM y (TNode a b) (eq_sym Est)); [discriminate|exact H].
  - inversion Est. apply (IH _ H th).
    intros p q [E|[E|I]]; [inversion E; subst; auto | inversion E; subst; auto | apply Ur; exact I].
Qed.

(* ---------- termination: some fuel always suffices ---------- *)
Lemma unify_mono : forall n es, unify n es <> Fuel -> forall m, n <= m -> unify m es = unify n es.
Proof.
  induction n as [|n IH]; intros es H m L; [cbn in H; congruence|].
  destruct m as [|m]; [lia|]. assert (Lm : n <= m) by lia. cbn in *.
  destruct es as [|(s,t) r]; auto.
  assert (ELIM : forall x u,
     (if occurs x u then Clash else match unify n (sub1_eqs x u r) with
        | Ok sg0 => Ok ((x,u)::sg0) | Clash => Clash | Fuel => Fuel end) <> Fuel ->
     (if occurs x u then Clash else match unify m (sub1_eqs x u r) with
        | Ok sg0 => Ok ((x,u)::sg0) | Clash => Clash | Fuel => Fuel end) =
     (if occurs x u then Clash else match unify n (sub1_eqs x u r) with
        | Ok sg0 => Ok ((x,u)::sg0) | Clash => Clash | Fuel => Fuel end)).
  { intros x u N. destruct (occurs x u); auto.
    rewrite (IH (sub1_eqs x u r)); auto. intros E; rewrite E in N; congruence. }
  destruct s as [x|a|a b], t as [y|c|c d]; auto.
  - destruct (Nat.eqb x y); auto.
  - destruct (Nat.eqb a c); auto.
Qed.


Lemma occurs_sub1 x u t y : occurs y (sub1 x u t) = true -> (occurs y t = true /\ y <> x) \/ occurs y u = true.
Proof. induction t as [z|a|l IHl r IHr]; cbn; intros H; try discriminate.
  - destruct (Nat.eqb x z) eqn:E; [right; exact H|]. left. cbn in H. split; [exact H|].
    apply Nat.eqb_eq in H; subst. intros ->. rewrite Nat.eqb_refl in E; discriminate.
  - apply orb_true_iff in H. destruct H as [H|H]; [destruct (IHl H) as [[A B]|A]|destruct (IHr H) as [[A B]|A]];
      auto; left; split; auto; apply orb_true_iff; auto. Qed.

Lemma in_remove' x y V : In y V -> y <> x -> In y (remove Nat.eq_dec x V).
Proof. intros; apply in_in_remove; auto. Qed.

Lemma remove_length_lt x V : In x V -> length (remove Nat.eq_dec x V) < length V.
Proof. induction V as [|v V IH]; cbn; intros H; [contradiction|].
  destruct (Nat.eq_dec x v) as [->|N].
  - pose proof (remove_length_le Nat.eq_dec V v). lia.
  - destruct H as [->|H]; [congruence|]. cbn. specialize (IH H). lia. Qed.

Lemma evars_sub1 V x u r : vars_in V u -> occurs x u = false -> evars_in V r ->
  evars_in (remove Nat.eq_dec x V) (sub1_eqs x u r).
Proof. intros Vu O Vr s t I. unfold sub1_eqs in I. apply in_map_iff in I. destruct I as ((s0,t0) & E & I).
  inversion E; subst. destruct (Vr _ _ I) as (Vs & Vt).
  assert (K : forall w, vars_in V w -> vars_in (remove Nat.eq_dec x V) (sub1 x u w)).
  { intros w Vw y Oy. destruct (occurs_sub1 _ _ _ _ Oy) as [[A B]|A].
    - apply in_remove'; auto.
    - apply in_remove'; [apply Vu; exact A|]. intros ->. congruence. }
  split; apply K; assumption. Qed.

Theorem unify_terminates : forall k V, length V = k -> forall sz es, esize es = sz -> evars_in V es ->
  exists n, unify n es <> Fuel.
Proof.
  induction k as [k IHk] using lt_wf_ind. intros V LV.
  induction sz as [sz IHsz] using lt_wf_ind. intros es Es Ve.
  destruct es as [|(s,t) r]; [exists 1; cbn; congruence|].
  assert (Vr : evars_in V r) by (intros a b I; apply Ve; right; exact I).
  destruct (Ve s t (or_introl eq_refl)) as (Vs & Vt).
  assert (REST : exists n, unify n r <> Fuel).
  { apply (IHsz (esize r)); auto. cbn in Es. destruct s, t; cbn in Es; lia. }
  assert (ELIM : forall x u, In x V -> vars_in V u ->
     exists n, (if occurs x u then Clash else match unify n (sub1_eqs x u r) with
        | Ok sg0 => Ok ((x,u)::sg0) | Clash => Clash | Fuel => Fuel end) <> Fuel).
  { intros x u Ix Vu. destruct (occurs x u) eqn:O; [exists 0; congruence|].
    destruct (IHk (length (remove Nat.eq_dec x V))) with (V:=remove Nat.eq_dec x V)
       (sz:=esize (sub1_eqs x u r)) (es:=sub1_eqs x u r) as (n & Hn); auto.
    - subst k. apply remove_length_lt; exact Ix.
    - apply evars_sub1; auto.
    - exists n. destruct (unify n (sub1_eqs x u r)); congruence. }
  assert (OCC : forall x, vars_in V (TVar x) -> In x V).
  { intros x H; apply H; cbn; apply Nat.eqb_refl. }
  destruct s as [x|a|a b], t as [y|c|c d].
  - destruct (Nat.eqb x y) eqn:E.
    + destruct REST as (n & Hn). exists (S n). cbn. rewrite E. exact Hn.
    + destruct (ELIM x (TVar y) (OCC _ Vs) Vt) as (n & Hn). exists (S n). cbn [unify]. rewrite E. exact Hn.
  - destruct (ELIM x (TAtom c) (OCC _ Vs) Vt) as (n & Hn). exists (S n). exact Hn.
  - destruct (ELIM x (TNode c d) (OCC _ Vs) Vt) as (n & Hn). exists (S n). exact Hn.
  - destruct (ELIM y (TAtom a) (OCC _ Vt) Vs) as (n & Hn). exists (S n). exact Hn.
  - destruct (Nat.eqb a c) eqn:E.
    + destruct REST as (n & Hn). exists (S n). cbn. rewrite E. exact Hn.
    + exists 1. cbn. rewrite E. congruence.
  - exists 1. cbn. congruence.
  - destruct (ELIM y (TNode a b) (OCC _ Vt) Vs) as (n & Hn). exists (S n). exact Hn.
  - exists 1. cbn. congruence.
  - destruct (IHsz (esize ((a,c)::(b,d)::r))) with (es:=(a,c)::(b,d)::r) as (n & Hn); auto.
    + cbn in *. lia.
    + intros p q [E|[E|I]]; [inversion E; subst|inversion E; subst|apply Vr; exact I];
        split; intros z Oz; [apply Vs|apply Vt|apply Vs|apply Vt]; cbn; rewrite Oz; auto using orb_true_r.
    + exists (S n). exact Hn.
Qed.






(* ---------- closed form: enough fuel exists for every problem, and more fuel never hurts ---------- *)
Fixpoint tvars (t:ty) : list nat :=
  match t with TVar x => [x] | TAtom _ => [] | TNode l r => tvars l ++ tvars r end.
Fixpoint eqs_vars (es:list eqn) : list nat :=
  match es with [] => [] | (s,t)::r => tvars s ++ tvars t ++ eqs_vars r end.

Lemma occurs_tvars x t : occurs x t = true -> In x (tvars t).
Proof. induction t as [y|a|l IHl r IHr]; cbn; intros H; try discriminate.
  - apply Nat.eqb_eq in H; auto.
  - apply in_or_app. apply orb_true_iff in H. destruct H; auto. Qed.

Lemma tvars_occurs x t : In x (tvars t) -> occurs x t = true.
Proof. induction t as [y|a|l IHl r IHr]; cbn; intros H; try contradiction.
  - destruct H as [->|[]]. apply Nat.eqb_refl.
  - apply orb_true_iff. apply in_app_or in H. destruct H; auto. Qed.

Lemma evars_in_eqs_vars es : evars_in (eqs_vars es) es.
Proof. induction es as [|(s,t) r IH]; intros a b I; [destruct I|].
  destruct I as [E|I].
  - inversion E; subst. split; intros x O; apply occurs_tvars in O; cbn;
      apply in_or_app; [left; exact O|right; apply in_or_app; left; exact O].
  - destruct (IH _ _ I) as (A & B). split; intros x O; cbn; apply in_or_app; right; apply in_or_app; right; auto. Qed.

Theorem unify_fuel_sufficient : forall es, exists n, forall m, n <= m -> unify m es <> Fuel.
Proof.
  intros es. destruct (unify_terminates _ (eqs_vars es) eq_refl _ es eq_refl (evars_in_eqs_vars es)) as (n & Hn).
  exists n. intros m L. rewrite (unify_mono n es Hn m L). exact Hn.
Qed.
