(** C01 — definitions shared by the MiniFo (source) and MiniGo (target) models:
    names, environments, traces, outcomes, operators, the enumeration of library functions,
    64-bit wrapping, decimal printing, [fmt]-style formatting and string helpers.
    Definitions only (proofs are in Core/CommonProofs.v). *)
From Coq Require Import List ZArith String Ascii Bool DecimalString DecimalNat DecimalZ.
Import ListNotations.
Open Scope list_scope.

Definition var := string.

(** ** Environments *)
Fixpoint lookup {A} (x:var) (e:list (var*A)) : option A :=
  match e with
  | [] => None
  | (y,v)::r => if String.eqb x y then Some v else lookup x r
  end.

(** parameters are pushed one at a time (a later parameter would shadow an earlier one of the same name) *)
Fixpoint bind {A} (ps:list var) (vs:list A) (e:list (var*A)) : option (list (var*A)) :=
  match ps, vs with
  | [], [] => Some e
  | p::ps', v::vs' => bind ps' vs' ((p,v)::e)
  | _, _ => None
  end.

(** ** Output trace and outcomes.  The trace is the list of chunks written to stdout, newest first. *)
Definition trace := list string.
Definition emit (s:string) (t:trace) : trace := s :: t.
Definition output (t:trace) : string := String.concat "" (rev t).

Inductive res (A:Type) := Done (a:A) (t:trace) | Stuck (why:string) | Fuel.
Arguments Done {A}. Arguments Stuck {A}. Arguments Fuel {A}.

Definition rbind {A B} (r:res A) (k:A -> trace -> res B) : res B :=
  match r with Done a t => k a t | Stuck s => Stuck s | Fuel => Fuel end.
Notation "'doo' x , t <- r ; k" := (rbind r (fun x t => k))
  (at level 200, x name, t name, r at level 100, k at level 200).

Definition of_opt {A} (why:string) (o:option A) (t:trace) : res A :=
  match o with Some a => Done a t | None => Stuck why end.

(** outcome of a whole program *)
Inductive outcome := ODone (out:string) | OStuck (why:string) | OFuel.

(** ** Operators *)
Inductive binop := OAdd | OSub | OMul | ODiv | OSAdd | OLt | OGt | OLe | OGe | OAnd | OOr.

(** Go [int] on the 64-bit targets: two's complement wrapping *)
Definition wrap64 (z:Z) : Z := ((z + 9223372036854775808) mod 18446744073709551616 - 9223372036854775808)%Z.

(** ** Library functions ([frt], [slice], [strings]) *)
Inductive libfn :=
| LPrintln | LPrintf1 | LSprintf1
| LLength | LHead | LTail | LLast | LItem | LTake | LSkip | LPushLast | LPushHead | LAppend
| LIsEmpty | LIsNotEmpty | LMap | LMapi | LFilter | LIter | LFold | LForall | LForany | LSort | LZip
| LStrLength | LStrConcat | LHasPrefix | LHasSuffix | LAppendHead | LAppendTail | LSplit
| LFst | LSnd
(* used by emitted Go only *)
| LPipe | LPipeUnit | LIfElse | LIfElseUnit | LIfOnly | LOpEqual | LOpNotEqual | LOpNot
| LNewTuple2 | LNewTuple3 | LDestr2 | LDestr3 | LSInterP
| LDestr.   (* frt.Destr: the obsolete name of Destr2, still emitted by tinyfo *)

(** functions a MiniFo program may name in [ext] *)
Definition src_fn (f:libfn) : bool :=
  match f with
  | LPipe | LPipeUnit | LIfElse | LIfElseUnit | LIfOnly | LOpEqual | LOpNotEqual | LOpNot
  | LNewTuple2 | LNewTuple3 | LDestr2 | LDestr3 | LSInterP | LDestr => false
  | _ => true
  end.

Definition libfn_name (f:libfn) : string :=
  match f with
  | LPrintln => "frt.Println" | LPrintf1 => "frt.Printf1" | LSprintf1 => "frt.Sprintf1"
  | LLength => "slice.Length" | LHead => "slice.Head" | LTail => "slice.Tail" | LLast => "slice.Last"
  | LItem => "slice.Item" | LTake => "slice.Take" | LSkip => "slice.Skip"
  | LPushLast => "slice.PushLast" | LPushHead => "slice.PushHead" | LAppend => "slice.Append"
  | LIsEmpty => "slice.IsEmpty" | LIsNotEmpty => "slice.IsNotEmpty"
  | LMap => "slice.Map" | LMapi => "slice.Mapi" | LFilter => "slice.Filter" | LIter => "slice.Iter"
  | LFold => "slice.Fold" | LForall => "slice.Forall" | LForany => "slice.Forany"
  | LSort => "slice.Sort" | LZip => "slice.Zip"
  | LStrLength => "strings.Length" | LStrConcat => "strings.Concat"
  | LHasPrefix => "strings.HasPrefix" | LHasSuffix => "strings.HasSuffix"
  | LAppendHead => "strings.AppendHead" | LAppendTail => "strings.AppendTail" | LSplit => "strings.Split"
  | LFst => "frt.Fst" | LSnd => "frt.Snd"
  | LPipe => "frt.Pipe" | LPipeUnit => "frt.PipeUnit"
  | LIfElse => "frt.IfElse" | LIfElseUnit => "frt.IfElseUnit" | LIfOnly => "frt.IfOnly"
  | LOpEqual => "frt.OpEqual" | LOpNotEqual => "frt.OpNotEqual" | LOpNot => "frt.OpNot"
  | LNewTuple2 => "frt.NewTuple2" | LNewTuple3 => "frt.NewTuple3"
  | LDestr2 => "frt.Destr2" | LDestr3 => "frt.Destr3" | LSInterP => "frt.SInterP"
  | LDestr => "frt.Destr"
  end%string.

Definition all_libfns : list libfn :=
  [LPrintln; LPrintf1; LSprintf1; LLength; LHead; LTail; LLast; LItem; LTake; LSkip; LPushLast; LPushHead;
   LAppend; LIsEmpty; LIsNotEmpty; LMap; LMapi; LFilter; LIter; LFold; LForall; LForany; LSort; LZip;
   LStrLength; LStrConcat; LHasPrefix; LHasSuffix; LAppendHead; LAppendTail; LSplit; LFst; LSnd;
   LPipe; LPipeUnit; LIfElse; LIfElseUnit; LIfOnly; LOpEqual; LOpNotEqual; LOpNot;
   LNewTuple2; LNewTuple3; LDestr2; LDestr3; LSInterP; LDestr].

Definition libfn_of_name (s:string) : option libfn :=
  find (fun f => String.eqb (libfn_name f) s) all_libfns.

(** ** Names used by the lowering *)
Definition nat_dec (n:nat) : string := NilEmpty.string_of_uint (Nat.to_uint n).
Definition z_dec (z:Z) : string := NilZero.string_of_int (Z.to_int z).

(** [_r0], [_r1], … : the parameters of a partial-application closure (ftiToParamName) *)
Definition rname (i:nat) : var := ("_r" ++ nat_dec i)%string.
(** [_v1], [_v2], … : the value bound by a type switch (uniqueTmpVarName) *)
Definition vname (i:nat) : var := ("_v" ++ nat_dec i)%string.

Fixpoint rnames (k:nat) (i:nat) : list var :=
  match k with O => [] | S k' => rname i :: rnames k' (S i) end.

(** identifiers a user program may not bind: the lowering's temporaries and the generated
    union-constructor names *)
Definition is_tmp (x:var) : bool := String.prefix "_" x.
Definition ctor_like (x:var) : bool := String.prefix "New_" x.
Definition reserved (x:var) : bool := is_tmp x || ctor_like x.

Definition case_struct (uname cname:string) : string := (uname ++ "_" ++ cname)%string.
Definition ctor_name (uname cname:string) : string := ("New_" ++ case_struct uname cname)%string.

Definition tuple_struct (n:nat) : string := ("frt.Tuple" ++ nat_dec n)%string.
Definition tuple_fields : list string := ["E0"; "E1"; "E2"]%string.

(** ** Strings *)
Definition bool_str (b:bool) : string := if b then "true"%string else "false"%string.

Fixpoint str_rev_app (s acc:string) : string :=
  match s with EmptyString => acc | String c r => str_rev_app r (String c acc) end.
Definition str_rev (s:string) : string := str_rev_app s EmptyString.

Definition has_suffix (suf s:string) : bool := String.prefix (str_rev suf) (str_rev s).

(** strings.Split with a non-empty separator: leftmost non-overlapping occurrences *)
Fixpoint split_aux (sep s:string) (skip:nat) (cur:string) : list string :=
  match s with
  | EmptyString => [str_rev cur]
  | String c s' =>
      match skip with
      | S k => split_aux sep s' k cur
      | O => if String.prefix sep s
             then str_rev cur :: split_aux sep s' (String.length sep - 1) EmptyString
             else split_aux sep s' 0 (String c cur)
      end
  end.
Definition split (sep s:string) : list string := split_aux sep s 0 EmptyString.

(** fmt.Sprintf with exactly one operand: [sub c] renders the operand for verb [c]. [%%] is a percent sign.
    [None] where Go would print an error form ([%!d(string=…)], [%!(EXTRA …)], [%!v(MISSING)], [%!(NOVERB)]). *)
Fixpoint format1 (f:string) (used:bool) (sub:ascii -> option string) : option string :=
  match f with
  | EmptyString => if used then Some EmptyString else None
  | String "%" EmptyString => None
  | String "%" (String c r) =>
      if Ascii.eqb c "%" then option_map (String "%") (format1 r used sub)
      else if used then None
      else match sub c with
           | Some s => option_map (String.append s) (format1 r true sub)
           | None => None
           end
  | String c r => option_map (String c) (format1 r used sub)
  end.

(** fmt.Sprintf with string operands and only [%s] / [%%] (what frt.SInterP calls) *)
Fixpoint format_s (f:string) (args:list string) : option string :=
  match f with
  | EmptyString => match args with [] => Some EmptyString | _ => None end
  | String "%" EmptyString => None
  | String "%" (String c r) =>
      if Ascii.eqb c "%" then option_map (String "%") (format_s r args)
      else if Ascii.eqb c "s" then
        match args with
        | a :: args' => option_map (String.append a) (format_s r args')
        | [] => None
        end
      else None
  | String c r => option_map (String c) (format_s r args)
  end.

(** ParseSInterP's treatment of literal text: a percent sign is doubled *)
Fixpoint escape_percent (s:string) : string :=
  match s with
  | EmptyString => EmptyString
  | String c r => if Ascii.eqb c "%" then String "%" (String "%" (escape_percent r)) else String c (escape_percent r)
  end.

Fixpoint all_some {A} (l:list (option A)) : option (list A) :=
  match l with
  | [] => Some []
  | Some a :: r => option_map (cons a) (all_some r)
  | None :: _ => None
  end.

(** a struct value stores its fields in the order of the type's declaration, whatever the order in which
    the keyed literal that built it was written: [arrange decl written] looks every declared field up *)
Definition arrange {A} (decl:list string) (written:list (string * A)) : option (list (string * A)) :=
  all_some (map (fun f => option_map (pair f) (lookup f written)) decl).

(** insertion sort, stable *)
Fixpoint insert_by {A} (le:A -> A -> bool) (x:A) (l:list A) : list A :=
  match l with
  | [] => [x]
  | y :: r => if le x y then x :: l else y :: insert_by le x r
  end.
Fixpoint sort_by {A} (le:A -> A -> bool) (l:list A) : list A :=
  match l with [] => [] | x :: r => insert_by le x (sort_by le r) end.

Fixpoint rep_list {A} (n:nat) (a:A) : list A := match n with O => [] | S k => a :: rep_list k a end.
