(** C06 model: column tracking of the tokenizer and the offside skeleton of the parser.
    Definitions only (proofs: LayoutProofs.v, LayoutInv.v).

    Part 1  [tkz_cols]      fc/tokenizer.fo newTkz / tkzNext: the column of the current token is
                            maintained incrementally (reset after an EOL token, += begin delta else).
    Part 2  [parse_blocks]  fc/parse_state.fo psPushOffside / psPopOffside / psCurOffside / psSkipEOL and
                            fc/parser.fo parseBlock / parseBlockAfterPushScope / parseStmtList /
                            isEndOfBlock / parseStmt / parseRawLet / parseLetOneVarDef / parseLetFuncDef /
                            parseExprWithPrec / parseBinAfter / parseTerm / parseAtomList / isEndOfTerm /
                            parseAtom (parentheses, tuples) / parseIfAfterIfExpr / parseMatchExpr /
                            parseMatchRules / parseUnionMatchRules / parseURules / insideOffside /
                            isDefaultMR / parseSMRules / parseSRules / parseFunExpr / parseRootStmts /
                            parseCaseDefs, reduced to what decides the block structure: every token that is
                            not a layout keyword is an opaque atom [TA]; binary operators are not grouped
                            by precedence (a chain  t0 op1 t1 op2 t2  is kept left-nested; grouping is C08's
                            subject and does not depend on the layout); scopes, types and inference are
                            absent.  Only the top of the offside stack is ever read and push/pop are
                            properly nested, so the stack is the parameter [off] of the recursive calls.
    Part 3  decorated syntax trees (every layout choice explicit), [render], [erase], validity [wf_*]. *)
From Coq Require Import List ZArith Arith Bool.
Import ListNotations.

(* ================================================================= Part 1: columns *)

(** a scanned token as the tokenizer sees it: is it an EOL token, offset of its first byte, length *)
Record rtok := mkRtok { rt_eol : bool; rt_begin : Z; rt_len : Z }.

(** tkzNext: [cur] is the current token and [col] its column; the columns of the following tokens *)
Fixpoint cols_from (cur : rtok) (col : Z) (rest : list rtok) : list Z :=
  match rest with
  | [] => []
  | nt :: rest' =>
      let c' := if rt_eol cur
                then (rt_begin nt - (rt_begin cur + rt_len cur))%Z     (* bol = begin + len of the EOL *)
                else (col + (rt_begin nt - rt_begin cur))%Z in         (* delta of the begins *)
      c' :: cols_from nt c' rest'
  end.

(** newTkz: the first token is on the first line, its begin is its column *)
Definition tkz_cols (ts : list rtok) : list Z :=
  match ts with
  | [] => []
  | t :: rest => rt_begin t :: cols_from t (rt_begin t) rest
  end.

(** --- what "the true column" means: byte strings, line starts, hidden newlines --- *)
Definition newline : Ascii.ascii := Ascii.ascii_of_nat 10.
Definition is_nl (buf : list Ascii.ascii) (p : nat) : bool :=
  match nth_error buf p with Some c => Ascii.eqb c newline | None => false end.
Definition nl_at (buf : list Ascii.ascii) (p : Z) : bool := (0 <=? p)%Z && is_nl buf (Z.to_nat p).
(** offset of the first byte of the line that contains offset [p] *)
Fixpoint line_start (buf : list Ascii.ascii) (p : nat) : nat :=
  match p with O => O | S q => if is_nl buf q then S q else line_start buf q end.
Definition line_start_z (buf : list Ascii.ascii) (p : Z) : Z := Z.of_nat (line_start buf (Z.to_nat p)).

(** end offset of the last EOL token among the first [k] tokens ([E] if there is none) *)
Fixpoint eol_end_from (E : Z) (ts : list rtok) (k : nat) : Z :=
  match k, ts with
  | O, _ => E
  | _, [] => E
  | S k', t :: r => eol_end_from (if rt_eol t then (rt_begin t + rt_len t)%Z else E) r k'
  end.
Definition last_eol_end (ts : list rtok) (k : nat) : Z := eol_end_from 0%Z ts k.

(** a token stream scanned from [buf]: tokens do not overlap and come in order, an EOL token is one
    newline byte *)
Definition wf_stream (buf : list Ascii.ascii) (ts : list rtok) : Prop :=
  (forall i j ti tj, (i < j)%nat -> nth_error ts i = Some ti -> nth_error ts j = Some tj ->
                     (rt_begin ti + rt_len ti <= rt_begin tj)%Z)
  /\
  (forall i t, nth_error ts i = Some t ->
               (0 <= rt_begin t)%Z /\
               (rt_eol t = true -> rt_len t = 1%Z /\ nl_at buf (rt_begin t) = true)).

(* ================================================================= Part 2: the offside parser *)

Inductive tok :=
| TA (a : nat)      (* any token that is none of the below (identifier, number, '.', ':', a bracket group ...) *)
| TSTR (a : nat)    (* string literal: an atom; after '|' it makes the match a string match *)
| TUS               (* _ *)
| TLET | TEQ | TIF | TTHEN | TELSE | TELIF | TMATCH | TWITH | TBAR | TARROW | TFUN
| TLP | TRP | TCOMMA
| TOP (o : nat)     (* binary operator other than '=' ( |> && || < > <= >= <> + - * / ) *)
| TDOT              (* . : an atom; after a field name in a record literal it starts a specified initializer *)
| TLB | TRB         (* { } *)
| TLS | TRS         (* [ ] *)
| TSEMI             (* ; *)
| TTYPE             (* type *)
| TKW (k : nat)     (* package import package_info and *)
| TEOL.
Definition ptok := (tok * nat)%type.          (* token with its column *)

(** three-valued outcome: fuel exhaustion is never confused with a rejection *)
Inductive res (A : Type) := Ok (a : A) | Reject | Fuel.
Arguments Ok {A} a. Arguments Reject {A}. Arguments Fuel {A}.
Definition bind {A B} (m : res A) (f : A -> res B) : res B :=
  match m with Ok a => f a | Reject => Reject | Fuel => Fuel end.
Notation "'let*' p ':=' m 'in' f" := (bind m (fun p => f))
  (at level 200, p pattern, m at level 100, f at level 200).

(** what the parser returns *)
Inductive expr :=
| EApp (l : list atom)                              (* juxtaposition: f a b *)
| EIf (c : expr) (t : block) (e : option block)     (* elif = else + a block holding the inner if; one-line
                                                       bodies are expression-only blocks (exprOnlyBlock) *)
| EMatch (target : expr) (rules : list rule)
| EFun (params : list tok) (b : block)
| EBin (l : expr) (o : tok) (r : expr)
with atom :=
| AT (t : tok)
| APar (es : list expr)                             (* ()  (e)  (e, e) *)
| ARec (fs : list (list tok * expr))                (* { f = e; g = e } *)
| ASlice (es : list expr)                           (* [ e; e ] *)
with stmt :=
| SLet (hdr : list tok) (e : expr)                  (* let x = e ; let (a, b) = e *)
| SLetFn (hdr : list tok) (b : block)               (* let f p ... = block *)
| SExpr (e : expr)
with block := Blk (ss : list stmt)
with rule := Rule (pat : list tok) (b : block).

Inductive root :=
| RLet (s : stmt)
| RType (hdr : list tok) (cases : list (list tok))     (* union cases / record fields / the tokens of an alias *)
| RInfo (hdr : list tok) (defs : list (list tok))       (* package_info x = / definitions, one per line *)
| ROther (l : list tok).

Fixpoint skip_eol (ts : list ptok) : list ptok :=
  match ts with (TEOL, _) :: r => skip_eol r | _ => ts end.

Definition is_binop (t : tok) : bool := match t with TOP _ | TEQ => true | _ => false end.

(** isEndOfTerm (on a non-EOL token psNextNonEOLIsBinOp is "the current token is a binary operator") *)
Definition end_of_term (ts : list ptok) : bool :=
  match ts with
  | [] => true
  | (t, _) :: _ =>
      match t with
      | TEOL | TSEMI | TRB | TRS | TRP | TWITH | TTHEN | TELSE | TELIF | TCOMMA => true
      | _ => is_binop t
      end
  end.

(** isEndOfBlock: offside, EOF or ')' *)
Definition end_of_block (c : nat) (ts : list ptok) : bool :=
  match ts with
  | [] => true
  | (t, c') :: _ => (c' <? c) || match t with TRP => true | _ => false end
  end.

(** insideOffside of the current token *)
Definition col_inside (off : nat) (ts : list ptok) : bool :=
  match ts with (_, c) :: _ => off <=? c | [] => false end.
Definition head_is_eol (ts : list ptok) : bool :=
  match ts with (TEOL, _) :: _ => true | _ => false end.
(** insideOffside && psCurIs BAR *)
Definition bar_inside (off : nat) (ts : list ptok) : bool :=
  match ts with (TBAR, c) :: _ => off <=? c | _ => false end.
(** isDefaultMR *)
Definition is_default_mr (ts : list ptok) : bool :=
  match ts with (TBAR, _) :: (TUS, _) :: _ => true | _ => false end.
Definition is_slit_rule (ts : list ptok) : bool :=
  match ts with (TBAR, _) :: (TSTR _, _) :: _ => true | _ => false end.

(** tokens up to (excluding) the first token satisfying [stop], never past an EOL *)
Fixpoint span_until (stop : tok -> bool) (ts : list ptok) : list tok * list ptok :=
  match ts with
  | [] => ([], [])
  | (t, c) :: r =>
      if stop t || match t with TEOL => true | _ => false end then ([], ts)
      else let '(l, r') := span_until stop r in (t :: l, r')
  end.
Definition is_eq (t : tok) := match t with TEQ => true | _ => false end.
Definition is_arrow (t : tok) := match t with TARROW => true | _ => false end.
Definition is_bar (t : tok) := match t with TBAR => true | _ => false end.
Definition never (t : tok) := false.

(** parseRawLet: 'let (' is a destructuring let, 'let x =' a value; anything else defines a function *)
Definition is_var_hdr (hdr : list tok) : bool :=
  match hdr with TLP :: _ => true | [_] => true | _ => false end.

(** psIdentNameNxL [DOT psIdentNameNxL]: the name of a field initializer, EOLs after it skipped *)
Definition field_name (x : nat) (ts : list ptok) : list tok * list ptok :=
  match skip_eol ts with
  | (TDOT, _) :: (TA y, _) :: r' => ([TA x; TDOT; TA y], skip_eol r')
  | r' => ([TA x], r')
  end.

Definition last_is_expr (ss : list stmt) : bool :=
  match last ss (SLet [] (EApp [])) with SExpr _ => true | _ => false end.

Fixpoint p_expr (n : nat) (off : nat) (ts : list ptok) {struct n} : res (expr * list ptok) :=
  match n with O => Fuel | S n =>
  let* (e, r) := p_term n off ts in p_binafter n off e r
  end
(* parseBinAfter (and the tail of parseExprWithPrec): an operator may follow on a later line *)
with p_binafter (n : nat) (off : nat) (cur : expr) (ts : list ptok) {struct n} : res (expr * list ptok) :=
  match n with O => Fuel | S n =>
  match skip_eol ts with
  | (t, _) :: r =>
      if is_binop t then
        let* (rhs, r1) := p_term n off r in p_binafter n off (EBin cur t rhs) r1
      else Ok (cur, ts)
  | [] => Ok (cur, ts)
  end end
with p_term (n : nat) (off : nat) (ts : list ptok) {struct n} : res (expr * list ptok) :=
  match n with O => Fuel | S n =>
  match ts with
  | (TMATCH, _) :: r =>
      let* (target, r1) := p_expr n off r in
      match r1 with
      | (TWITH, _) :: r2 =>
          let* (rules, r3) := p_rules n off (skip_eol r2) in Ok (EMatch target rules, r3)
      | _ => Reject
      end
  | (TFUN, _) :: r =>
      let '(ps, r1) := span_until is_arrow r in
      match r1 with
      | (TARROW, _) :: r2 => let* (b, r3) := p_block n off (skip_eol r2) in Ok (EFun ps b, r3)
      | _ => Reject
      end
  | (TIF, _) :: r => p_if n off r
  | (TLS, _) :: _ => let* (a, r) := p_atom n off ts in Ok (EApp [a], r)     (* parseSliceExpr: no atom list *)
  | _ => let* (l, r) := p_atoms n off ts in Ok (EApp l, r)
  end end
(* parseIfAfterIfExpr *)
with p_if (n : nat) (off : nat) (ts : list ptok) {struct n} : res (expr * list ptok) :=
  match n with O => Fuel | S n =>
  let* (cond, r1) := p_expr n off ts in
  match r1 with
  | (TTHEN, _) :: r2 =>
      if head_is_eol r2 then
        let* (tb, r3) := p_block n off (skip_eol r2) in
        match skip_eol r3 with
        | (TELSE, _) :: r4 =>
            let* (eb, r5) := p_block n off (skip_eol r4) in Ok (EIf cond tb (Some eb), r5)
        | (TELIF, _) :: r4 =>
            let* (e, r5) := p_if n off r4 in Ok (EIf cond tb (Some (Blk [SExpr e])), r5)
        | _ => Ok (EIf cond tb None, r3)
        end
      else p_if1 n off cond r2
  | _ => Reject
  end end
(* its one-line branch: if COND then TBODY ...; else / elif may follow on the same line *)
with p_if1 (n : nat) (off : nat) (cond : expr) (ts : list ptok) {struct n} : res (expr * list ptok) :=
  match n with O => Fuel | S n =>
  let* (te, r3) := p_expr n off ts in
  match r3 with
  | (TELSE, _) :: r4 =>
      let* (ee, r5) := p_expr n off r4 in
      Ok (EIf cond (Blk [SExpr te]) (Some (Blk [SExpr ee])), r5)
  | (TELIF, _) :: r4 =>
      let* (e, r5) := p_if n off r4 in Ok (EIf cond (Blk [SExpr te]) (Some (Blk [SExpr e])), r5)
  | _ => p_if_nl n off cond te r3
  end end
(* ... or on a later line that is still inside the offside line of the current block
   (nextLine = psCurIs EOL && insideOffside after psSkipEOL); otherwise an if without else *)
with p_if_nl (n : nat) (off : nat) (cond te : expr) (r3 : list ptok) {struct n} : res (expr * list ptok) :=
  match n with O => Fuel | S n =>
  if head_is_eol r3 && col_inside off (skip_eol r3) then
    match skip_eol r3 with
    | (TELSE, _) :: r4 =>
        let* (eb, r5) := p_block n off (skip_eol r4) in Ok (EIf cond (Blk [SExpr te]) (Some eb), r5)
    | (TELIF, _) :: r4 =>
        let* (e, r5) := p_if n off r4 in Ok (EIf cond (Blk [SExpr te]) (Some (Blk [SExpr e])), r5)
    | _ => Ok (EIf cond (Blk [SExpr te]) None, r3)
    end
  else Ok (EIf cond (Blk [SExpr te]) None, r3)
  end
with p_atoms (n : nat) (off : nat) (ts : list ptok) {struct n} : res (list atom * list ptok) :=
  match n with O => Fuel | S n =>
  let* (a, r) := p_atom n off ts in
  if end_of_term r then Ok ([a], r)
  else let* (l, r') := p_atoms n off r in Ok (a :: l, r')
  end
with p_atom (n : nat) (off : nat) (ts : list ptok) {struct n} : res (atom * list ptok) :=
  match n with O => Fuel | S n =>
  match ts with
  | (TA a, _) :: r => Ok (AT (TA a), r)
  | (TSTR a, _) :: r => Ok (AT (TSTR a), r)
  | (TUS, _) :: r => Ok (AT TUS, r)
  | (TDOT, _) :: r => Ok (AT TDOT, r)
  | (TLB, _) :: r =>                                      (* parseRecordGen *)
      let* (fs, r1) := p_fields n off r in
      match r1 with (TRB, _) :: r2 => Ok (ARec fs, r2) | _ => Reject end
  | (TLS, _) :: r =>                                      (* parseSliceExpr *)
      let* (e, r1) := p_expr n off r in
      let* (es, r2) := p_semis n off r1 in
      match r2 with (TRS, _) :: r3 => Ok (ASlice (e :: es), r3) | _ => Reject end
  | (TLP, _) :: (TRP, _) :: r => Ok (APar [], r)
  | (TLP, _) :: r =>
      let* (e, r1) := p_expr n off r in
      let* (es, r2) := p_commas n off r1 in
      match r2 with
      | (TRP, _) :: r3 => Ok (APar (e :: es), r3)
      | _ => Reject
      end
  | _ => Reject                                           (* "Unown atom." *)
  end end
with p_commas (n : nat) (off : nat) (ts : list ptok) {struct n} : res (list expr * list ptok) :=
  match n with O => Fuel | S n =>
  match ts with
  | (TCOMMA, _) :: r =>
      let* (e, r1) := p_expr n off r in
      let* (es, r2) := p_commas n off r1 in Ok (e :: es, r2)
  | _ => Ok ([], ts)
  end end
(* parseSemiExprs: (; expr)* without any EOL skipping *)
with p_semis (n : nat) (off : nat) (ts : list ptok) {struct n} : res (list expr * list ptok) :=
  match n with O => Fuel | S n =>
  match ts with
  | (TSEMI, _) :: r =>
      let* (e, r1) := p_expr n off r in
      let* (es, r2) := p_semis n off r1 in Ok (e :: es, r2)
  | _ => Ok ([], ts)
  end end
(* parseFieldInitializers / parseFiIni: name EOL* [. name EOL*] = EOL* expr, then '}' or ';' and the next
   field on the same line *)
with p_fields (n : nat) (off : nat) (ts : list ptok) {struct n} : res (list (list tok * expr) * list ptok) :=
  match n with O => Fuel | S n =>
  match ts with
  | (TA x, _) :: r =>
      let '(nm, r1) := field_name x r in
      match r1 with
      | (TEQ, _) :: r2 =>
          let* (e, r3) := p_expr n off (skip_eol r2) in
          match r3 with
          | (TRB, _) :: _ => Ok ([(nm, e)], r3)
          | (TSEMI, _) :: r4 => let* (fs, r5) := p_fields n off r4 in Ok ((nm, e) :: fs, r5)
          | _ => Reject
          end
      | _ => Reject
      end
  | _ => Reject
  end end
(* parseMatchRules *)
with p_rules (n : nat) (off : nat) (ts : list ptok) {struct n} : res (list rule * list ptok) :=
  match n with O => Fuel | S n =>
  if is_default_mr ts then Reject                          (* "Only default case, illegal." *)
  else if is_slit_rule ts then p_srules n off ts
  else match ts with (TBAR, _) :: _ => p_urules n off ts | _ => Reject end
  end
(* one rule: '|' pattern '->' EOL* block *)
with p_rule (n : nat) (off : nat) (ts : list ptok) {struct n} : res (rule * list ptok) :=
  match n with O => Fuel | S n =>
  match ts with
  | (TBAR, _) :: r =>
      let '(pat, r1) := span_until is_arrow r in
      match r1 with
      | (TARROW, _) :: r2 => let* (b, r3) := p_block n off (skip_eol r2) in Ok (Rule pat b, r3)
      | _ => Reject
      end
  | _ => Reject
  end end
(* parseUnionMatchRules + parseURules: a further arm must be inside the offside line *)
with p_urules (n : nat) (off : nat) (ts : list ptok) {struct n} : res (list rule * list ptok) :=
  match n with O => Fuel | S n =>
  let* (r1, rest) := p_rule n off ts in
  if bar_inside off rest && negb (is_default_mr rest) then
    let* (rs, rest') := p_urules n off (skip_eol rest) in Ok (r1 :: rs, rest')
  else if bar_inside off rest && is_default_mr rest then
    let* (d, rest') := p_rule n off rest in Ok ([r1; d], rest')
  else Ok ([r1], rest)
  end
(* parseSMRules + parseSRules: literal rules are not tested against the offside line; the list ends with
   a default rule (inside the offside line) or a variable rule *)
with p_srules (n : nat) (off : nat) (ts : list ptok) {struct n} : res (list rule * list ptok) :=
  match n with O => Fuel | S n =>
  let* (r1, rest) := p_rule n off ts in
  if is_slit_rule rest then
    let* (rs, rest') := p_srules n off rest in Ok (r1 :: rs, rest')
  else if is_default_mr rest && negb (bar_inside off rest) then Reject   (* '_' is not a variable rule *)
  else
    let* (d, rest') := p_rule n off rest in Ok ([r1; d], rest')
  end
(* parseStmt / parseRawLet *)
with p_stmt (n : nat) (off : nat) (ts : list ptok) {struct n} : res (stmt * list ptok) :=
  match n with O => Fuel | S n =>
  match ts with
  | (TLET, _) :: r =>
      let '(hdr, r1) := span_until is_eq r in
      match r1 with
      | (TEQ, _) :: r2 =>
          if is_var_hdr hdr then
            let* (e, r3) := p_expr n off (skip_eol r2) in Ok (SLet hdr e, r3)
          else
            let* (b, r3) := p_block n off (skip_eol r2) in Ok (SLetFn hdr b, r3)
      | _ => Reject
      end
  | _ => let* (e, r) := p_expr n off ts in Ok (SExpr e, r)
  end end
(* parseBlock: psPushOffside ("Overrun offside rule"), parseStmtList, the last statement is an expression *)
with p_block (n : nat) (off : nat) (ts : list ptok) {struct n} : res (block * list ptok) :=
  match n with O => Fuel | S n =>
  match ts with
  | (_, c) :: _ =>
      if c <=? off then Reject
      else let* (ss, r) := p_stmts n c ts in
           if last_is_expr ss then Ok (Blk ss, r) else Reject
  | [] => Reject
  end end
(* parseStmtList: ParseList2 (parseStmt then psSkipEOL) isEndOfBlock *)
with p_stmts (n : nat) (c : nat) (ts : list ptok) {struct n} : res (list stmt * list ptok) :=
  match n with O => Fuel | S n =>
  let* (s, r) := p_stmt n c ts in
  let r' := skip_eol r in
  if end_of_block c r' then Ok ([s], r')
  else let* (ss, r'') := p_stmts n c r' in Ok (s :: ss, r'')
  end.

(** parseCaseDefs: '|' case tokens, on one or several lines, at any column *)
Fixpoint p_cases (n : nat) (ts : list ptok) : res (list (list tok) * list ptok) :=
  match n with O => Fuel | S n =>
  match ts with
  | (TBAR, _) :: r =>
      let '(cs, r1) := span_until is_bar r in
      match skip_eol r1 with
      | (TBAR, _) :: _ => let* (css, r2) := p_cases n (skip_eol r1) in Ok (cs :: css, r2)
      | _ => Ok ([cs], r1)
      end
  | _ => Reject
  end end.

(** parseFieldDefs: EOL* name EOL* type tokens, then '}' or ';' EOL* ('}' | more fields) *)
Definition is_semi_or_rb (t : tok) := match t with TSEMI | TRB => true | _ => false end.
Fixpoint p_fdefs (n : nat) (ts : list ptok) : res (list (list tok) * list ptok) :=
  match n with O => Fuel | S n =>
  match skip_eol ts with
  | (TA x, _) :: r =>
      let '(ty, r1) := span_until is_semi_or_rb (skip_eol r) in
      match r1 with
      | (TRB, _) :: _ => Ok ([TA x :: ty], r1)
      | (TSEMI, _) :: r2 =>
          match skip_eol r2 with
          | (TRB, _) :: _ => Ok ([TA x :: ty], skip_eol r2)
          | _ => let* (fs, r3) := p_fdefs n r2 in Ok ((TA x :: ty) :: fs, r3)
          end
      | _ => Reject
      end
  | _ => Reject
  end end.

(** parseExtDefs: the definitions of a package_info block, one per line, until a token left of the block *)
Fixpoint p_extdefs (n : nat) (c : nat) (ts : list ptok) : res (list (list tok) * list ptok) :=
  match n with O => Fuel | S n =>
  match ts with
  | (t, _) :: _ =>
      match t with
      | TLET | TTYPE =>
          let '(l, r) := span_until never ts in
          let r' := skip_eol r in
          if end_of_block c r' then Ok ([l], r')
          else let* (ds, r'') := p_extdefs n c r' in Ok (l :: ds, r'')
      | _ => Reject                                        (* "Unknown pkginfo def" *)
      end
  | [] => Reject
  end end.
Definition is_pkginfo (k : nat) : bool := Nat.eqb k 0.    (* TKW 0 = package_info (the harness's numbering) *)

(** parseRootStmts: root statements are not tested against any column *)
Fixpoint p_root (n : nat) (ts : list ptok) : res (list root) :=
  match n with O => Fuel | S n =>
  match skip_eol ts with
  | [] => Ok []
  | ((TLET, _) :: _) as ts' =>
      let* (s, r) := p_stmt n 0 ts' in
      let* rs := p_root n r in Ok (RLet s :: rs)
  | (TTYPE, _) :: r =>
      let '(hdr, r1) := span_until is_eq r in
      match r1 with
      | (TEQ, _) :: r2 =>
          match skip_eol r2 with
          | (TBAR, _) :: _ =>
              let* (cs, r3) := p_cases n (skip_eol r2) in
              let* rs := p_root n r3 in Ok (RType hdr cs :: rs)
          | (TLB, _) :: r3 =>                              (* parseRecordDef *)
              let* (fs, r4) := p_fdefs n r3 in
              match r4 with
              | (TRB, _) :: r5 => let* rs := p_root n r5 in Ok (RType hdr fs :: rs)
              | _ => Reject
              end
          | _ =>
              let '(l, r3) := span_until never (skip_eol r2) in
              let* rs := p_root n r3 in Ok (RType hdr [l] :: rs)
          end
      | _ => Reject
      end
  | (TKW k, _) :: r =>
      if is_pkginfo k then                                 (* parsePackageInfo: psPushOffside, parseExtDefs *)
        let '(hdr, r1) := span_until is_eq r in
        match r1 with
        | (TEQ, _) :: r2 =>
            match skip_eol r2 with
            | (_, c) :: _ =>
                if c <=? 0 then Reject
                else let* (ds, r3) := p_extdefs n c (skip_eol r2) in
                     let* rs := p_root n r3 in Ok (RInfo hdr ds :: rs)
            | [] => Reject
            end
        | _ => Reject
        end
      else
        let '(l, r1) := span_until never r in
        let* rs := p_root n r1 in Ok (ROther (TKW k :: l) :: rs)
  | _ => Reject                                            (* "Unknown stmt" *)
  end end.

Definition parse_blocks (n : nat) (ts : list ptok) : res (list root) := p_root n ts.

(** enough for every token list: each call consumes fuel 1 and at most 10 calls separate two tokens *)
Definition fuel_for (ts : list ptok) : nat := 16 + 14 * List.length ts.

Definition map_cols (rho : nat -> nat) (ts : list ptok) : list ptok :=
  map (fun p => (fst p, rho (snd p))) ts.

(* ================================================================= Part 3: laid-out syntax *)

(** The syntax tree decorated with every layout choice. Columns of tokens that are first on their line,
    and of the first token of a same-line body, are explicit; the number of extra EOL tokens after a line
    end ([blanks]: blank lines, lines holding only comments, ...) is explicit. Every other token gets the
    arbitrary column [inner] (comments and blanks inside a line only move such tokens).

    one-line expressions (conditions, match targets, the parts of a one-line if):
      [sx] = application (operator application)*  over atoms *)
Definition sxt := (nat * list nat)%type.                    (* f a b *)
Definition sx := (sxt * list (nat * sxt))%type.             (* t0 op1 t1 op2 t2 *)

(** groups: ( e, e )   [ e; e ]   { f = e; g = e } *)
Inductive gkind := GPar | GSlice | GRec.
(** a record field's name with its layout: EOLs (and the column of '=') after the name, EOLs (and the column
    of the value) after '=' *)
Definition lfld := (nat * option (nat * nat) * option (nat * nat))%type.

Inductive lpat :=
| PCase (cn : nat) (v : option nat)                        (* | Case ->   | Case v -> *)
| PDef.                                                    (* | _ -> *)

Inductive latom :=
| LA (a : nat)
| LS (a : nat)
| LLam (ps : list nat) (b : lbody) (cl : option (nat * nat))
      (* (fun ps -> body)   cl = Some (blanks, column): the ')' stands on a line of its own *)
| LUnit                                                    (* () *)
| LGroup (k : gkind) (f : option lfld) (e : lexpr) (more : lseq) (cl : option (nat * nat))
      (* opening token, first element (for a record: field name = value), further elements, closing token
         (cl = Some (blanks, column): on a line of its own) *)
(* separator (sb = Some (blanks, column): on a line of its own), then the next element on the separator's line *)
with lseq :=
| QNil
| QCons (sb : option (nat * nat)) (f : option lfld) (c : nat) (e : lexpr) (more : lseq)
with latoms :=
| ANil
| ACons (col : nat) (a : latom) (l : latoms)
with lterm :=
| LApp (a : latom) (l : latoms)
| LIf (c : sx) (tl : liftail)                              (* if c then ... *)
| LMatch (tg : sx) (b0 : nat) (arms : larms)               (* union match *)
| LSMatch (tg : sx) (b0 : nat) (arms : lsarms)             (* string match *)
(* what follows 'then' *)
with liftail :=
| TMulti (b1 : nat) (t : lblock) (r : lifrest)             (* EOL, the body as a block, the rest on later lines *)
| TOne (t : sx) (r : l1rest)                               (* the body on the same line *)
(* after a then-block *)
with lifrest :=
| IEnd                                                     (* no else *)
| IElse (bl : nat) (ecol : nat) (b : lbody)                (* else at column ecol, body on the same or next line *)
| IElif (bl : nat) (ecol : nat) (c : sx) (tl : liftail)
(* after a same-line then-body *)
with l1rest :=
| R1End                                                    (* no else *)
| R1Else (e : sx)                                          (* else e            on the same line *)
| R1Elif (c : sx) (tl : liftail)                           (* elif c then ...   on the same line *)
| R1NlElse (bl : nat) (ecol : nat) (b : lbody)             (* else on a later line, inside the offside line *)
| R1NlElif (bl : nat) (ecol : nat) (c : sx) (tl : liftail) (* elif on a later line, inside the offside line *)
with lbody :=
| BInline (b : lblock)                                     (* starts on the same line, at its own column *)
| BNext (bl : nat) (b : lblock)                            (* starts on a later line *)
with lexpr :=
| LT (t : lterm)
| LOp (a : latom) (l : latoms) (brk : option (nat * nat)) (o : nat) (e : lexpr)
      (* application, then an operator (brk = Some (blanks, column): on a line of its own), then the rest *)
with lstmt :=
| LLet (x : nat) (nl : option (nat * nat)) (e : lexpr)     (* nl = Some (blanks, column): right-hand side on a later line *)
| LLetD (x y : nat) (zs : list nat) (nl : option (nat * nat)) (e : lexpr)   (* let (x, y, zs...) = e *)
| LLetFn (f : nat) (p : nat) (ps : list nat) (b : lbody)
| LExpr (e : lexpr)
with lblock :=
| LB (col : nat) (s : lstmt) (r : lrest)
with lrest :=
| LNil
| LCons (bl : nat) (col : nat) (s : lstmt) (r : lrest)
with larms :=
| MLast (bcol : nat) (p : lpat) (b : lbody)
| MCons (bcol : nat) (p : lpat) (b : lbody) (bl : nat) (r : larms)
(* string match: literal rules, closed by a variable rule or the default rule *)
with lsarms :=
| SLast (bcol : nat) (fin : option nat) (b : lbody)        (* | v ->  (Some v)   or   | _ ->  (None) *)
| SCons (bcol : nat) (lit : nat) (b : lbody) (bl : nat) (r : lsarms).

(** root items. Union cases stand at any column; the definitions of a package_info block form an offside
    block; package / import lines are single lines *)
Inductive lroot :=
| RLetL (s : lstmt)
| RUnionL (name : nat) (b0 : nat) (c0 : nat) (case0 : list nat) (cases : list (nat * nat * list nat))
      (* type name = EOLs | case0 at column c0, then (blanks, column, case tokens)... *)
| RInfoL (name : nat) (b0 : nat) (c0 : nat) (d0 : list nat) (defs : list (nat * nat * list nat))
      (* package_info name = EOLs, let d0 at column c0, then (blanks, column, tokens of a let)... *)
| RLineL (k : nat) (toks : list nat).                      (* package x / import x *)
Definition lprog := list (nat * nat * lroot).               (* blanks before, column, root item *)

Section Render.
Variable inner : nat.

Definition eols (k : nat) : list ptok := repeat (TEOL, inner) k.
Definition nl (bl : nat) : list ptok := (TEOL, inner) :: eols bl.
Definition atoks (l : list nat) : list ptok := map (fun a => (TA a, inner)) l.

Definition r_sxt (c : nat) (t : sxt) : list ptok := (TA (fst t), c) :: atoks (snd t).
Fixpoint r_sxrest (l : list (nat * sxt)) : list ptok :=
  match l with [] => [] | (o, t) :: l' => (TOP o, inner) :: r_sxt inner t ++ r_sxrest l' end.
Definition r_sx (c : nat) (s : sx) : list ptok := r_sxt c (fst s) ++ r_sxrest (snd s).

Definition r_pat (p : lpat) : list ptok :=
  match p with
  | PCase cn None => [(TA cn, inner)]
  | PCase cn (Some v) => [(TA cn, inner); (TA v, inner)]
  | PDef => [(TUS, inner)]
  end.
Definition g_open (k : gkind) : tok := match k with GPar => TLP | GSlice => TLS | GRec => TLB end.
Definition g_close (k : gkind) : tok := match k with GPar => TRP | GSlice => TRS | GRec => TRB end.
Definition g_sep (k : gkind) : tok := match k with GPar => TCOMMA | _ => TSEMI end.
Definition r_gclose (k : gkind) (cl : option (nat * nat)) : list ptok :=
  match cl with None => [(g_close k, inner)] | Some (bl, c) => nl bl ++ [(g_close k, c)] end.
Definition r_sep (k : gkind) (sb : option (nat * nat)) : list ptok :=
  match sb with None => [(g_sep k, inner)] | Some (bl, c) => nl bl ++ [(g_sep k, c)] end.
(* the part of a record field before its value; returns the column of the value *)
Definition r_fld (c : nat) (f : option lfld) : list ptok :=
  match f with
  | None => []
  | Some (x, n1, n2) =>
      (TA x, c) :: match n1 with None => [(TEQ, inner)] | Some (bl, c1) => nl bl ++ [(TEQ, c1)] end ++
      match n2 with None => [] | Some (bl, _) => nl bl end
  end.
Definition fld_col (c : nat) (f : option lfld) : nat :=
  match f with
  | None => c
  | Some (_, _, None) => inner
  | Some (_, _, Some (_, c2)) => c2
  end.
Fixpoint r_dnames (zs : list nat) : list ptok :=
  match zs with [] => [] | z :: zs' => (TCOMMA, inner) :: (TA z, inner) :: r_dnames zs' end.
Definition r_close (cl : option (nat * nat)) : list ptok :=
  match cl with None => [(TRP, inner)] | Some (bl, c) => nl bl ++ [(TRP, c)] end.
Definition r_brk (brk : option (nat * nat)) (o : nat) : list ptok :=
  match brk with None => [(TOP o, inner)] | Some (bl, c) => nl bl ++ [(TOP o, c)] end.

Fixpoint r_atom (c : nat) (a : latom) : list ptok :=
  match a with
  | LA x => [(TA x, c)]
  | LS x => [(TSTR x, c)]
  | LLam ps b cl => (TLP, c) :: (TFUN, inner) :: atoks ps ++ (TARROW, inner) :: r_body b ++ r_close cl
  | LUnit => [(TLP, c); (TRP, inner)]
  | LGroup k f e more cl =>
      (g_open k, c) :: r_fld inner f ++ r_expr (fld_col inner f) e ++ r_seq k more ++ r_gclose k cl
  end
with r_seq (k : gkind) (q : lseq) : list ptok :=
  match q with
  | QNil => []
  | QCons sb f c e more => r_sep k sb ++ r_fld c f ++ r_expr (fld_col c f) e ++ r_seq k more
  end
with r_atoms (l : latoms) : list ptok :=
  match l with ANil => [] | ACons c a l' => r_atom c a ++ r_atoms l' end
with r_term (c : nat) (t : lterm) : list ptok :=
  match t with
  | LApp a l => r_atom c a ++ r_atoms l
  | LIf cd tl => (TIF, c) :: r_sx inner cd ++ (TTHEN, inner) :: r_tail tl
  | LMatch tg b0 arms => (TMATCH, c) :: r_sx inner tg ++ (TWITH, inner) :: nl b0 ++ r_arms arms
  | LSMatch tg b0 arms => (TMATCH, c) :: r_sx inner tg ++ (TWITH, inner) :: nl b0 ++ r_sarms arms
  end
with r_tail (tl : liftail) : list ptok :=
  match tl with
  | TMulti b1 t r => nl b1 ++ r_block t ++ r_ifrest r
  | TOne t r => r_sx inner t ++ r_1rest r
  end
with r_ifrest (r : lifrest) : list ptok :=
  match r with
  | IEnd => []
  | IElse bl ec b => nl bl ++ (TELSE, ec) :: r_body b
  | IElif bl ec cd tl => nl bl ++ (TELIF, ec) :: r_sx inner cd ++ (TTHEN, inner) :: r_tail tl
  end
with r_1rest (r : l1rest) : list ptok :=
  match r with
  | R1End => []
  | R1Else e => (TELSE, inner) :: r_sx inner e
  | R1Elif cd tl => (TELIF, inner) :: r_sx inner cd ++ (TTHEN, inner) :: r_tail tl
  | R1NlElse bl ec b => nl bl ++ (TELSE, ec) :: r_body b
  | R1NlElif bl ec cd tl => nl bl ++ (TELIF, ec) :: r_sx inner cd ++ (TTHEN, inner) :: r_tail tl
  end
with r_body (b : lbody) : list ptok :=
  match b with BInline b' => r_block b' | BNext bl b' => nl bl ++ r_block b' end
with r_expr (c : nat) (e : lexpr) : list ptok :=
  match e with
  | LT t => r_term c t
  | LOp a l brk o e' => r_atom c a ++ r_atoms l ++ r_brk brk o ++ r_expr inner e'
  end
with r_stmt (c : nat) (s : lstmt) : list ptok :=
  match s with
  | LLet x None e => (TLET, c) :: (TA x, inner) :: (TEQ, inner) :: r_expr inner e
  | LLet x (Some (bl, c')) e => (TLET, c) :: (TA x, inner) :: (TEQ, inner) :: nl bl ++ r_expr c' e
  | LLetD x y zs None e =>
      (TLET, c) :: (TLP, inner) :: (TA x, inner) :: (TCOMMA, inner) :: (TA y, inner) :: r_dnames zs ++
      (TRP, inner) :: (TEQ, inner) :: r_expr inner e
  | LLetD x y zs (Some (bl, c')) e =>
      (TLET, c) :: (TLP, inner) :: (TA x, inner) :: (TCOMMA, inner) :: (TA y, inner) :: r_dnames zs ++
      (TRP, inner) :: (TEQ, inner) :: nl bl ++ r_expr c' e
  | LLetFn f p ps b => (TLET, c) :: (TA f, inner) :: (TA p, inner) :: atoks ps ++ (TEQ, inner) :: r_body b
  | LExpr e => r_expr c e
  end
with r_block (b : lblock) : list ptok :=
  match b with LB c s r => r_stmt c s ++ r_rest r end
with r_rest (r : lrest) : list ptok :=
  match r with LNil => [] | LCons bl c s r' => nl bl ++ r_stmt c s ++ r_rest r' end
with r_arms (a : larms) : list ptok :=
  match a with
  | MLast bc p b => (TBAR, bc) :: r_pat p ++ (TARROW, inner) :: r_body b
  | MCons bc p b bl r => (TBAR, bc) :: r_pat p ++ (TARROW, inner) :: r_body b ++ nl bl ++ r_arms r
  end
with r_sarms (a : lsarms) : list ptok :=
  match a with
  | SLast bc (Some v) b => (TBAR, bc) :: (TA v, inner) :: (TARROW, inner) :: r_body b
  | SLast bc None b => (TBAR, bc) :: (TUS, inner) :: (TARROW, inner) :: r_body b
  | SCons bc lit b bl r => (TBAR, bc) :: (TSTR lit, inner) :: (TARROW, inner) :: r_body b ++ nl bl ++ r_sarms r
  end.

Fixpoint r_cases (cs : list (nat * nat * list nat)) : list ptok :=
  match cs with
  | [] => []
  | (bl, c, toks) :: cs' => nl bl ++ (TBAR, c) :: atoks toks ++ r_cases cs'
  end.
Fixpoint r_defs (ds : list (nat * nat * list nat)) : list ptok :=
  match ds with
  | [] => []
  | (bl, c, toks) :: ds' => nl bl ++ (TLET, c) :: atoks toks ++ r_defs ds'
  end.
Definition r_root (c : nat) (x : lroot) : list ptok :=
  match x with
  | RLetL s => r_stmt c s
  | RUnionL name b0 c0 case0 cases =>
      (TTYPE, c) :: (TA name, inner) :: (TEQ, inner) :: nl b0 ++ (TBAR, c0) :: atoks case0 ++ r_cases cases
  | RInfoL name b0 c0 d0 defs =>
      (TKW 0, c) :: (TA name, inner) :: (TEQ, inner) :: nl b0 ++ (TLET, c0) :: atoks d0 ++ r_defs defs
  | RLineL k toks => (TKW (S k), c) :: atoks toks
  end.
Fixpoint r_prog (p : lprog) : list ptok :=
  match p with
  | [] => []
  | (bl, c, x) :: p' => eols bl ++ r_root c x ++ nl 0 ++ r_prog p'
  end.
End Render.

(** erasure: the syntax tree without the layout *)
Definition er_sxt (t : sxt) : expr := EApp (AT (TA (fst t)) :: map (fun a => AT (TA a)) (snd t)).
Fixpoint er_sxrest (cur : expr) (l : list (nat * sxt)) : expr :=
  match l with [] => cur | (o, t) :: l' => er_sxrest (EBin cur (TOP o) (er_sxt t)) l' end.
Definition er_sx (s : sx) : expr := er_sxrest (er_sxt (fst s)) (snd s).
Definition er_pat (p : lpat) : list tok :=
  match p with PCase cn None => [TA cn] | PCase cn (Some v) => [TA cn; TA v] | PDef => [TUS] end.

Definition er_fld (f : option lfld) : list tok := match f with Some (x, _, _) => [TA x] | None => [] end.
Fixpoint er_dnames (zs : list nat) : list tok :=
  match zs with [] => [] | z :: zs' => TCOMMA :: TA z :: er_dnames zs' end.
Fixpoint er_atom (a : latom) : atom :=
  match a with
  | LA x => AT (TA x)
  | LS x => AT (TSTR x)
  | LLam ps b _ => APar [EFun (map TA ps) (er_body b)]
  | LUnit => APar []
  | LGroup k f e more _ =>
      match k with
      | GPar => APar (er_expr e :: er_seq more)
      | GSlice => ASlice (er_expr e :: er_seq more)
      | GRec => ARec ((er_fld f, er_expr e) :: er_fseq more)
      end
  end
with er_seq (q : lseq) : list expr :=
  match q with QNil => [] | QCons _ _ _ e more => er_expr e :: er_seq more end
with er_fseq (q : lseq) : list (list tok * expr) :=
  match q with QNil => [] | QCons _ f _ e more => (er_fld f, er_expr e) :: er_fseq more end
with er_atoms (l : latoms) : list atom :=
  match l with ANil => [] | ACons _ a l' => er_atom a :: er_atoms l' end
with er_term (t : lterm) : expr :=
  match t with
  | LApp a l => EApp (er_atom a :: er_atoms l)
  | LIf c tl => er_tail (er_sx c) tl
  | LMatch tg _ arms => EMatch (er_sx tg) (er_arms arms)
  | LSMatch tg _ arms => EMatch (er_sx tg) (er_sarms arms)
  end
with er_tail (cond : expr) (tl : liftail) : expr :=
  match tl with
  | TMulti _ t r => EIf cond (er_block t) (er_ifrest r)
  | TOne t r => EIf cond (Blk [SExpr (er_sx t)]) (er_1rest r)
  end
with er_ifrest (r : lifrest) : option block :=
  match r with
  | IEnd => None
  | IElse _ _ b => Some (er_body b)
  | IElif _ _ c tl => Some (Blk [SExpr (er_tail (er_sx c) tl)])
  end
with er_1rest (r : l1rest) : option block :=
  match r with
  | R1End => None
  | R1Else e => Some (Blk [SExpr (er_sx e)])
  | R1Elif c tl => Some (Blk [SExpr (er_tail (er_sx c) tl)])
  | R1NlElse _ _ b => Some (er_body b)
  | R1NlElif _ _ c tl => Some (Blk [SExpr (er_tail (er_sx c) tl)])
  end
with er_body (b : lbody) : block :=
  match b with BInline b' => er_block b' | BNext _ b' => er_block b' end
with er_expr (e : lexpr) : expr :=
  match e with
  | LT t => er_term t
  | LOp a l _ o e' => er_cont (EApp (er_atom a :: er_atoms l)) o e'
  end
with er_cont (cur : expr) (o : nat) (e : lexpr) : expr :=
  match e with
  | LT t => EBin cur (TOP o) (er_term t)
  | LOp a l _ o' e' => er_cont (EBin cur (TOP o) (EApp (er_atom a :: er_atoms l))) o' e'
  end
with er_stmt (s : lstmt) : stmt :=
  match s with
  | LLet x _ e => SLet [TA x] (er_expr e)
  | LLetD x y zs _ e => SLet (TLP :: TA x :: TCOMMA :: TA y :: er_dnames zs ++ [TRP]) (er_expr e)
  | LLetFn f p ps b => SLetFn (TA f :: TA p :: map TA ps) (er_body b)
  | LExpr e => SExpr (er_expr e)
  end
with er_block (b : lblock) : block :=
  match b with LB _ s r => Blk (er_stmt s :: er_rest r) end
with er_rest (r : lrest) : list stmt :=
  match r with LNil => [] | LCons _ _ s r' => er_stmt s :: er_rest r' end
with er_arms (a : larms) : list rule :=
  match a with
  | MLast _ p b => [Rule (er_pat p) (er_body b)]
  | MCons _ p b _ r => Rule (er_pat p) (er_body b) :: er_arms r
  end
with er_sarms (a : lsarms) : list rule :=
  match a with
  | SLast _ (Some v) b => [Rule [TA v] (er_body b)]
  | SLast _ None b => [Rule [TUS] (er_body b)]
  | SCons _ lit b _ r => Rule [TSTR lit] (er_body b) :: er_sarms r
  end.

Definition er_root (x : lroot) : root :=
  match x with
  | RLetL s => RLet (er_stmt s)
  | RUnionL name _ _ case0 cases => RType [TA name] (map TA case0 :: map (fun c => map TA (snd c)) cases)
  | RInfoL name _ _ d0 defs => RInfo [TA name] ((TLET :: map TA d0) :: map (fun d => TLET :: map TA (snd d)) defs)
  | RLineL k toks => ROther (TKW (S k) :: map TA toks)
  end.
Definition er_prog (p : lprog) : list root := map (fun x => er_root (snd x)) p.

(** --- which layouts keep the block structure --- *)
Definition bcol (b : lblock) : nat := match b with LB c _ _ => c end.
Definition body_col (b : lbody) : nat := match b with BInline b' => bcol b' | BNext _ b' => bcol b' end.
(* [prev]: the column of the block just before *)
Fixpoint tail_bd (tl : liftail) : option nat :=
  match tl with TMulti _ t r => ifrest_bd (bcol t) r | TOne _ r => r1_bd r end
with ifrest_bd (prev : nat) (r : lifrest) : option nat :=
  match r with IEnd => Some prev | IElse _ _ b => Some (body_col b) | IElif _ _ _ tl => tail_bd tl end
with r1_bd (r : l1rest) : option nat :=
  match r with
  | R1End => None | R1Else _ => None
  | R1Elif _ tl => tail_bd tl
  | R1NlElse _ _ b => Some (body_col b)
  | R1NlElif _ _ _ tl => tail_bd tl
  end.
Fixpoint arms_bd (a : larms) : nat :=
  match a with MLast _ _ b => body_col b | MCons _ _ _ _ r => arms_bd r end.
Fixpoint sarms_bd (a : lsarms) : nat :=
  match a with SLast _ _ b => body_col b | SCons _ _ _ _ r => sarms_bd r end.

(** the column of the outermost block that is still open where the construct ends: the next line must
    stay strictly left of it (None: the construct ends with an atom) *)
Definition term_bd (t : lterm) : option nat :=
  match t with
  | LApp _ _ => None
  | LIf _ tl => tail_bd tl
  | LMatch _ _ arms => Some (arms_bd arms)
  | LSMatch _ _ arms => Some (sarms_bd arms)
  end.
Fixpoint expr_bd (e : lexpr) : option nat :=
  match e with LT t => term_bd t | LOp _ _ _ _ e' => expr_bd e' end.
Definition stmt_bd (s : lstmt) : option nat :=
  match s with LLet _ _ e => expr_bd e | LLetD _ _ _ _ e => expr_bd e | LLetFn _ _ _ b => Some (body_col b) | LExpr e => expr_bd e end.
(** does the construct end with something of its own block that takes a following token standing inside
    the offside line: the arms of a union match take a '|', a one-line if without else takes an else/elif
    on a later line? (then such a token must be left of that block) *)
Fixpoint tail_tm (tl : liftail) : bool :=
  match tl with TMulti _ _ r => ifrest_tm r | TOne _ r => r1_tm r end
with ifrest_tm (r : lifrest) : bool :=
  match r with IEnd => false | IElse _ _ _ => false | IElif _ _ _ tl => tail_tm tl end
with r1_tm (r : l1rest) : bool :=
  match r with
  | R1End => true
  | R1Else _ => false
  | R1Elif _ tl => tail_tm tl
  | R1NlElse _ _ _ => false
  | R1NlElif _ _ _ tl => tail_tm tl
  end.
Definition term_tm (t : lterm) : bool :=
  match t with LMatch _ _ _ => true | LIf _ tl => tail_tm tl | _ => false end.
Fixpoint expr_tm (e : lexpr) : bool :=
  match e with LT t => term_tm t | LOp _ _ _ _ e' => expr_tm e' end.
Definition stmt_tm (s : lstmt) : bool :=
  match s with LLet _ _ e => expr_tm e | LLetD _ _ _ _ e => expr_tm e | LLetFn _ _ _ _ => false | LExpr e => expr_tm e end.

(** is an if without else still open where the construct ends? (a following else/elif would attach to
    it: the dangling else goes to the innermost if) *)
Fixpoint term_io (t : lterm) : bool :=
  match t with
  | LApp _ _ => false
  | LIf _ tl => tail_io tl
  | LMatch _ _ arms => arms_io arms
  | LSMatch _ _ arms => sarms_io arms
  end
with tail_io (tl : liftail) : bool :=
  match tl with TMulti _ _ r => ifrest_io r | TOne _ r => r1_io r end
with ifrest_io (r : lifrest) : bool :=
  match r with IEnd => true | IElse _ _ b => body_io b | IElif _ _ _ tl => tail_io tl end
(* a one-line if without else only takes an else/elif inside the offside line: see term_tm *)
with r1_io (r : l1rest) : bool :=
  match r with
  | R1End => false | R1Else _ => false
  | R1Elif _ tl => tail_io tl
  | R1NlElse _ _ b => body_io b
  | R1NlElif _ _ _ tl => tail_io tl
  end
with body_io (b : lbody) : bool :=
  match b with BInline b' => block_io b' | BNext _ b' => block_io b' end
with expr_io (e : lexpr) : bool :=
  match e with LT t => term_io t | LOp _ _ _ _ e' => expr_io e' end
with stmt_io (s : lstmt) : bool :=
  match s with LLet _ _ e => expr_io e | LLetD _ _ _ _ e => expr_io e | LLetFn _ _ _ b => body_io b | LExpr e => expr_io e end
with block_io (b : lblock) : bool :=
  match b with LB _ s r => rest_io (stmt_io s) r end
(* [d]: the answer for the statement before [r] *)
with rest_io (d : bool) (r : lrest) : bool :=
  match r with LNil => d | LCons _ _ s r' => rest_io (stmt_io s) r' end
with arms_io (a : larms) : bool :=
  match a with MLast _ _ b => body_io b | MCons _ _ _ _ r => arms_io r end
with sarms_io (a : lsarms) : bool :=
  match a with SLast _ _ b => body_io b | SCons _ _ _ _ r => sarms_io r end.

Definition under (bd : option nat) (c : nat) : Prop := match bd with None => True | Some m => c < m end.
Definition is_lexpr (s : lstmt) : Prop := match s with LExpr _ => True | _ => False end.
Definition not_default (p : lpat) : Prop := match p with PDef => False | _ => True end.

(** the token after an element: on the same line exactly when the element ends with an atom; after an
    element that ends with a block it stands on a later line, strictly left of that block (a ')' may also
    follow the block's last line directly, at any column) *)
Definition sep_ok (bd : option nat) (sb : option (nat * nat)) : Prop :=
  match bd, sb with
  | None, None => True
  | Some b, Some (_, c) => c < b
  | _, _ => False
  end.
Definition close_ok (k : gkind) (bd : option nat) (cl : option (nat * nat)) : Prop :=
  match k, bd with
  | GPar, Some _ => True
  | _, _ => sep_ok bd cl
  end.
Definition fld_ok (k : gkind) (f : option lfld) : Prop :=
  match k, f with GRec, Some _ => True | GRec, None => False | _, None => True | _, Some _ => False end.
Definition is_slice (a : latom) : bool := match a with LGroup GSlice _ _ _ _ => true | _ => false end.

Fixpoint wf_atom (off : nat) (a : latom) : Prop :=
  match a with
  | LA _ => True | LS _ => True
  | LLam _ b _ => wf_body off b
  | LUnit => True
  | LGroup k f e more cl => fld_ok k f /\ wf_expr off e /\ wf_seq off k (expr_bd e) more cl
  end
(* [bd]: what the previous element leaves open *)
with wf_seq (off : nat) (k : gkind) (bd : option nat) (q : lseq) (cl : option (nat * nat)) : Prop :=
  match q with
  | QNil => close_ok k bd cl
  | QCons sb f _ e more => sep_ok bd sb /\ fld_ok k f /\ wf_expr off e /\ wf_seq off k (expr_bd e) more cl
  end
with wf_atoms (off : nat) (l : latoms) : Prop :=
  match l with ANil => True | ACons _ a l' => wf_atom off a /\ wf_atoms off l' end
with wf_term (off : nat) (t : lterm) : Prop :=
  match t with
  | LApp a l => wf_atom off a /\ wf_atoms off l /\ (is_slice a = true -> l = ANil)   (* parseTerm: [..] is a term *)
  | LIf _ tl => wf_tail off tl
  | LMatch _ _ arms =>
      match arms with MLast _ p _ => not_default p | MCons _ p _ _ _ => not_default p end /\
      wf_arms off None arms
  | LSMatch _ _ arms =>
      match arms with SLast _ _ _ => False | SCons _ _ _ _ _ => True end /\     (* at least one literal rule *)
      wf_sarms off None arms
  end
(* [prev]: the block just before: 'else' / 'elif' must be strictly left of it, and it must not end in an
   if without else (that if would take the else) *)
with wf_tail (off : nat) (tl : liftail) : Prop :=
  match tl with
  | TMulti _ t r => wf_block off t /\ wf_ifrest off t r
  | TOne _ r => wf_1rest off r
  end
with wf_ifrest (off : nat) (prev : lblock) (r : lifrest) : Prop :=
  match r with
  | IEnd => True
  | IElse _ ec b => ec < bcol prev /\ block_io prev = false /\ wf_body off b
  | IElif _ ec _ tl => ec < bcol prev /\ block_io prev = false /\ wf_tail off tl
  end
(* after a same-line then-body an else/elif on a later line must stand inside the offside line of the
   block that contains the if *)
with wf_1rest (off : nat) (r : l1rest) : Prop :=
  match r with
  | R1End => True
  | R1Else _ => True
  | R1Elif _ tl => wf_tail off tl
  | R1NlElse _ ec b => off <= ec /\ wf_body off b
  | R1NlElif _ ec _ tl => off <= ec /\ wf_tail off tl
  end
with wf_body (off : nat) (b : lbody) : Prop :=
  match b with BInline b' => wf_block off b' | BNext _ b' => wf_block off b' end
with wf_expr (off : nat) (e : lexpr) : Prop :=
  match e with
  | LT t => wf_term off t
  | LOp a l _ _ e' => wf_atom off a /\ wf_atoms off l /\ (is_slice a = true -> l = ANil) /\ wf_expr off e'
  end
with wf_stmt (off : nat) (s : lstmt) : Prop :=
  match s with
  | LLet _ _ e => wf_expr off e
  | LLetD _ _ _ _ e => wf_expr off e
  | LLetFn _ _ _ b => wf_body off b
  | LExpr e => wf_expr off e
  end
(* a block is strictly right of the enclosing block; the constructs of its statements see its column *)
with wf_block (off : nat) (b : lblock) : Prop :=
  match b with LB c s r => off < c /\ wf_stmt c s /\ wf_rest c s r end
(* a later statement: not left of the block, strictly left of everything the previous statement left open;
   the last statement is an expression *)
with wf_rest (c : nat) (prev : lstmt) (r : lrest) : Prop :=
  match r with
  | LNil => is_lexpr prev
  | LCons _ c' s r' => c <= c' /\ under (stmt_bd prev) c' /\ wf_stmt c s /\ wf_rest c s r'
  end
(* an arm's bar is inside the offside line and strictly left of the previous arm's body;
   a default arm is the last one *)
with wf_arms (off : nat) (prev : option nat) (a : larms) : Prop :=
  match a with
  | MLast bc _ b => off <= bc /\ under prev bc /\ wf_body off b
  | MCons bc p b _ r => off <= bc /\ under prev bc /\ not_default p /\ wf_body off b /\ wf_arms off (Some (body_col b)) r
  end
(* string match: the literal rules and the variable rule are not tested against the offside line (they only
   have to be left of the previous body); the default rule is *)
with wf_sarms (off : nat) (prev : option nat) (a : lsarms) : Prop :=
  match a with
  | SLast bc fin b => under prev bc /\ (fin = None -> off <= bc) /\ wf_body off b
  | SCons bc _ b _ r => under prev bc /\ wf_body off b /\ wf_sarms off (Some (body_col b)) r
  end.

(** root statements are lets; the next one starts left of everything the previous one left open *)
Definition wf_root (x : lroot) : Prop :=
  match x with
  | RLetL s => wf_stmt 0 s /\ match s with LExpr _ => False | LLetD _ _ _ _ _ => False | _ => True end
  | RUnionL _ _ _ _ _ => True                                (* cases are not tested against any column *)
  | RInfoL _ _ c0 _ defs => 0 < c0 /\ Forall (fun d => c0 <= snd (fst d)) defs
  | RLineL _ _ => True
  end.
Definition root_bd (x : lroot) : option nat :=
  match x with RLetL s => stmt_bd s | RInfoL _ _ c0 _ _ => Some c0 | _ => None end.
Fixpoint wf_prog (prev : option nat) (p : lprog) : Prop :=
  match p with
  | [] => True
  | (_, c, x) :: p' => under prev c /\ wf_root x /\ wf_prog (root_bd x) p'
  end.
