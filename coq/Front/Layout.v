(** C06 model: column tracking of the tokenizer and the offside skeleton of the parser.
    Definitions only (proofs: LayoutProofs.v, LayoutInv.v).

    Part 1  [tkz_cols]      fc/tokenizer.fo newTkz / tkzNext: the column of the current token is
                            maintained incrementally (reset after an EOL token, += begin delta else).
    Part 2  [parse_blocks]  fc/parse_state.fo psPushOffside / psPopOffside / psCurOffside / psSkipEOL and
                            fc/parser.fo parseBlock / parseBlockAfterPushScope / parseStmtList /
                            isEndOfBlock / parseStmt / parseRawLet / parseLetOneVarDef / parseLetFuncDef /
                            parseExprWithPrec / parseBinAfter / parseTerm / parseAtomList / isEndOfTerm /
                            parseAtom (parentheses, tuples) / parseIfAfterIfExpr / parseMatchExpr /
                            parseMatchRules / parseUnionMatchRules / parseURules / insideOffside /
                            isDefaultMR / parseSMRules / parseSRules / parseFunExpr / parseRootStmts /
                            parseCaseDefs, reduced to what decides the block structure: every token that is
                            not a layout keyword is an opaque atom [TA]; binary operators are not grouped
                            by precedence (a chain  t0 op1 t1 op2 t2  is kept left-nested; grouping is C08's
                            subject and does not depend on the layout); scopes, types and inference are
                            absent.  Only the top of the offside stack is ever read and push/pop are
                            properly nested, so the stack is the parameter [off] of the recursive calls.
    Part 3  decorated syntax trees (every layout choice explicit), [render], [erase], validity [wf_*]. *)
From Coq Require Import List ZArith Arith Bool.
Import ListNotations.

(* ================================================================= Part 1: columns *)

(** a scanned token as the tokenizer sees it: is it an EOL token, offset of its first byte, length *)
Record rtok := mkRtok { rt_eol : bool; rt_begin : Z; rt_len : Z }.

(** tkzNext: [cur] is the current token and [col] its column; the columns of the following tokens *)
Fixpoint cols_from (cur : rtok) (col : Z) (rest : list rtok) : list Z :=
  match rest with
  | [] => []
  | nt :: rest' =>
      let c' := if rt_eol cur
                then (rt_begin nt - (rt_begin cur + rt_len cur))%Z     (* bol = begin + len of the EOL *)
                else (col + (rt_begin nt - rt_begin cur))%Z in         (* delta of the begins *)
      c' :: cols_from nt c' rest'
  end.

(** newTkz: the first token is on the first line, its begin is its column *)
Definition tkz_cols (ts : list rtok) : list Z :=
  match ts with
  | [] => []
  | t :: rest => rt_begin t :: cols_from t (rt_begin t) rest
  end.

(* ================================================================= Part 2: the offside parser *)

Inductive tok :=
| TA (a : nat)      (* any token that is none of the below (identifier, number, '.', ':', a bracket group ...) *)
| TSTR (a : nat)    (* string literal: an atom; after '|' it makes the match a string match *)
| TUS               (* _ *)
| TLET | TEQ | TIF | TTHEN | TELSE | TELIF | TMATCH | TWITH | TBAR | TARROW | TFUN
| TLP | TRP | TCOMMA
| TOP (o : nat)     (* binary operator other than '=' ( |> && || < > <= >= <> + - * / ) *)
| TSEP (a : nat)    (* ; } ] : end a term, never consumed by the skeleton *)
| TTYPE             (* type *)
| TKW (k : nat)     (* package import package_info and *)
| TEOL.
Definition ptok := (tok * nat)%type.          (* token with its column *)

(** three-valued outcome: fuel exhaustion is never confused with a rejection *)
Inductive res (A : Type) := Ok (a : A) | Reject | Fuel.
Arguments Ok {A} a. Arguments Reject {A}. Arguments Fuel {A}.
Definition bind {A B} (m : res A) (f : A -> res B) : res B :=
  match m with Ok a => f a | Reject => Reject | Fuel => Fuel end.
Notation "'let*' p ':=' m 'in' f" := (bind m (fun p => f))
  (at level 200, p pattern, m at level 100, f at level 200).

(** what the parser returns *)
Inductive expr :=
| EApp (l : list atom)                              (* juxtaposition: f a b *)
| EIf (c : expr) (t : block) (e : option block)     (* elif = else + a block holding the inner if; one-line
                                                       bodies are expression-only blocks (exprOnlyBlock) *)
| EMatch (target : expr) (rules : list rule)
| EFun (params : list tok) (b : block)
| EBin (l : expr) (o : tok) (r : expr)
with atom :=
| AT (t : tok)
| APar (es : list expr)                             (* ()  (e)  (e, e) *)
with stmt :=
| SLet (hdr : list tok) (e : expr)                  (* let x = e ; let (a, b) = e *)
| SLetFn (hdr : list tok) (b : block)               (* let f p ... = block *)
| SExpr (e : expr)
with block := Blk (ss : list stmt)
with rule := Rule (pat : list tok) (b : block).

Inductive root :=
| RLet (s : stmt)
| RType (hdr : list tok) (cases : list (list tok))
| ROther (l : list tok).

Fixpoint skip_eol (ts : list ptok) : list ptok :=
  match ts with (TEOL, _) :: r => skip_eol r | _ => ts end.

Definition is_binop (t : tok) : bool := match t with TOP _ | TEQ => true | _ => false end.

(** isEndOfTerm (on a non-EOL token psNextNonEOLIsBinOp is "the current token is a binary operator") *)
Definition end_of_term (ts : list ptok) : bool :=
  match ts with
  | [] => true
  | (t, _) :: _ =>
      match t with
      | TEOL | TSEP _ | TRP | TWITH | TTHEN | TELSE | TCOMMA => true
      | _ => is_binop t
      end
  end.

(** isEndOfBlock: offside, EOF or ')' *)
Definition end_of_block (c : nat) (ts : list ptok) : bool :=
  match ts with
  | [] => true
  | (t, c') :: _ => (c' <? c) || match t with TRP => true | _ => false end
  end.

(** insideOffside && psCurIs BAR *)
Definition bar_inside (off : nat) (ts : list ptok) : bool :=
  match ts with (TBAR, c) :: _ => off <=? c | _ => false end.
(** isDefaultMR *)
Definition is_default_mr (ts : list ptok) : bool :=
  match ts with (TBAR, _) :: (TUS, _) :: _ => true | _ => false end.
Definition is_slit_rule (ts : list ptok) : bool :=
  match ts with (TBAR, _) :: (TSTR _, _) :: _ => true | _ => false end.

(** tokens up to (excluding) the first token satisfying [stop], never past an EOL *)
Fixpoint span_until (stop : tok -> bool) (ts : list ptok) : list tok * list ptok :=
  match ts with
  | [] => ([], [])
  | (t, c) :: r =>
      if stop t || match t with TEOL => true | _ => false end then ([], ts)
      else let '(l, r') := span_until stop r in (t :: l, r')
  end.
Definition is_eq (t : tok) := match t with TEQ => true | _ => false end.
Definition is_arrow (t : tok) := match t with TARROW => true | _ => false end.
Definition is_bar (t : tok) := match t with TBAR => true | _ => false end.
Definition never (t : tok) := false.

(** parseRawLet: 'let (' is a destructuring let, 'let x =' a value; anything else defines a function *)
Definition is_var_hdr (hdr : list tok) : bool :=
  match hdr with TLP :: _ => true | [_] => true | _ => false end.

Definition last_is_expr (ss : list stmt) : bool :=
  match last ss (SLet [] (EApp [])) with SExpr _ => true | _ => false end.

Fixpoint p_expr (n : nat) (off : nat) (ts : list ptok) {struct n} : res (expr * list ptok) :=
  match n with O => Fuel | S n =>
  let* (e, r) := p_term n off ts in p_binafter n off e r
  end
(* parseBinAfter (and the tail of parseExprWithPrec): an operator may follow on a later line *)
with p_binafter (n : nat) (off : nat) (cur : expr) (ts : list ptok) {struct n} : res (expr * list ptok) :=
  match n with O => Fuel | S n =>
  match skip_eol ts with
  | (t, _) :: r =>
      if is_binop t then
        let* (rhs, r1) := p_term n off r in p_binafter n off (EBin cur t rhs) r1
      else Ok (cur, ts)
  | [] => Ok (cur, ts)
  end end
with p_term (n : nat) (off : nat) (ts : list ptok) {struct n} : res (expr * list ptok) :=
  match n with O => Fuel | S n =>
  match ts with
  | (TMATCH, _) :: r =>
      let* (target, r1) := p_expr n off r in
      match r1 with
      | (TWITH, _) :: r2 =>
          let* (rules, r3) := p_rules n off (skip_eol r2) in Ok (EMatch target rules, r3)
      | _ => Reject
      end
  | (TFUN, _) :: r =>
      let '(ps, r1) := span_until is_arrow r in
      match r1 with
      | (TARROW, _) :: r2 => let* (b, r3) := p_block n off (skip_eol r2) in Ok (EFun ps b, r3)
      | _ => Reject
      end
  | (TIF, _) :: r => p_if n off r
  | _ => let* (l, r) := p_atoms n off ts in Ok (EApp l, r)
  end end
(* parseIfAfterIfExpr *)
with p_if (n : nat) (off : nat) (ts : list ptok) {struct n} : res (expr * list ptok) :=
  match n with O => Fuel | S n =>
  let* (cond, r1) := p_expr n off ts in
  match r1 with
  | (TTHEN, _) :: r2 =>
      match r2 with
      | (TEOL, _) :: _ =>
          let* (tb, r3) := p_block n off (skip_eol r2) in
          match skip_eol r3 with
          | (TELSE, _) :: r4 =>
              let* (eb, r5) := p_block n off (skip_eol r4) in Ok (EIf cond tb (Some eb), r5)
          | (TELIF, _) :: r4 =>
              let* (e, r5) := p_if n off r4 in Ok (EIf cond tb (Some (Blk [SExpr e])), r5)
          | _ => Ok (EIf cond tb None, r3)
          end
      | _ =>
          (* one line: if COND then TBODY else FBODY; 'else' is looked for on the same line only *)
          let* (te, r3) := p_expr n off r2 in
          match r3 with
          | (TELSE, _) :: r4 =>
              let* (ee, r5) := p_expr n off r4 in
              Ok (EIf cond (Blk [SExpr te]) (Some (Blk [SExpr ee])), r5)
          | _ => Ok (EIf cond (Blk [SExpr te]) None, r3)
          end
      end
  | _ => Reject
  end end
with p_atoms (n : nat) (off : nat) (ts : list ptok) {struct n} : res (list atom * list ptok) :=
  match n with O => Fuel | S n =>
  let* (a, r) := p_atom n off ts in
  if end_of_term r then Ok ([a], r)
  else let* (l, r') := p_atoms n off r in Ok (a :: l, r')
  end
with p_atom (n : nat) (off : nat) (ts : list ptok) {struct n} : res (atom * list ptok) :=
  match n with O => Fuel | S n =>
  match ts with
  | (TA a, _) :: r => Ok (AT (TA a), r)
  | (TSTR a, _) :: r => Ok (AT (TSTR a), r)
  | (TUS, _) :: r => Ok (AT TUS, r)
  | (TLP, _) :: (TRP, _) :: r => Ok (APar [], r)
  | (TLP, _) :: r =>
      let* (e, r1) := p_expr n off r in
      let* (es, r2) := p_commas n off r1 in
      match r2 with
      | (TRP, _) :: r3 => Ok (APar (e :: es), r3)
      | _ => Reject
      end
  | _ => Reject                                           (* "Unown atom." *)
  end end
with p_commas (n : nat) (off : nat) (ts : list ptok) {struct n} : res (list expr * list ptok) :=
  match n with O => Fuel | S n =>
  match ts with
  | (TCOMMA, _) :: r =>
      let* (e, r1) := p_expr n off r in
      let* (es, r2) := p_commas n off r1 in Ok (e :: es, r2)
  | _ => Ok ([], ts)
  end end
(* parseMatchRules *)
with p_rules (n : nat) (off : nat) (ts : list ptok) {struct n} : res (list rule * list ptok) :=
  match n with O => Fuel | S n =>
  if is_default_mr ts then Reject                          (* "Only default case, illegal." *)
  else if is_slit_rule ts then p_srules n off ts
  else match ts with (TBAR, _) :: _ => p_urules n off ts | _ => Reject end
  end
(* one rule: '|' pattern '->' EOL* block *)
with p_rule (n : nat) (off : nat) (ts : list ptok) {struct n} : res (rule * list ptok) :=
  match n with O => Fuel | S n =>
  match ts with
  | (TBAR, _) :: r =>
      let '(pat, r1) := span_until is_arrow r in
      match r1 with
      | (TARROW, _) :: r2 => let* (b, r3) := p_block n off (skip_eol r2) in Ok (Rule pat b, r3)
      | _ => Reject
      end
  | _ => Reject
  end end
(* parseUnionMatchRules + parseURules: a further arm must be inside the offside line *)
with p_urules (n : nat) (off : nat) (ts : list ptok) {struct n} : res (list rule * list ptok) :=
  match n with O => Fuel | S n =>
  let* (r1, rest) := p_rule n off ts in
  if bar_inside off rest && negb (is_default_mr rest) then
    let* (rs, rest') := p_urules n off (skip_eol rest) in Ok (r1 :: rs, rest')
  else if bar_inside off rest && is_default_mr rest then
    let* (d, rest') := p_rule n off rest in Ok ([r1; d], rest')
  else Ok ([r1], rest)
  end
(* parseSMRules + parseSRules: literal rules are not tested against the offside line; the list ends with
   a default rule (inside the offside line) or a variable rule *)
with p_srules (n : nat) (off : nat) (ts : list ptok) {struct n} : res (list rule * list ptok) :=
  match n with O => Fuel | S n =>
  let* (r1, rest) := p_rule n off ts in
  if is_slit_rule rest then
    let* (rs, rest') := p_srules n off rest in Ok (r1 :: rs, rest')
  else if is_default_mr rest && negb (bar_inside off rest) then Reject   (* '_' is not a variable rule *)
  else
    let* (d, rest') := p_rule n off rest in Ok ([r1; d], rest')
  end
(* parseStmt / parseRawLet *)
with p_stmt (n : nat) (off : nat) (ts : list ptok) {struct n} : res (stmt * list ptok) :=
  match n with O => Fuel | S n =>
  match ts with
  | (TLET, _) :: r =>
      let '(hdr, r1) := span_until is_eq r in
      match r1 with
      | (TEQ, _) :: r2 =>
          if is_var_hdr hdr then
            let* (e, r3) := p_expr n off (skip_eol r2) in Ok (SLet hdr e, r3)
          else
            let* (b, r3) := p_block n off (skip_eol r2) in Ok (SLetFn hdr b, r3)
      | _ => Reject
      end
  | _ => let* (e, r) := p_expr n off ts in Ok (SExpr e, r)
  end end
(* parseBlock: psPushOffside ("Overrun offside rule"), parseStmtList, the last statement is an expression *)
with p_block (n : nat) (off : nat) (ts : list ptok) {struct n} : res (block * list ptok) :=
  match n with O => Fuel | S n =>
  match ts with
  | (_, c) :: _ =>
      if c <=? off then Reject
      else let* (ss, r) := p_stmts n c ts in
           if last_is_expr ss then Ok (Blk ss, r) else Reject
  | [] => Reject
  end end
(* parseStmtList: ParseList2 (parseStmt then psSkipEOL) isEndOfBlock *)
with p_stmts (n : nat) (c : nat) (ts : list ptok) {struct n} : res (list stmt * list ptok) :=
  match n with O => Fuel | S n =>
  let* (s, r) := p_stmt n c ts in
  let r' := skip_eol r in
  if end_of_block c r' then Ok ([s], r')
  else let* (ss, r'') := p_stmts n c r' in Ok (s :: ss, r'')
  end.

(** parseCaseDefs: '|' case tokens, on one or several lines, at any column *)
Fixpoint p_cases (n : nat) (ts : list ptok) : res (list (list tok) * list ptok) :=
  match n with O => Fuel | S n =>
  match ts with
  | (TBAR, _) :: r =>
      let '(cs, r1) := span_until is_bar r in
      match skip_eol r1 with
      | (TBAR, _) :: _ => let* (css, r2) := p_cases n (skip_eol r1) in Ok (cs :: css, r2)
      | _ => Ok ([cs], r1)
      end
  | _ => Reject
  end end.

(** parseRootStmts: root statements are not tested against any column *)
Fixpoint p_root (n : nat) (ts : list ptok) : res (list root) :=
  match n with O => Fuel | S n =>
  match skip_eol ts with
  | [] => Ok []
  | ((TLET, _) :: _) as ts' =>
      let* (s, r) := p_stmt n 0 ts' in
      let* rs := p_root n r in Ok (RLet s :: rs)
  | (TTYPE, _) :: r =>
      let '(hdr, r1) := span_until is_eq r in
      match r1 with
      | (TEQ, _) :: r2 =>
          match skip_eol r2 with
          | (TBAR, _) :: _ =>
              let* (cs, r3) := p_cases n (skip_eol r2) in
              let* rs := p_root n r3 in Ok (RType hdr cs :: rs)
          | _ =>
              let '(l, r3) := span_until never (skip_eol r2) in
              let* rs := p_root n r3 in Ok (RType hdr [l] :: rs)
          end
      | _ => Reject
      end
  | (TKW k, _) :: r =>
      let '(l, r1) := span_until never r in
      let* rs := p_root n r1 in Ok (ROther (TKW k :: l) :: rs)
  | _ => Reject                                            (* "Unknown stmt" *)
  end end.

Definition parse_blocks (n : nat) (ts : list ptok) : res (list root) := p_root n ts.

(** enough for every token list: each call consumes fuel 1 and at most 8 calls separate two tokens *)
Definition fuel_for (ts : list ptok) : nat := 16 + 10 * List.length ts.

Definition map_cols (rho : nat -> nat) (ts : list ptok) : list ptok :=
  map (fun p => (fst p, rho (snd p))) ts.
