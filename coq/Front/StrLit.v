(** C11 — string, raw-string and interpolated literals.
    Byte-level model of the three layers a literal passes through:
      1. the Folang tokenizer: scanStringLiteralToken / scanRawStringLiteralToken (fc/wrapper.go:184-244;
         the [$] case of scanTokenAt uses the same two scanners),
      2. ParseSInterP (fc/wrapper.go:664-706) and the emission EStringLiteral -> "%s",
         ESInterP -> frt.SInterP("fmt", args) (sinterpToGo, fc/expr_to_go.fo:394-412),
      3. Go: unquoting of an interpreted string literal, frt.SInterP / toS (pkg/frt/frt.go) and
         fmt.Sprintf for the verbs that can arise (%s, %%).
    and the specification [denote] of what a literal means, given as a grammar of pieces.
    Definitions only; proofs are in StrLitProofs.v.  Strings are byte lists ([list ascii]): neither fc
    nor the Go pieces modelled here decode UTF-8. *)
From Coq Require Import List String Ascii NArith ZArith Bool DecimalString.
Import ListNotations.
Local Open Scope char_scope.

Notation bytes := (list ascii).

Definition b (s : string) : bytes := list_ascii_of_string s.

Definition LF : ascii := "010".
Definition TAB : ascii := "009".
Definition NUL : ascii := "000".
Definition DQ : ascii := """".
Definition BS : ascii := "\".
Definition BQ : ascii := "`".
Definition LBR : ascii := "{".
Definition RBR : ascii := "}".
Definition PCT : ascii := "%".
(* the UTF-8 encoding of U+FEFF (byte order mark) *)
Definition EF : ascii := "239".
Definition BB : ascii := "187".
Definition BF : ascii := "191".
Definition BOM : bytes := [EF; BB; BF].

Inductive form := Str | Raw | IStr | IRaw.   (* "..."  `...`  $"..."  $`...` *)

Definition is_raw (f : form) : bool := match f with Raw | IRaw => true | _ => false end.
Definition is_interp (f : form) : bool := match f with IStr | IRaw => true | _ => false end.
Definition close (f : form) : ascii := if is_raw f then BQ else DQ.

(** ---------------------------------------------------------------- layer 1: the tokenizer *)

(** what both scanners write for a byte order mark: backslash u f e f f (Go rejects a raw byte order
    mark anywhere but at the start of a source file) *)
Definition BOM_ESC : bytes := [BS; "u"; "f"; "e"; "f"; "f"].

(** scanStringLiteralToken, from the byte after the opening quote: the token's stringVal and the
    rest of the buffer after the closing quote.  [None] = panic ("unclosed string literal",
    "escape just before EOF"). Escapes are kept verbatim; a RAW newline is written as the two bytes
    backslash n (the value is emitted as a Go interpreted string literal, which cannot contain a raw
    newline) — the same re-escaping the raw-string scanner does; the three bytes of a byte order mark
    are written as the escape backslash ufeff (tested after quote, backslash and newline, as in the code). *)
Fixpoint scan_string (s : bytes) : option (bytes * bytes) :=
  match s with
  | [] => None
  | c :: r =>
    if Ascii.eqb c DQ then Some ([], r)
    else if Ascii.eqb c BS then
      match r with
      | [] => None
      | c2 :: r' =>
        match scan_string r' with
        | Some (v, rest) => Some (c :: c2 :: v, rest)
        | None => None
        end
      end
    else if Ascii.eqb c LF then
      match scan_string r with
      | Some (v, rest) => Some (BS :: "n" :: v, rest)
      | None => None
      end
    else
      let plain := match scan_string r with
                   | Some (v, rest) => Some (c :: v, rest)
                   | None => None
                   end in
      (* isStringAt(buf, pos+i, "\xef\xbb\xbf"): the three bytes become the escape \ufeff *)
      match r with
      | c2 :: c3 :: r' =>
        if Ascii.eqb c EF && Ascii.eqb c2 BB && Ascii.eqb c3 BF then
          match scan_string r' with
          | Some (v, rest) => Some (BOM_ESC ++ v, rest)
          | None => None
          end
        else plain
      | _ => plain
      end
  end.

(** The scanner as it was before the repair (kept as documentation): a raw newline was copied
    verbatim, so the emitted Go literal contained a raw newline and did not compile
    ([newline_in_quoted_old_refuted]). *)
Fixpoint scan_string_old (s : bytes) : option (bytes * bytes) :=
  match s with
  | [] => None
  | c :: r =>
    if Ascii.eqb c DQ then Some ([], r)
    else if Ascii.eqb c BS then
      match r with
      | [] => None
      | c2 :: r' =>
        match scan_string_old r' with
        | Some (v, rest) => Some (c :: c2 :: v, rest)
        | None => None
        end
      end
    else
      match scan_string_old r with
      | Some (v, rest) => Some (c :: v, rest)
      | None => None
      end
  end.

(** what scanRawStringLiteralToken writes for one byte of a raw body *)
Definition esc_raw (c : ascii) : bytes :=
  if Ascii.eqb c BS then [BS; BS]
  else if Ascii.eqb c DQ then [BS; DQ]
  else if Ascii.eqb c LF then [BS; "n"]
  else [c].

Fixpoint scan_raw (s : bytes) : option (bytes * bytes) :=
  match s with
  | [] => None
  | c :: r =>
    if Ascii.eqb c BQ then Some ([], r)
    else
      let plain := match scan_raw r with
                   | Some (v, rest) => Some (esc_raw c ++ v, rest)
                   | None => None
                   end in
      match r with
      | c2 :: c3 :: r' =>
        if Ascii.eqb c EF && Ascii.eqb c2 BB && Ascii.eqb c3 BF then
          match scan_raw r' with
          | Some (v, rest) => Some (BOM_ESC ++ v, rest)
          | None => None
          end
        else plain
      | _ => plain
      end
  end.

Definition scan (f : form) (s : bytes) : option (bytes * bytes) :=
  if is_raw f then scan_raw s else scan_string s.

(** ---------------------------------------------------------------- layer 2: ParseSInterP, emission *)

(** ParseSInterP as a state machine: [hole = Some acc] while inside {...} (acc reversed).
    [None] = panic ("escape just before end", "Open brace but no close brace", index out of range). *)
Fixpoint psi (s : bytes) (hole : option bytes) : option (bytes * list bytes) :=
  match s with
  | [] => match hole with None => Some ([], []) | Some _ => None end
  | c :: r =>
    match hole with
    | Some acc =>
      if Ascii.eqb c RBR then
        match psi r None with
        | Some (f, vs) => Some (PCT :: "s" :: f, rev acc :: vs)
        | None => None
        end
      else psi r (Some (c :: acc))
    | None =>
      if Ascii.eqb c BS then
        match r with
        | [] => None
        | c2 :: r' =>
          match psi r' None with
          | Some (f, vs) =>
            if Ascii.eqb c2 LBR || Ascii.eqb c2 RBR then Some (c2 :: f, vs)
            else Some (c :: c2 :: f, vs)
          | None => None
          end
        end
      else if Ascii.eqb c LBR then psi r (Some [])
      else if Ascii.eqb c PCT then
        match psi r None with
        | Some (f, vs) => Some (PCT :: PCT :: f, vs)
        | None => None
        end
      else
        match psi r None with
        | Some (f, vs) => Some (c :: f, vs)
        | None => None
        end
    end
  end.

Definition parse_sinterp (s : bytes) : option (bytes * list bytes) := psi s None.

(** the emitted Go expression *)
Inductive goexpr :=
| GoStr (content : bytes)                         (* "content" *)
| GoSInterP (content : bytes) (args : list bytes) (* frt.SInterP("content", a, b) *).

Definition emit (f : form) (lit : bytes) : option goexpr :=
  if is_interp f then
    match parse_sinterp lit with
    | Some (fm, vs) => Some (GoSInterP fm vs)
    | None => None
    end
  else Some (GoStr lit).

Fixpoint join (sep : bytes) (l : list bytes) : bytes :=
  match l with
  | [] => []
  | [x] => x
  | x :: rest => x ++ sep ++ join sep rest
  end.

(** the text fc writes (frt.Sprintf1 "\"%s\"" s; sinterpToGo) *)
Definition emit_text (e : goexpr) : bytes :=
  match e with
  | GoStr c => DQ :: c ++ [DQ]
  | GoSInterP c vs => b "frt.SInterP(""" ++ c ++ b """, " ++ join (b ", ") vs ++ b ")"
  end.

(** ---------------------------------------------------------------- layer 3: Go *)

Inductive uq := UqOk (v : bytes) | UqErr | UqUnmodelled.

Definition uq_cons (c : ascii) (r : uq) : uq :=
  match r with UqOk v => UqOk (c :: v) | x => x end.

Definition uq_app (v : bytes) (r : uq) : uq :=
  match r with UqOk w => UqOk (v ++ w) | x => x end.

(** UTF-8 encoding of a code point of the basic multilingual plane (what \uXXXX denotes) *)
Definition utf8_bmp (n : N) : option bytes :=
  if (n <? 128)%N then Some [ascii_of_N n]
  else if (n <? 2048)%N then Some [ascii_of_N (192 + n / 64); ascii_of_N (128 + n mod 64)]
  else if (55296 <=? n)%N && (n <=? 57343)%N then None
  else Some [ascii_of_N (224 + n / 4096); ascii_of_N (128 + (n / 64) mod 64); ascii_of_N (128 + n mod 64)].

Definition hexval (c : ascii) : option N :=
  let n := N_of_ascii c in
  if (48 <=? n)%N && (n <=? 57)%N then Some (n - 48)%N
  else if (97 <=? n)%N && (n <=? 102)%N then Some (n - 87)%N
  else if (65 <=? n)%N && (n <=? 70)%N then Some (n - 55)%N
  else None.

Definition octval (c : ascii) : option N :=
  let n := N_of_ascii c in
  if (48 <=? n)%N && (n <=? 55)%N then Some (n - 48)%N else None.

(** Unquoting the content of a Go interpreted string literal (Go spec, "String literals"):
    [UqErr] = the Go compiler rejects the file: a raw newline ("newline in string"), a bare double
    quote (the literal ends early and the rest of the line is garbage), NUL ("illegal character NUL"),
    an unknown escape (including \' which is only legal in rune literals), a malformed \x / octal escape.
    \uXXXX denotes the UTF-8 encoding of the code point; \U is legal but not modelled
    ([UqUnmodelled]); bytes >= 0x80 pass through (Go additionally requires the file to be valid UTF-8
    and free of byte order marks after its start, which is not modelled: that is why a pre-repair
    refutation for the byte order mark is not stated). *)
Fixpoint go_unquote (s : bytes) : uq :=
  match s with
  | [] => UqOk []
  | c :: r =>
    if Ascii.eqb c BS then
      match r with
      | [] => UqErr
      | e :: r1 =>
        if Ascii.eqb e "n" then uq_cons LF (go_unquote r1)
        else if Ascii.eqb e "t" then uq_cons TAB (go_unquote r1)
        else if Ascii.eqb e BS then uq_cons BS (go_unquote r1)
        else if Ascii.eqb e DQ then uq_cons DQ (go_unquote r1)
        else if Ascii.eqb e "r" then uq_cons "013" (go_unquote r1)
        else if Ascii.eqb e "a" then uq_cons "007" (go_unquote r1)
        else if Ascii.eqb e "b" then uq_cons "008" (go_unquote r1)
        else if Ascii.eqb e "f" then uq_cons "012" (go_unquote r1)
        else if Ascii.eqb e "v" then uq_cons "011" (go_unquote r1)
        else if Ascii.eqb e "x" then
          match r1 with
          | h1 :: h2 :: r2 =>
            match hexval h1, hexval h2 with
            | Some a, Some d => uq_cons (ascii_of_N (16 * a + d)) (go_unquote r2)
            | _, _ => UqErr
            end
          | _ => UqErr
          end
        else if Ascii.eqb e "u" then
          match r1 with
          | h1 :: h2 :: h3 :: h4 :: r2 =>
            match hexval h1, hexval h2, hexval h3, hexval h4 with
            | Some a1, Some a2, Some a3, Some a4 =>
              match utf8_bmp (4096 * a1 + 256 * a2 + 16 * a3 + a4) with
              | Some enc => uq_app enc (go_unquote r2)
              | None => UqErr            (* a surrogate half: "escape is invalid Unicode code point" *)
              end
            | _, _, _, _ => UqErr
            end
          | _ => UqErr
          end
        else if Ascii.eqb e "U" then UqUnmodelled
        else
          match octval e with
          | Some o1 =>
            match r1 with
            | d2 :: d3 :: r2 =>
              match octval d2, octval d3 with
              | Some o2, Some o3 =>
                if (64 * o1 + 8 * o2 + o3 <=? 255)%N
                then uq_cons (ascii_of_N (64 * o1 + 8 * o2 + o3)) (go_unquote r2)
                else UqErr
              | _, _ => UqErr
              end
            | _ => UqErr
            end
          | None => UqErr
          end
      end
    else if Ascii.eqb c DQ || Ascii.eqb c LF || Ascii.eqb c NUL then UqErr
    else uq_cons c (go_unquote r)
  end.

(** values that can fill a hole *)
Inductive value :=
| VInt (z : Z)
| VStr (s : bytes)
| VBool (v : bool)
| VOther (display : bytes).      (* anything else, given by its Go %v text *)

Definition dec_Z (z : Z) : bytes := b (NilZero.string_of_int (Z.to_int z)).

(** frt.toS: %d for integer kinds, the string itself for strings, %v otherwise
    (floats use %f: they are [VOther] with that text). *)
Definition to_s (v : value) : bytes :=
  match v with
  | VInt z => dec_Z z
  | VStr s => s
  | VBool true => b "true"
  | VBool false => b "false"
  | VOther d => d
  end.

(** fmt.Sprintf restricted to the verbs %s (operands are strings) and %%, with exactly as many
    operands as %s verbs; everything else ([None]) is outside the modelled fragment. *)
Fixpoint sprintf (f : bytes) (args : list bytes) : option bytes :=
  match f with
  | [] => match args with [] => Some [] | _ => None end
  | c :: r =>
    if Ascii.eqb c PCT then
      match r with
      | v :: r' =>
        if Ascii.eqb v "s" then
          match args with
          | a :: args' =>
            match sprintf r' args' with Some o => Some (a ++ o) | None => None end
          | [] => None
          end
        else if Ascii.eqb v PCT then
          match sprintf r' args with Some o => Some (PCT :: o) | None => None end
        else None
      | [] => None
      end
    else
      match sprintf r args with Some o => Some (c :: o) | None => None end
  end.

Definition is_alpha_ (c : ascii) : bool :=
  let n := N_of_ascii c in
  ((97 <=? n)%N && (n <=? 122)%N) || ((65 <=? n)%N && (n <=? 90)%N) || (n =? 95)%N.
Definition is_digit (c : ascii) : bool :=
  let n := N_of_ascii c in (48 <=? n)%N && (n <=? 57)%N.

Definition valid_ident (s : bytes) : bool :=
  match s with
  | [] => false
  | c :: r => is_alpha_ c && forallb (fun x => is_alpha_ x || is_digit x) r
  end.

Definition bytes_eqb (x y : bytes) : bool :=
  String.eqb (string_of_list_ascii x) (string_of_list_ascii y).

Definition env := list (bytes * value).

Fixpoint lookup (e : env) (name : bytes) : option value :=
  match e with
  | [] => None
  | (n, v) :: e' => if bytes_eqb n name then Some v else lookup e' name
  end.

Inductive outcome :=
| Ok (v : bytes)
| ScanPanic          (* the tokenizer panics *)
| InterpPanic        (* ParseSInterP panics *)
| CompileError       (* the emitted Go does not compile *)
| Unmodelled.        (* legal Go, outside the modelled fragment *)

Fixpoint eval_args (e : env) (vars : list bytes) : option (option (list bytes)) :=
  (* None = unmodelled (an argument that is not an identifier); Some None = undefined name *)
  match vars with
  | [] => Some (Some [])
  | v :: vs =>
    if valid_ident v then
      match lookup e v, eval_args e vs with
      | _, None => None
      | Some x, Some (Some l) => Some (Some (to_s x :: l))
      | _, _ => Some None
      end
    else None
  end.

Definition run (e : env) (g : goexpr) : outcome :=
  match g with
  | GoStr c =>
    match go_unquote c with
    | UqOk v => Ok v
    | UqErr => CompileError
    | UqUnmodelled => Unmodelled
    end
  | GoSInterP c vars =>
    match go_unquote c with
    | UqOk f =>
      match eval_args e vars with
      | None => Unmodelled
      | Some None => CompileError
      | Some (Some args) =>
        match sprintf f args with
        | Some o => Ok o
        | None => Unmodelled
        end
      end
    | UqErr => CompileError
    | UqUnmodelled => Unmodelled
    end
  end.

(** The whole path of a literal whose body starts at [src] (just after the opening delimiter):
    the value the emitted Go expression evaluates to, and the rest of the source after the literal. *)
Definition pipeline (f : form) (e : env) (src : bytes) : outcome * bytes :=
  match scan f src with
  | None => (ScanPanic, [])
  | Some (lit, rest) =>
    match emit f lit with
    | None => (InterpPanic, rest)
    | Some g => (run e g, rest)
    end
  end.

(** the same path with the tokenizer as it was before the repair *)
Definition pipeline_old (f : form) (e : env) (src : bytes) : outcome * bytes :=
  match (if is_raw f then scan_raw src else scan_string_old src) with
  | None => (ScanPanic, [])
  | Some (lit, rest) =>
    match emit f lit with
    | None => (InterpPanic, rest)
    | Some g => (run e g, rest)
    end
  end.

(** ---------------------------------------------------------------- the specification *)

(** The property's grammar of literal bodies, as pieces. *)
Inductive piece :=
| PChar (c : ascii)            (* an ordinary character: denotes itself *)
| PEsc (c : ascii)             (* backslash followed by n, t, backslash or double quote (c = that letter) *)
| PBrace (c : ascii)           (* \{ \}  in $"..." *)
| PHole (name : bytes)         (* {name} in $"..." and $`...` *)
| PBom.                        (* the three bytes EF BB BF of U+FEFF: an ordinary character, denotes itself *)

Definition esc_meaning (c : ascii) : ascii :=
  if Ascii.eqb c "n" then LF else if Ascii.eqb c "t" then TAB else c.

Definition spell1 (p : piece) : bytes :=
  match p with
  | PChar c => [c]
  | PEsc c => [BS; c]
  | PBrace c => [BS; c]
  | PHole n => LBR :: n ++ [RBR]
  | PBom => BOM
  end.
Definition spell (ps : list piece) : bytes := flat_map spell1 ps.

Definition hole_text (e : env) (n : bytes) : bytes :=
  match lookup e n with Some v => to_s v | None => [] end.

Definition meaning1 (e : env) (p : piece) : bytes :=
  match p with
  | PChar c => [c]
  | PEsc c => [esc_meaning c]
  | PBrace c => [c]
  | PHole n => hole_text e n
  | PBom => BOM
  end.
Definition meaning (e : env) (ps : list piece) : bytes := flat_map (meaning1 e) ps.

Definition is_esc_letter (c : ascii) : bool :=
  Ascii.eqb c "n" || Ascii.eqb c "t" || Ascii.eqb c BS || Ascii.eqb c DQ.

(** Which pieces a form admits.  The exclusions, each with its reason:
    - NUL in any form: a Go source file may not contain NUL, so no emitted program can carry it;
    - in "..." and $"...": a bare double quote ends the literal (it is not part of a body); a backslash
      is only the start of one of the escapes the property lists (backslash followed by n, t, backslash or
      double quote, plus backslash-brace in $"...") —
      any other escape is outside the property's grammar (Go's other escapes happen to pass through,
      unknown ones, including a backslash followed by a raw newline, are Go compile errors);
    - in `...` and $`...`: a backtick ends the literal;
    - in both interpolated forms a bare { opens a hole, so it is not an ordinary character; a bare } is
      an ordinary character (preserved); a hole's name is an identifier bound in the environment
      (an unbound name is a Go compile error; other hole contents are copied into the Go program as an
      expression and are outside the property). *)
Definition ok_char (f : form) (c : ascii) : bool :=
  negb (Ascii.eqb c NUL) &&
  match f with
  | Str => negb (Ascii.eqb c DQ || Ascii.eqb c BS)
  | Raw => negb (Ascii.eqb c BQ)
  | IStr => negb (Ascii.eqb c DQ || Ascii.eqb c BS || Ascii.eqb c LBR)
  | IRaw => negb (Ascii.eqb c BQ || Ascii.eqb c LBR)
  end.
(** A raw newline is an ordinary character of every form (since the repair of scanStringLiteralToken
    the quoted forms re-escape it; before, the emitted Go did not compile: [newline_in_quoted_old_refuted]). *)

Definition ok_piece (f : form) (e : env) (p : piece) : bool :=
  match p with
  | PChar c => ok_char f c
  | PEsc c => negb (is_raw f) && is_esc_letter c
  | PBrace c => match f with IStr => Ascii.eqb c LBR || Ascii.eqb c RBR | _ => false end
  | PHole n =>
    is_interp f && valid_ident n && match lookup e n with Some _ => true | None => false end
  | PBom => true
  end.

(** The three bytes of a byte order mark are the piece [PBom], never three [PChar]s (the scanners
    treat the sequence as a unit): a piece list must not split it. *)
Fixpoint nosplit (ps : list piece) : bool :=
  match ps with
  | [] => true
  | p :: tl =>
    match p, tl with
    | PChar c1, PChar c2 :: PChar c3 :: _ =>
      negb (Ascii.eqb c1 EF && Ascii.eqb c2 BB && Ascii.eqb c3 BF)
    | _, _ => true
    end && nosplit tl
  end.

(** Lexer of bodies into pieces (so that [denote] is a function of the body's bytes).
    [hole = Some acc]: inside {...}. *)
Fixpoint lex (f : form) (s : bytes) (hole : option bytes) : option (list piece) :=
  match s with
  | [] => match hole with None => Some [] | Some _ => None end
  | c :: r =>
    match hole with
    | Some acc =>
      if Ascii.eqb c RBR then
        match lex f r None with
        | Some ps => Some (PHole (rev acc) :: ps)
        | None => None
        end
      else if is_alpha_ c || is_digit c then lex f r (Some (c :: acc))
      else None
    | None =>
      if negb (is_raw f) && Ascii.eqb c BS then
        match r with
        | [] => None
        | c2 :: r' =>
          match lex f r' None with
          | Some ps =>
            if is_esc_letter c2 then Some (PEsc c2 :: ps)
            else if is_interp f && (Ascii.eqb c2 LBR || Ascii.eqb c2 RBR) then Some (PBrace c2 :: ps)
            else None
          | None => None
          end
        end
      else if is_interp f && Ascii.eqb c LBR then lex f r (Some [])
      else
        let plain := match lex f r None with
                     | Some ps => Some (PChar c :: ps)
                     | None => None
                     end in
        match r with
        | c2 :: c3 :: r' =>
          if Ascii.eqb c EF && Ascii.eqb c2 BB && Ascii.eqb c3 BF then
            match lex f r' None with
            | Some ps => Some (PBom :: ps)
            | None => None
            end
          else plain
        | _ => plain
        end
    end
  end.

(** well-formed body: lexes into admissible pieces *)
Definition wf (f : form) (e : env) (body : bytes) : bool :=
  match lex f body None with
  | Some ps => forallb (ok_piece f e) ps && nosplit ps
  | None => false
  end.

(** the denotation of a body; [None] outside the property's grammar *)
Definition denote (f : form) (e : env) (body : bytes) : option bytes :=
  match lex f body None with
  | Some ps => if forallb (ok_piece f e) ps && nosplit ps then Some (meaning e ps) else None
  | None => None
  end.
