From Coq Require Import List String Bool Permutation Lia Arith PeanoNat.
From FoVerif Require Import Front.Exhaust.
Import ListNotations.


Lemma dict_add_keys k v d k' :
  In k' (map fst (dict_add k v d)) <-> k' = k \/ In k' (map fst d).
Proof.
  induction d as [|[k0 v0] d IH]; cbn.
  - intuition.
  - destruct (String.eqb_spec k k0) as [->|Hne]; cbn; [intuition|].
    rewrite IH. intuition.
Qed.

(** lookup *)
Fixpoint dget (k : string) (d : list (string * bool)) : option bool :=
  match d with
  | [] => None
  | (k', v) :: d' => if String.eqb k k' then Some v else dget k d'
  end.

Lemma dget_add_same k v d : dget k (dict_add k v d) = Some v.
Proof.
  induction d as [|[k0 v0] d IH]; cbn.
  - now rewrite String.eqb_refl.
  - destruct (String.eqb_spec k k0) as [->|Hne]; cbn.
    + now rewrite String.eqb_refl.
    + destruct (String.eqb_spec k k0); [contradiction|exact IH].
Qed.

Lemma dget_add_other k k' v d : k' <> k -> dget k' (dict_add k v d) = dget k' d.
Proof.
  intros Hne. induction d as [|[k0 v0] d IH]; cbn.
  - destruct (String.eqb_spec k' k); [contradiction|reflexivity].
  - destruct (String.eqb_spec k k0) as [->|Hne0]; cbn.
    + destruct (String.eqb_spec k' k0); [contradiction|reflexivity].
    + destruct (String.eqb_spec k' k0); [reflexivity|exact IH].
Qed.

Lemma dict_add_nodup k v d : NoDup (map fst d) -> NoDup (map fst (dict_add k v d)).
Proof.
  induction d as [|[k0 v0] d IH]; cbn; intros Hnd.
  - constructor; [intros []|constructor].
  - inversion Hnd as [|? ? Hni Hnd']; subst.
    destruct (String.eqb_spec k k0) as [->|Hne]; cbn.
    + constructor; assumption.
    + constructor; [|auto]. rewrite dict_add_keys. intros [->|Hin]; [congruence|contradiction].
Qed.

Lemma in_dget k v d : NoDup (map fst d) -> (In (k, v) d <-> dget k d = Some v).
Proof.
  induction d as [|[k0 v0] d IH]; cbn; intros Hnd.
  - split; [intros []|discriminate].
  - inversion Hnd as [|? ? Hni Hnd']; subst.
    destruct (String.eqb_spec k k0) as [->|Hne].
    + split.
      * intros [E|Hin]; [now inversion E|].
        exfalso; apply Hni. now apply (in_map fst) in Hin.
      * intros E; inversion E; now left.
    + rewrite <- (IH Hnd'). split; [intros [E|Hin]; [inversion E; congruence|exact Hin]|now right].
Qed.

(** the marking dictionary, characterised by lookup *)
Lemma to_dict_gen kvs : forall d0, NoDup (map fst d0) ->
  let d := fold_left (fun d kv => dict_add (fst kv) (snd kv) d) kvs d0 in
  NoDup (map fst d) /\
  (forall k, In k (map fst d) <-> In k (map fst kvs) \/ In k (map fst d0)).
Proof.
  induction kvs as [|[k v] kvs IH]; cbn; intros d0 Hnd.
  - split; [assumption|intuition].
  - destruct (IH (dict_add k v d0) (dict_add_nodup k v d0 Hnd)) as [H1 H2].
    split; [exact H1|]. intros k'. rewrite H2, dict_add_keys. intuition.
Qed.

Lemma to_dict_false cases : forall d0,
  (forall k v, dget k d0 = Some v -> v = false) ->
  forall k v, dget k (fold_left (fun d kv => dict_add (fst kv) (snd kv) d)
                                (map (fun c => (c, false)) cases) d0) = Some v -> v = false.
Proof.
  induction cases as [|c cases IH]; cbn; intros d0 H0 k v.
  - apply H0.
  - apply IH. intros k' v'. destruct (String.eqb_spec k' c) as [->|Hne].
    + rewrite dget_add_same. congruence.
    + rewrite dget_add_other by assumption. apply H0.
Qed.

Lemma mark_gen arms : forall d0, NoDup (map fst d0) ->
  let d := fold_left (fun d a => dict_add (a_case a) true d) arms d0 in
  NoDup (map fst d) /\
  (forall k, In k (map fst d) <-> In k (map a_case arms) \/ In k (map fst d0)) /\
  (forall k, In k (map a_case arms) -> dget k d = Some true) /\
  (forall k, ~ In k (map a_case arms) -> dget k d = dget k d0).
Proof.
  induction arms as [|a arms IH]; intros d0 Hnd.
  - cbn. repeat split; try assumption; intuition.
  - cbn [fold_left map].
    destruct (IH (dict_add (a_case a) true d0) (dict_add_nodup _ _ d0 Hnd)) as (H1 & H2 & H3 & H4).
    cbn zeta in *.
    split; [exact H1|]. split; [|split].
    + intros k. rewrite H2, dict_add_keys. cbn [In]. intuition.
    + intros k Hin.
      destruct (in_dec string_dec k (map a_case arms)) as [Hin'|Hni]; [now apply H3|].
      rewrite H4 by assumption. destruct Hin as [<-|Hin]; [apply dget_add_same|contradiction].
    + intros k Hni. rewrite H4 by (intros Hc; apply Hni; now right).
      apply dget_add_other. intros ->. apply Hni. now left.
Qed.

Lemma dget_in_keys k d : In k (map fst d) <-> exists v, dget k d = Some v.
Proof.
  induction d as [|[k0 v0] d IH]; cbn.
  - split; [intros []|intros [v Hv]; discriminate].
  - destruct (String.eqb_spec k k0) as [->|Hne].
    + split; [eauto|now left].
    + rewrite <- IH. split; [intros [E|H]; [congruence|exact H]|now right].
Qed.

(** An entry is uncovered iff it is a declared case not named by any arm. *)
Lemma mark_arms_uncovered cases arms n :
  In (n, false) (mark_arms cases arms) <-> In n cases /\ ~ In n (map a_case arms).
Proof.
  unfold mark_arms, to_dict.
  pose proof (to_dict_gen (map (fun c => (c, false)) cases) [] (NoDup_nil _)) as [Hnd0 Hk0].
  cbn zeta in Hnd0, Hk0.
  set (d0 := fold_left _ (map (fun c => (c, false)) cases) []) in *.
  destruct (mark_gen arms d0 Hnd0) as (Hnd & Hk & Hget1 & Hget2). cbn zeta in Hnd, Hk, Hget1, Hget2.
  rewrite (in_dget n false _ Hnd).
  assert (Hf : forall v, dget n d0 = Some v -> v = false).
  { intros v. apply (to_dict_false cases []). cbn. discriminate. }
  assert (Hkeys : In n (map fst d0) <-> In n cases).
  { rewrite Hk0, map_map. cbn. rewrite map_id. cbn. intuition. }
  destruct (in_dec string_dec n (map a_case arms)) as [Hin|Hni].
  - rewrite (Hget1 _ Hin). split; [discriminate|intros [_ Hc]; contradiction].
  - rewrite (Hget2 _ Hni). split.
    + intros Hg. split; [|assumption]. apply Hkeys, dget_in_keys. eauto.
    + intros [Hc _]. apply Hkeys, dget_in_keys in Hc. destruct Hc as [v Hv].
      rewrite Hv. f_equal. now apply Hf.
Qed.

Section Enum.
  Variable enum : list (string * bool) -> list (string * bool).
  Hypothesis enum_perm : forall l, Permutation (enum l) l.

  Lemma exhaustive_accept_iff cases arms :
    exhaustive_check enum cases arms = Accept <-> incl cases (map a_case arms).
  Proof.
    unfold exhaustive_check.
    destruct (filter _ _) as [|[n b] r] eqn:Hf.
    - split; [intros _|reflexivity]. intros c Hc.
      destruct (in_dec string_dec c (map a_case arms)) as [Hin|Hni]; [assumption|exfalso].
      assert (Hin : In (c, false) (enum (mark_arms cases arms))).
      { apply (Permutation_in _ (Permutation_sym (enum_perm _))).
        apply mark_arms_uncovered. split; assumption. }
      assert (Hin' : In (c, false) (filter (fun p => negb (snd p)) (enum (mark_arms cases arms)))).
      { apply filter_In. split; [assumption|reflexivity]. }
      rewrite Hf in Hin'. exact Hin'.
    - split; [discriminate|]. intros Hincl. exfalso.
      assert (Hin : In (n, b) (filter (fun p => negb (snd p)) (enum (mark_arms cases arms)))).
      { rewrite Hf. now left. }
      apply filter_In in Hin. destruct Hin as [Hin Hb]. cbn in Hb. destruct b; [discriminate|].
      apply (Permutation_in _ (enum_perm _)) in Hin. apply mark_arms_uncovered in Hin.
      destruct Hin as [Hc Hna]. apply Hna, Hincl, Hc.
  Qed.

  Lemma exhaustive_reject_names_uncovered cases arms n :
    exhaustive_check enum cases arms = RejectUncovered n -> In n cases /\ ~ In n (map a_case arms).
  Proof.
    unfold exhaustive_check.
    destruct (filter _ _) as [|[n' b] r] eqn:Hf; [discriminate|].
    intros E; inversion E; subst n'.
    assert (Hin : In (n, b) (filter (fun p => negb (snd p)) (enum (mark_arms cases arms)))).
    { rewrite Hf. now left. }
    apply filter_In in Hin. destruct Hin as [Hin Hb]. cbn in Hb. destruct b; [discriminate|].
    apply (Permutation_in _ (enum_perm _)) in Hin. now apply mark_arms_uncovered in Hin.
  Qed.

  Theorem accept_iff_covers cases arms has_default :
    check enum cases arms has_default = Accept <->
    arms <> [] /\ (has_default = true \/ incl cases (map a_case arms)).
  Proof.
    unfold check. destruct arms as [|a arms].
    - destruct has_default; split; try discriminate; intros [H _]; congruence.
    - destruct has_default.
      + split; [intros _; split; [discriminate|now left]|reflexivity].
      + rewrite exhaustive_accept_iff. split.
        * intros H; split; [discriminate|now right].
        * intros [_ [H|H]]; [discriminate|exact H].
  Qed.

  Theorem reject_names_uncovered cases arms has_default n :
    check enum cases arms has_default = RejectUncovered n ->
    has_default = false /\ In n cases /\ ~ In n (map a_case arms).
  Proof.
    unfold check. destruct arms as [|a arms]; [destruct has_default; discriminate|].
    destruct has_default; [discriminate|].
    intros H. split; [reflexivity|]. eapply exhaustive_reject_names_uncovered; eassumption.
  Qed.

  (** every verdict other than Accept is a rejection with one of the three diagnostics;
      which one is determined independently of the enumeration, except the name *)
  Theorem decision_order_independent (enum' : list (string * bool) -> list (string * bool)) :
    (forall l, Permutation (enum' l) l) ->
    forall cases arms has_default,
      (check enum cases arms has_default = Accept <-> check enum' cases arms has_default = Accept).
  Proof.
    intros Hp cases arms hd. unfold check. destruct arms as [|a arms]; [destruct hd; tauto|].
    destruct hd; [tauto|].
    unfold exhaustive_check.
    destruct (filter _ (enum _)) as [|[n b] r] eqn:H1;
      destruct (filter _ (enum' _)) as [|[n' b'] r'] eqn:H2; try tauto; split; try discriminate; intros _; exfalso.
    - assert (Hin : In (n', b') (filter (fun p => negb (snd p)) (enum' (mark_arms cases (a :: arms))))) by (rewrite H2; now left).
      apply filter_In in Hin. destruct Hin as [Hin Hb].
      apply (Permutation_in _ (Hp _)), (Permutation_in _ (Permutation_sym (enum_perm _))) in Hin.
      assert (Hin' : In (n', b') (filter (fun p => negb (snd p)) (enum (mark_arms cases (a :: arms))))) by (apply filter_In; auto).
      rewrite H1 in Hin'. exact Hin'.
    - assert (Hin : In (n, b) (filter (fun p => negb (snd p)) (enum (mark_arms cases (a :: arms))))) by (rewrite H1; now left).
      apply filter_In in Hin. destruct Hin as [Hin Hb].
      apply (Permutation_in _ (enum_perm _)), (Permutation_in _ (Permutation_sym (Hp _))) in Hin.
      assert (Hin' : In (n, b) (filter (fun p => negb (snd p)) (enum' (mark_arms cases (a :: arms))))) by (apply filter_In; auto).
      rewrite H2 in Hin'. exact Hin'.
  Qed.

  Lemma find_arm_none c arms i : find_arm c arms i = None -> ~ In c (map a_case arms).
  Proof.
    revert i. induction arms as [|a arms IH]; cbn; intros i H; [tauto|].
    destruct (String.eqb_spec (a_case a) c) as [E|Hne]; [discriminate|].
    intros [E|Hin]; [congruence|]. eapply IH; eassumption.
  Qed.

  Lemma find_arm_some c arms i j : find_arm c arms i = Some j ->
    i <= j /\ (exists a, nth_error arms (j - i) = Some a /\ a_case a = c) /\
    (forall k a, k < j - i -> nth_error arms k = Some a -> a_case a <> c).
  Proof.
    revert i. induction arms as [|a arms IH]; cbn; intros i H; [discriminate|].
    destruct (String.eqb_spec (a_case a) c) as [E|Hne].
    - inversion H; subst j. split; [lia|]. replace (i - i) with 0 by lia. split; [exists a; auto|].
      intros k a' Hk; lia.
    - destruct (IH _ H) as (Hle & (a' & Hn & Hc) & Hbefore). split; [lia|].
      replace (j - i) with (S (j - S i)) by lia. split; [exists a'; auto|].
      intros [|k] a'' Hk; cbn; intros Hnth; [inversion Hnth; congruence|].
      apply (Hbefore k a''); [lia|exact Hnth].
  Qed.

  Theorem never_reached_unreachable cases arms has_default c :
    check enum cases arms has_default = Accept -> In c cases ->
    dispatch arms has_default c <> NeverReached.
  Proof.
    intros Hacc Hc. apply accept_iff_covers in Hacc. destruct Hacc as [_ Hor].
    unfold dispatch. destruct (find_arm c arms 0) eqn:Hf; [discriminate|].
    destruct has_default; [discriminate|]. destruct Hor as [H|H]; [discriminate|].
    exfalso. eapply find_arm_none; [eassumption|]. apply H, Hc.
  Qed.

  Theorem dispatch_first_matching_arm arms has_default c i :
    dispatch arms has_default c = ArmNo i ->
    (exists a, nth_error arms i = Some a /\ a_case a = c) /\
    (forall k a, k < i -> nth_error arms k = Some a -> a_case a <> c).
  Proof.
    unfold dispatch. destruct (find_arm c arms 0) eqn:Hf; [|destruct has_default; discriminate].
    intros E; inversion E; subst. apply find_arm_some in Hf. destruct Hf as (_ & H1 & H2).
    rewrite Nat.sub_0_r in *. split; assumption.
  Qed.
End Enum.

Lemma rotate_perm {A} k (l : list A) : Permutation (rotate k l) l.
Proof.
  unfold rotate. destruct l as [|x l]; [constructor|].
  set (n := Nat.modulo k (List.length (x :: l))).
  rewrite <- (firstn_skipn n (x :: l)) at 3. apply Permutation_app_comm.
Qed.

Lemma enum_k_perm k r l : Permutation (enum_k k r l) l.
Proof.
  unfold enum_k. destruct r; [|apply rotate_perm].
  eapply Permutation_trans; [apply Permutation_sym, Permutation_rev|apply rotate_perm].
Qed.
