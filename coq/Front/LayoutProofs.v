(** C06 proofs, parts (a) and (b).
    (a) [col_is_true_column]: the column maintained incrementally by newTkz/tkzNext is the true column
        (offset - start of line) of every token that no hidden newline precedes on its line.
    (b) [columns_only_compared]: the offside parser reads columns only through comparisons: any strictly
        monotone relabelling of the columns leaves the result unchanged.
    Part (c), the inversion of the layout printer, is in LayoutInv.v. *)
From Coq Require Import List ZArith Arith Bool Lia Ascii.
From FoVerif Require Import Front.Layout.
Import ListNotations.
Local Open Scope Z_scope.

(** the last EOL token among the first [k] tokens ends at [eol_end_from 0 ts k] (0: none) *)
Lemma cols_from_spec : forall rest cur col E,
  col = rt_begin cur - E ->
  forall k t, nth_error rest k = Some t ->
  nth_error (cols_from cur col rest) k = Some (rt_begin t - eol_end_from E (cur :: rest) (S k)).
Proof.
  induction rest as [|nt rest IH]; intros cur col E Hc k t Hk.
  - destruct k; discriminate.
  - cbn [cols_from]. destruct k as [|k].
    + cbn in Hk. inversion Hk; subst t. cbn [nth_error eol_end_from].
      destruct (rt_eol cur); f_equal; lia.
    + cbn [nth_error] in *. cbn [eol_end_from].
      change (eol_end_from (if rt_eol cur then rt_begin cur + rt_len cur else E) (nt :: rest) (S k))
        with (eol_end_from (if rt_eol cur then rt_begin cur + rt_len cur else E) (nt :: rest) (S k)).
      apply IH; [|exact Hk]. destruct (rt_eol cur); lia.
Qed.

Lemma tkz_cols_spec : forall ts k t,
  nth_error ts k = Some t ->
  nth_error (tkz_cols ts) k = Some (rt_begin t - last_eol_end ts k).
Proof.
  intros [|t0 rest] k t Hk; [destruct k; discriminate|].
  unfold tkz_cols, last_eol_end. destruct k as [|k].
  - cbn in *. inversion Hk; subst. f_equal. lia.
  - cbn [nth_error] in *. apply cols_from_spec; [lia|exact Hk].
Qed.

Lemma tkz_cols_length ts : List.length (tkz_cols ts) = List.length ts.
Proof.
  destruct ts as [|t r]; [reflexivity|]. cbn. f_equal.
  generalize t (rt_begin t). induction r as [|a r IH]; intros; cbn; [reflexivity|]. f_equal. apply IH.
Qed.

(** line_start by its characterisation *)
Lemma line_start_spec buf : forall (b E : nat), (E <= b)%nat ->
  (E = 0%nat \/ is_nl buf (E - 1) = true) ->
  (forall p, (E <= p < b)%nat -> is_nl buf p = false) ->
  line_start buf b = E.
Proof.
  induction b as [|q IH]; intros E Le HE Hno.
  - cbn. lia.
  - cbn [line_start]. destruct (Nat.eq_dec E (S q)) as [->|Ne].
    + destruct HE as [HE|HE]; [discriminate|]. replace (S q - 1)%nat with q in HE by lia. rewrite HE. reflexivity.
    + rewrite (Hno q) by lia. apply IH; [lia|exact HE|]. intros p Hp. apply Hno. lia.
Qed.

(** the end of the last EOL token before k is 0 or the end of an EOL token with a smaller index *)
Lemma eol_end_from_cases : forall ts k E,
  eol_end_from E ts k = E \/
  exists i t, (i < k)%nat /\ nth_error ts i = Some t /\ rt_eol t = true /\ eol_end_from E ts k = rt_begin t + rt_len t.
Proof.
  induction ts as [|t ts IH]; intros k E; destruct k as [|k]; cbn [eol_end_from]; auto.
  destruct (rt_eol t) eqn:Et.
  - destruct (IH k (rt_begin t + rt_len t)) as [H|(i & t' & Hi & Hn & He & Hv)].
    + right. exists 0%nat, t. repeat split; auto. lia.
    + right. exists (S i), t'. repeat split; auto. lia.
  - destruct (IH k E) as [H|(i & t' & Hi & Hn & He & Hv)]; auto.
    right. exists (S i), t'. repeat split; auto. lia.
Qed.

Theorem col_is_true_column : forall buf ts k tk,
  wf_stream buf ts ->
  nth_error ts k = Some tk ->
  (forall p, last_eol_end ts k <= p < rt_begin tk -> nl_at buf p = false) ->
  nth_error (tkz_cols ts) k = Some (rt_begin tk - line_start_z buf (rt_begin tk)).
Proof.
  intros buf ts k tk [Hmono Htok] Hk Hno.
  rewrite (tkz_cols_spec ts k tk Hk). f_equal. f_equal.
  destruct (Htok k tk Hk) as [Hb0 _].
  unfold line_start_z.
  set (E := last_eol_end ts k) in *.
  assert (HE : (E = 0) \/ (0 < E <= rt_begin tk /\ nl_at buf (E - 1) = true)).
  { unfold E, last_eol_end. destruct (eol_end_from_cases ts k 0) as [H|(i & t & Hi & Hn & He & Hv)]; [left; exact H|].
    right. destruct (Htok i t Hn) as [Ht0 Heol]. destruct (Heol He) as [Hlen Hnl].
    rewrite Hv. split; [split; [lia|]|].
    - apply (Hmono i k t tk Hi Hn Hk).
    - replace (rt_begin t + rt_len t - 1) with (rt_begin t) by lia. exact Hnl. }
  assert (E0 : 0 <= E <= rt_begin tk) by (destruct HE as [->|[? _]]; lia).
  rewrite (line_start_spec buf (Z.to_nat (rt_begin tk)) (Z.to_nat E)).
  - lia.
  - lia.
  - destruct HE as [->|[Hr Hnl]]; [left; reflexivity|right].
    unfold nl_at in Hnl. apply andb_prop in Hnl. destruct Hnl as [_ Hnl].
    replace (Z.to_nat E - 1)%nat with (Z.to_nat (E - 1)) by lia. exact Hnl.
  - intros p Hp. specialize (Hno (Z.of_nat p)). unfold nl_at in Hno.
    rewrite Nat2Z.id in Hno.
    assert (Hr : E <= Z.of_nat p < rt_begin tk) by lia.
    specialize (Hno Hr). apply andb_false_iff in Hno. destruct Hno as [Hno|Hno]; [|exact Hno].
    apply Z.leb_gt in Hno. lia.
Qed.

Local Close Scope Z_scope.

(* ================================================================= (b) *)

Section Relabel.
Variable rho : nat -> nat.
Hypothesis mono : forall a b, a < b -> rho a < rho b.

Notation mc := (map_cols rho).

Definition rmap {A} (r : res (A * list ptok)) : res (A * list ptok) :=
  match r with Ok (a, ts) => Ok (a, mc ts) | Reject => Reject | Fuel => Fuel end.

Lemma rho_ltb a b : (rho a <? rho b) = (a <? b).
Proof.
  destruct (a <? b) eqn:E.
  - apply Nat.ltb_lt in E. apply Nat.ltb_lt. auto.
  - apply Nat.ltb_ge in E. apply Nat.ltb_ge.
    destruct (Nat.eq_dec b a) as [->|N]; [lia|]. assert (b < a) by lia. specialize (mono b a H). lia.
Qed.
Lemma rho_leb a b : (rho a <=? rho b) = (a <=? b).
Proof.
  destruct (a <=? b) eqn:E.
  - apply Nat.leb_le in E. apply Nat.leb_le.
    destruct (Nat.eq_dec a b) as [->|N]; [lia|]. assert (a < b) by lia. specialize (mono a b H). lia.
  - apply Nat.leb_gt in E. apply Nat.leb_gt. auto.
Qed.

Lemma mc_cons (t : tok) (c : nat) (r : list ptok) :
  mc (@cons ptok (t, c) r) = @cons ptok (t, rho c) (mc r).
Proof. reflexivity. Qed.
Lemma mc_nil : mc [] = [].
Proof. reflexivity. Qed.

Lemma skip_eol_mc ts : skip_eol (mc ts) = mc (skip_eol ts).
Proof. induction ts as [|[t c] r IH]; [reflexivity|]. rewrite mc_cons. destruct t; cbn [skip_eol]; auto. Qed.
Lemma end_of_term_mc ts : end_of_term (mc ts) = end_of_term ts.
Proof. destruct ts as [|[t c] r]; reflexivity. Qed.
Lemma end_of_block_mc c ts : end_of_block (rho c) (mc ts) = end_of_block c ts.
Proof. destruct ts as [|[t c'] r]; [reflexivity|]. rewrite mc_cons. cbn [end_of_block]. rewrite rho_ltb. reflexivity. Qed.
Lemma bar_inside_mc off ts : bar_inside (rho off) (mc ts) = bar_inside off ts.
Proof. destruct ts as [|[t c'] r]; [reflexivity|]. rewrite mc_cons. destruct t; cbn [bar_inside]; auto. apply rho_leb. Qed.
Lemma col_inside_mc off ts : col_inside (rho off) (mc ts) = col_inside off ts.
Proof. destruct ts as [|[t c'] r]; [reflexivity|]. rewrite mc_cons. cbn [col_inside]. apply rho_leb. Qed.
Lemma head_is_eol_mc ts : head_is_eol (mc ts) = head_is_eol ts.
Proof. destruct ts as [|[t c'] r]; [reflexivity|]. rewrite mc_cons. destruct t; reflexivity. Qed.
Lemma field_name_mc x ts : field_name x (mc ts) = (fst (field_name x ts), mc (snd (field_name x ts))).
Proof.
  unfold field_name. rewrite skip_eol_mc. destruct (skip_eol ts) as [|[t1 c1] [|[t2 c2] x2]]; try reflexivity.
  - destruct t1; reflexivity.
  - rewrite !mc_cons. destruct t1; try reflexivity. destruct t2; try reflexivity.
    cbn [fst snd]. rewrite skip_eol_mc. reflexivity.
Qed.
Lemma is_default_mr_mc ts : is_default_mr (mc ts) = is_default_mr ts.
Proof. destruct ts as [|[t c] [|[t2 c2] r]]; try reflexivity. Qed.
Lemma is_slit_rule_mc ts : is_slit_rule (mc ts) = is_slit_rule ts.
Proof. destruct ts as [|[t c] [|[t2 c2] r]]; try reflexivity. Qed.
Lemma span_until_mc stop ts :
  span_until stop (mc ts) = (fst (span_until stop ts), mc (snd (span_until stop ts))).
Proof.
  induction ts as [|[t c] r IH]; [reflexivity|]. rewrite mc_cons. cbn [span_until].
  destruct (stop t || match t with TEOL => true | _ => false end); [reflexivity|].
  rewrite IH. destruct (span_until stop r) as [l r']. reflexivity.
Qed.

Definition R_all (n : nat) : Prop :=
  (forall off ts, p_expr n (rho off) (mc ts) = rmap (p_expr n off ts)) /\
  (forall off cur ts, p_binafter n (rho off) cur (mc ts) = rmap (p_binafter n off cur ts)) /\
  (forall off ts, p_term n (rho off) (mc ts) = rmap (p_term n off ts)) /\
  (forall off ts, p_if n (rho off) (mc ts) = rmap (p_if n off ts)) /\
  (forall off cond ts, p_if1 n (rho off) cond (mc ts) = rmap (p_if1 n off cond ts)) /\
  (forall off cond te ts, p_if_nl n (rho off) cond te (mc ts) = rmap (p_if_nl n off cond te ts)) /\
  (forall off ts, p_atoms n (rho off) (mc ts) = rmap (p_atoms n off ts)) /\
  (forall off ts, p_atom n (rho off) (mc ts) = rmap (p_atom n off ts)) /\
  (forall off ts, p_commas n (rho off) (mc ts) = rmap (p_commas n off ts)) /\
  (forall off ts, p_semis n (rho off) (mc ts) = rmap (p_semis n off ts)) /\
  (forall off ts, p_fields n (rho off) (mc ts) = rmap (p_fields n off ts)) /\
  (forall off ts, p_rules n (rho off) (mc ts) = rmap (p_rules n off ts)) /\
  (forall off ts, p_rule n (rho off) (mc ts) = rmap (p_rule n off ts)) /\
  (forall off ts, p_urules n (rho off) (mc ts) = rmap (p_urules n off ts)) /\
  (forall off ts, p_srules n (rho off) (mc ts) = rmap (p_srules n off ts)) /\
  (forall off ts, p_stmt n (rho off) (mc ts) = rmap (p_stmt n off ts)) /\
  (forall off ts, p_block n (rho off) (mc ts) = rmap (p_block n off ts)) /\
  (forall c ts, p_stmts n (rho c) (mc ts) = rmap (p_stmts n c ts)).

(* one step: after rewriting with an induction hypothesis, split on the sub-result *)
Ltac use_nil H :=
  let h := fresh in pose proof H as h; cbn [map_cols map] in h; cbn [map_cols map]; rewrite h; clear h.

Ltac sub_res :=
  match goal with
  | |- context [bind (rmap ?x) _] => destruct x as [[? ?]| |]; cbn [bind rmap]; try reflexivity
  end.

Lemma relabel_all : forall n, R_all n.
Proof.
  induction n as [|n IH].
  - unfold R_all. repeat split; intros; reflexivity.
  - destruct IH as (Hexpr & Hbin & Hterm & Hif & Hif1 & Hifnl & Hatoms & Hatom & Hcommas & Hsemis & Hfields & Hrules & Hrule & Hurules & Hsrules & Hstmt & Hblock & Hstmts).
    unfold R_all. repeat split.
    + (* p_expr *) intros off ts. cbn [p_expr]. rewrite Hterm. sub_res. apply Hbin.
    + (* p_binafter *) intros off cur ts. cbn [p_binafter]. rewrite skip_eol_mc.
      destruct (skip_eol ts) as [|[t c] r]; [reflexivity|]. rewrite mc_cons.
      destruct (is_binop t); [|reflexivity]. rewrite Hterm. sub_res. apply Hbin.
    + (* p_term *) intros off ts. cbn [p_term].
      destruct ts as [|[t c] r]; [use_nil (Hatoms off []); sub_res|].
      rewrite mc_cons.
      destruct t; try (rewrite <- mc_cons; rewrite Hatoms; sub_res; fail).
      * (* TIF *) apply Hif.
      * (* TMATCH *) rewrite Hexpr. sub_res.
        destruct l as [|[t2 c2] r2]; [reflexivity|]. rewrite mc_cons.
        destruct t2; try reflexivity. rewrite skip_eol_mc, Hrules. sub_res.
      * (* TFUN *) rewrite span_until_mc. destruct (span_until is_arrow r) as [ps r1]. cbn [fst snd].
        destruct r1 as [|[t2 c2] r2]; [reflexivity|]. rewrite mc_cons.
        destruct t2; try reflexivity. rewrite skip_eol_mc, Hblock. sub_res.
      * (* TLS *) rewrite <- mc_cons. rewrite Hatom. sub_res.
    + (* p_if *) intros off ts. cbn [p_if]. rewrite Hexpr. sub_res.
      destruct l as [|[t1 c1] r2]; [reflexivity|]. rewrite mc_cons.
      destruct t1; try reflexivity. rewrite head_is_eol_mc.
      destruct (head_is_eol r2); [|apply Hif1].
      rewrite skip_eol_mc, Hblock. sub_res. rewrite skip_eol_mc.
      destruct (skip_eol l) as [|[t3 c3] r4]; [reflexivity|]. rewrite mc_cons.
      destruct t3; try reflexivity.
      * rewrite skip_eol_mc, Hblock. sub_res.
      * rewrite Hif. sub_res.
    + (* p_if1 *) intros off cond ts. cbn [p_if1]. rewrite Hexpr. sub_res.
      destruct l as [|[t3 c3] r4]; [apply (Hifnl off cond e [])|]. rewrite mc_cons.
      destruct t3; try (rewrite <- mc_cons; apply Hifnl).
      * rewrite Hexpr. sub_res.
      * rewrite Hif. sub_res.
    + (* p_if_nl *) intros off cond te ts. cbn [p_if_nl]. rewrite head_is_eol_mc, skip_eol_mc, col_inside_mc.
      destruct (head_is_eol ts && col_inside off (skip_eol ts)); [|reflexivity].
      destruct (skip_eol ts) as [|[t3 c3] r4]; [reflexivity|]. rewrite mc_cons.
      destruct t3; try reflexivity.
      * rewrite skip_eol_mc, Hblock. sub_res.
      * rewrite Hif. sub_res.
    + (* p_atoms *) intros off ts. cbn [p_atoms]. rewrite Hatom. sub_res.
      rewrite end_of_term_mc. destruct (end_of_term l); [reflexivity|]. rewrite Hatoms. sub_res.
    + (* p_atom *) intros off ts. cbn [p_atom].
      destruct ts as [|[t c] r]; [reflexivity|]. rewrite mc_cons.
      destruct t; try reflexivity.
      assert (PAR : forall r', 
          (let* (e, r1) := p_expr n (rho off) (mc r') in
           let* (es, r2) := p_commas n (rho off) r1 in
           match r2 with (TRP, _) :: r3 => Ok (APar (e :: es), r3) | _ => Reject end) =
          rmap (let* (e, r1) := p_expr n off r' in
           let* (es, r2) := p_commas n off r1 in
           match r2 with (TRP, _) :: r3 => Ok (APar (e :: es), r3) | _ => Reject end)).
      { intros r'. rewrite Hexpr. sub_res. rewrite Hcommas. sub_res.
        destruct l1 as [|[t3 c3] r4]; [reflexivity|]. rewrite mc_cons. destruct t3; reflexivity. }
      * (* TLP *) destruct r as [|[t2 c2] r2].
        -- apply (PAR []).
        -- rewrite mc_cons.
           destruct t2; try (rewrite <- mc_cons; apply PAR). reflexivity.
      * (* TLB *) rewrite Hfields. sub_res.
        destruct l0 as [|[t3 c3] r4]; [reflexivity|]. rewrite mc_cons. destruct t3; reflexivity.
      * (* TLS *) rewrite Hexpr. sub_res. rewrite Hsemis. sub_res.
        destruct l1 as [|[t3 c3] r4]; [reflexivity|]. rewrite mc_cons. destruct t3; reflexivity.
    + (* p_commas *) intros off ts. cbn [p_commas].
      destruct ts as [|[t c] r]; [reflexivity|]. rewrite mc_cons.
      destruct t; try reflexivity. rewrite Hexpr. sub_res. rewrite Hcommas. sub_res.
    + (* p_semis *) intros off ts. cbn [p_semis].
      destruct ts as [|[t c] r]; [reflexivity|]. rewrite mc_cons.
      destruct t; try reflexivity. rewrite Hexpr. sub_res. rewrite Hsemis. sub_res.
    + (* p_fields *) intros off ts. cbn [p_fields].
      destruct ts as [|[t c] r]; [reflexivity|]. rewrite mc_cons.
      destruct t; try reflexivity. rewrite field_name_mc. destruct (field_name a r) as [nm r1]. cbn [fst snd].
      destruct r1 as [|[t2 c2] r2]; [reflexivity|]. rewrite mc_cons.
      destruct t2; try reflexivity. rewrite skip_eol_mc, Hexpr. sub_res.
      destruct l as [|[t3 c3] r4]; [reflexivity|]. rewrite mc_cons.
      destruct t3; try reflexivity. rewrite Hfields. sub_res.
    + (* p_rules *) intros off ts. cbn [p_rules]. rewrite is_default_mr_mc, is_slit_rule_mc.
      destruct (is_default_mr ts); [reflexivity|]. destruct (is_slit_rule ts); [apply Hsrules|].
      destruct ts as [|[t c] r]; [reflexivity|]. rewrite mc_cons.
      destruct t; try reflexivity. rewrite <- mc_cons. apply Hurules.
    + (* p_rule *) intros off ts. cbn [p_rule].
      destruct ts as [|[t c] r]; [reflexivity|]. rewrite mc_cons.
      destruct t; try reflexivity. rewrite span_until_mc. destruct (span_until is_arrow r) as [pat r1]. cbn [fst snd].
      destruct r1 as [|[t2 c2] r2]; [reflexivity|]. rewrite mc_cons.
      destruct t2; try reflexivity. rewrite skip_eol_mc, Hblock. sub_res.
    + (* p_urules *) intros off ts. cbn [p_urules]. rewrite Hrule. sub_res.
      rewrite bar_inside_mc, is_default_mr_mc.
      destruct (bar_inside off l && negb (is_default_mr l)).
      * rewrite skip_eol_mc, Hurules. sub_res.
      * destruct (bar_inside off l && is_default_mr l); [|reflexivity]. rewrite Hrule. sub_res.
    + (* p_srules *) intros off ts. cbn [p_srules]. rewrite Hrule. sub_res.
      rewrite is_slit_rule_mc, is_default_mr_mc, bar_inside_mc.
      destruct (is_slit_rule l); [rewrite Hsrules; sub_res|].
      destruct (is_default_mr l && negb (bar_inside off l)); [reflexivity|]. rewrite Hrule. sub_res.
    + (* p_stmt *) intros off ts. cbn [p_stmt].
      destruct ts as [|[t c] r]; [use_nil (Hexpr off []); sub_res|].
      rewrite mc_cons.
      destruct t; try (rewrite <- mc_cons; rewrite Hexpr; sub_res; fail).
      rewrite span_until_mc. destruct (span_until is_eq r) as [hdr r1]. cbn [fst snd].
      destruct r1 as [|[t2 c2] r2]; [reflexivity|]. rewrite mc_cons.
      destruct t2; try reflexivity. rewrite skip_eol_mc.
      destruct (is_var_hdr hdr); [rewrite Hexpr|rewrite Hblock]; sub_res.
    + (* p_block *) intros off ts. cbn [p_block].
      destruct ts as [|[t c] r]; [reflexivity|]. rewrite mc_cons. rewrite rho_leb.
      destruct (c <=? off); [reflexivity|]. rewrite <- mc_cons. rewrite Hstmts. sub_res.
      destruct (last_is_expr l); reflexivity.
    + (* p_stmts *) intros c ts. cbn [p_stmts]. rewrite Hstmt. sub_res.
      cbv zeta. rewrite skip_eol_mc, end_of_block_mc.
      destruct (end_of_block c (skip_eol l)); [reflexivity|]. rewrite Hstmts. sub_res.
Qed.

Lemma p_cases_mc : forall n ts, p_cases n (mc ts) = rmap (p_cases n ts).
Proof.
  induction n as [|n IH]; intros ts; [reflexivity|]. cbn [p_cases].
  destruct ts as [|[t c] r]; [reflexivity|]. rewrite mc_cons. destruct t; try reflexivity.
  rewrite span_until_mc. destruct (span_until is_bar r) as [cs r1]. cbn [fst snd].
  rewrite skip_eol_mc. destruct (skip_eol r1) as [|[t2 c2] r2]; [reflexivity|]. rewrite mc_cons.
  destruct t2; try reflexivity. rewrite <- mc_cons. rewrite IH. sub_res.
Qed.

Lemma p_fdefs_mc : forall n ts, p_fdefs n (mc ts) = rmap (p_fdefs n ts).
Proof.
  induction n as [|n IH]; intros ts; [reflexivity|]. cbn [p_fdefs]. rewrite skip_eol_mc.
  destruct (skip_eol ts) as [|[t c] r]; [reflexivity|]. rewrite mc_cons. destruct t; try reflexivity.
  rewrite skip_eol_mc, span_until_mc. destruct (span_until is_semi_or_rb (skip_eol r)) as [ty r1]. cbn [fst snd].
  destruct r1 as [|[t2 c2] r2]; [reflexivity|]. rewrite mc_cons. destruct t2; try reflexivity.
  rewrite skip_eol_mc. destruct (skip_eol r2) as [|[t3 c3] r3] eqn:E.
  - rewrite mc_nil. rewrite IH. sub_res.
  - rewrite mc_cons. destruct t3; try (rewrite IH; sub_res). reflexivity.
Qed.

Lemma p_extdefs_mc : forall n c ts, p_extdefs n (rho c) (mc ts) = rmap (p_extdefs n c ts).
Proof.
  induction n as [|n IH]; intros c ts; [reflexivity|]. cbn [p_extdefs].
  destruct ts as [|[t c1] r]; [reflexivity|]. rewrite mc_cons.
  destruct t; try reflexivity; rewrite <- mc_cons; rewrite span_until_mc;
    (match goal with |- context [span_until never ?x] => destruct (span_until never x) as [l r1] end);
    cbn [fst snd]; rewrite skip_eol_mc, end_of_block_mc;
    (destruct (end_of_block c (skip_eol r1)); [reflexivity|]); rewrite IH; sub_res.
Qed.

Hypothesis rho0 : rho 0 = 0.

Lemma p_root_mc : forall n ts, p_root n (mc ts) = p_root n ts.
Proof.
  induction n as [|n IH]; intros ts; [reflexivity|]. cbn [p_root]. rewrite skip_eol_mc.
  destruct (skip_eol ts) as [|[t c] r]; [reflexivity|]. rewrite mc_cons.
  destruct t; try reflexivity.
  - (* TLET *) rewrite <- mc_cons. rewrite <- rho0 at 1.
    destruct (relabel_all n) as (_ & _ & _ & _ & _ & _ & _ & _ & _ & _ & _ & _ & _ & _ & _ & Hstmt & _).
    rewrite Hstmt. match goal with |- context [rmap ?x] => destruct x as [[s r1]| |] end; cbn [bind rmap]; try reflexivity.
    rewrite IH. reflexivity.
  - (* TTYPE *) rewrite span_until_mc. destruct (span_until is_eq r) as [hdr r1]. cbn [fst snd].
    destruct r1 as [|[t2 c2] r2]; [reflexivity|]. rewrite mc_cons. destruct t2; try reflexivity.
    rewrite skip_eol_mc.
    assert (OTHER : forall x,
      (let '(l, r3) := span_until never (mc x) in let* rs := p_root n r3 in Ok (RType hdr [l] :: rs)) =
      (let '(l, r3) := span_until never x in let* rs := p_root n r3 in Ok (RType hdr [l] :: rs))).
    { intros x. rewrite span_until_mc. destruct (span_until never x) as [l r3]. cbn [fst snd]. rewrite IH. reflexivity. }
    destruct (skip_eol r2) as [|[t3 c3] r3] eqn:E; [reflexivity|]. rewrite mc_cons.
    destruct t3; try (rewrite <- mc_cons; apply OTHER).
    + rewrite <- mc_cons. rewrite p_cases_mc.
      match goal with |- context [rmap ?x] => destruct x as [[cs r4]| |] end; cbn [bind rmap]; try reflexivity.
      rewrite IH. reflexivity.
    + rewrite p_fdefs_mc.
      match goal with |- context [rmap ?x] => destruct x as [[fs r4]| |] end; cbn [bind rmap]; try reflexivity.
      destruct r4 as [|[t4 c4] r5]; [reflexivity|]. rewrite mc_cons. destruct t4; try reflexivity.
      rewrite IH. reflexivity.
  - (* TKW *) destruct (is_pkginfo k).
    + rewrite span_until_mc. destruct (span_until is_eq r) as [hdr r1]. cbn [fst snd].
      destruct r1 as [|[t2 c2] r2]; [reflexivity|]. rewrite mc_cons. destruct t2; try reflexivity.
      rewrite skip_eol_mc. destruct (skip_eol r2) as [|[t3 c3] r3]; [reflexivity|]. rewrite mc_cons.
      rewrite <- rho0 at 1. rewrite rho_leb. destruct (c3 <=? 0); [reflexivity|].
      rewrite <- mc_cons. rewrite p_extdefs_mc.
      match goal with |- context [rmap ?x] => destruct x as [[ds r4]| |] end; cbn [bind rmap]; try reflexivity.
      rewrite IH. reflexivity.
    + rewrite span_until_mc. destruct (span_until never r) as [l r1]. cbn [fst snd]. rewrite IH. reflexivity.
Qed.

Theorem columns_only_compared_rho : forall n ts, parse_blocks n (mc ts) = parse_blocks n ts.
Proof. exact p_root_mc. Qed.

End Relabel.

Definition strictly_monotone (rho : nat -> nat) : Prop := forall a b, a < b -> rho a < rho b.

(** Any order-preserving relabelling of the columns that keeps the left margin leaves the recovered
    block structure (and every rejection) unchanged. *)
Theorem columns_only_compared : forall rho, strictly_monotone rho -> rho 0 = 0 ->
  forall n ts, parse_blocks n (map_cols rho ts) = parse_blocks n ts.
Proof. intros rho M Z. exact (columns_only_compared_rho rho M Z). Qed.

(** inside one block, with an arbitrary offside column (no margin condition) *)
Theorem columns_only_compared_block : forall rho, strictly_monotone rho ->
  forall n off ts,
    p_block n (rho off) (map_cols rho ts) =
    match p_block n off ts with Ok (b, r) => Ok (b, map_cols rho r) | Reject => Reject | Fuel => Fuel end.
Proof.
  intros rho M n off ts. destruct (relabel_all rho M n) as (_ & _ & _ & _ & _ & _ & _ & _ & _ & _ & _ & _ & _ & _ & _ & _ & Hb & _).
  rewrite Hb. destruct (p_block n off ts) as [[b r]| |]; reflexivity.
Qed.
