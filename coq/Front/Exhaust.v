(** C09 model: exhaustiveness decision of a union match.
    Transcribes fc/parser.fo: parseMatchRules (default-only rejection), parseURules
    (a trailing default arm skips the check) and exaustiveCheck (a dictionary
    case-name -> covered?, filled from the arms, enumerated in an arbitrary order;
    the first uncovered entry of that enumeration is named in the diagnostic).
    Definitions only: proofs are in ExhaustProofs.v. *)
From Coq Require Import List String Bool.
Import ListNotations.


Inductive armform := Bind | Ignore | NoPayload.
Record arm := mkArm { a_case : string; a_form : armform }.

Inductive verdict :=
| Accept
| RejectUncovered (name : string)   (* "match does not cover all cases. Can't find case: <name>." *)
| RejectDefaultOnly                 (* "Only default case, illegal." *)
| RejectNoArm.                      (* nothing after 'with' *)

(** dict as association list with unique keys; Add overwrites in place, appends otherwise *)
Fixpoint dict_add (k : string) (v : bool) (d : list (string * bool)) : list (string * bool) :=
  match d with
  | [] => [(k, v)]
  | (k', v') :: d' => if String.eqb k k' then (k, v) :: d' else (k', v') :: dict_add k v d'
  end.

Definition to_dict (kvs : list (string * bool)) : list (string * bool) :=
  fold_left (fun d kv => dict_add (fst kv) (snd kv) d) kvs [].

Definition mark_arms (cases : list string) (arms : list arm) : list (string * bool) :=
  fold_left (fun d a => dict_add (a_case a) true d) arms
            (to_dict (map (fun c => (c, false)) cases)).

Section Enum.
  (** dict.KVs: any enumeration order of the entries *)
  Variable enum : list (string * bool) -> list (string * bool).

  Definition exhaustive_check (cases : list string) (arms : list arm) : verdict :=
    match filter (fun p => negb (snd p)) (enum (mark_arms cases arms)) with
    | [] => Accept
    | (n, _) :: _ => RejectUncovered n
    end.

  Definition check (cases : list string) (arms : list arm) (has_default : bool) : verdict :=
    match arms with
    | [] => if has_default then RejectDefaultOnly else RejectNoArm
    | _ :: _ => if has_default then Accept else exhaustive_check cases arms
    end.
End Enum.

(** concrete enumeration orders used by the oracle: rotate by k, optionally reversed *)
Definition rotate {A} (k : nat) (l : list A) : list A :=
  match l with [] => [] | _ => let n := Nat.modulo k (List.length l) in skipn n l ++ firstn n l end.
Definition enum_k (k : nat) (rev_it : bool) (l : list (string * bool)) :=
  if rev_it then rev (rotate k l) else rotate k l.

(** the emitted type switch: first arm whose case is the value's constructor, else the default
    arm, else the 'never reached' panic *)
Inductive dispatched := ArmNo (i : nat) | DefaultArm | NeverReached.

Fixpoint find_arm (c : string) (arms : list arm) (i : nat) : option nat :=
  match arms with
  | [] => None
  | a :: r => if String.eqb (a_case a) c then Some i else find_arm c r (S i)
  end.

Definition dispatch (arms : list arm) (has_default : bool) (c : string) : dispatched :=
  match find_arm c arms 0 with
  | Some i => ArmNo i
  | None => if has_default then DefaultArm else NeverReached
  end.
