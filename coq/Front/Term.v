(** C16 model, front half: the scanners of fc/wrapper.go with explicit fuel.

    Transcribes (definitions only; proofs are in TermProofs.v):
      isCharAt, isStringAt, searchForward, scanSpaceToken, scanIdentifierToken, scanIntImmToken,
      scanStringLiteralToken, scanRawStringLiteralToken, scanTokenAt, nextToken, reinterpretEscape,
      ParseSInterP (fc/wrapper.go) and the iteration newTkz/tkzNext of fc/tokenizer.fo.

    Conventions
    - a buffer is a [list nat] of byte codes (Go strings are byte sequences; fc never decodes UTF-8);
    - [buf[k]] is [nth_error buf k]; reading past the end is Go's "index out of range" run-time
      panic, which OnParseError (deferred in transpileOne) turns into a diagnostic: outcome [Diag];
    - [panic(msg)] is [Diag msg];
    - every Go [for] whose bound is not syntactically the buffer length takes fuel; running out of
      fuel is the outcome [OutOfFuel] (a hang), which the theorems exclude;
    - loop counters are kept as absolute positions [j = pos+i] where the Go code keeps the offset [i]
      (in scanSpaceToken), and as the offset [i] elsewhere, as in the code. *)
From Coq Require Import List Arith Bool ZArith String Ascii.
Import ListNotations.

Definition bytes := list nat.

Definition bytes_of_string (s : string) : bytes := map nat_of_ascii (list_ascii_of_string s).

(** TokenType of fc/tokenizer.fo, in declaration order *)
Inductive ttype :=
| ILLEGAL | EOF | SPACE | IDENTIFIER | EQ | LET | FUN | TYPE | EOL | PACKAGE | IMPORT
| LPAREN | RPAREN | LBRACE | RBRACE | LSBRACKET | RSBRACKET | LT | GT | LE | GE | BRACKET
| PIPE | STRING | SINTERP | COLON | COMMA | SEMICOLON | INT_IMM | OF | BAR | BARBAR | RARROW
| UNDER_SCORE | MATCH | WITH | TRUE | FALSE | PACKAGE_INFO | DOT | AND | AMP | AMPAMP
| PLUS | MINUS | ASTER | SLASH | IF | THEN | ELSE | ELIF | NOT.

(** stringVal / intVal of a Token: [PNone] is ("", 0) *)
Inductive payload :=
| PNone
| PStr (s : bytes)
| PInt (n : Z).

Inductive outcome :=
| Tok (ty : ttype) (tbegin : nat) (tlen : nat) (p : payload)
| Diag (msg : string)
| OutOfFuel.

Definition idx_msg : string := "runtime error: index out of range"%string.

(** Go int arithmetic wraps to 64 bits (scanIntImmToken's accumulator) *)
Definition wrap64 (z : Z) : Z := ((z + 2 ^ 63) mod 2 ^ 64 - 2 ^ 63)%Z.

(* ------------------------------------------------------------------ helpers *)

Definition is_char_at (buf : bytes) (at_ : nat) (ch : nat) : bool :=
  match nth_error buf at_ with
  | Some c => Nat.eqb c ch
  | None => false                                  (* at >= len(buf) *)
  end.

(** isStringAt: [at+len(s) > len(buf)] -> false, otherwise bytewise comparison; the
    bytewise comparison below fails exactly when it leaves the buffer.
    (The Go loop is [for i := range s], over the runes of s: bytewise for the ASCII patterns
    used by scanSpaceToken; since commit 2ecf680 it is [for i := 0; i < len(s); i++], bytewise for
    every pattern; see [bom_at_runewise_old] below for the difference.) *)
Fixpoint is_string_at (buf : bytes) (at_ : nat) (s : bytes) : bool :=
  match s with
  | [] => true
  | c :: s' =>
    match nth_error buf at_ with
    | Some b => Nat.eqb b c && is_string_at buf (S at_) s'
    | None => false
    end
  end.

(** searchForward: [for ; pos < len(buf); pos++] — a counted loop, at most len-start rounds;
    [None] is the -1 of the code *)
Fixpoint search_forward_n (n : nat) (buf : bytes) (pos : nat) (s : bytes) : option nat :=
  match n with
  | 0 => None
  | S n' => if is_string_at buf pos s then Some pos else search_forward_n n' buf (S pos) s
  end.
Definition search_forward (buf : bytes) (start : nat) (s : bytes) : option nat :=
  search_forward_n (List.length buf - start) buf start s.

Definition is_alpha (b : nat) : bool :=
  ((97 <=? b) && (b <=? 122)) || ((65 <=? b) && (b <=? 90)).
Definition is_number (b : nat) : bool := (48 <=? b) && (b <=? 57).
Definition is_alnum (b : nat) : bool := is_alpha b || is_number b.

Definition sub_bytes (buf : bytes) (from len : nat) : bytes := firstn len (skipn from buf).

Definition slash_star : bytes := [47; 42].     (* "/*" *)
Definition star_slash : bytes := [42; 47].     (* "*/" *)
Definition slash_slash : bytes := [47; 47].    (* "//" *)
Definition bom : bytes := [239; 187; 191].     (* EF BB BF: U+FEFF in UTF-8 *)

(** isStringAt(buf, at, "\xef\xbb\xbf"): [bom_at], the bytewise test, is what the code does since
    commit 2ecf680. [bom_at_runewise_old] documents the intermediate state of commit 0061363:
    isStringAt iterated with [for i := range s], which walks the RUNES of s; the pattern is a single
    rune, so after the length check only its first byte was compared and every three bytes starting
    with EF inside a literal were taken for a byte order mark (found by this correspondence;
    witness in TermProofs.v / Props/C16.v). *)
Definition bom_at_bytewise (buf : bytes) (at_ : nat) : bool := is_string_at buf at_ bom.
Definition bom_at_runewise_old (buf : bytes) (at_ : nat) : bool :=
  (at_ + 3 <=? List.length buf) && is_char_at buf at_ 239.
Definition bom_at := bom_at_bytewise.
(** the six characters backslash u f e f f, most recent first (as pushed onto an accumulator) *)
Definition bom_escape_rev : bytes := [102; 102; 101; 102; 117; 92].

(* ------------------------------------------------------------------ scanSpaceToken *)

(** [for ; isCharAt(buf, pos+i, ch); i++ {}] *)
Fixpoint skip_char (fuel : nat) (buf : bytes) (j : nat) (ch : nat) : option nat :=
  match fuel with
  | 0 => None
  | S f => if is_char_at buf j ch then skip_char f buf (S j) ch else Some j
  end.

(** [for ; pos+i < len(buf) && !isCharAt(buf, pos+i, '\n'); i++ {}]   (the code as it is now) *)
Fixpoint skip_line (fuel : nat) (buf : bytes) (j : nat) : option nat :=
  match fuel with
  | 0 => None
  | S f =>
    if (j <? List.length buf) && negb (is_char_at buf j 10) then skip_line f buf (S j) else Some j
  end.

(** [for ; !isCharAt(buf, pos+i, '\n'); i++ {}]   (before commit 454a055: no end-of-buffer guard) *)
Fixpoint skip_line_old (fuel : nat) (buf : bytes) (j : nat) : option nat :=
  match fuel with
  | 0 => None
  | S f => if negb (is_char_at buf j 10) then skip_line_old f buf (S j) else Some j
  end.

Definition space_cond (buf : bytes) (j : nat) : bool :=
  is_char_at buf j 32 || is_string_at buf j slash_star || is_string_at buf j slash_slash
  || is_char_at buf j 9.

Section ScanSpace.
  (** the [//] loop is a parameter so that the repaired and the old scanner share the rest *)
  Variable line_loop : nat -> bytes -> nat -> option nat.

  (** [n]: rounds of the outer loop; [fuel]: budget of each inner loop *)
  Fixpoint scan_space_loop (n fuel : nat) (buf : bytes) (pos j : nat) : outcome :=
    match n with
    | 0 => OutOfFuel
    | S n' =>
      if space_cond buf j then
        match skip_char fuel buf j 32 with
        | None => OutOfFuel
        | Some j1 =>
          match skip_char fuel buf j1 9 with
          | None => OutOfFuel
          | Some j2 =>
            let after_block :=
              if is_string_at buf j2 slash_star then
                match search_forward buf (j2 + 2) star_slash with
                | None => None                         (* panic("No comment end found.") *)
                | Some e => Some (e + 2)               (* i = end - pos + 2 *)
                end
              else Some j2 in
            match after_block with
            | None => Diag "No comment end found."
            | Some j3 =>
              if is_string_at buf j3 slash_slash then
                match line_loop fuel buf j3 with
                | None => OutOfFuel
                | Some j4 => scan_space_loop n' fuel buf pos j4
                end
              else scan_space_loop n' fuel buf pos j3
            end
          end
        end
      else Tok SPACE pos (j - pos) PNone
    end.
End ScanSpace.

Definition scan_space (fuel : nat) (buf : bytes) (pos : nat) : outcome :=
  scan_space_loop skip_line fuel fuel buf pos pos.

(** the scanner before the repair of the [//]-at-end-of-file hang *)
Definition scan_space_old (fuel : nat) (buf : bytes) (pos : nat) : outcome :=
  scan_space_loop skip_line_old fuel fuel buf pos pos.

(* ------------------------------------------------------------------ scanIdentifierToken *)

Fixpoint scan_ident_loop (fuel : nat) (buf : bytes) (pos i : nat) : outcome :=
  match fuel with
  | 0 => OutOfFuel
  | S f =>
    if pos + i =? List.length buf then Tok IDENTIFIER pos i (PStr (sub_bytes buf pos i))
    else
      match nth_error buf (pos + i) with
      | None => Diag idx_msg
      | Some c =>
        if is_alnum c || (c =? 95) then scan_ident_loop f buf pos (S i)
        else Tok IDENTIFIER pos i (PStr (sub_bytes buf pos i))
      end
  end.
Definition scan_ident (fuel : nat) (buf : bytes) (pos : nat) : outcome :=
  scan_ident_loop fuel buf pos 1.

(* ------------------------------------------------------------------ scanIntImmToken *)

(** [c] is buf[pos+i]; the code reads buf[pos+i+1] without looking at the length *)
Fixpoint scan_int_loop (fuel : nat) (buf : bytes) (pos i : nat) (n : Z) (c : nat) : outcome :=
  match fuel with
  | 0 => OutOfFuel
  | S f =>
    if is_number c then
      match nth_error buf (pos + S i) with
      | None => Diag idx_msg
      | Some c' => scan_int_loop f buf pos (S i) (wrap64 (10 * n + Z.of_nat (c - 48))) c'
      end
    else Tok INT_IMM pos i (PInt n)
  end.
Definition scan_int (fuel : nat) (buf : bytes) (pos : nat) : outcome :=
  match nth_error buf pos with
  | None => Diag idx_msg
  | Some c => scan_int_loop fuel buf pos 0 0%Z c
  end.

(* ------------------------------------------------------------------ string literals *)

(** [acc] is the bytes.Buffer, most recent byte first *)
Fixpoint scan_string_loop (fuel : nat) (buf : bytes) (pos i : nat) (acc : bytes) : outcome :=
  match fuel with
  | 0 => OutOfFuel
  | S f =>
    if pos + i =? List.length buf then Diag "unclosed string literal"
    else
      match nth_error buf (pos + i) with
      | None => Diag idx_msg
      | Some c =>
        if c =? 34 then Tok STRING pos (i + 1) (PStr (rev acc))
        else if c =? 92 then
          if pos + S i =? List.length buf then Diag "escape just before EOF, wrong"
          else
            match nth_error buf (pos + S i) with
            | None => Diag idx_msg
            | Some c2 => scan_string_loop f buf pos (S (S i)) (c2 :: c :: acc)
            end
        else if c =? 10 then scan_string_loop f buf pos (S i) (110 :: 92 :: acc)   (* raw newline: backslash, n (commit 46f7545) *)
        else if bom_at buf (pos + i)
        then scan_string_loop f buf pos (S (S (S i))) (bom_escape_rev ++ acc)      (* i += 2, then i++ *)
        else scan_string_loop f buf pos (S i) (c :: acc)
      end
  end.
Definition scan_string (fuel : nat) (buf : bytes) (pos : nat) : outcome :=
  scan_string_loop fuel buf pos 1 [].

Fixpoint scan_raw_loop (fuel : nat) (buf : bytes) (pos i : nat) (acc : bytes) : outcome :=
  match fuel with
  | 0 => OutOfFuel
  | S f =>
    if pos + i =? List.length buf then Diag "unclosed raw string"
    else
      match nth_error buf (pos + i) with
      | None => Diag idx_msg
      | Some c =>
        if c =? 96 then Tok STRING pos (i + 1) (PStr (rev acc))
        else if c =? 92 then scan_raw_loop f buf pos (S i) (92 :: 92 :: acc)
        else if c =? 34 then scan_raw_loop f buf pos (S i) (34 :: 92 :: acc)
        else if c =? 10 then scan_raw_loop f buf pos (S i) (110 :: 92 :: acc)
        else if bom_at buf (pos + i)
        then scan_raw_loop f buf pos (S (S (S i))) (bom_escape_rev ++ acc)
        else scan_raw_loop f buf pos (S i) (c :: acc)
      end
  end.
Definition scan_raw (fuel : nat) (buf : bytes) (pos : nat) : outcome :=
  scan_raw_loop fuel buf pos 1 [].

(* ------------------------------------------------------------------ scanTokenAt *)

(** keywordMap of fc/wrapper.go (compared with the running binary by the harness) *)
Definition keyword_names : list (string * ttype) :=
  [("let", LET); ("package", PACKAGE); ("import", IMPORT); ("type", TYPE); ("of", OF);
   ("_", UNDER_SCORE); ("match", MATCH); ("with", WITH); ("true", TRUE); ("false", FALSE);
   ("package_info", PACKAGE_INFO); ("and", AND); ("if", IF); ("then", THEN); ("else", ELSE);
   ("elif", ELIF); ("not", NOT); ("fun", FUN)]%string.
Definition keyword_table : list (bytes * ttype) :=
  map (fun p => (bytes_of_string (fst p), snd p)) keyword_names.

Fixpoint bytes_eqb (a b : bytes) : bool :=
  match a, b with
  | [], [] => true
  | x :: a', y :: b' => Nat.eqb x y && bytes_eqb a' b'
  | _, _ => false
  end.

Fixpoint lookup_keyword (tbl : list (bytes * ttype)) (s : bytes) : option ttype :=
  match tbl with
  | [] => None
  | (k, t) :: tbl' => if bytes_eqb k s then Some t else lookup_keyword tbl' s
  end.

Definition one_char (ty : ttype) (pos b : nat) : outcome := Tok ty pos 1 (PStr [b]).
Definition st_like (ty : ttype) (pos : nat) (s : bytes) : outcome := Tok ty pos (List.length s) (PStr s).

(** [stk.ttype = ty] on a token returned by a sub-scanner *)
Definition retype (ty : ttype) (o : outcome) : outcome :=
  match o with
  | Tok _ b l p => Tok ty b l p
  | _ => o
  end.

Definition keywordize (o : outcome) : outcome :=
  match o with
  | Tok _ b l (PStr s) =>
    match lookup_keyword keyword_table s with
    | Some kw => Tok kw b l (PStr s)
    | None => o
    end
  | _ => o
  end.

(** [panic(b)]: OnParseError prints the byte with %s *)
Definition bad_byte_msg : string := "%!s(uint8)"%string.

Definition scan_token_at (fuel : nat) (buf : bytes) (pos : nat) : outcome :=
  if pos =? List.length buf then Tok EOF pos 0 PNone
  else
    match nth_error buf pos with
    | None => Diag idx_msg                                        (* pos > len(buf) *)
    | Some b =>
      if (b =? 32) || (b =? 9) then scan_space fuel buf pos
      else if b =? 47 then                                        (* '/' *)
        if is_char_at buf (pos + 1) 42 || is_char_at buf (pos + 1) 47 then scan_space fuel buf pos
        else one_char SLASH pos b
      else if is_alpha b || (b =? 95) then keywordize (scan_ident fuel buf pos)
      else if is_number b then scan_int fuel buf pos
      else if b =? 34 then scan_string fuel buf pos               (* double quote *)
      else if b =? 96 then scan_raw fuel buf pos                  (* backtick *)
      else if b =? 36 then                                        (* '$' *)
        if is_char_at buf (pos + 1) 34 then retype SINTERP (scan_string fuel buf (pos + 1))
        else if is_char_at buf (pos + 1) 96 then retype SINTERP (scan_raw fuel buf (pos + 1))
        else Diag bad_byte_msg
      else if b =? 61 then one_char EQ pos b
      else if b =? 10 then one_char EOL pos b
      else if b =? 40 then one_char LPAREN pos b
      else if b =? 41 then one_char RPAREN pos b
      else if b =? 123 then one_char LBRACE pos b
      else if b =? 125 then one_char RBRACE pos b
      else if b =? 91 then one_char LSBRACKET pos b
      else if b =? 93 then one_char RSBRACKET pos b
      else if b =? 58 then one_char COLON pos b
      else if b =? 44 then one_char COMMA pos b
      else if b =? 46 then one_char DOT pos b
      else if b =? 59 then one_char SEMICOLON pos b
      else if b =? 124 then                                       (* '|' *)
        if is_char_at buf (pos + 1) 62 then st_like PIPE pos [124; 62]
        else if is_char_at buf (pos + 1) 124 then st_like BARBAR pos [124; 124]
        else one_char BAR pos b
      else if b =? 60 then                                        (* '<' *)
        if is_char_at buf (pos + 1) 62 then st_like BRACKET pos [60; 62]
        else if is_char_at buf (pos + 1) 61 then st_like LE pos [60; 61]
        else one_char LT pos b
      else if b =? 62 then                                        (* '>' *)
        if is_char_at buf (pos + 1) 61 then st_like GE pos [62; 61]
        else one_char GT pos b
      else if b =? 43 then one_char PLUS pos b
      else if b =? 38 then                                        (* '&' *)
        if is_char_at buf (pos + 1) 38 then st_like AMPAMP pos [38; 38]
        else one_char AMP pos b
      else if b =? 42 then one_char ASTER pos b
      else if b =? 45 then                                        (* '-' *)
        if is_char_at buf (pos + 1) 62 then st_like RARROW pos [45; 62]
        else one_char MINUS pos b
      else Diag bad_byte_msg
    end.

(* ------------------------------------------------------------------ nextToken, tokenizer *)

(** [for tk.ttype == SPACE { tk = scanTokenAt(buf, tk.end()) }] *)
Fixpoint next_token_loop (n fuel : nat) (buf : bytes) (tk : outcome) : outcome :=
  match n with
  | 0 => OutOfFuel
  | S n' =>
    match tk with
    | Tok SPACE b l _ => next_token_loop n' fuel buf (scan_token_at fuel buf (b + l))
    | _ => tk
    end
  end.

(** nextToken(buf, prev) depends on prev only through [p = prev.end()] *)
Definition next_token (fuel : nat) (buf : bytes) (p : nat) : outcome :=
  if List.length buf <=? p then Tok EOF (List.length buf) 0 PNone
  else next_token_loop fuel fuel buf (scan_token_at fuel buf p).

Inductive tok_stream :=
| TDone (toks : list (ttype * nat * nat * payload))     (* ends with the EOF token *)
| TDiag (toks : list (ttype * nat * nat * payload)) (msg : string)
| TOutOfFuel
| TOutOfSteps.

(** newTkz (nextToken from the ILLEGAL token at 0, len 0) followed by tkzNext until EOF *)
Fixpoint tokenize (steps fuel : nat) (buf : bytes) (p : nat)
         (acc : list (ttype * nat * nat * payload)) : tok_stream :=
  match steps with
  | 0 => TOutOfSteps
  | S s =>
    match next_token fuel buf p with
    | Tok EOF b l pl => TDone (rev ((EOF, b, l, pl) :: acc))
    | Tok ty b l pl => tokenize s fuel buf (b + l) ((ty, b, l, pl) :: acc)
    | Diag m => TDiag (rev acc) m
    | OutOfFuel => TOutOfFuel
    end
  end.

Definition tokens (buf : bytes) : tok_stream :=
  tokenize (S (List.length buf)) (S (List.length buf)) buf 0 [].

(* ------------------------------------------------------------------ reinterpretEscape *)

Inductive esc_result :=
| EOk (s : bytes)
| EDiag (msg : string)
| EOutOfFuel.

Fixpoint reinterpret_loop (fuel : nat) (buf : bytes) (i : nat) (acc : bytes) : esc_result :=
  match fuel with
  | 0 => EOutOfFuel
  | S f =>
    if i =? List.length buf then EOk (rev acc)
    else
      match nth_error buf i with
      | None => EDiag idx_msg
      | Some c =>
        if c =? 92 then
          if S i =? List.length buf then EDiag "escape just before EOF, wrong"
          else
            match nth_error buf (S i) with
            | None => EDiag idx_msg
            | Some c2 =>
              reinterpret_loop f buf (S (S i)) ((if c2 =? 110 then 10 else c2) :: acc)
            end
        else reinterpret_loop f buf (S i) (c :: acc)
      end
  end.
Definition reinterpret_escape (fuel : nat) (buf : bytes) : esc_result :=
  reinterpret_loop fuel buf 0 [].

(* ------------------------------------------------------------------ ParseSInterP *)

Inductive sinterp_result :=
| SOk (fmt : bytes) (vars : list bytes)
| SDiag (msg : string)
| SOutOfFuel.

Inductive close_result :=
| CFound (i : nat)
| CDiag (msg : string)
| COutOfFuel.

(** [for buf[i] != '}' { i++; if i == end { panic(...) } }] *)
Fixpoint find_close (fuel : nat) (buf : bytes) (i : nat) : close_result :=
  match fuel with
  | 0 => COutOfFuel
  | S f =>
    match nth_error buf i with
    | None => CDiag idx_msg                              (* '{' is the last byte *)
    | Some c =>
      if c =? 125 then CFound i
      else if S i =? List.length buf then CDiag "Open brace but no close brace"
      else find_close f buf (S i)
    end
  end.

(** [res] most recent byte first, [vars] most recent first; [n]: rounds of the outer loop *)
Fixpoint parse_sinterp_loop (n fuel : nat) (buf : bytes) (i : nat) (res : bytes)
         (vars : list bytes) : sinterp_result :=
  match n with
  | 0 => SOutOfFuel
  | S n' =>
    if i <? List.length buf then
      match nth_error buf i with
      | None => SDiag idx_msg
      | Some c =>
        if c =? 92 then                                   (* backslash *)
          if S i =? List.length buf then SDiag "escape just before end, wrong"
          else
            match nth_error buf (S i) with
            | None => SDiag idx_msg
            | Some c2 =>
              if (c2 =? 123) || (c2 =? 125)
              then parse_sinterp_loop n' fuel buf (S (S i)) (c2 :: res) vars   (* the backslash is dropped *)
              else parse_sinterp_loop n' fuel buf (S (S i)) (c2 :: c :: res) vars
            end
        else if c =? 123 then                             (* '{' *)
          match find_close fuel buf (S i) with
          | COutOfFuel => SOutOfFuel
          | CDiag m => SDiag m
          | CFound e =>
            parse_sinterp_loop n' fuel buf (S e) (115 :: 37 :: res)           (* "%s" *)
                               (sub_bytes buf (S i) (e - S i) :: vars)
          end
        else if c =? 37 then parse_sinterp_loop n' fuel buf (S i) (37 :: 37 :: res) vars   (* "%%" *)
        else parse_sinterp_loop n' fuel buf (S i) (c :: res) vars
      end
    else SOk (rev res) (rev vars)
  end.

Definition parse_sinterp (fuel : nat) (buf : bytes) : sinterp_result :=
  parse_sinterp_loop fuel fuel buf 0 [] [].
