(** C08 model: expression grouping. Transcribes fc/parser.fo parseExprWithPrec / parseBinAfter /
    parseTerm / parseAtomList / parseAtom / isEndOfTerm over a token list, and the operator table
    (published in the property; tied to wrapper.go's binOpMap by the generated gen/BinOpTable.v).
    Definitions only. *)
From Coq Require Import List Arith Bool.
Import ListNotations.

Inductive optok := PIPE | AMPAMP | BARBAR | GT | LT | GE | LE | EQ | BRACKET | PLUS | MINUS | ASTER | SLASH.

(** the published table: from loosest: |> ; && || < > <= >= ; = <> ; + - ; * / *)
Definition rank (o : optok) : nat :=
  match o with
  | PIPE => 1
  | AMPAMP | BARBAR | GT | LT | GE | LE => 2
  | EQ | BRACKET => 3
  | PLUS | MINUS => 4
  | ASTER | SLASH => 5
  end.

Definition all_ops := [PIPE; AMPAMP; BARBAR; GT; LT; GE; LE; EQ; BRACKET; PLUS; MINUS; ASTER; SLASH].

Definition optok_eqb (a b : optok) : bool :=
  match a, b with
  | PIPE, PIPE | AMPAMP, AMPAMP | BARBAR, BARBAR | GT, GT | LT, LT | GE, GE | LE, LE
  | EQ, EQ | BRACKET, BRACKET | PLUS, PLUS | MINUS, MINUS | ASTER, ASTER | SLASH, SLASH => true
  | _, _ => false
  end.

(** ---------------------------------------------------------------- chain level (abstract operands) *)
Section Climb.
  Variable atom : Type.

  Inductive tree := Leaf (a : atom) | Node (o : optok) (l r : tree).

  (** chain a0 o1 a1 o2 a2 … = (a0, [(o1,a1); (o2,a2); …]) *)
  Definition rest := list (optok * atom).

  (** parseBinAfter: climb fuel minp lhs rest = (tree, remaining) *)
  Fixpoint climb (fuel : nat) (minp : nat) (lhs : tree) (r : rest) : option (tree * rest) :=
    match fuel with
    | O => None
    | S fuel =>
      match r with
      | [] => Some (lhs, [])
      | (o, a) :: r' =>
        if rank o <? minp then Some (lhs, r)
        else match climb fuel (S (rank o)) (Leaf a) r' with
             | None => None
             | Some (rhs, r'') => climb fuel minp (Node o lhs rhs) r''
             end
      end
    end.

  (** parseExpr = parseExprWithPrec 1 *)
  Definition parse_chain (a0 : atom) (r : rest) : option tree :=
    match climb (S (List.length r)) 1 (Leaf a0) r with
    | Some (t, _) => Some t
    | None => None
    end.

  Fixpoint ops (t : tree) : list optok :=
    match t with Leaf _ => [] | Node o l r => ops l ++ o :: ops r end.
  Fixpoint first_atom (t : tree) : atom :=
    match t with Leaf a => a | Node _ l _ => first_atom l end.
  Fixpoint tail_chain (t : tree) : rest :=
    match t with
    | Leaf _ => []
    | Node o l r => tail_chain l ++ (o, first_atom r) :: tail_chain r
    end.

  (** well-grouped by the table: every operator in the left operand has rank >= the node's (equal
      ranks associate to the left), every operator in the right operand has strictly higher rank *)
  Fixpoint wg (t : tree) : Prop :=
    match t with
    | Leaf _ => True
    | Node o l r => wg l /\ wg r /\ Forall (fun o' => rank o <= rank o') (ops l)
                    /\ Forall (fun o' => rank o < rank o') (ops r)
    end.
End Climb.
Arguments Leaf {atom}. Arguments Node {atom}.
Arguments climb {atom}. Arguments parse_chain {atom}. Arguments ops {atom}.
Arguments first_atom {atom}. Arguments tail_chain {atom}. Arguments wg {atom}.

(** ---------------------------------------------------------------- token level (what fc parses) *)
Inductive tok :=
| TId (n : nat)        (* identifier or literal *)
| TOp (o : optok)
| TLParen | TRParen
| TNot
| TEOL
| TEnd (k : nat).      (* any other terminator: ; } ] with then else , EOF *)

Inductive expr :=
| EAtom (n : nat)
| EApp (head : expr) (args : list expr)
| EBin (o : optok) (l r : expr)
| ENot (e : expr)
| EUnit.

Fixpoint skip_eol (ts : list tok) : list tok :=
  match ts with TEOL :: r => skip_eol r | _ => ts end.

(** isEndOfTerm *)
Definition is_end_of_term (ts : list tok) : bool :=
  match ts with
  | [] | TEOL :: _ | TRParen :: _ | TEnd _ :: _ | TOp _ :: _ => true
  | _ => false
  end.

Inductive presult := POk (e : expr) (r : list tok) | PErr | PFuel.

(** parseExprWithPrec / parseBinAfter / parseTerm / parseAtomList / parseAtom, one fuel for all *)
Fixpoint parse_expr (fuel : nat) (minp : nat) (ts : list tok) : presult :=
  match fuel with
  | O => PFuel
  | S fuel =>
    match parse_term fuel ts with
    | POk e r =>
      match skip_eol r with
      | TOp _ :: _ => bin_after fuel minp (skip_eol r) e
      | _ => POk e r
      end
    | x => x
    end
  end
with bin_after (fuel : nat) (minp : nat) (ts : list tok) (cur : expr) : presult :=
  match fuel with
  | O => PFuel
  | S fuel =>
    match skip_eol ts with
    | TOp o :: r =>
      if rank o <? minp then POk cur ts
      else match parse_expr fuel (S (rank o)) r with
           | POk rhs r' => bin_after fuel minp r' (EBin o cur rhs)
           | x => x
           end
    | _ => POk cur ts
    end
  end
with parse_term (fuel : nat) (ts : list tok) : presult :=
  match fuel with
  | O => PFuel
  | S fuel =>
    match ts with
    | TNot :: r =>
      match parse_term fuel r with
      | POk e r' => POk (ENot e) r'
      | x => x
      end
    | _ =>
      match parse_atoms fuel ts with
      | Some (Some (e :: nil, r)) => POk e r
      | Some (Some (h :: args, r)) =>
        match h with
        | EAtom _ => POk (EApp h args) r
        | _ => PErr              (* "Funcall head is not var" *)
        end
      | Some (Some (nil, _)) => PErr
      | Some None => PErr
      | None => PFuel
      end
    end
  end
with parse_atoms (fuel : nat) (ts : list tok) : option (option (list expr * list tok)) :=
  match fuel with
  | O => None
  | S fuel =>
    match parse_atom fuel ts with
    | POk e r =>
      if is_end_of_term r then Some (Some ([e], r))
      else match parse_atoms fuel r with
           | Some (Some (es, r')) => Some (Some (e :: es, r'))
           | x => x
           end
    | PErr => Some None
    | PFuel => None
    end
  end
with parse_atom (fuel : nat) (ts : list tok) : presult :=
  match fuel with
  | O => PFuel
  | S fuel =>
    match ts with
    | TId n :: r => POk (EAtom n) r
    | TLParen :: TRParen :: r => POk EUnit r
    | TLParen :: r =>
      match parse_expr fuel 1 r with
      | POk e (TRParen :: r') => POk e r'
      | POk _ _ => PErr
      | x => x
      end
    | _ => PErr                  (* "Unown atom." *)
    end
  end.

Definition parse_tokens (ts : list tok) : presult :=
  parse_expr (6 * List.length ts + 8) 1 ts.

(** emitted Go operator / runtime function per token (binOpMap's second column) *)
From Coq Require Import String.
Definition go_name (o : optok) : string :=
  match o with
  | PIPE => "frt.Pipe" | AMPAMP => "&&" | BARBAR => "||" | GT => ">" | LT => "<" | GE => ">=" | LE => "<="
  | EQ => "frt.OpEqual" | BRACKET => "frt.OpNotEqual" | PLUS => "+" | MINUS => "-" | ASTER => "*" | SLASH => "/"
  end%string.
