(** C08, token level: a surface syntax for what the user writes (terms, application, parentheses,
    [not], newlines before an operator), its token string [flat_expr], and its denotation
    [den_expr], which groups the operands of every chain with the PROVED chain-level function
    [parse_chain] (BinOpProofs.parse_chain_correct).

    Main theorem [parse_expr_flatten]: on the token string of every well-formed surface expression,
    followed by any continuation that does not continue the expression, the transcription of
    parseExprWithPrec/parseBinAfter/parseTerm/parseAtomList/parseAtom (Front/BinOp.v, unchanged)
    returns exactly the denotation and the continuation, for every fuel >= 3 * (token count) + 2;
    in particular [parse_tokens] (whose fuel is 6 * count + 8) never runs out of fuel on such input. *)
From Coq Require Import List Arith Lia Bool.
From FoVerif Require Import Front.BinOp Front.BinOpProofs.
Import ListNotations.

(** ---------------------------------------------------------------- surface syntax *)
Inductive sexpr := SE (t : sterm) (r : srest)
with srest := SNil | SCons (eols : nat) (o : optok) (t : sterm) (r : srest)   (* eols newlines, operator, term *)
with sterm := STNot (t : sterm) | STApp (a : satom) (args : sargs)
with sargs := ANil | ACons (a : satom) (args : sargs)
with satom := SAId (n : nat) | SAParen (e : sexpr) | SAUnit.

Scheme sexpr_mind := Induction for sexpr Sort Prop
  with srest_mind := Induction for srest Sort Prop
  with sterm_mind := Induction for sterm Sort Prop
  with sargs_mind := Induction for sargs Sort Prop
  with satom_mind := Induction for satom Sort Prop.
Combined Scheme surface_mutind from sexpr_mind, srest_mind, sterm_mind, sargs_mind, satom_mind.

(** the token string *)
Fixpoint flat_expr (e : sexpr) : list tok :=
  match e with SE t r => flat_term t ++ flat_rest r end
with flat_rest (r : srest) : list tok :=
  match r with
  | SNil => []
  | SCons n o t r => repeat TEOL n ++ TOp o :: flat_term t ++ flat_rest r
  end
with flat_term (t : sterm) : list tok :=
  match t with
  | STNot t => TNot :: flat_term t
  | STApp a args => flat_atom a ++ flat_args args
  end
with flat_args (args : sargs) : list tok :=
  match args with
  | ANil => []
  | ACons a args => flat_atom a ++ flat_args args
  end
with flat_atom (a : satom) : list tok :=
  match a with
  | SAId n => [TId n]
  | SAParen e => TLParen :: flat_expr e ++ [TRParen]
  | SAUnit => [TLParen; TRParen]
  end.

(** well-formedness: the head of an application with at least one argument is an identifier
    (parseTerm's "Funcall head is not var") *)
Definition head_ok (a : satom) (args : sargs) : Prop :=
  match args with
  | ANil => True
  | ACons _ _ => match a with SAId _ => True | _ => False end
  end.

Fixpoint wf_expr (e : sexpr) : Prop :=
  match e with SE t r => wf_term t /\ wf_rest r end
with wf_rest (r : srest) : Prop :=
  match r with SNil => True | SCons _ _ t r => wf_term t /\ wf_rest r end
with wf_term (t : sterm) : Prop :=
  match t with
  | STNot t => wf_term t
  | STApp a args => wf_atom a /\ wf_args args /\ head_ok a args
  end
with wf_args (args : sargs) : Prop :=
  match args with ANil => True | ACons a args => wf_atom a /\ wf_args args end
with wf_atom (a : satom) : Prop :=
  match a with SAId _ => True | SAParen e => wf_expr e | SAUnit => True end.

(** ---------------------------------------------------------------- denotation through parse_chain *)
Fixpoint te (t : tree expr) : expr :=
  match t with Leaf e => e | Node o l r => EBin o (te l) (te r) end.

(** total version of parse_chain (the None branch is impossible: [chain_tree_some]) *)
Definition chain_tree (a0 : expr) (r : list (optok * expr)) : tree expr :=
  match parse_chain a0 r with Some t => t | None => Leaf a0 end.

Lemma chain_tree_some a0 r : parse_chain a0 r = Some (chain_tree a0 r).
Proof.
  unfold chain_tree. destruct (parse_chain_correct expr a0 r) as (t & -> & _). reflexivity.
Qed.

Lemma chain_tree_spec a0 r :
  wg (chain_tree a0 r) /\ first_atom (chain_tree a0 r) = a0 /\ tail_chain (chain_tree a0 r) = r /\
  forall t', wg t' -> first_atom t' = a0 -> tail_chain t' = r -> t' = chain_tree a0 r.
Proof.
  unfold chain_tree. destruct (parse_chain_correct expr a0 r) as (t & -> & H). exact H.
Qed.

Fixpoint den_expr (e : sexpr) : expr :=
  match e with SE t r => te (chain_tree (den_term t) (den_rest r)) end
with den_rest (r : srest) : list (optok * expr) :=
  match r with SNil => [] | SCons _ o t r => (o, den_term t) :: den_rest r end
with den_term (t : sterm) : expr :=
  match t with
  | STNot t => ENot (den_term t)
  | STApp a args =>
    match args with
    | ANil => den_atom a
    | ACons _ _ => EApp (den_atom a) (den_args args)
    end
  end
with den_args (args : sargs) : list expr :=
  match args with ANil => [] | ACons a args => den_atom a :: den_args args end
with den_atom (a : satom) : expr :=
  match a with
  | SAId n => EAtom n
  | SAParen e => den_expr e        (* explicit parentheses: one operand of the enclosing chain *)
  | SAUnit => EUnit
  end.

Notation flatten := flat_expr.
Notation denote := den_expr.
Notation wf := wf_expr.

(** ---------------------------------------------------------------- fuel that suffices *)
Fixpoint rlen (r : srest) : nat :=
  match r with SNil => 0 | SCons _ _ _ r => S (rlen r) end.
Fixpoint alen (args : sargs) : nat :=
  match args with ANil => 0 | ACons _ args => S (alen args) end.

Fixpoint fe (e : sexpr) : nat :=
  match e with SE t r => 2 * rlen r + 2 + Nat.max (ft t) (fr r) end
with fr (r : srest) : nat :=
  match r with SNil => 0 | SCons _ _ t r => Nat.max (ft t) (fr r) end
with ft (t : sterm) : nat :=
  match t with
  | STNot t => S (ft t)
  | STApp a args => 2 + alen args + Nat.max (fa a) (fargs args)
  end
with fargs (args : sargs) : nat :=
  match args with ANil => 0 | ACons a args => Nat.max (fa a) (fargs args) end
with fa (a : satom) : nat :=
  match a with SAId _ => 1 | SAParen e => S (fe e) | SAUnit => 1 end.

(** ---------------------------------------------------------------- continuations *)
(** the continuation does not continue the expression: after skipping newlines there is nothing, a
    closing parenthesis, or another terminator (; } ] with then else , EOF) *)
Definition stops (k : list tok) : Prop :=
  match skip_eol k with
  | [] | TRParen :: _ | TEnd _ :: _ => True
  | _ => False
  end.

Lemma stops_nil : stops []. Proof. exact I. Qed.
Lemma stops_end n k : stops (TEnd n :: k). Proof. exact I. Qed.
Lemma stops_rparen k : stops (TRParen :: k). Proof. exact I. Qed.
Lemma stops_eol k : stops k -> stops (TEOL :: k). Proof. exact (fun H => H). Qed.

Lemma stops_eot k : stops k -> is_end_of_term k = true.
Proof. unfold stops. destruct k as [|[] k']; cbn; intros H; try reflexivity; contradiction. Qed.

(** ---------------------------------------------------------------- one-step unfoldings *)
Lemma parse_expr_S m minp ts :
  parse_expr (S m) minp ts =
  match parse_term m ts with
  | POk e r =>
    match skip_eol r with
    | TOp _ :: _ => bin_after m minp (skip_eol r) e
    | _ => POk e r
    end
  | x => x
  end.
Proof. reflexivity. Qed.

Lemma bin_after_S m minp ts cur :
  bin_after (S m) minp ts cur =
  match skip_eol ts with
  | TOp o :: r =>
    if rank o <? minp then POk cur ts
    else match parse_expr m (S (rank o)) r with
         | POk rhs r' => bin_after m minp r' (EBin o cur rhs)
         | x => x
         end
  | _ => POk cur ts
  end.
Proof. reflexivity. Qed.

Lemma parse_atoms_S m ts :
  parse_atoms (S m) ts =
  match parse_atom m ts with
  | POk e r =>
    if is_end_of_term r then Some (Some ([e], r))
    else match parse_atoms m r with
         | Some (Some (es, r')) => Some (Some (e :: es, r'))
         | x => x
         end
  | PErr => Some None
  | PFuel => None
  end.
Proof. reflexivity. Qed.

Definition starts_atom (ts : list tok) : Prop :=
  match ts with TId _ :: _ | TLParen :: _ => True | _ => False end.
Definition starts_term (ts : list tok) : Prop :=
  match ts with TId _ :: _ | TLParen :: _ | TNot :: _ => True | _ => False end.

Lemma parse_term_not m ts :
  parse_term (S m) (TNot :: ts) =
  match parse_term m ts with POk e r' => POk (ENot e) r' | x => x end.
Proof. reflexivity. Qed.

Lemma parse_term_app m ts : starts_atom ts ->
  parse_term (S m) ts =
  match parse_atoms m ts with
  | Some (Some (e :: nil, r)) => POk e r
  | Some (Some (h :: args, r)) =>
    match h with EAtom _ => POk (EApp h args) r | _ => PErr end
  | Some (Some (nil, _)) => PErr
  | Some None => PErr
  | None => PFuel
  end.
Proof. destruct ts as [|[] ts']; cbn; intros H; try contradiction; reflexivity. Qed.

Lemma parse_atom_paren m ts : starts_term ts ->
  parse_atom (S m) (TLParen :: ts) =
  match parse_expr m 1 ts with
  | POk e (TRParen :: r') => POk e r'
  | POk _ _ => PErr
  | x => x
  end.
Proof. destruct ts as [|[] ts']; cbn; intros H; try contradiction; reflexivity. Qed.

(** ---------------------------------------------------------------- first tokens *)
Lemma starts_atom_flat a x : starts_atom (flat_atom a ++ x).
Proof. destruct a; exact I. Qed.

Lemma starts_atom_term ts : starts_atom ts -> starts_term ts.
Proof. destruct ts as [|[] ?]; cbn; auto. Qed.

Lemma starts_term_flat t x : starts_term (flat_term t ++ x).
Proof.
  destruct t as [t|a args]; cbn [flat_term]; [exact I|].
  rewrite <- app_assoc. apply starts_atom_term, starts_atom_flat.
Qed.

Lemma starts_term_flat_expr e x : starts_term (flat_expr e ++ x).
Proof. destruct e as [t r]; cbn [flat_expr]. rewrite <- app_assoc. apply starts_term_flat. Qed.

Lemma starts_atom_not_eot ts : starts_atom ts -> is_end_of_term ts = false.
Proof. destruct ts as [|[] ?]; cbn; intros H; try contradiction; reflexivity. Qed.

Lemma skip_eol_repeat n x : skip_eol (repeat TEOL n ++ x) = skip_eol x.
Proof. induction n as [|n IH]; cbn; auto. Qed.

Lemma skip_eol_idem ts : skip_eol (skip_eol ts) = skip_eol ts.
Proof. induction ts as [|[] ts IH]; cbn; auto. Qed.

Lemma skip_flat_rest_cons n o t r k :
  skip_eol (flat_rest (SCons n o t r) ++ k) = TOp o :: flat_term t ++ flat_rest r ++ k.
Proof.
  cbn [flat_rest]. rewrite <- app_assoc, skip_eol_repeat. cbn [app skip_eol].
  rewrite <- app_assoc. reflexivity.
Qed.

Lemma eot_flat_rest r k : stops k -> is_end_of_term (flat_rest r ++ k) = true.
Proof.
  intros Hk. destruct r as [|n o t r]; [exact (stops_eot k Hk)|].
  cbn [flat_rest]. destruct n; reflexivity.
Qed.

(** ---------------------------------------------------------------- what the induction carries *)
Definition atom_ok (a : satom) : Prop :=
  forall k m, m >= fa a -> parse_atom m (flat_atom a ++ k) = POk (den_atom a) k.

Definition term_ok (t : sterm) : Prop :=
  forall k m, is_end_of_term k = true -> m >= ft t ->
  parse_term m (flat_term t ++ k) = POk (den_term t) k.

Fixpoint terms_ok (r : srest) : Prop :=
  match r with SNil => True | SCons _ _ t r => term_ok t /\ terms_ok r end.

Definition expr_ok (e : sexpr) : Prop :=
  forall k m, stops k -> m >= fe e -> parse_expr m 1 (flat_expr e ++ k) = POk (den_expr e) k.

(** ---------------------------------------------------------------- bin_after against climb *)
Section Chain.
  Variable k : list tok.
  Hypothesis Hk : stops k.

  (** the token string that remains when the chain [r] remains: exactly [k] at the end, otherwise
      equal to the rest of the tokens up to leading newlines (parseBinAfter returns the state
      before its psSkipEOL, parseExprWithPrec calls it with the state after) *)
  Definition rem_ok (ts : list tok) (r : srest) : Prop :=
    match r with
    | SNil => ts = k
    | SCons _ _ _ _ => skip_eol ts = skip_eol (flat_rest r ++ k)
    end.

  Lemma bin_after_stop m minp cur : bin_after (S m) minp k cur = POk cur k.
  Proof.
    rewrite bin_after_S. unfold stops in Hk.
    destruct (skip_eol k) as [|[] ?]; try contradiction; reflexivity.
  Qed.

  (** the dispatch at the end of parseExprWithPrec is a call of parseBinAfter *)
  Lemma expr_tail m minp e r : m >= 1 ->
    exists ts0, rem_ok ts0 r /\
    match skip_eol (flat_rest r ++ k) with
    | TOp _ :: _ => bin_after m minp (skip_eol (flat_rest r ++ k)) e
    | _ => POk e (flat_rest r ++ k)
    end = bin_after m minp ts0 e.
  Proof.
    intros M. destruct r as [|n o t r].
    - exists k. split; [reflexivity|]. cbn [flat_rest app].
      destruct m as [|m]; [lia|]. rewrite bin_after_stop.
      unfold stops in Hk. destruct (skip_eol k) as [|[] ?]; try contradiction; reflexivity.
    - exists (skip_eol (flat_rest (SCons n o t r) ++ k)). split.
      + cbn [rem_ok]. apply skip_eol_idem.
      + rewrite skip_flat_rest_cons. reflexivity.
  Qed.

  Lemma climb_tokens : forall fuel minp (lhs : tree expr) r t rr',
    climb fuel minp lhs (den_rest r) = Some (t, rr') -> terms_ok r ->
    exists r', rr' = den_rest r' /\ terms_ok r' /\ rlen r' <= rlen r /\ fr r' <= fr r /\
    forall ts m, rem_ok ts r -> m >= 2 * rlen r + 1 + fr r ->
    exists ts', rem_ok ts' r' /\ bin_after m minp ts (te lhs) = POk (te t) ts'.
  Proof.
    induction fuel as [|fuel IH]; intros minp lhs r t rr' H T; cbn [climb] in H; [discriminate|].
    destruct r as [|n o t0 r0]; cbn [den_rest] in H.
    - inversion H; subst. exists SNil.
      split; [reflexivity|]. split; [exact I|]. split; [lia|]. split; [lia|].
      intros ts m R M. cbn [rem_ok] in R. subst ts. exists k. split; [reflexivity|].
      destruct m as [|m]; [lia|]. apply bin_after_stop.
    - destruct (rank o <? minp) eqn:Lt.
      + inversion H; subst. exists (SCons n o t0 r0).
        split; [reflexivity|]. split; [exact T|]. split; [lia|]. split; [lia|].
        intros ts m R M. exists ts. split; [exact R|].
        destruct m as [|m]; [lia|]. rewrite bin_after_S.
        cbn [rem_ok] in R. rewrite R, skip_flat_rest_cons, Lt. reflexivity.
      + destruct (climb fuel (S (rank o)) (Leaf (den_term t0)) (den_rest r0)) as [[rhs rr1]|] eqn:C1;
          [|discriminate].
        destruct T as [T0 Tr0].
        destruct (IH _ _ _ _ _ C1 Tr0) as (r1 & -> & T1 & L1 & F1 & B1).
        destruct (IH _ _ _ _ _ H T1) as (r' & -> & T' & L' & F' & B').
        exists r'. cbn [rlen fr]. split; [reflexivity|]. split; [exact T'|].
        split; [lia|]. split; [lia|].
        intros ts m R M. destruct m as [|m]; [lia|]. rewrite bin_after_S.
        cbn [rem_ok] in R. rewrite R, skip_flat_rest_cons, Lt.
        assert (PE : exists ts1, rem_ok ts1 r1 /\
                  parse_expr m (S (rank o)) (flat_term t0 ++ flat_rest r0 ++ k) = POk (te rhs) ts1).
        { destruct m as [|m]; [lia|]. rewrite parse_expr_S.
          rewrite (T0 (flat_rest r0 ++ k) m (eot_flat_rest r0 k Hk)) by lia.
          destruct (expr_tail m (S (rank o)) (den_term t0) r0 ltac:(lia)) as (ts0 & R0 & ->).
          exact (B1 ts0 m R0 ltac:(lia)). }
        destruct PE as (ts1 & R1 & ->).
        exact (B' ts1 m R1 ltac:(lia)).
  Qed.

  Lemma den_rest_nil r : den_rest r = [] -> r = SNil.
  Proof. destruct r; [reflexivity|discriminate]. Qed.

  Lemma chain_tokens t r m : term_ok t -> terms_ok r ->
    m >= 2 * rlen r + 2 + Nat.max (ft t) (fr r) ->
    parse_expr m 1 ((flat_term t ++ flat_rest r) ++ k)
    = POk (te (chain_tree (den_term t) (den_rest r))) k.
  Proof.
    intros Tt Tr M. unfold chain_tree, parse_chain.
    destruct (climb_fuel expr (S (List.length (den_rest r))) 1 (Leaf (den_term t)) (den_rest r)
                ltac:(lia)) as (tr & rr' & E & _).
    rewrite E.
    destruct (climb_spec _ _ _ _ _ _ _ E I (Forall_nil _)) as (_ & _ & _ & _ & B).
    { destruct (den_rest r) as [|[? ?] ?]; cbn; auto. }
    assert (rr' = []) as ->.
    { destruct rr' as [|[o a] ?]; auto. cbn in B. pose proof (rank_pos o). lia. }
    destruct (climb_tokens _ _ _ _ _ _ E Tr) as (r' & E' & _ & _ & _ & BA).
    symmetry in E'. apply den_rest_nil in E'. subst r'.
    destruct m as [|m]; [lia|]. rewrite parse_expr_S, <- app_assoc.
    rewrite (Tt (flat_rest r ++ k) m (eot_flat_rest r k Hk)) by lia.
    destruct (expr_tail m 1 (den_term t) r ltac:(lia)) as (ts0 & R0 & ->).
    destruct (BA ts0 m R0 ltac:(lia)) as (ts' & R' & E2).
    cbn [te] in E2. rewrite E2. cbn [rem_ok] in R'. subst ts'. reflexivity.
  Qed.
End Chain.

(** ---------------------------------------------------------------- the mutual induction *)
Lemma surface_ok :
  (forall e, wf_expr e -> expr_ok e) /\
  (forall r, wf_rest r -> terms_ok r) /\
  (forall t, wf_term t -> term_ok t) /\
  (forall args, wf_args args -> forall a, atom_ok a -> forall k m,
     is_end_of_term k = true -> m >= 1 + alen args + Nat.max (fa a) (fargs args) ->
     parse_atoms m (flat_atom a ++ flat_args args ++ k)
     = Some (Some (den_atom a :: den_args args, k))) /\
  (forall a, wf_atom a -> atom_ok a).
Proof.
  apply surface_mutind.
  - (* SE *)
    intros t IHt r IHr [Wt Wr] k m Hk M. cbn [fe] in M. cbn [flat_expr den_expr].
    apply chain_tokens; auto.
  - (* SNil *) intros _. exact I.
  - (* SCons *) intros n o t IHt r IHr [Wt Wr]. split; auto.
  - (* STNot *)
    intros t IHt Wt k m Hk M. cbn [ft] in M. cbn [wf_term] in Wt.
    destruct m as [|m]; [lia|]. cbn [flat_term den_term app].
    change ((TNot :: flat_term t) ++ k) with (TNot :: flat_term t ++ k).
    rewrite parse_term_not, (IHt Wt k m Hk) by lia. reflexivity.
  - (* STApp *)
    intros a IHa args IHargs (Wa & Wargs & Hh) k m Hk M. cbn [ft] in M.
    destruct m as [|m]; [lia|]. cbn [flat_term]. rewrite <- app_assoc.
    rewrite parse_term_app by apply starts_atom_flat.
    rewrite (IHargs Wargs a (IHa Wa) k m Hk) by lia.
    destruct args as [|a' args']; [reflexivity|].
    destruct a as [n|e|]; cbn in Hh; try contradiction. reflexivity.
  - (* ANil *)
    intros _ a Ha k m Hk M. cbn [alen fargs] in M.
    destruct m as [|m]; [lia|]. cbn [flat_args den_args app].
    rewrite parse_atoms_S, (Ha k m) by lia. rewrite Hk. reflexivity.
  - (* ACons *)
    intros a' IHa' args IHargs [Wa' Wargs] a Ha k m Hk M. cbn [alen fargs] in M.
    destruct m as [|m]; [lia|]. cbn [flat_args den_args].
    rewrite parse_atoms_S, (Ha _ m) by lia.
    rewrite <- app_assoc.
    rewrite (starts_atom_not_eot _ (starts_atom_flat a' _)).
    rewrite (IHargs Wargs a' (IHa' Wa') k m Hk) by lia. reflexivity.
  - (* SAId *) intros n _ k m M. destruct m as [|m]; [cbn in M; lia|]. reflexivity.
  - (* SAParen *)
    intros e IHe We k m M. cbn [fa] in M. destruct m as [|m]; [lia|].
    cbn [flat_atom den_atom].
    change ((TLParen :: flat_expr e ++ [TRParen]) ++ k) with (TLParen :: (flat_expr e ++ [TRParen]) ++ k).
    rewrite <- app_assoc. cbn [app].
    rewrite parse_atom_paren by apply starts_term_flat_expr.
    rewrite (IHe We (TRParen :: k) m (stops_rparen k)) by lia. reflexivity.
  - (* SAUnit *) intros _ k m M. destruct m as [|m]; [cbn in M; lia|]. reflexivity.
Qed.

(** ---------------------------------------------------------------- fuel in terms of the token count *)
Lemma fuel_bound :
  (forall e, fe e <= 3 * List.length (flat_expr e) + 2) /\
  (forall r, fr r + 2 * rlen r <= 3 * List.length (flat_rest r)) /\
  (forall t, ft t <= 3 * List.length (flat_term t)) /\
  (forall args, fargs args + alen args <= 3 * List.length (flat_args args) /\
                alen args <= List.length (flat_args args)) /\
  (forall a, fa a + 2 <= 3 * List.length (flat_atom a)).
Proof.
  apply surface_mutind.
  - intros t IHt r IHr. cbn [fe flat_expr]. rewrite app_length. lia.
  - cbn. lia.
  - intros n o t IHt r IHr. cbn [fr rlen flat_rest].
    rewrite app_length, repeat_length. cbn [List.length]. rewrite app_length. lia.
  - intros t IHt. cbn [ft flat_term List.length]. lia.
  - intros a IHa args [IH1 IH2]. cbn [ft flat_term]. rewrite app_length. lia.
  - cbn. lia.
  - intros a IHa args [IH1 IH2]. cbn [fargs alen flat_args]. rewrite app_length. lia.
  - intros n. cbn. lia.
  - intros e IHe. cbn [fa flat_atom List.length]. rewrite app_length. cbn [List.length]. lia.
  - cbn. lia.
Qed.

(** ---------------------------------------------------------------- main theorems *)
Theorem parse_expr_flatten e : wf_expr e ->
  forall k, stops k ->
  forall fuel, fuel >= 3 * List.length (flat_expr e) + 2 ->
  parse_expr fuel 1 (flat_expr e ++ k) = POk (den_expr e) k.
Proof.
  intros W k Hk fuel M. apply (proj1 surface_ok e W k fuel Hk).
  pose proof (proj1 fuel_bound e). lia.
Qed.

(** the "eventually" form asked for: some fuel bound works for all larger fuels *)
Corollary parse_tokens_is_table_driven e : wf_expr e ->
  forall k, stops k ->
  exists n, forall fuel, fuel >= n -> parse_expr fuel 1 (flat_expr e ++ k) = POk (den_expr e) k.
Proof.
  intros W k Hk. exists (3 * List.length (flat_expr e) + 2). apply parse_expr_flatten; auto.
Qed.

(** parse_tokens' built-in fuel 6 * length + 8 always suffices: no PFuel, no PErr *)
Theorem parse_tokens_flatten e : wf_expr e ->
  parse_tokens (flat_expr e) = POk (den_expr e) [].
Proof.
  intros W. unfold parse_tokens.
  pose proof (parse_expr_flatten e W [] stops_nil (6 * List.length (flat_expr e) + 8)) as H.
  rewrite app_nil_r in H. apply H. lia.
Qed.

Theorem parse_tokens_flatten_end e n : wf_expr e ->
  parse_tokens (flat_expr e ++ [TEnd n]) = POk (den_expr e) [TEnd n].
Proof.
  intros W. unfold parse_tokens. apply parse_expr_flatten; auto using stops_end.
  rewrite app_length. cbn [List.length]. lia.
Qed.

(** at every nesting level the result is the unique tree that is well-grouped by the table, over the
    denotations of the terms of that level as operands *)
Theorem den_expr_table_driven t r :
  exists tr : tree expr,
    den_expr (SE t r) = te tr /\ wg tr /\ first_atom tr = den_term t /\ tail_chain tr = den_rest r /\
    forall t', wg t' -> first_atom t' = den_term t -> tail_chain t' = den_rest r -> t' = tr.
Proof.
  exists (chain_tree (den_term t) (den_rest r)). split; [reflexivity|]. apply chain_tree_spec.
Qed.

(** Note: [te] forgets which EBin nodes come from a parenthesised operand (a Leaf holding an EBin) and
    which from the chain; the compiler's AST has no parenthesis node either. The grouping statement is
    therefore about the tree [tr], whose leaves are whole operands. *)

(** ---------------------------------------------------------------- the four named clauses *)
Lemma chain_tree_one a o b : chain_tree a [(o, b)] = Node o (Leaf a) (Leaf b).
Proof.
  unfold chain_tree, parse_chain. cbn [List.length climb].
  pose proof (rank_pos o) as P.
  destruct (rank o <? 1) eqn:H1; [apply Nat.ltb_lt in H1; lia|]. reflexivity.
Qed.

(** 1. explicit parentheses are preserved: a parenthesised expression is ONE operand (a leaf of the
       enclosing chain), whatever operators surround it *)
Theorem parens_preserved e r : wf_expr e -> wf_rest r ->
  exists tr : tree expr,
    parse_tokens (flat_expr (SE (STApp (SAParen e) ANil) r)) = POk (te tr) [] /\
    wg tr /\ first_atom tr = den_expr e /\ tail_chain tr = den_rest r.
Proof.
  intros We Wr.
  destruct (den_expr_table_driven (STApp (SAParen e) ANil) r) as (tr & E & W & FA & TC & _).
  exists tr. rewrite parse_tokens_flatten, E by (cbn; auto). auto.
Qed.

Theorem parens_preserved_right t n o e : wf_term t -> wf_expr e ->
  parse_tokens (flat_expr (SE t (SCons n o (STApp (SAParen e) ANil) SNil)))
  = POk (EBin o (den_term t) (den_expr e)) [].
Proof.
  intros Wt We. rewrite parse_tokens_flatten by (cbn; auto).
  cbn [den_expr den_rest den_term den_atom]. rewrite chain_tree_one. reflexivity.
Qed.

(** 2. application binds tighter than every operator *)
Theorem application_binds_tighter f a args g b args' n o :
  wf_atom a -> wf_args args -> wf_atom b -> wf_args args' ->
  parse_tokens (flat_expr (SE (STApp (SAId f) (ACons a args))
                              (SCons n o (STApp (SAId g) (ACons b args')) SNil)))
  = POk (EBin o (EApp (EAtom f) (den_atom a :: den_args args))
                (EApp (EAtom g) (den_atom b :: den_args args'))) [].
Proof.
  intros Wa Wargs Wb Wargs'. rewrite parse_tokens_flatten by (cbn; auto 10).
  cbn [den_expr den_rest den_term den_atom den_args]. rewrite chain_tree_one. reflexivity.
Qed.

(** 3. [not] applies to the following application, not to the whole binary expression *)
Theorem not_takes_following_application f a args n o t :
  wf_atom a -> wf_args args -> wf_term t ->
  parse_tokens (flat_expr (SE (STNot (STApp (SAId f) (ACons a args))) (SCons n o t SNil)))
  = POk (EBin o (ENot (EApp (EAtom f) (den_atom a :: den_args args))) (den_term t)) [].
Proof.
  intros Wa Wargs Wt. rewrite parse_tokens_flatten by (cbn; auto 10).
  cbn [den_expr den_rest den_term den_atom den_args]. rewrite chain_tree_one. reflexivity.
Qed.

(** 4. newlines before an operator are irrelevant *)
Fixpoint z_expr (e : sexpr) : sexpr :=
  match e with SE t r => SE (z_term t) (z_rest r) end
with z_rest (r : srest) : srest :=
  match r with SNil => SNil | SCons _ o t r => SCons 0 o (z_term t) (z_rest r) end
with z_term (t : sterm) : sterm :=
  match t with STNot t => STNot (z_term t) | STApp a args => STApp (z_atom a) (z_args args) end
with z_args (args : sargs) : sargs :=
  match args with ANil => ANil | ACons a args => ACons (z_atom a) (z_args args) end
with z_atom (a : satom) : satom :=
  match a with SAId n => SAId n | SAParen e => SAParen (z_expr e) | SAUnit => SAUnit end.

Definition strip_eol (ts : list tok) : list tok :=
  filter (fun t => match t with TEOL => false | _ => true end) ts.

Lemma strip_eol_app a b : strip_eol (a ++ b) = strip_eol a ++ strip_eol b.
Proof. apply filter_app. Qed.

Lemma strip_eol_repeat n : strip_eol (repeat TEOL n) = [].
Proof. induction n; cbn; auto. Qed.

Lemma z_flat :
  (forall e, flat_expr (z_expr e) = strip_eol (flat_expr e)) /\
  (forall r, flat_rest (z_rest r) = strip_eol (flat_rest r)) /\
  (forall t, flat_term (z_term t) = strip_eol (flat_term t)) /\
  (forall args, flat_args (z_args args) = strip_eol (flat_args args)) /\
  (forall a, flat_atom (z_atom a) = strip_eol (flat_atom a)).
Proof.
  apply surface_mutind; intros; cbn [z_expr z_rest z_term z_args z_atom flat_expr flat_rest flat_term
                                     flat_args flat_atom repeat app];
    rewrite ?strip_eol_app, ?strip_eol_repeat; try reflexivity.
  - congruence.
  - cbn [app]. change (strip_eol (TOp o :: flat_term t ++ flat_rest r))
      with (TOp o :: strip_eol (flat_term t ++ flat_rest r)).
    rewrite strip_eol_app. congruence.
  - change (strip_eol (TNot :: flat_term t)) with (TNot :: strip_eol (flat_term t)). congruence.
  - congruence.
  - congruence.
  - change (strip_eol (TLParen :: flat_expr e ++ [TRParen]))
      with (TLParen :: strip_eol (flat_expr e ++ [TRParen])).
    rewrite strip_eol_app. cbn. congruence.
Qed.

Lemma z_den :
  (forall e, den_expr (z_expr e) = den_expr e) /\
  (forall r, den_rest (z_rest r) = den_rest r) /\
  (forall t, den_term (z_term t) = den_term t) /\
  (forall args, den_args (z_args args) = den_args args) /\
  (forall a, den_atom (z_atom a) = den_atom a).
Proof.
  apply surface_mutind; intros; cbn [z_expr z_rest z_term z_args z_atom den_expr den_rest den_term
                                     den_args den_atom]; try congruence.
  destruct args; cbn [z_args den_args] in *; congruence.
Qed.

Lemma z_wf :
  (forall e, wf_expr e -> wf_expr (z_expr e)) /\
  (forall r, wf_rest r -> wf_rest (z_rest r)) /\
  (forall t, wf_term t -> wf_term (z_term t)) /\
  (forall args, wf_args args -> wf_args (z_args args)) /\
  (forall a, wf_atom a -> wf_atom (z_atom a)).
Proof.
  apply surface_mutind; intros; cbn [z_expr z_rest z_term z_args z_atom wf_expr wf_rest wf_term
                                     wf_args wf_atom] in *; try tauto.
  destruct H1 as (Wa & Wargs & Hh). repeat split; auto.
  destruct args; cbn in *; auto. destruct a; cbn in *; auto.
Qed.

(** the result does not depend on how many newlines precede each operator (at any nesting level):
    parsing the token string and parsing it with every TEOL removed give the same result *)
Theorem newline_before_operator_irrelevant e : wf_expr e ->
  parse_tokens (strip_eol (flat_expr e)) = parse_tokens (flat_expr e).
Proof.
  intros W. rewrite <- (proj1 z_flat e).
  rewrite !parse_tokens_flatten by (auto; apply (proj1 z_wf e W)).
  rewrite (proj1 z_den e). reflexivity.
Qed.

(** two surface expressions that differ only in the newline counts parse to the same expression *)
Corollary newline_counts_irrelevant e e' : wf_expr e -> z_expr e = z_expr e' ->
  den_expr e = den_expr e' /\
  (wf_expr e' -> parse_tokens (flat_expr e') = POk (den_expr e) []).
Proof.
  intros W E.
  assert (D : den_expr e = den_expr e').
  { rewrite <- (proj1 z_den e), <- (proj1 z_den e'), E. reflexivity. }
  split; [exact D|]. intros W'. rewrite D. apply parse_tokens_flatten; exact W'.
Qed.
