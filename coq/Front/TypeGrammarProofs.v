(** C15 — proofs about Front/TypeGrammar.v: the parser inverts every spelling (minimal or with any
    number of redundant parentheses) of every well-formed type of any depth. *)
From Coq Require Import List String Ascii Arith Bool Lia.
From FoVerif Require Import Front.TypeGrammar.
Import ListNotations.

Section Proofs.
  Variable env : string -> option (string * nat).
  Local Notation dwf := (TypeGrammar.dwf env).
  Local Notation wf := (TypeGrammar.wf env).
  Local Notation arity_ok := (TypeGrammar.arity_ok env).

  (** ---------------------------------------------------------------- unfolding equations *)
  Lemma p_type_S : forall n ts, p_type env (S n) ts =
    match p_arrows env n ts with
    | Some (l, r) => match l with [t] => Some (t, r) | _ => Some (FFunc l, r) end
    | None => None
    end.
  Proof. reflexivity. Qed.
  Lemma p_arrows_S : forall n ts, p_arrows env (S n) ts =
    match p_elem env n ts with
    | Some (one, r) =>
      match r with
      | TArrow :: r1 =>
        match p_arrows env n r1 with Some (l, r2) => Some (one :: l, r2) | None => None end
      | _ => Some ([one], r)
      end
    | None => None
    end.
  Proof. reflexivity. Qed.
  Lemma p_elem_S : forall n ts, p_elem env (S n) ts =
    match p_term env n ts with
    | Some (one, r) =>
      match p_more env n r with
      | Some (l, r2) => match l with [] => Some (one, r2) | _ => Some (FTuple (one :: l), r2) end
      | None => None
      end
    | None => None
    end.
  Proof. reflexivity. Qed.
  Lemma p_more_S : forall n ts, p_more env (S n) ts =
    match ts with
    | TAster :: r1 =>
      match p_term env n r1 with
      | Some (t, r2) =>
        match p_more env n r2 with Some (l, r3) => Some (t :: l, r3) | None => None end
      | None => None
      end
    | _ => Some ([], ts)
    end.
  Proof. reflexivity. Qed.
  Lemma p_term_S : forall n ts, p_term env (S n) ts =
    match ts with
    | TLB :: r =>
      match r with
      | TRB :: r1 => match p_term env n r1 with Some (t, r2) => Some (FSlice t, r2) | None => None end
      | _ => None
      end
    | _ => p_atom env n ts
    end.
  Proof. reflexivity. Qed.
  Lemma p_atom_S : forall n ts, p_atom env (S n) ts =
    match ts with
    | TLP :: r =>
      match r with
      | TRP :: r1 => Some (FUnit, r1)
      | _ => match p_type env n r with Some (t, TRP :: r2) => Some (t, r2) | _ => None end
      end
    | TId s :: r =>
      match base_of s with
      | Some b => Some (b, r)
      | None =>
        match full_name_rest r with
        | Some (l, r4) =>
          match env (join_dot (s :: l)) with
          | Some (_, arity) =>
            match r4 with
            | TLt :: r5 =>
              match p_tlist env n r5 with
              | Some (args, TGt :: r6) =>
                if Nat.eqb (List.length args) arity then Some (FNamed (s :: l) args, r6) else None
              | _ => None
              end
            | _ => if Nat.eqb arity 0 then Some (FNamed (s :: l) [], r4) else None
            end
          | None => None
          end
        | None => None
        end
      end
    | _ => None
    end.
  Proof. reflexivity. Qed.
  Lemma p_tlist_S : forall n ts, p_tlist env (S n) ts =
    match p_type env n ts with
    | Some (one, r) =>
      match r with
      | TComma :: r1 =>
        match p_tlist env n r1 with Some (l, r2) => Some (one :: l, r2) | None => None end
      | _ => Some ([one], r)
      end
    | None => None
    end.
  Proof. reflexivity. Qed.

  (** ---------------------------------------------------------------- levels *)

  (** level 0 = TYPE (p_type), 1 = ELEM_TYPE (p_elem), 2 = TERM_TYPE (p_term), 3 = ATOM_TYPE (p_atom) *)
  Definition P (lv : nat) : nat -> list tok -> option (ftype * list tok) :=
    match lv with
    | 0 => p_type env
    | 1 => p_elem env
    | 2 => p_term env
    | _ => p_atom env
    end.

  Definition c (lv : nat) : nat :=
    match lv with 0 => 6 | 1 => 4 | 2 => 2 | _ => 1 end.

  (** [X] spells the type [T] at level [lv] *)
  Definition parses (lv : nat) (X : list tok) (T : ftype) : Prop :=
    forall rest m, stops lv rest -> c lv + 8 * List.length X <= m ->
      P lv m (X ++ rest) = Some (T, rest).

  Lemma e0 : forall X T, parses 0 X T -> forall rest m, stops 0 rest ->
    6 + 8 * List.length X <= m -> p_type env m (X ++ rest) = Some (T, rest).
  Proof. intros X T H. exact H. Qed.
  Lemma e1 : forall X T, parses 1 X T -> forall rest m, stops 1 rest ->
    4 + 8 * List.length X <= m -> p_elem env m (X ++ rest) = Some (T, rest).
  Proof. intros X T H. exact H. Qed.
  Lemma e2 : forall X T, parses 2 X T -> forall rest m, stops 2 rest ->
    2 + 8 * List.length X <= m -> p_term env m (X ++ rest) = Some (T, rest).
  Proof. intros X T H. exact H. Qed.

  Definition starts_atom (X : list tok) : Prop :=
    match X with TLP :: _ | TId _ :: _ => True | _ => False end.
  Definition starts_ok (X : list tok) : Prop :=
    match X with TLP :: _ | TId _ :: _ | TLB :: _ => True | _ => False end.

  Lemma starts_atom_ok : forall X, starts_atom X -> starts_ok X.
  Proof. intros [|[] X]; simpl; tauto. Qed.

  Lemma stops_weaken : forall a b0 rest, a <= b0 -> stops a rest -> stops b0 rest.
  Proof.
    intros a b0 [|t r] Hab; simpl; [tauto|]. unfold okhead.
    destruct t; try tauto; intros H.
    - apply Nat.leb_le in H. apply Nat.leb_le. lia.
    - apply Nat.leb_le in H. apply Nat.leb_le. lia.
  Qed.

  (** ---------------------------------------------------------------- lifting between levels *)

  Lemma more_nil : forall n rest,
    1 <= n -> stops 1 rest -> p_more env n rest = Some ([], rest).
  Proof.
    intros [|n] rest Hn Hs; [lia|]. destruct rest as [|t r]; [reflexivity|].
    simpl in Hs. destruct t; try reflexivity. discriminate.
  Qed.

  Lemma lift32 : forall X T, starts_atom X -> parses 3 X T -> parses 2 X T.
  Proof.
    intros X T Hst H rest m Hs Hm. simpl in Hm. destruct m as [|m]; [lia|].
    cbv beta iota delta [P]. rewrite p_term_S.
    destruct X as [|t X]; [contradiction|].
    assert (p_atom env m ((t :: X) ++ rest) = Some (T, rest)) as HA.
    { apply (H rest m Hs). simpl. simpl in Hm. lia. }
    destruct t; try contradiction; exact HA.
  Qed.

  Lemma lift21 : forall X T, parses 2 X T -> parses 1 X T.
  Proof.
    intros X T H rest m Hs Hm. simpl in Hm. destruct m as [|m]; [lia|].
    cbv beta iota delta [P]. rewrite p_elem_S.
    rewrite (e2 X T H rest m (stops_weaken 1 2 rest ltac:(lia) Hs)) by (simpl; lia).
    rewrite more_nil by (try lia; exact Hs). reflexivity.
  Qed.

  Lemma arrows_single : forall X T rest m,
    parses 1 X T -> stops 0 rest -> 5 + 8 * List.length X <= m ->
    p_arrows env m (X ++ rest) = Some ([T], rest).
  Proof.
    intros X T rest m H Hs Hm. destruct m as [|m]; [lia|]. rewrite p_arrows_S.
    rewrite (e1 X T H rest m (stops_weaken 0 1 rest ltac:(lia) Hs)) by (simpl; lia).
    destruct rest as [|t r]; [reflexivity|]. simpl in Hs.
    destruct t; try reflexivity. discriminate.
  Qed.

  Lemma lift10 : forall X T, parses 1 X T -> parses 0 X T.
  Proof.
    intros X T H rest m Hs Hm. simpl in Hm. destruct m as [|m]; [lia|].
    cbv beta iota delta [P]. rewrite p_type_S. rewrite (arrows_single X T rest m H Hs) by lia. reflexivity.
  Qed.

  Lemma lift_to : forall lv X T, starts_atom X -> parses 3 X T -> parses lv X T.
  Proof.
    intros lv X T Hst H.
    destruct lv as [|[|[|lv]]].
    - apply lift10, lift21, lift32; assumption.
    - apply lift21, lift32; assumption.
    - apply lift32; assumption.
    - exact H.
  Qed.

  (** ---------------------------------------------------------------- constructors *)

  Lemma paren_parses : forall X T,
    starts_ok X -> parses 0 X T -> parses 3 (TLP :: X ++ [TRP]) T.
  Proof.
    intros X T Hst H rest m Hs Hm. simpl in Hm. rewrite app_length in Hm. simpl in Hm.
    destruct m as [|m]; [lia|]. cbv beta iota delta [P].
    change ((TLP :: X ++ [TRP]) ++ rest) with (TLP :: ((X ++ [TRP]) ++ rest)).
    rewrite <- app_assoc. simpl app.
    assert (p_type env m (X ++ TRP :: rest) = Some (T, TRP :: rest)) as HT.
    { apply (H (TRP :: rest) m); [reflexivity|]. simpl. lia. }
    destruct X as [|t X]; [contradiction|].
    rewrite p_atom_S. destruct t; try contradiction; simpl app in *; rewrite HT; reflexivity.
  Qed.

  Lemma slice_parses : forall X T, parses 2 X T -> parses 2 (TLB :: TRB :: X) (FSlice T).
  Proof.
    intros X T H rest m Hs Hm. simpl in Hm. destruct m as [|m]; [lia|].
    cbv beta iota delta [P]. simpl app. rewrite p_term_S.
    rewrite (e2 X T H rest m Hs) by (simpl; lia). reflexivity.
  Qed.

  (** lists with a separator in front of every further component *)
  Definition seps (s : tok) (Xs : list (list tok)) : list tok := flat_map (fun X => s :: X) Xs.

  Lemma sep_cons : forall s X Xs, sep s (X :: Xs) = X ++ seps s Xs.
  Proof.
    intros s X Xs. revert X. induction Xs as [|Y Ys IH]; intros X.
    - simpl. rewrite app_nil_r. reflexivity.
    - change (sep s (X :: Y :: Ys)) with (X ++ s :: sep s (Y :: Ys)). rewrite IH. reflexivity.
  Qed.

  Lemma stops_seps : forall lv s Xs rest,
    okhead lv s = true -> stops lv rest -> stops lv (seps s Xs ++ rest).
  Proof. intros lv s [|X Xs] rest Hs Hr; simpl; assumption. Qed.

  Lemma more_seps : forall Xs Ts,
    Forall2 (parses 2) Xs Ts ->
    forall rest m, stops 1 rest -> 1 + 8 * List.length (seps TAster Xs) <= m ->
      p_more env m (seps TAster Xs ++ rest) = Some (Ts, rest).
  Proof.
    induction 1 as [|X T Xs Ts HX HXs IH]; intros rest m Hs Hm.
    - simpl. apply more_nil; [lia|exact Hs].
    - unfold seps in *. simpl flat_map in *. simpl in Hm. rewrite app_length in Hm.
      destruct m as [|m]; [lia|]. simpl app. rewrite <- app_assoc. rewrite p_more_S.
      rewrite (e2 X T HX (flat_map (fun X => TAster :: X) Xs ++ rest) m).
      + rewrite IH; [reflexivity|exact Hs|lia].
      + apply (stops_seps 2 TAster Xs rest); [reflexivity|].
        apply (stops_weaken 1 2); [lia|exact Hs].
      + simpl. lia.
  Qed.

  Lemma tuple_parses : forall X T Xs Ts,
    parses 2 X T -> Forall2 (parses 2) Xs Ts -> Xs <> [] ->
    parses 1 (sep TAster (X :: Xs)) (FTuple (T :: Ts)).
  Proof.
    intros X T Xs Ts HX HXs Hne rest m Hs Hm. rewrite sep_cons in *.
    rewrite app_length in Hm. simpl in Hm. destruct m as [|m]; [lia|].
    cbv beta iota delta [P]. rewrite <- app_assoc. rewrite p_elem_S.
    rewrite (e2 X T HX (seps TAster Xs ++ rest) m).
    - rewrite (more_seps Xs Ts HXs rest m Hs) by lia.
      destruct Ts as [|T' Ts]; [|reflexivity]. inversion HXs. subst. contradiction.
    - apply (stops_seps 2 TAster Xs rest); [reflexivity|].
      apply (stops_weaken 1 2); [lia|exact Hs].
    - simpl. lia.
  Qed.

  Lemma arrows_seps : forall Xs Ts,
    Forall2 (parses 1) Xs Ts ->
    forall X T rest m, parses 1 X T -> stops 0 rest ->
      5 + 8 * (List.length X + List.length (seps TArrow Xs)) <= m ->
      p_arrows env m (X ++ seps TArrow Xs ++ rest) = Some (T :: Ts, rest).
  Proof.
    induction 1 as [|Y U Ys Us HY HYs IH]; intros X T rest m HX Hs Hm.
    - simpl. apply arrows_single; [exact HX|exact Hs|simpl in Hm; lia].
    - unfold seps in *. simpl flat_map in *. simpl in Hm. rewrite app_length in Hm.
      destruct m as [|m]; [lia|]. rewrite p_arrows_S.
      rewrite (e1 X T HX ((TArrow :: Y ++ flat_map (fun X => TArrow :: X) Ys) ++ rest) m).
      + simpl app. rewrite <- app_assoc.
        rewrite (IH Y U rest m HY Hs) by lia. reflexivity.
      + reflexivity.
      + simpl. lia.
  Qed.

  Lemma func_parses : forall X T Xs Ts,
    parses 1 X T -> Forall2 (parses 1) Xs Ts -> Xs <> [] ->
    parses 0 (sep TArrow (X :: Xs)) (FFunc (T :: Ts)).
  Proof.
    intros X T Xs Ts HX HXs Hne rest m Hs Hm. rewrite sep_cons in *.
    rewrite app_length in Hm. simpl in Hm. destruct m as [|m]; [lia|].
    cbv beta iota delta [P]. rewrite <- app_assoc. rewrite p_type_S.
    rewrite (arrows_seps Xs Ts HXs X T rest m HX Hs) by lia.
    destruct Ts as [|T' Ts]; [|reflexivity]. inversion HXs. subst. contradiction.
  Qed.

  Lemma tlist_seps : forall Xs Ts,
    Forall2 (parses 0) Xs Ts ->
    forall X T rest m, parses 0 X T ->
      7 + 8 * (List.length X + List.length (seps TComma Xs)) <= m ->
      p_tlist env m (X ++ seps TComma Xs ++ TGt :: rest) = Some (T :: Ts, TGt :: rest).
  Proof.
    induction 1 as [|Y U Ys Us HY HYs IH]; intros X T rest m HX Hm.
    - simpl in *. destruct m as [|m]; [lia|]. rewrite p_tlist_S.
      rewrite (e0 X T HX (TGt :: rest) m) by (try reflexivity; simpl; lia). reflexivity.
    - unfold seps in *. simpl flat_map in *. simpl in Hm. rewrite app_length in Hm.
      destruct m as [|m]; [lia|]. rewrite p_tlist_S.
      rewrite (e0 X T HX ((TComma :: Y ++ flat_map (fun X => TComma :: X) Ys) ++ TGt :: rest) m).
      + simpl app. rewrite <- app_assoc.
        rewrite (IH Y U rest m HY) by lia. reflexivity.
      + reflexivity.
      + simpl. lia.
  Qed.

  (** names *)
  Definition wf_name (parts : list string) : Prop :=
    match parts with
    | [] => False
    | s :: _ => base_of s = None
    end.

  Lemma full_name_rest_toks : forall l R,
    match R with TDot :: _ => False | _ => True end ->
    full_name_rest (name_toks_rest l ++ R) = Some (l, R).
  Proof.
    induction l as [|s l IH]; intros R HR.
    - simpl. destruct R as [|t R]; [reflexivity|]. destruct t; try reflexivity. contradiction.
    - simpl. rewrite (IH R HR). reflexivity.
  Qed.

  Lemma length_name_toks_rest : forall l, List.length (name_toks_rest l) = 2 * List.length l.
  Proof. induction l; simpl; lia. Qed.

  Lemma named0_parses : forall parts g,
    wf_name parts -> env (join_dot parts) = Some (g, 0) ->
    parses 3 (name_toks parts) (FNamed parts []).
  Proof.
    intros parts g Hw He rest m Hs Hm. destruct parts as [|s l]; [contradiction|].
    simpl in Hw. simpl name_toks in *. destruct m as [|m]; [simpl in Hm; lia|].
    cbv beta iota delta [P]. simpl app. rewrite p_atom_S. rewrite Hw.
    rewrite full_name_rest_toks.
    - rewrite He. destruct rest as [|t r]; [reflexivity|]. simpl in Hs.
      destruct t; try reflexivity; discriminate.
    - destruct rest as [|t r]; [exact I|]. simpl in Hs. destruct t; try exact I. discriminate.
  Qed.

  Lemma named_parses : forall parts g X T Xs Ts,
    wf_name parts -> env (join_dot parts) = Some (g, S (List.length Ts)) ->
    parses 0 X T -> Forall2 (parses 0) Xs Ts ->
    parses 3 (name_toks parts ++ TLt :: sep TComma (X :: Xs) ++ [TGt]) (FNamed parts (T :: Ts)).
  Proof.
    intros parts g X T Xs Ts Hw He HX HXs rest m Hs Hm. destruct parts as [|s l]; [contradiction|].
    simpl in Hw. rewrite sep_cons in *.
    assert (List.length (name_toks (s :: l) ++ TLt :: (X ++ seps TComma Xs) ++ [TGt]) =
            3 + List.length (name_toks_rest l) + List.length X + List.length (seps TComma Xs)) as EL.
    { simpl. rewrite !app_length. simpl. rewrite !app_length. simpl. lia. }
    rewrite EL in Hm. unfold c in Hm.
    assert ((name_toks (s :: l) ++ TLt :: (X ++ seps TComma Xs) ++ [TGt]) ++ rest =
            TId s :: name_toks_rest l ++ (TLt :: X ++ seps TComma Xs ++ TGt :: rest)) as E.
    { simpl. rewrite <- !app_assoc. simpl. rewrite <- !app_assoc. reflexivity. }
    rewrite E. destruct m as [|m]; [lia|].
    cbv beta iota delta [P]. rewrite p_atom_S, Hw.
    rewrite full_name_rest_toks by exact I.
    rewrite He.
    rewrite (tlist_seps Xs Ts HXs X T rest m HX) by lia.
    simpl List.length. rewrite Nat.eqb_refl. reflexivity.
  Qed.

  (** ---------------------------------------------------------------- well-formed (decorated) types *)

  (** induction principle for the nested type *)
  Fixpoint dtype_ind' (Q : dtype -> Prop)
    (Hleaf : forall k t, Q (DLeaf k t))
    (Hslice : forall k e, Q e -> Q (DSlice k e))
    (Htuple : forall k l, Forall Q l -> Q (DTuple k l))
    (Hfunc : forall k l, Forall Q l -> Q (DFunc k l))
    (Hnamed : forall k parts l, Forall Q l -> Q (DNamed k parts l))
    (d : dtype) {struct d} : Q d :=
    let go := dtype_ind' Q Hleaf Hslice Htuple Hfunc Hnamed in
    let fix all (l : list dtype) : Forall Q l :=
        match l with
        | [] => Forall_nil Q
        | x :: r => Forall_cons x (go x) (all r)
        end in
    match d with
    | DLeaf k t => Hleaf k t
    | DSlice k e => Hslice k e (go e)
    | DTuple k l => Htuple k l (all l)
    | DFunc k l => Hfunc k l (all l)
    | DNamed k parts l => Hnamed k parts l (all l)
    end.

  (** any number of parenthesis pairs around something that parses at level 0 *)
  Lemma parens_parses : forall k X T,
    starts_ok X -> parses 0 X T -> 1 <= k ->
    parses 3 (parens k X) T /\ starts_atom (parens k X).
  Proof.
    induction k as [|k IH]; intros X T Hst H Hk; [lia|].
    destruct k as [|k].
    - simpl. split; [apply paren_parses; assumption|exact I].
    - destruct (IH X T Hst H ltac:(lia)) as [H1 H2].
      change (parens (S (S k)) X) with (TLP :: parens (S k) X ++ [TRP]).
      split; [|exact I]. apply paren_parses.
      + apply starts_atom_ok. exact H2.
      + apply lift_to; assumption.
  Qed.

  (** the natural level of a node's own syntax *)
  Definition parses_from (nl : nat) (lv : nat) (X : list tok) (T : ftype) :
    nl >= lv -> starts_ok X -> (nl = 3 -> starts_atom X) -> parses nl X T -> parses lv X T.
  Proof.
    intros Hge Hst Hat H.
    destruct nl as [|[|[|nl]]].
    - assert (lv = 0) by lia. subst. exact H.
    - destruct lv as [|[|lv]]; [apply lift10; exact H|exact H|lia].
    - destruct lv as [|[|[|lv]]]; [apply lift10, lift21; exact H|apply lift21; exact H|exact H|lia].
    - assert (starts_atom X) as Ha.
      { destruct nl; [apply Hat; reflexivity|].
        (* levels above 3 are p_atom as well *)
        clear - Hst H. destruct X as [|[] X]; simpl in *; try tauto;
          specialize (H [] (1 + 8 * S (List.length X)) I ltac:(simpl; lia));
          simpl in H; discriminate. }
      assert (parses 3 X T) as H3 by exact H.
      destruct lv as [|[|[|lv]]].
      + apply lift10, lift21, lift32; assumption.
      + apply lift21, lift32; assumption.
      + apply lift32; assumption.
      + exact H3.
  Defined.

  Lemma starts_ok_app : forall X Y, starts_ok X -> starts_ok (X ++ Y).
  Proof. intros [|[] X] Y; simpl; tauto. Qed.

  Lemma wrap_level : forall nl lv n X T,
    parses nl X T -> starts_ok X -> (nl = 3 -> starts_atom X) -> nl <= 3 ->
    (n = 0 -> lv <= nl) ->
    parses lv (parens n X) T /\ starts_ok (parens n X).
  Proof.
    intros nl lv n X T H Hst Hat Hnl Hn. destruct n as [|n].
    - simpl. split; [|exact Hst]. apply (parses_from nl lv X T); auto. 
    - assert (parses 0 X T) as H0 by (apply (parses_from nl 0 X T); auto; lia).
      destruct (parens_parses (S n) X T Hst H0 ltac:(lia)) as [H1 H2].
      split; [apply lift_to; assumption|apply starts_atom_ok; exact H2].
  Qed.

  Lemma leaf_parses : forall t, is_leaf t = true ->
    parses 3 (print_at 0 t) t /\ starts_atom (print_at 0 t).
  Proof.
    intros t Ht. destruct t; try discriminate; (split; [|exact I]);
      intros rest m Hs Hm; (destruct m as [|m]; [simpl in Hm; lia|]);
      cbv beta iota delta [P]; simpl app; rewrite p_atom_S; reflexivity.
  Qed.

  (** the property proved for every node of a decorated type *)
  Definition good (d : dtype) : Prop :=
    dwf d = true -> forall lv, lv <= 2 ->
      parses lv (dprint lv d) (erase d) /\ starts_ok (dprint lv d).

  Lemma good_list : forall lv l, lv <= 2 ->
    Forall good l -> forallb dwf l = true ->
    Forall2 (parses lv) (map (dprint lv) l) (map erase l) /\
    Forall starts_ok (map (dprint lv) l).
  Proof.
    intros lv l Hlv HF. induction HF as [|d l Hd Hl IH]; intros Hw; simpl.
    - split; constructor.
    - simpl in Hw. apply andb_prop in Hw. destruct Hw as [Hwd Hwl].
      destruct (Hd Hwd lv Hlv) as [H1 H2]. destruct (IH Hwl) as [H3 H4].
      split; constructor; assumption.
  Qed.

  Lemma arity_ok_env : forall parts n, arity_ok parts n = true ->
    exists g, env (join_dot parts) = Some (g, n).
  Proof.
    intros parts n H. unfold TypeGrammar.arity_ok in H. destruct (env (join_dot parts)) as [[g a]|]; [|discriminate].
    apply Nat.eqb_eq in H. subst. eauto.
  Qed.

  Lemma wf_nameb_wf : forall parts, wf_nameb parts = true -> wf_name parts.
  Proof.
    intros [|s l] H; simpl in *; [discriminate|]. destruct (base_of s); [discriminate|reflexivity].
  Qed.

  Theorem dparse_all : forall d, good d.
  Proof.
    apply dtype_ind'.
    - (* leaf *)
      intros k t Hw lv Hlv. simpl in Hw. cbn [dprint erase map].
      destruct (leaf_parses t Hw) as [H1 H2].
      apply (wrap_level 3 lv k); auto using starts_atom_ok; try (intros _; lia).
    - (* slice *)
      intros k e IH Hw lv Hlv. simpl in Hw. cbn [dprint erase map].
      destruct (IH Hw 2 (le_n _)) as [H1 H2].
      apply (wrap_level 2 lv k).
      + apply slice_parses. exact H1.
      + exact I.
      + intros E; discriminate.
      + lia.
      + intros _. exact Hlv.
    - (* tuple *)
      intros k l IH Hw lv Hlv. cbn [TypeGrammar.dwf] in Hw. apply andb_prop in Hw. destruct Hw as [Hlen Hw].
      apply Nat.leb_le in Hlen.
      destruct (good_list 2 l (le_n _) IH Hw) as [HF2 HFs].
      destruct l as [|d1 [|d2 l]]; simpl in Hlen; try lia.
      cbn [dprint erase map]. simpl map in HF2, HFs.
      inversion HF2 as [|? ? ? ? HX HXs]. subst. inversion HFs as [|? ? Hs1 Hs']. subst.
      apply (wrap_level 1 lv).
      + apply tuple_parses; [exact HX|exact HXs|discriminate].
      + change (sep TAster (dprint 2 d1 :: dprint 2 d2 :: map (dprint 2) l))
          with (dprint 2 d1 ++ TAster :: sep TAster (dprint 2 d2 :: map (dprint 2) l)).
        apply starts_ok_app. exact Hs1.
      + intros E; discriminate.
      + lia.
      + intros E. destruct k; [|lia].
        destruct (2 <=? lv) eqn:E2; [simpl in E; discriminate|]. apply Nat.leb_gt in E2. lia.
    - (* func *)
      intros k l IH Hw lv Hlv. cbn [TypeGrammar.dwf] in Hw. apply andb_prop in Hw. destruct Hw as [Hlen Hw].
      apply Nat.leb_le in Hlen.
      destruct (good_list 1 l ltac:(lia) IH Hw) as [HF2 HFs].
      destruct l as [|d1 [|d2 l]]; simpl in Hlen; try lia.
      cbn [dprint erase map]. simpl map in HF2, HFs.
      inversion HF2 as [|? ? ? ? HX HXs]. subst. inversion HFs as [|? ? Hs1 Hs']. subst.
      apply (wrap_level 0 lv).
      + apply func_parses; [exact HX|exact HXs|discriminate].
      + change (sep TArrow (dprint 1 d1 :: dprint 1 d2 :: map (dprint 1) l))
          with (dprint 1 d1 ++ TArrow :: sep TArrow (dprint 1 d2 :: map (dprint 1) l)).
        apply starts_ok_app. exact Hs1.
      + intros E; discriminate.
      + lia.
      + intros E. destruct k; [|lia].
        destruct (1 <=? lv) eqn:E2; [simpl in E; discriminate|]. apply Nat.leb_gt in E2. lia.
    - (* named *)
      intros k parts l IH Hw lv Hlv. cbn [TypeGrammar.dwf] in Hw. apply andb_prop in Hw. destruct Hw as [Hw Hwl].
      apply andb_prop in Hw. destruct Hw as [Hn Ha].
      apply wf_nameb_wf in Hn. rewrite map_length in Ha || idtac.
      destruct (good_list 0 l ltac:(lia) IH Hwl) as [HF2 HFs].
      cbn [dprint erase map].
      assert (starts_atom (name_toks parts)) as Hsa.
      { destruct parts; [contradiction|exact I]. }
      destruct l as [|d1 l].
      + destruct (arity_ok_env parts 0 Ha) as [g Hg].
        simpl map. rewrite app_nil_r.
        apply (wrap_level 3 lv k); auto using starts_atom_ok; try (intros _; lia).
        apply (named0_parses parts g); assumption.
      + destruct (arity_ok_env parts _ Ha) as [g Hg]. simpl List.length in Hg.
        simpl map in *. inversion HF2 as [|? ? ? ? HX HXs]. subst.
        apply (wrap_level 3 lv k).
        * apply (named_parses parts g); try assumption.
          rewrite map_length. exact Hg.
        * apply starts_ok_app. apply starts_atom_ok. exact Hsa.
        * intros _. destruct parts; [contradiction|exact I].
        * lia.
        * intros _. lia.
  Qed.

  (** ---------------------------------------------------------------- main theorems *)

  (** every spelling of a well-formed type — with any number of redundant parentheses around any
      of its nodes — parses to exactly that type, for types of any depth *)
  Theorem parse_dprint : forall d rest,
    dwf d = true -> stops 0 rest ->
    parse_type env (dprint 0 d ++ rest) = Some (erase d, rest).
  Proof.
    intros d rest Hw Hs. unfold parse_type, fuel_for.
    destruct (dparse_all d Hw 0 ltac:(lia)) as [H _].
    apply (H rest); [exact Hs|]. rewrite app_length. simpl. lia.
  Qed.

  (** ---------------------------------------------------------------- minimal printing *)

  Fixpoint ftype_ind' (Q : ftype -> Prop)
    (Hi : Q FInt) (Hs : Q FString) (Hb : Q FBool) (Hf : Q FFloat) (Ha : Q FAny) (Hu : Q FUnit)
    (Hslice : forall e, Q e -> Q (FSlice e))
    (Htuple : forall l, Forall Q l -> Q (FTuple l))
    (Hfunc : forall l, Forall Q l -> Q (FFunc l))
    (Hnamed : forall parts l, Forall Q l -> Q (FNamed parts l))
    (t : ftype) {struct t} : Q t :=
    let go := ftype_ind' Q Hi Hs Hb Hf Ha Hu Hslice Htuple Hfunc Hnamed in
    let fix all (l : list ftype) : Forall Q l :=
        match l with
        | [] => Forall_nil Q
        | x :: r => Forall_cons x (go x) (all r)
        end in
    match t with
    | FInt => Hi | FString => Hs | FBool => Hb | FFloat => Hf | FAny => Ha | FUnit => Hu
    | FSlice e => Hslice e (go e)
    | FTuple l => Htuple l (all l)
    | FFunc l => Hfunc l (all l)
    | FNamed parts l => Hnamed parts l (all l)
    end.

  Lemma map_eq_F : forall (A B : Type) (f g : A -> B) l,
    Forall (fun x => f x = g x) l -> map f l = map g l.
  Proof. induction 1; simpl; congruence. Qed.

  Lemma forallb_eq_F : forall (A : Type) (f g : A -> bool) l,
    Forall (fun x => f x = g x) l -> forallb f l = forallb g l.
  Proof. induction 1; simpl; congruence. Qed.

  Lemma forallb_map : forall (A B : Type) (f : A -> B) (p : B -> bool) l,
    forallb p (map f l) = forallb (fun x => p (f x)) l.
  Proof. induction l; simpl; congruence. Qed.

  Lemma erase_plain : forall t, erase (plain t) = t.
  Proof.
    apply ftype_ind'; try reflexivity.
    - intros e IH. simpl. rewrite IH. reflexivity.
    - intros l IH. simpl. rewrite map_map. rewrite (map_eq_F _ _ _ (fun x => x) l IH), map_id. reflexivity.
    - intros l IH. simpl. rewrite map_map. rewrite (map_eq_F _ _ _ (fun x => x) l IH), map_id. reflexivity.
    - intros parts l IH. simpl. rewrite map_map. rewrite (map_eq_F _ _ _ (fun x => x) l IH), map_id. reflexivity.
  Qed.

  Lemma dwf_plain : forall t, dwf (plain t) = wf t.
  Proof.
    apply ftype_ind'; try reflexivity.
    - intros e IH. exact IH.
    - intros l IH. simpl. rewrite map_length, forallb_map.
      rewrite (forallb_eq_F _ _ wf l IH). reflexivity.
    - intros l IH. simpl. rewrite map_length, forallb_map.
      rewrite (forallb_eq_F _ _ wf l IH). reflexivity.
    - intros parts l IH. simpl. rewrite map_length, forallb_map.
      rewrite (forallb_eq_F _ _ wf l IH). reflexivity.
  Qed.

  Lemma dprint_plain : forall t lv, dprint lv (plain t) = print_at lv t.
  Proof.
    apply (ftype_ind' (fun t => forall lv, dprint lv (plain t) = print_at lv t)); try reflexivity.
    - intros e IH lv. simpl. rewrite IH. reflexivity.
    - intros l IH lv. cbn [plain dprint print_at]. rewrite map_map.
      rewrite (map_eq_F _ _ (fun x => dprint 2 (plain x)) (print_at 2) l).
      + destruct (2 <=? lv); reflexivity.
      + eapply Forall_impl; [|exact IH]. intros a Ha. apply Ha.
    - intros l IH lv. cbn [plain dprint print_at]. rewrite map_map.
      rewrite (map_eq_F _ _ (fun x => dprint 1 (plain x)) (print_at 1) l).
      + destruct (1 <=? lv); reflexivity.
      + eapply Forall_impl; [|exact IH]. intros a Ha. apply Ha.
    - intros parts l IH lv. cbn [plain dprint print_at]. rewrite map_map.
      rewrite (map_eq_F _ _ (fun x => dprint 0 (plain x)) (print_at 0) l).
      + destruct l; reflexivity.
      + eapply Forall_impl; [|exact IH]. intros a Ha. apply Ha.
  Qed.

  Lemma wf_erase : forall d, dwf d = true -> wf (erase d) = true.
  Proof.
    apply (dtype_ind' (fun d => dwf d = true -> wf (erase d) = true)).
    - intros k t H. simpl in *. destruct t; try discriminate; reflexivity.
    - intros k e IH H. exact (IH H).
    - intros k l IH H. cbn [TypeGrammar.dwf] in H. cbn [erase TypeGrammar.wf]. rewrite map_length, forallb_map.
      apply andb_prop in H. destruct H as [H1 H2]. rewrite H1. simpl.
      rewrite forallb_forall in *. rewrite Forall_forall in IH. intros x Hx. apply IH; auto.
    - intros k l IH H. cbn [TypeGrammar.dwf] in H. cbn [erase TypeGrammar.wf]. rewrite map_length, forallb_map.
      apply andb_prop in H. destruct H as [H1 H2]. rewrite H1. simpl.
      rewrite forallb_forall in *. rewrite Forall_forall in IH. intros x Hx. apply IH; auto.
    - intros k parts l IH H. cbn [TypeGrammar.dwf] in H. cbn [erase TypeGrammar.wf]. rewrite map_length, forallb_map.
      apply andb_prop in H. destruct H as [H1 H2]. rewrite H1. simpl.
      rewrite forallb_forall in *. rewrite Forall_forall in IH. intros x Hx. apply IH; auto.
  Qed.

  (** C15 round trip: printing with minimal parentheses then parsing is the identity, at any depth *)
  Theorem parse_print : forall t rest,
    wf t = true -> stops 0 rest ->
    parse_type env (print_type t ++ rest) = Some (t, rest).
  Proof.
    intros t rest Hw Hs. unfold print_type. rewrite <- dprint_plain.
    rewrite parse_dprint by (try rewrite dwf_plain; assumption).
    rewrite erase_plain. reflexivity.
  Qed.

  (** parentheses only group: a spelling with redundant parentheses parses to the same type as the
      minimal spelling of the underlying type *)
  Theorem redundant_parens_ignored : forall d rest,
    dwf d = true -> stops 0 rest ->
    parse_type env (dprint 0 d ++ rest) = parse_type env (print_type (erase d) ++ rest).
  Proof.
    intros d rest Hw Hs. rewrite parse_dprint by assumption.
    rewrite parse_print by (try apply wf_erase; assumption). reflexivity.
  Qed.

  Corollary outer_parens_ignored : forall t k rest,
    wf t = true -> stops 0 rest ->
    parse_type env (parens k (print_type t) ++ rest) = Some (t, rest).
  Proof.
    intros t k rest Hw Hs.
    destruct (dparse_all (plain t) ltac:(rewrite dwf_plain; exact Hw) 0 ltac:(lia)) as [H0 Hst].
    rewrite dprint_plain, erase_plain in *.
    destruct k as [|k]; [apply parse_print; assumption|].
    destruct (parens_parses (S k) (print_at 0 t) t Hst H0 ltac:(lia)) as [H3 Ha].
    unfold parse_type, fuel_for, print_type.
    apply (lift_to 0 _ _ Ha H3 rest); [exact Hs|]. rewrite app_length. simpl. lia.
  Qed.
End Proofs.

(** ---------------------------------------------------------------- precedence corollaries *)

Ltac norm_app H := repeat (progress (rewrite <- ?app_assoc in H; simpl app in H)).

Theorem slice_tighter_than_tuple : forall env a b rest,
  wf env a = true -> wf env b = true -> stops 0 rest ->
  (* []a*b is ([]a)*b *)
  parse_type env (TLB :: TRB :: print_at 2 a ++ TAster :: print_at 2 b ++ rest)
    = Some (FTuple [FSlice a; b], rest) /\
  (* a*[]b is a*([]b) *)
  parse_type env (print_at 2 a ++ TAster :: TLB :: TRB :: print_at 2 b ++ rest)
    = Some (FTuple [a; FSlice b], rest) /\
  (* a slice of tuples needs the parentheses: [](a*b) *)
  parse_type env (TLB :: TRB :: TLP :: print_at 2 a ++ TAster :: print_at 2 b ++ TRP :: rest)
    = Some (FSlice (FTuple [a; b]), rest).
Proof.
  intros env a b rest Ha Hb Hs. repeat split.
  - pose proof (parse_print env (FTuple [FSlice a; b]) rest) as H.
    unfold print_type in H. cbn [print_at map sep wrap Nat.leb] in H.
    norm_app H. apply H; [|exact Hs].
    simpl. rewrite Ha, Hb. reflexivity.
  - pose proof (parse_print env (FTuple [a; FSlice b]) rest) as H.
    unfold print_type in H. cbn [print_at map sep wrap Nat.leb] in H.
    norm_app H. apply H; [|exact Hs].
    simpl. rewrite Ha, Hb. reflexivity.
  - pose proof (parse_print env (FSlice (FTuple [a; b])) rest) as H.
    unfold print_type in H. cbn [print_at map sep wrap Nat.leb] in H.
    norm_app H. apply H; [|exact Hs].
    simpl. rewrite Ha, Hb. reflexivity.
Qed.

Theorem arrow_flat_and_nested : forall env a b c0 rest,
  wf env a = true -> wf env b = true -> wf env c0 = true -> stops 0 rest ->
  (* a->b->c is ONE function type with the targets a, b, c (the last is the result) *)
  parse_type env (print_at 1 a ++ TArrow :: print_at 1 b ++ TArrow :: print_at 1 c0 ++ rest)
    = Some (FFunc [a; b; c0], rest) /\
  (* a function returning a function is written with parentheses *)
  parse_type env (print_at 1 a ++ TArrow :: TLP :: print_at 1 b ++ TArrow :: print_at 1 c0 ++ TRP :: rest)
    = Some (FFunc [a; FFunc [b; c0]], rest) /\
  parse_type env (TLP :: print_at 1 a ++ TArrow :: print_at 1 b ++ TRP :: TArrow :: print_at 1 c0 ++ rest)
    = Some (FFunc [FFunc [a; b]; c0], rest).
Proof.
  intros env a b c0 rest Ha Hb Hc Hs. repeat split.
  - pose proof (parse_print env (FFunc [a; b; c0]) rest) as H.
    unfold print_type in H. cbn [print_at map sep wrap Nat.leb] in H.
    norm_app H. apply H; [|exact Hs].
    simpl. rewrite Ha, Hb, Hc. reflexivity.
  - pose proof (parse_print env (FFunc [a; FFunc [b; c0]]) rest) as H.
    unfold print_type in H. cbn [print_at map sep wrap Nat.leb] in H.
    norm_app H. apply H; [|exact Hs]. simpl. rewrite Ha, Hb, Hc. reflexivity.
  - pose proof (parse_print env (FFunc [FFunc [a; b]; c0]) rest) as H.
    unfold print_type in H. cbn [print_at map sep wrap Nat.leb] in H.
    norm_app H. apply H; [|exact Hs]. simpl. rewrite Ha, Hb, Hc. reflexivity.
Qed.

(** ---------------------------------------------------------------- nesting only through parentheses *)

Lemma no_lp_tail : forall t ts, no_lp (t :: ts) -> no_lp ts.
Proof. intros t ts H. inversion H. assumption. Qed.

Lemma full_name_rest_no_lp : forall r l r4,
  full_name_rest r = Some (l, r4) -> no_lp r -> no_lp r4.
Proof.
  fix IH 1. intros r l r4 H Hn. destruct r as [|t r]; simpl in H.
  - inversion H. constructor.
  - destruct t; try (inversion H; subst; exact Hn).
    destruct r as [|t2 r2]; [discriminate|]. destruct t2; try discriminate.
    destruct (full_name_rest r2) as [[l' r3]|] eqn:E; [|discriminate].
    inversion H. subst. apply (IH r2 l' r4 E). apply no_lp_tail in Hn. apply no_lp_tail in Hn. exact Hn.
Qed.

Section Sound.
  Variable env : string -> option (string * nat).

  Definition S_type n := forall ts t r, no_lp ts -> p_type env n ts = Some (t, r) ->
    paren_free t = true /\ no_lp r.
  Definition S_arrows n := forall ts l r, no_lp ts -> p_arrows env n ts = Some (l, r) ->
    forallb (fun x => (1 <=? nl x) && paren_free x) l = true /\ no_lp r.
  Definition S_elem n := forall ts t r, no_lp ts -> p_elem env n ts = Some (t, r) ->
    (1 <=? nl t) && paren_free t = true /\ no_lp r.
  Definition S_more n := forall ts l r, no_lp ts -> p_more env n ts = Some (l, r) ->
    forallb (fun x => (2 <=? nl x) && paren_free x) l = true /\ no_lp r.
  Definition S_term n := forall ts t r, no_lp ts -> p_term env n ts = Some (t, r) ->
    (2 <=? nl t) && paren_free t = true /\ no_lp r.
  Definition S_atom n := forall ts t r, no_lp ts -> p_atom env n ts = Some (t, r) ->
    (nl t = 3 /\ paren_free t = true) /\ no_lp r.
  Definition S_tlist n := forall ts l r, no_lp ts -> p_tlist env n ts = Some (l, r) ->
    forallb paren_free l = true /\ no_lp r.

  Lemma sound_all : forall n,
    S_type n /\ S_arrows n /\ S_elem n /\ S_more n /\ S_term n /\ S_atom n /\ S_tlist n.
  Proof.
    induction n as [|n (IHty & IHar & IHel & IHmo & IHte & IHat & IHtl)].
    { unfold S_type, S_arrows, S_elem, S_more, S_term, S_atom, S_tlist.
      split; [|split; [|split; [|split; [|split; [|split]]]]]; intros ts x r Hn H; discriminate H. }
    split; [|split; [|split; [|split; [|split; [|split]]]]].
    - (* p_type *)
      intros ts t r Hn H. rewrite p_type_S in H.
      destruct (p_arrows env n ts) as [[l r0]|] eqn:E; [|discriminate].
      destruct (IHar ts l r0 Hn E) as [Hl Hr].
      destruct l as [|t1 [|t2 l]]; inversion H; subst.
      + exact (conj eq_refl Hr).
      + simpl in Hl. rewrite andb_true_r in Hl. apply andb_prop in Hl. tauto.
      + split; [exact Hl|exact Hr].
    - (* p_arrows *)
      intros ts l r Hn H. rewrite p_arrows_S in H.
      destruct (p_elem env n ts) as [[one r0]|] eqn:E; [|discriminate].
      destruct (IHel ts one r0 Hn E) as [H1 Hr0].
      assert (forall l' r', Some ([one], r0) = Some (l', r') ->
              forallb (fun x => (1 <=? nl x) && paren_free x) l' = true /\ no_lp r') as Hsingle.
      { intros l' r' E'. inversion E'. subst. cbn [forallb]. rewrite H1. split; [reflexivity|exact Hr0]. }
      destruct r0 as [|t0 r1]; [apply Hsingle; exact H|].
      destruct t0; try (apply Hsingle; exact H).
      destruct (p_arrows env n r1) as [[l2 r2]|] eqn:E2; [|discriminate].
      inversion H. subst. destruct (IHar r1 l2 r (no_lp_tail _ _ Hr0) E2) as [H2 Hr].
      cbn [forallb]. rewrite H1, H2. split; [reflexivity|exact Hr].
    - (* p_elem *)
      intros ts t r Hn H. rewrite p_elem_S in H.
      destruct (p_term env n ts) as [[one r0]|] eqn:E; [|discriminate].
      destruct (IHte ts one r0 Hn E) as [H1 Hr0].
      destruct (p_more env n r0) as [[l r2]|] eqn:E2; [|discriminate].
      destruct (IHmo r0 l r2 Hr0 E2) as [H2 Hr2].
      destruct l as [|x l]; inversion H; subst.
      + split; [|exact Hr2]. apply andb_prop in H1. destruct H1 as [Ha Hb]. rewrite Hb.
        apply Nat.leb_le in Ha. rewrite andb_true_r. apply Nat.leb_le. lia.
      + split; [|exact Hr2].
        change ((1 <=? 1) && forallb (fun x0 => (2 <=? nl x0) && paren_free x0) (one :: x :: l) = true).
        cbn [forallb]. rewrite H1. cbn [forallb] in H2. rewrite H2. reflexivity.
    - (* p_more *)
      intros ts l r Hn H. rewrite p_more_S in H.
      assert (forall l' r', Some ([] : list ftype, ts) = Some (l', r') ->
              forallb (fun x => (2 <=? nl x) && paren_free x) l' = true /\ no_lp r') as Hnil.
      { intros l' r' E'. inversion E'. subst. split; [reflexivity|exact Hn]. }
      destruct ts as [|t0 r1]; [apply Hnil; exact H|].
      destruct t0; try (apply Hnil; exact H).
      destruct (p_term env n r1) as [[t r2]|] eqn:E; [|discriminate].
      destruct (IHte r1 t r2 (no_lp_tail _ _ Hn) E) as [H1 Hr2].
      destruct (p_more env n r2) as [[l3 r3]|] eqn:E2; [|discriminate].
      destruct (IHmo r2 l3 r3 Hr2 E2) as [H3 Hr3]. inversion H. subst.
      cbn [forallb]. rewrite H1, H3. split; [reflexivity|exact Hr3].
    - (* p_term *)
      intros ts t r Hn H. rewrite p_term_S in H.
      destruct ts as [|t0 r0]; [apply IHat in H; [|exact Hn]; destruct H as [[Ha Hb] Hr];
                                rewrite Ha, Hb; split; [reflexivity|exact Hr]|].
      destruct t0;
        try (apply IHat in H; [|exact Hn]; destruct H as [[Ha Hb] Hr];
             rewrite Ha, Hb; split; [reflexivity|exact Hr]).
      destruct r0 as [|t1 r1]; [discriminate|]. destruct t1; try discriminate.
      destruct (p_term env n r1) as [[t2 r2]|] eqn:E; [|discriminate].
      inversion H. subst.
      destruct (IHte r1 t2 r (no_lp_tail _ _ (no_lp_tail _ _ Hn)) E) as [H1 Hr].
      split; [|exact Hr].
      change ((2 <=? 2) && ((2 <=? nl t2) && paren_free t2) = true). exact H1.
    - (* p_atom *)
      intros ts t r Hn H. rewrite p_atom_S in H.
      destruct ts as [|t0 r0]; [discriminate|].
      destruct t0; try discriminate.
      + inversion Hn as [|? ? Hne]. contradiction.
      + destruct (base_of s) as [b0|] eqn:Eb.
        * inversion H. subst. split; [|exact (no_lp_tail _ _ Hn)].
          unfold base_of in Eb.
          repeat match type of Eb with
                 | (if ?c then _ else _) = _ => destruct c
                 end; inversion Eb; subst; split; reflexivity.
        * destruct (full_name_rest r0) as [[l r4]|] eqn:Ef; [|discriminate].
          pose proof (full_name_rest_no_lp r0 l r4 Ef (no_lp_tail _ _ Hn)) as Hr4.
          destruct (env (join_dot (s :: l))) as [[g arity]|]; [|discriminate].
          assert (forall t' r', (if arity =? 0 then Some (FNamed (s :: l) [], r4) else None) = Some (t', r') ->
                  (nl t' = 3 /\ paren_free t' = true) /\ no_lp r') as Hzero.
          { intros t' r' E'. destruct (arity =? 0); [|discriminate]. inversion E'. subst.
            split; [split; reflexivity|exact Hr4]. }
          destruct r4 as [|t4 r5]; [apply Hzero; exact H|].
          destruct t4; try (apply Hzero; exact H).
          destruct (p_tlist env n r5) as [[args r6]|] eqn:Et; [|discriminate].
          destruct (IHtl r5 args r6 (no_lp_tail _ _ Hr4) Et) as [Ha Hr6].
          destruct r6 as [|t6 r7]; [discriminate|]. destruct t6; try discriminate.
          destruct (Datatypes.length args =? arity); [|discriminate]. inversion H. subst.
          split; [split; [reflexivity|exact Ha]|exact (no_lp_tail _ _ Hr6)].
    - (* p_tlist *)
      intros ts l r Hn H. rewrite p_tlist_S in H.
      destruct (p_type env n ts) as [[one r0]|] eqn:E; [|discriminate].
      destruct (IHty ts one r0 Hn E) as [H1 Hr0].
      assert (forall l' r', Some ([one], r0) = Some (l', r') ->
              forallb paren_free l' = true /\ no_lp r') as Hsingle.
      { intros l' r' E'. inversion E'. subst. cbn [forallb]. rewrite H1. split; [reflexivity|exact Hr0]. }
      destruct r0 as [|t0 r1]; [apply Hsingle; exact H|].
      destruct t0; try (apply Hsingle; exact H).
      destruct (p_tlist env n r1) as [[l2 r2]|] eqn:E2; [|discriminate].
      inversion H. subst. destruct (IHtl r1 l2 r (no_lp_tail _ _ Hr0) E2) as [H2 Hr].
      cbn [forallb]. rewrite H1, H2. split; [reflexivity|exact Hr].
  Qed.

  (** Whatever the parser accepts from a parenthesis-free token list nests arrows, tuples and slices
      only in the one way the precedence allows: no function type inside a function type, no function
      or tuple type inside a tuple or slice.  So arrows (and tuples) nest only through parentheses. *)
  Theorem arrow_nests_only_through_parens : forall ts t r,
    no_lp ts -> parse_type env ts = Some (t, r) -> paren_free t = true.
  Proof.
    intros ts t r Hn H. unfold parse_type in H.
    destruct (sound_all (fuel_for ts)) as [Hty _]. exact (proj1 (Hty ts t r Hn H)).
  Qed.
End Sound.

(** ---------------------------------------------------------------- the documented mapping *)

Local Open Scope string_scope.

Lemma append_empty_r : forall s : string, s ++ "" = s.
Proof. induction s as [|ch s IH]; simpl; [reflexivity|rewrite IH; reflexivity]. Qed.

Lemma render_func : forall env args r,
  render env (FFunc (args ++ [r])%list) =
  "func (" ++ String.concat "," (map (render env) args) ++ ")" ++
  (if is_unit r then "" else " " ++ render env r).
Proof.
  intros env args r. cbn [render]. rewrite map_app. simpl map.
  rewrite removelast_last, !last_last. reflexivity.
Qed.

Theorem render_by_cases : forall env,
  render env FInt = "int" /\ render env FString = "string" /\ render env FBool = "bool" /\
  render env FAny = "any" /\ render env FFloat = "float64" /\ render env FUnit = "" /\
  (forall e, render env (FSlice e) = "[]" ++ render env e) /\
  (forall a b, render env (FTuple [a; b]) =
               "frt.Tuple2[" ++ (render env a ++ ", " ++ render env b) ++ "]") /\
  (forall a b c0, render env (FTuple [a; b; c0]) =
               "frt.Tuple3[" ++ (render env a ++ ", " ++ render env b ++ ", " ++ render env c0) ++ "]") /\
  (forall l, render env (FTuple l) =
             "frt.Tuple" ++ dec (List.length l) ++ "[" ++ String.concat ", " (map (render env) l) ++ "]") /\
  (* A -> B -> R  is  func (A,B) R ; a unit result is no result *)
  (forall args r, render env (FFunc (args ++ [r])%list) =
     "func (" ++ String.concat "," (map (render env) args) ++ ")" ++
     (if is_unit r then "" else " " ++ render env r)) /\
  (forall a b r, is_unit r = false -> render env (FFunc [a; b; r]) =
     "func (" ++ (render env a ++ "," ++ render env b) ++ ")" ++ " " ++ render env r) /\
  (forall a, render env (FFunc [a; FUnit]) = "func (" ++ render env a ++ ")" ++ "") /\
  (forall r, is_unit r = false -> render env (FFunc [FUnit; r]) = "func ()" ++ " " ++ render env r) /\
  (* Name<T, U> is Name[T, U] under the Go name of the type (package-qualified for external types) *)
  (forall parts, render env (FNamed parts []) = go_name env parts) /\
  (forall parts a l, render env (FNamed parts (a :: l)) =
     go_name env parts ++ "[" ++ String.concat ", " (map (render env) (a :: l)) ++ "]").
Proof.
  intros env. repeat split; try reflexivity.
  - intros args r. apply render_func.
  - intros a b r Hr. change [a; b; r] with (([a; b] ++ [r])%list). rewrite render_func, Hr. reflexivity.
  - intros r Hr. change [FUnit; r] with (([FUnit] ++ [r])%list). rewrite render_func, Hr. reflexivity.
  - intros parts. cbn [render]. apply append_empty_r.
Qed.

(** render is NOT injective without lexical conditions on the registered names: a user type may be
    called like a Go predeclared type, an external package may be called frt.  (Injectivity on
    unit-free types under such conditions is checked dynamically by the harness, not proved.) *)
Theorem render_injective_needs_name_conditions :
  exists (env : string -> option (string * nat)) t1 t2,
    wf env t1 = true /\ wf env t2 = true /\ t1 <> t2 /\ render env t1 = render env t2.
Proof.
  exists (fun n => if String.eqb n "float64" then Some ("float64", 0) else None),
         (FNamed ["float64"] []), FFloat.
  repeat split; try reflexivity. discriminate.
Qed.
