(** C08 proofs: precedence climbing returns the unique tree that is well-grouped by the table. *)
From Coq Require Import List Arith Lia Bool.
From FoVerif Require Import Front.BinOp.
Import ListNotations.

Lemma rank_pos o : 1 <= rank o.
Proof. destruct o; cbn; lia. Qed.

Section Climb.
  Variable atom : Type.
  Notation tree := (tree atom).
  Notation rest := (rest atom).

  Lemma ops_tail_chain (t : tree) : map fst (tail_chain t) = ops t.
  Proof. induction t as [|o l IHl r IHr]; cbn; auto. rewrite map_app; cbn; congruence. Qed.

  (** In a well-grouped tree the root is the LAST operator of minimal rank. *)
  Lemma split_unique (l1 l2 l1' l2' : list optok) o o' :
    l1 ++ o :: l2 = l1' ++ o' :: l2' ->
    Forall (fun x => rank o <= rank x) l1 -> Forall (fun x => rank o < rank x) l2 ->
    Forall (fun x => rank o' <= rank x) l1' -> Forall (fun x => rank o' < rank x) l2' ->
    List.length l1 = List.length l1'.
  Proof.
    revert l1'. induction l1 as [|a l1 IH]; intros [|a' l1'] E F1 F2 F1' F2'; cbn in *; auto.
    - injection E as E0 E1. subst a' l2. exfalso.
      apply Forall_inv in F1'.
      apply Forall_app in F2. destruct F2 as [_ F2]. apply Forall_inv in F2. lia.
    - injection E as E0 E1. subst a l2'. exfalso.
      apply Forall_inv in F1.
      apply Forall_app in F2'. destruct F2' as [_ F2']. apply Forall_inv in F2'. lia.
    - injection E as E0 E1. subst a'. f_equal.
      apply (IH l1' E1); auto; eapply Forall_inv_tail; eauto.
  Qed.

  Lemma app_inv_len {A} (l1 l2 l1' l2' : list A) :
    l1 ++ l2 = l1' ++ l2' -> List.length l1 = List.length l1' -> l1 = l1' /\ l2 = l2'.
  Proof.
    revert l1'; induction l1 as [|a l1 IH]; intros [|a' l1'] E L; cbn in *; try discriminate; auto.
    inversion E; subst. destruct (IH l1' H1) as [-> ->]; auto.
  Qed.

  Lemma wg_unique : forall t1 t2 : tree, wg t1 -> wg t2 ->
    first_atom t1 = first_atom t2 -> tail_chain t1 = tail_chain t2 -> t1 = t2.
  Proof.
    induction t1 as [a|o l IHl r IHr]; intros [a'|o' l' r'] W1 W2 FA TC; cbn in *.
    - congruence.
    - destruct (tail_chain l'); discriminate.
    - destruct (tail_chain l); discriminate.
    - destruct W1 as (Wl & Wr & Fl & Fr). destruct W2 as (Wl' & Wr' & Fl' & Fr').
      assert (E : ops l ++ o :: ops r = ops l' ++ o' :: ops r').
      { rewrite <- !ops_tail_chain. apply (f_equal (map fst)) in TC.
        rewrite !map_app in TC. cbn in TC. exact TC. }
      pose proof (split_unique _ _ _ _ _ _ E Fl Fr Fl' Fr') as L.
      assert (L' : List.length (tail_chain l) = List.length (tail_chain l')).
      { rewrite <- (map_length fst), <- (map_length fst (tail_chain l')), !ops_tail_chain; exact L. }
      destruct (app_inv_len _ _ _ _ TC L') as (E1 & E2). inversion E2; subst.
      f_equal; [apply IHl | apply IHr]; auto.
  Qed.

  Definition below (minp : nat) (r : rest) : Prop :=
    match r with [] => True | (o, _) :: _ => rank o < minp end.

  (** loop invariant: every operator already in the accumulated left operand has rank >= the rank of
      the NEXT operator of the remaining chain *)
  Definition head_ok (lhs : tree) (r : rest) : Prop :=
    match r with [] => True | (o, _) :: _ => Forall (fun o' => rank o <= rank o') (ops lhs) end.

  Lemma climb_spec : forall fuel minp (lhs : tree) r t r',
    climb fuel minp lhs r = Some (t, r') ->
    wg lhs -> Forall (fun o => minp <= rank o) (ops lhs) -> head_ok lhs r ->
    wg t /\ Forall (fun o => minp <= rank o) (ops t) /\ first_atom t = first_atom lhs /\
    tail_chain lhs ++ r = tail_chain t ++ r' /\ below minp r'.
  Proof.
    induction fuel as [|fuel IH]; intros minp lhs r t r' H W F HO; cbn [climb] in H; [discriminate|].
    destruct r as [|[o a] r0].
    - inversion H; subst. repeat split; auto.
    - destruct (rank o <? minp) eqn:Lt.
      + inversion H; subst. apply Nat.ltb_lt in Lt. repeat split; auto.
      + apply Nat.ltb_ge in Lt. cbn in HO.
        destruct (climb fuel (S (rank o)) (Leaf a) r0) as [[rhs r1]|] eqn:C1; [|discriminate].
        destruct (IH _ _ _ _ _ C1 I (Forall_nil _)) as (Wr & Fr & FAr & TCr & Br).
        { destruct r0 as [|[? ?] ?]; cbn; auto. }
        assert (Wn : wg (Node o lhs rhs)).
        { cbn. split; [exact W|]. split; [exact Wr|]. split; [exact HO|].
          eapply Forall_impl; [|exact Fr]. cbn; intros; lia. }
        assert (Fn : Forall (fun o' => minp <= rank o') (ops (Node o lhs rhs))).
        { cbn. apply Forall_app; split; [exact F|]. constructor; [exact Lt|].
          eapply Forall_impl; [|exact Fr]. cbn; intros; lia. }
        assert (HOn : head_ok (Node o lhs rhs) r1).
        { destruct r1 as [|[o2 a2] r2]; cbn; auto. cbn in Br.
          apply Forall_app; split; [eapply Forall_impl; [|exact HO]; cbn; intros; lia|].
          constructor; [lia|]. eapply Forall_impl; [|exact Fr]. cbn; intros; lia. }
        destruct (IH _ _ _ _ _ H Wn Fn HOn) as (Wt & Ft & FAt & TCt & Bt).
        repeat split; auto.
        rewrite <- TCt. cbn in *. rewrite FAr. cbn. rewrite <- app_assoc. cbn. rewrite <- TCr. reflexivity.
  Qed.

  Lemma climb_fuel : forall fuel minp (lhs : tree) r, List.length r < fuel ->
    exists t r', climb fuel minp lhs r = Some (t, r') /\ List.length r' <= List.length r.
  Proof.
    induction fuel as [|fuel IH]; intros minp lhs r L; [lia|]. cbn [climb].
    destruct r as [|[o a] r0]; [eauto|].
    destruct (rank o <? minp); [eauto|]. cbn in L.
    destruct (IH (S (rank o)) (Leaf a) r0 ltac:(lia)) as (rhs & r1 & -> & L1).
    destruct (IH minp (Node o lhs rhs) r1 ltac:(lia)) as (t & r2 & -> & L2).
    exists t, r2; split; [reflexivity|cbn; lia].
  Qed.

  (** the fuel used by parse_chain always suffices (no OutOfFuel outcome), the result is
      well-grouped, its in-order traversal is the chain, and it is the only such tree *)
  Theorem parse_chain_correct a0 (r : rest) :
    exists t, parse_chain a0 r = Some t /\ wg t /\ first_atom t = a0 /\ tail_chain t = r /\
    forall t', wg t' -> first_atom t' = a0 -> tail_chain t' = r -> t' = t.
  Proof.
    unfold parse_chain.
    destruct (climb_fuel (S (List.length r)) 1 (Leaf a0) r ltac:(lia)) as (t & r' & E & _).
    rewrite E. exists t.
    destruct (climb_spec _ _ _ _ _ _ E I (Forall_nil _)) as (W & _ & FA & TC & B).
    { destruct r as [|[? ?] ?]; cbn; auto. }
    assert (r' = []) as ->.
    { destruct r' as [|[o a] ?]; auto. cbn in B. pose proof (rank_pos o). lia. }
    cbn in TC, FA. rewrite app_nil_r in TC.
    repeat split; auto.
    intros t' W' FA' TC'. apply wg_unique; auto; congruence.
  Qed.

  (** left associativity of equal ranks, spelled out for a chain of three operands *)
  Lemma equal_rank_assoc_left (a b c : atom) o1 o2 : rank o1 = rank o2 ->
    parse_chain a [(o1, b); (o2, c)] = Some (Node o2 (Node o1 (Leaf a) (Leaf b)) (Leaf c)).
  Proof.
    intros E. unfold parse_chain. cbn [List.length climb].
    pose proof (rank_pos o1) as P1. pose proof (rank_pos o2) as P2.
    destruct (rank o1 <? 1) eqn:H1; [apply Nat.ltb_lt in H1; lia|].
    destruct (rank o2 <? S (rank o1)) eqn:H2; [|apply Nat.ltb_ge in H2; lia].
    destruct (rank o2 <? 1) eqn:H3; [apply Nat.ltb_lt in H3; lia|]. reflexivity.
  Qed.

  Lemma higher_rank_binds_tighter (a b c : atom) o1 o2 : rank o1 < rank o2 ->
    parse_chain a [(o1, b); (o2, c)] = Some (Node o1 (Leaf a) (Node o2 (Leaf b) (Leaf c))).
  Proof.
    intros E. unfold parse_chain. cbn [List.length climb].
    pose proof (rank_pos o1) as P1. pose proof (rank_pos o2) as P2.
    destruct (rank o1 <? 1) eqn:H1; [apply Nat.ltb_lt in H1; lia|].
    destruct (rank o2 <? S (rank o1)) eqn:H2; [apply Nat.ltb_lt in H2; lia|]. reflexivity.
  Qed.
End Climb.
