(** C15 — type expressions: the 4-level recursive-descent parser of fc/parser.fo:24-163
    (parseType > parseTypeArrows > parseElemType > parseTermType > parseAtomType, with
    parseFullName, parseTypeList, mightParseSpecifiedTypeList and ParseSepList/ParseList2),
    the Go rendering FTypeToGo of fc/ftype.fo:52-131, and a printer with minimal / redundant
    parentheses.  Definitions only; proofs are in TypeGrammarProofs.v. *)
From Coq Require Import List String Ascii Arith Bool DecimalString.
Import ListNotations.

(** Tokens that can occur in a type expression (tokenizer.fo TokenType, the relevant subset);
    [TOther] stands for every other token type (EQ, RBRACE, SEMICOLON, EOL, BAR, ...). *)
Inductive tok :=
| TLP | TRP            (* ( ) *)
| TLB | TRB            (* [ ] *)
| TAster | TArrow      (* * -> *)
| TLt | TGt            (* < > *)
| TComma | TDot
| TId (s : string)     (* IDENTIFIER *)
| TOther (s : string).

(** FType as far as the type-expression parser can produce it.  [FNamed parts args] is what the
    type factory found under the dotted name makes of the type-argument list: FRecord / FUnion /
    FParamd (all three render as Name[args]) or a type variable (no arguments). *)
Inductive ftype :=
| FInt | FString | FBool | FFloat | FAny | FUnit
| FSlice (t : ftype)
| FTuple (l : list ftype)
| FFunc (l : list ftype)            (* Targets: arguments then the result *)
| FNamed (parts : list string) (args : list ftype).

Definition join_dot (parts : list string) : string := String.concat "." parts.

Definition base_of (s : string) : option ftype :=
  if String.eqb s "string" then Some FString
  else if String.eqb s "int" then Some FInt
  else if String.eqb s "bool" then Some FBool
  else if String.eqb s "float" then Some FFloat
  else if String.eqb s "any" then Some FAny
  else None.

(** parseFullName after its first identifier: ('.' IDENTIFIER)*, greedy; a '.' that is not followed
    by an identifier is a panic (psExpect IDENTIFIER). *)
Fixpoint full_name_rest (r : list tok) : option (list string * list tok) :=
  match r with
  | TDot :: r1 =>
    match r1 with
    | TId s :: r2 =>
      match full_name_rest r2 with
      | Some (l, r3) => Some (s :: l, r3)
      | None => None
      end
    | _ => None
    end
  | _ => Some ([], r)
  end.

Section Parser.
  (** scLookupTypeFac: dotted source name -> (Go name of the type, number of type parameters).
      GenType / GenRecordType / the union factory panic on a wrong number of arguments. *)
  Variable env : string -> option (string * nat).

  (** Every function decrements the fuel at each call, whatever it does; [None] = panic / out of fuel
      (the top-level [parse_type] separates the two). *)
  Fixpoint p_type (n : nat) (ts : list tok) {struct n} : option (ftype * list tok) :=
    match n with
    | O => None
    | S n =>
      match p_arrows n ts with
      | Some (l, r) =>
        match l with
        | [t] => Some (t, r)          (* slice.Length tps = 1 -> slice.Head tps *)
        | _ => Some (FFunc l, r)      (* newFFunc tps *)
        end
      | None => None
      end
    end
  with p_arrows (n : nat) (ts : list tok) {struct n} : option (list ftype * list tok) :=
    match n with
    | O => None
    | S n =>
      match p_elem n ts with
      | Some (one, r) =>
        match r with
        | TArrow :: r1 =>
          match p_arrows n r1 with
          | Some (l, r2) => Some (one :: l, r2)
          | None => None
          end
        | _ => Some ([one], r)
        end
      | None => None
      end
    end
  with p_elem (n : nat) (ts : list tok) {struct n} : option (ftype * list tok) :=
    match n with
    | O => None
    | S n =>
      (* ParseSepList pTerm ASTER = ParseList2: one, then while cur = ASTER: consume, one *)
      match p_term n ts with
      | Some (one, r) =>
        match p_more n r with
        | Some (l, r2) =>
          match l with
          | [] => Some (one, r2)
          | _ => Some (FTuple (one :: l), r2)
          end
        | None => None
        end
      | None => None
      end
    end
  with p_more (n : nat) (ts : list tok) {struct n} : option (list ftype * list tok) :=
    match n with
    | O => None
    | S n =>
      match ts with
      | TAster :: r1 =>
        match p_term n r1 with
        | Some (t, r2) =>
          match p_more n r2 with
          | Some (l, r3) => Some (t :: l, r3)
          | None => None
          end
        | None => None
        end
      | _ => Some ([], ts)
      end
    end
  with p_term (n : nat) (ts : list tok) {struct n} : option (ftype * list tok) :=
    match n with
    | O => None
    | S n =>
      match ts with
      | TLB :: r =>
        match r with
        | TRB :: r1 =>
          match p_term n r1 with
          | Some (t, r2) => Some (FSlice t, r2)
          | None => None
          end
        | _ => None                   (* psMulConsume [LSBRACKET; RSBRACKET] panics *)
        end
      | _ => p_atom n ts
      end
    end
  with p_atom (n : nat) (ts : list tok) {struct n} : option (ftype * list tok) :=
    match n with
    | O => None
    | S n =>
      match ts with
      | TLP :: r =>
        match r with
        | TRP :: r1 => Some (FUnit, r1)
        | _ =>
          match p_type n r with
          | Some (t, TRP :: r2) => Some (t, r2)
          | _ => None
          end
        end
      | TId s :: r =>
        match base_of s with
        | Some b => Some (b, r)
        | None =>
          match full_name_rest r with
          | Some (l, r4) =>
            match env (join_dot (s :: l)) with
            | Some (_, arity) =>
              match r4 with
              | TLt :: r5 =>
                match p_tlist n r5 with
                | Some (args, TGt :: r6) =>
                  if Nat.eqb (List.length args) arity then Some (FNamed (s :: l) args, r6) else None
                | _ => None
                end
              | _ => if Nat.eqb arity 0 then Some (FNamed (s :: l) [], r4) else None
              end
            | None => None            (* "type not found" (outside a type definition) *)
            end
          | None => None
          end
        end
      | _ => None                     (* "Unknown type" *)
      end
    end
  with p_tlist (n : nat) (ts : list tok) {struct n} : option (list ftype * list tok) :=
    match n with
    | O => None
    | S n =>
      match p_type n ts with
      | Some (one, r) =>
        match r with
        | TComma :: r1 =>
          match p_tlist n r1 with
          | Some (l, r2) => Some (one :: l, r2)
          | None => None
          end
        | _ => Some ([one], r)
        end
      | None => None
      end
    end.

  (** Fuel that is always enough (proved: [fuel_suffices] in the proofs file). *)
  Definition fuel_for (ts : list tok) : nat := 8 * List.length ts + 8.

  Definition parse_type (ts : list tok) : option (ftype * list tok) := p_type (fuel_for ts) ts.

  (** ---- FTypeToGo ---- *)
  Definition dec (n : nat) : string := NilZero.string_of_uint (Nat.to_uint n).

  Definition go_name (parts : list string) : string :=
    match env (join_dot parts) with
    | Some (g, _) => g
    | None => join_dot parts
    end.

  Definition is_unit (t : ftype) : bool := match t with FUnit => true | _ => false end.

  Fixpoint render (t : ftype) : string :=
    match t with
    | FInt => "int"
    | FBool => "bool"
    | FFloat => "float64"
    | FAny => "any"
    | FString => "string"
    | FUnit => ""
    | FSlice e => "[]" ++ render e
    | FTuple l =>
      "frt.Tuple" ++ dec (List.length l) ++ "[" ++ String.concat ", " (map render l) ++ "]"
    | FFunc l =>
      (* funcTypeToGo: args = Take (len-1); last = slice.Last *)
      (* (map/removelast/last commute; written on the rendered list for the guard checker) *)
      "func (" ++ String.concat "," (removelast (map render l)) ++ ")" ++
      (if is_unit (last l FUnit) then "" else " " ++ last (map render l) "")
    | FNamed parts args =>
      (* recordTypeToGo / fUnionToGo / fpToGo: Name + "[" + args joined by ", " + "]" *)
      go_name parts ++
      match args with
      | [] => ""
      | _ => "[" ++ String.concat ", " (map render args) ++ "]"
      end
    end%string.
End Parser.

(** ---- printing ---- *)
Fixpoint sep (s : tok) (ls : list (list tok)) : list tok :=
  match ls with
  | [] => []
  | [x] => x
  | x :: rest => x ++ s :: sep s rest
  end.

Fixpoint name_toks_rest (l : list string) : list tok :=
  match l with
  | [] => []
  | s :: l' => TDot :: TId s :: name_toks_rest l'
  end.

Definition name_toks (parts : list string) : list tok :=
  match parts with
  | [] => []
  | s :: l => TId s :: name_toks_rest l
  end.

Definition wrap (b : bool) (ts : list tok) : list tok :=
  if b then TLP :: ts ++ [TRP] else ts.

(** Levels: 0 = TYPE, 1 = ELEM_TYPE (component of an arrow list), 2 = TERM_TYPE (component of a tuple,
    element of a slice).  A function type needs parentheses at level >= 1, a tuple at level 2. *)
Fixpoint print_at (lv : nat) (t : ftype) : list tok :=
  match t with
  | FInt => [TId "int"]
  | FString => [TId "string"]
  | FBool => [TId "bool"]
  | FFloat => [TId "float"]
  | FAny => [TId "any"]
  | FUnit => [TLP; TRP]
  | FSlice e => TLB :: TRB :: print_at 2 e
  | FTuple l => wrap (2 <=? lv) (sep TAster (map (print_at 2) l))
  | FFunc l => wrap (1 <=? lv) (sep TArrow (map (print_at 1) l))
  | FNamed parts args =>
    name_toks parts ++
    match args with
    | [] => []
    | _ => TLt :: sep TComma (map (print_at 0) args) ++ [TGt]
    end
  end.

Definition print_type (t : ftype) : list tok := print_at 0 t.

(** Decorated types: every node carries the number of redundant parenthesis pairs written around it. *)
Inductive dtype :=
| DLeaf (k : nat) (t : ftype)                 (* a base type or () *)
| DSlice (k : nat) (d : dtype)
| DTuple (k : nat) (l : list dtype)
| DFunc (k : nat) (l : list dtype)
| DNamed (k : nat) (parts : list string) (args : list dtype).

Fixpoint erase (d : dtype) : ftype :=
  match d with
  | DLeaf _ t => t
  | DSlice _ e => FSlice (erase e)
  | DTuple _ l => FTuple (map erase l)
  | DFunc _ l => FFunc (map erase l)
  | DNamed _ parts args => FNamed parts (map erase args)
  end.

Fixpoint parens (k : nat) (ts : list tok) : list tok :=
  match k with
  | O => ts
  | S k' => TLP :: parens k' ts ++ [TRP]
  end.

(** [k] redundant pairs plus the needed one (if any); inside any parenthesis the level is 0 again,
    which only matters for what the node's own syntax is — its children have fixed levels. *)
Fixpoint dprint (lv : nat) (d : dtype) : list tok :=
  match d with
  | DLeaf k t => parens k (print_at 0 t)
  | DSlice k e => parens k (TLB :: TRB :: dprint 2 e)
  | DTuple k l =>
    parens (k + (if (2 <=? lv) && (k =? 0) then 1 else 0)) (sep TAster (map (dprint 2) l))
  | DFunc k l =>
    parens (k + (if (1 <=? lv) && (k =? 0) then 1 else 0)) (sep TArrow (map (dprint 1) l))
  | DNamed k parts args =>
    parens k (name_toks parts ++
              match args with
              | [] => []
              | _ => TLt :: sep TComma (map (dprint 0) args) ++ [TGt]
              end)
  end.

(** embedding: no redundant parentheses *)
Fixpoint plain (t : ftype) : dtype :=
  match t with
  | FSlice e => DSlice 0 (plain e)
  | FTuple l => DTuple 0 (map plain l)
  | FFunc l => DFunc 0 (map plain l)
  | FNamed parts args => DNamed 0 parts (map plain args)
  | _ => DLeaf 0 t
  end.

(** ---------------------------------------------------------------- well-formedness, stop tokens *)

(** What may follow a complete type expression at a level (0 = TYPE, 1 = ELEM_TYPE, 2/3 = TERM/ATOM)
    without being taken for its continuation: not '.', not '<' (a following name part / argument list),
    not '*' below the tuple level, not '->' at the type level. *)
Definition okhead (lv : nat) (t : tok) : bool :=
  match t with
  | TDot | TLt => false
  | TAster => 2 <=? lv
  | TArrow => 1 <=? lv
  | _ => true
  end.

Definition stops (lv : nat) (rest : list tok) : Prop :=
  match rest with
  | [] => True
  | t :: _ => okhead lv t = true
  end.

Definition is_leaf (t : ftype) : bool :=
  match t with FInt | FString | FBool | FFloat | FAny | FUnit => true | _ => false end.

Definition wf_nameb (parts : list string) : bool :=
  match parts with
  | [] => false
  | s :: _ => match base_of s with None => true | Some _ => false end
  end.

Section WellFormed.
  Variable env : string -> option (string * nat).

  Definition arity_ok (parts : list string) (n : nat) : bool :=
    match env (join_dot parts) with
    | Some (_, a) => Nat.eqb a n
    | None => false
    end.

  (** What the type parser can produce: tuples and function types have at least two components (a
      function type's last component is its result), a name's first part is not a base-type name, the
      dotted name is registered with as many parameters as arguments are written. *)
  Fixpoint wf (t : ftype) : bool :=
    match t with
    | FSlice e => wf e
    | FTuple l => (2 <=? List.length l) && forallb wf l
    | FFunc l => (2 <=? List.length l) && forallb wf l
    | FNamed parts args => wf_nameb parts && arity_ok parts (List.length args) && forallb wf args
    | _ => true
    end.

  Fixpoint dwf (d : dtype) : bool :=
    match d with
    | DLeaf _ t => is_leaf t
    | DSlice _ e => dwf e
    | DTuple _ l => (2 <=? List.length l) && forallb dwf l
    | DFunc _ l => (2 <=? List.length l) && forallb dwf l
    | DNamed _ parts args => wf_nameb parts && arity_ok parts (List.length args) && forallb dwf args
    end.
End WellFormed.

(** the syntactic level of a type's outermost constructor *)
Definition nl (t : ftype) : nat :=
  match t with FFunc _ => 0 | FTuple _ => 1 | FSlice _ => 2 | _ => 3 end.

(** What can be written without any parenthesis: a function type's components are never function
    types, a tuple's components and a slice's element are never function types or tuples (and unit,
    which is spelled with parentheses, does not occur). *)
Fixpoint paren_free (t : ftype) : bool :=
  match t with
  | FUnit => false
  | FSlice e => (2 <=? nl e) && paren_free e
  | FTuple l => forallb (fun x => (2 <=? nl x) && paren_free x) l
  | FFunc l => forallb (fun x => (1 <=? nl x) && paren_free x) l
  | FNamed _ args => forallb paren_free args
  | _ => true
  end.

Definition no_lp (ts : list tok) : Prop := Forall (fun t => t <> TLP) ts.

