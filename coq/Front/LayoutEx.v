From Coq Require Import List Arith Lia.
From FoVerif Require Import Front.Layout.
Import ListNotations.

(*  let f x =
      let y = g 1
      if c > 0 then
        h y |> k
      elif d then
        match u with
        | A i -> i
        | _ -> xs |> m (fun v -> v)
      else e
      z                                                     *)
Definition ex_prog (ci ct ca cb ce bl inner2 : nat) (nl1 : option (nat * nat)) (inl : bool) : lprog :=
  let body (b : lblock) := if inl then BInline b else BNext bl b in
  [(bl, 0, LLetFn 1 2 []
     (BNext bl
       (LB ci (LLet 3 nl1 (LT (LApp (LA 4) (ACons inner2 (LA 5) ANil))))
        (LCons bl ci
          (LExpr (LT (LIf ((6, []), [(1, (7, []))]) bl
             (LB ct (LExpr (LOp (LA 8) (ACons inner2 (LA 3) ANil) (if inl then None else Some (bl, ci)) 0 (LT (LApp (LA 9) ANil)))) LNil)
             (IElif bl ci ((10, []), []) 0
                (LB ct (LExpr (LT (LMatch ((11, []), []) bl
                    (MCons ca (PCase 12 (Some 13)) (body (LB cb (LExpr (LT (LApp (LA 13) ANil))) LNil)) bl
                    (MLast ca PDef (BInline (LB (cb + 20) (LExpr (LOp (LA 14) ANil None 0
                          (LT (LApp (LA 15) (ACons inner2 (LLam [16] (body (LB (cb + 30) (LExpr (LT (LApp (LA 16) ANil))) LNil))
                                                                 (if inl then None else Some (1, 0))) ANil))))) LNil))))))) LNil)
                (IElse 0 ce (BInline (LB (ce + 5) (LExpr (LT (LApp (LA 17) ANil))) LNil)))))))
        (LCons 0 ci (LExpr (LT (LIf ((19, []), []) bl (LB ct (LExpr (LT (LIf1 ((20, []), []) ((21, [22]), []) None))) LNil) IEnd)))
        (LCons bl ci (LLet 23 None (LT (LSMatch ((24, []), []) 0
             (SCons (if inl then ci else 0) 25 (body (LB cb (LExpr (LT (LApp (LS 26) ANil))) LNil)) bl
             (SCons (ci + 1) 27 (BInline (LB (cb + 9) (LExpr (LT (LIf1 ((28, []), []) ((29, []), []) (Some ((30, []), [(2, (31, []))]))))) LNil)) 0
             (SLast ci (Some 32) (BNext 0 (LB cb (LExpr (LT (LApp (LA 33) ANil))) LNil))))))))
        (LCons 0 (ci + (if inl then 0 else 1)) (LExpr (LT (LApp (LA 18) ANil))) LNil)))))))].

Definition ex_a := ex_prog 2 4 4 6 2 0 0 None true.
Definition ex_b := ex_prog 7 20 23 31 8 3 55 (Some (2, 1)) false.

Example two_layouts_one_tree :
  wf_prog None ex_a /\ wf_prog None ex_b /\ er_prog ex_a = er_prog ex_b /\
  r_prog 0 ex_a <> r_prog 99 ex_b /\
  parse_blocks 400 (r_prog 0 ex_a) = Ok (er_prog ex_a) /\
  parse_blocks 400 (r_prog 99 ex_b) = Ok (er_prog ex_a).
Proof. vm_compute. repeat split; try lia; try discriminate. Qed.

(** finding (n): the one-line form with elif, and an inline then-body followed by else on the next
    line, are rejected by the transcribed parser although the multi-line form of the same if is accepted *)
Definition if_multi : list ptok :=    (* let f x = / if c then / a / elif d then / b / else / e *)
  [(TLET,0);(TA 1,4);(TA 2,6);(TEQ,8);(TEOL,9);
   (TIF,2);(TA 3,5);(TTHEN,7);(TEOL,11);(TA 4,4);(TEOL,5);
   (TELIF,2);(TA 5,7);(TTHEN,9);(TEOL,13);(TA 6,4);(TEOL,5);
   (TELSE,2);(TEOL,6);(TA 7,4);(TEOL,5)].
Definition if_one_line_elif : list ptok :=   (* let f x = / if c then a elif d then b else e *)
  [(TLET,0);(TA 1,4);(TA 2,6);(TEQ,8);(TEOL,9);
   (TIF,2);(TA 3,5);(TTHEN,7);(TA 4,12);(TELIF,14);(TA 5,19);(TTHEN,21);(TA 6,26);(TELSE,28);(TA 7,33);(TEOL,34)].
Definition if_inline_then_newline_else : list ptok :=   (* let f x = / if c then a / else e *)
  [(TLET,0);(TA 1,4);(TA 2,6);(TEQ,8);(TEOL,9);
   (TIF,2);(TA 3,5);(TTHEN,7);(TA 4,12);(TEOL,13);(TELSE,2);(TA 7,7);(TEOL,8)].

Example elif_one_line_refuted :
  (exists t, parse_blocks 200 if_multi = Ok t) /\
  parse_blocks 200 if_one_line_elif = Reject /\
  parse_blocks 200 if_inline_then_newline_else = Reject.
Proof. vm_compute. split; [eexists; reflexivity|split; reflexivity]. Qed.

(** a dedented statement changes the recovered structure (or is rejected) *)
Definition ded_ok : list ptok :=      (* let f x = / if c then / a / b / else / e    (b inside then) *)
  [(TLET,0);(TA 1,4);(TA 2,6);(TEQ,8);(TEOL,9);
   (TIF,2);(TA 3,5);(TTHEN,7);(TEOL,11);(TA 4,4);(TEOL,5);(TA 5,4);(TEOL,5);(TELSE,2);(TEOL,6);(TA 7,4);(TEOL,5)].
Definition ded_bad : list ptok :=     (* the line of b moved to column 2 *)
  [(TLET,0);(TA 1,4);(TA 2,6);(TEQ,8);(TEOL,9);
   (TIF,2);(TA 3,5);(TTHEN,7);(TEOL,11);(TA 4,4);(TEOL,5);(TA 5,2);(TEOL,3);(TELSE,2);(TEOL,6);(TA 7,4);(TEOL,5)].
Example dedent_example :
  (exists t, parse_blocks 200 ded_ok = Ok t) /\ parse_blocks 200 ded_bad = Reject.
Proof. vm_compute. split; [eexists; reflexivity|reflexivity]. Qed.
