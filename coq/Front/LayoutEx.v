From Coq Require Import List Arith Lia.
From FoVerif Require Import Front.Layout.
Import ListNotations.

(*  let f x =
      let y = g 1
      if c > 0 then
        h y |> k
      elif d then
        match u with
        | A i -> i
        | _ -> xs |> m (fun v -> v)
      else e
      z                                                     *)
Definition ex_prog (ci ct ca cb ce bl inner2 : nat) (nl1 : option (nat * nat)) (inl : bool) : lprog :=
  let body (b : lblock) := if inl then BInline b else BNext bl b in
  [(bl, 0, RLetL (LLetFn 1 2 []
     (BNext bl
       (LB ci (LLet 3 nl1 (LT (LApp (LA 4) (ACons inner2 (LA 5) ANil))))
        (LCons bl ci
          (LExpr (LT (LIf ((6, []), [(1, (7, []))]) (TMulti bl
             (LB ct (LExpr (LOp (LA 8) (ACons inner2 (LA 3) ANil) (if inl then None else Some (bl, ci)) 0 (LT (LApp (LA 9) ANil)))) LNil)
             (IElif bl ci ((10, []), []) (TMulti 0
                (LB ct (LExpr (LT (LMatch ((11, []), []) bl
                    (MCons ca (PCase 12 (Some 13)) (body (LB cb (LExpr (LT (LApp (LA 13) ANil))) LNil)) bl
                    (MLast ca PDef (BInline (LB (cb + 20) (LExpr (LOp (LA 14) ANil None 0
                          (LT (LApp (LA 15) (ACons inner2 (LLam [16] (body (LB (cb + 30) (LExpr (LT (LApp (LA 16) ANil))) LNil))
                                                                 (if inl then None else Some (1, 0))) ANil))))) LNil))))))) LNil)
                (IElse 0 ce (BInline (LB (ce + 5) (LExpr (LT (LApp (LA 17) ANil))) LNil)))))))))
        (LCons 0 ci (LExpr (LT (LIf ((19, []), []) (TMulti bl (LB ct (LExpr (LT (LIf ((20, []), []) (TOne ((21, [22]), []) R1End)))) LNil) IEnd))))
        (LCons bl ci (LLet 23 None (LT (LSMatch ((24, []), []) 0
             (SCons (if inl then ci else 0) 25 (body (LB cb (LExpr (LT (LApp (LS 26) ANil))) LNil)) bl
             (SCons (ci + 1) 27 (BInline (LB (cb + 9) (LExpr (LT (LIf ((28, []), []) (TOne ((29, []), []) (R1Else ((30, []), [(2, (31, []))])))))) LNil)) 0
             (SLast ci (Some 32) (BNext 0 (LB cb (LExpr (LT (LApp (LA 33) ANil))) LNil))))))))
        (LCons 0 (ci + (if inl then 0 else 1)) (LExpr (LT (LApp (LA 18) ANil))) LNil))))))))].

Definition ex_a := ex_prog 2 4 4 6 2 0 0 None true.
Definition ex_b := ex_prog 7 20 23 31 8 3 55 (Some (2, 1)) false.

Example two_layouts_one_tree :
  wf_prog None ex_a /\ wf_prog None ex_b /\ er_prog ex_a = er_prog ex_b /\
  r_prog 0 ex_a <> r_prog 99 ex_b /\
  parse_blocks 400 (r_prog 0 ex_a) = Ok (er_prog ex_a) /\
  parse_blocks 400 (r_prog 99 ex_b) = Ok (er_prog ex_a).
Proof. vm_compute. repeat split; try lia; try discriminate. Qed.

(** finding (n), repaired in fc (isEndOfTerm knows elif; the one-line branch of parseIfAfterIfExpr also looks
    for elif on the same line and for else/elif on a later line inside the offside line): the one-line forms
    now give the tree of the multi-line form. (The transcription of the parser before the repair rejected
    [if_one_line_elif], [if_inline_then_newline_else] and [if_inline_elif_newline_else]: see the comment
    C06_elif_one_line_refuted_old in Props/C06.v.) *)
Definition if_multi : list ptok :=    (* let f x = / if c then / a / elif d then / b / else / e *)
  [(TLET,0);(TA 1,4);(TA 2,6);(TEQ,8);(TEOL,9);
   (TIF,2);(TA 3,5);(TTHEN,7);(TEOL,11);(TA 4,4);(TEOL,5);
   (TELIF,2);(TA 5,7);(TTHEN,9);(TEOL,13);(TA 6,4);(TEOL,5);
   (TELSE,2);(TEOL,6);(TA 7,4);(TEOL,5)].
Definition if_one_line_elif : list ptok :=   (* let f x = / if c then a elif d then b else e *)
  [(TLET,0);(TA 1,4);(TA 2,6);(TEQ,8);(TEOL,9);
   (TIF,2);(TA 3,5);(TTHEN,7);(TA 4,12);(TELIF,14);(TA 5,19);(TTHEN,21);(TA 6,26);(TELSE,28);(TA 7,33);(TEOL,34)].
Definition if_inline_elif_newline_else : list ptok :=   (* if c then / a / elif d then b / else / e *)
  [(TLET,0);(TA 1,4);(TA 2,6);(TEQ,8);(TEOL,9);
   (TIF,2);(TA 3,5);(TTHEN,7);(TEOL,11);(TA 4,4);(TEOL,5);
   (TELIF,2);(TA 5,7);(TTHEN,9);(TA 6,14);(TEOL,15);
   (TELSE,2);(TEOL,6);(TA 7,4);(TEOL,5)].
Definition if2_multi : list ptok :=    (* let f x = / if c then / a / else / e *)
  [(TLET,0);(TA 1,4);(TA 2,6);(TEQ,8);(TEOL,9);
   (TIF,2);(TA 3,5);(TTHEN,7);(TEOL,11);(TA 4,4);(TEOL,5);(TELSE,2);(TEOL,6);(TA 7,4);(TEOL,5)].
Definition if_inline_then_newline_else : list ptok :=   (* let f x = / if c then a / else e *)
  [(TLET,0);(TA 1,4);(TA 2,6);(TEQ,8);(TEOL,9);
   (TIF,2);(TA 3,5);(TTHEN,7);(TA 4,12);(TEOL,13);(TELSE,2);(TA 7,7);(TEOL,8)].
Definition if_inline_then_else_left_of_block : list ptok :=   (* the same with else at column 1: outside the block *)
  [(TLET,0);(TA 1,4);(TA 2,6);(TEQ,8);(TEOL,9);
   (TIF,2);(TA 3,5);(TTHEN,7);(TA 4,12);(TEOL,13);(TELSE,1);(TA 7,7);(TEOL,8)].

Example elif_one_line_accepted :
  (exists t, parse_blocks 200 if_multi = Ok t /\ parse_blocks 200 if_one_line_elif = Ok t /\
             parse_blocks 200 if_inline_elif_newline_else = Ok t) /\
  (exists t, parse_blocks 200 if2_multi = Ok t /\ parse_blocks 200 if_inline_then_newline_else = Ok t) /\
  parse_blocks 200 if_inline_then_else_left_of_block = Reject.
Proof. vm_compute. split; [eexists; repeat split|split; [eexists; repeat split|reflexivity]]. Qed.

(** the same if in three decorated layouts: multi-line; on one line; then-bodies on the if/elif lines with
    elif and else on later lines *)
Definition ex_if (tl : liftail) : lprog :=
  [(0, 0, RLetL (LLetFn 1 2 [] (BNext 0 (LB 2 (LExpr (LT (LIf ((3, []), []) tl))) LNil))))].
Definition one (a : nat) : lblock := LB 4 (LExpr (LT (LApp (LA a) ANil))) LNil.
Definition ex_if_multi := ex_if (TMulti 0 (one 4) (IElif 0 2 ((5, []), []) (TMulti 1 (one 6) (IElse 0 0 (BNext 0 (one 7)))))).
Definition ex_if_one_line := ex_if (TOne ((4, []), []) (R1Elif ((5, []), []) (TOne ((6, []), []) (R1Else ((7, []), []))))).
Definition ex_if_mixed := ex_if (TOne ((4, []), []) (R1NlElif 0 2 ((5, []), []) (TOne ((6, []), [])
                                  (R1NlElse 1 3 (BInline (LB 9 (LExpr (LT (LApp (LA 7) ANil))) LNil)))))).
Example if_three_layouts :
  wf_prog None ex_if_multi /\ wf_prog None ex_if_one_line /\ wf_prog None ex_if_mixed /\
  er_prog ex_if_multi = er_prog ex_if_one_line /\ er_prog ex_if_multi = er_prog ex_if_mixed /\
  parse_blocks 200 (r_prog 0 ex_if_multi) = Ok (er_prog ex_if_multi) /\
  parse_blocks 200 (r_prog 30 ex_if_one_line) = Ok (er_prog ex_if_multi) /\
  parse_blocks 200 (r_prog 30 ex_if_mixed) = Ok (er_prog ex_if_multi).
Proof. vm_compute. repeat split; try lia. Qed.

(** a dedented statement changes the recovered structure (or is rejected) *)
Definition ded_ok : list ptok :=      (* let f x = / if c then / a / b / else / e    (b inside then) *)
  [(TLET,0);(TA 1,4);(TA 2,6);(TEQ,8);(TEOL,9);
   (TIF,2);(TA 3,5);(TTHEN,7);(TEOL,11);(TA 4,4);(TEOL,5);(TA 5,4);(TEOL,5);(TELSE,2);(TEOL,6);(TA 7,4);(TEOL,5)].
Definition ded_bad : list ptok :=     (* the line of b moved to column 2 *)
  [(TLET,0);(TA 1,4);(TA 2,6);(TEQ,8);(TEOL,9);
   (TIF,2);(TA 3,5);(TTHEN,7);(TEOL,11);(TA 4,4);(TEOL,5);(TA 5,2);(TEOL,3);(TELSE,2);(TEOL,6);(TA 7,4);(TEOL,5)].
Example dedent_example :
  (exists t, parse_blocks 200 ded_ok = Ok t) /\ parse_blocks 200 ded_bad = Reject.
Proof. vm_compute. split; [eexists; reflexivity|reflexivity]. Qed.

(** groups: a parenthesised if as an argument with ')' on its own line, a tuple whose last element is a
    multi-line if, a slice and a record literal with a multi-line value followed by ';' / '}' on a later
    line, a record field broken after its name and after '=', a destructuring let, () *)
Definition ex_groups (multi : bool) (inner2 : nat) : lprog :=
  let v (a : nat) : lexpr := LT (LApp (LA a) ANil) in
  let iff (c0 : nat) : lexpr :=
    if multi then LT (LIf ((3, []), []) (TMulti 1 (LB (c0 + 4) (LExpr (v 4)) LNil) (IElse 0 c0 (BNext 0 (LB (c0 + 2) (LExpr (v 5)) LNil)))))
    else LT (LIf ((3, []), []) (TOne ((4, []), []) (R1Else ((5, []), [])))) in
  let cl (c0 : nat) := if multi then Some (1, c0) else None in
  [(0, 0, RLetL (LLetFn 1 2 []
     (BNext 0
       (LB 2 (LLetD 6 7 [8] (if multi then Some (0, 9) else None)
                 (LT (LApp (LGroup GPar None (v 9) (QCons None None inner2 (v 10) (QCons None None 12 (iff 12) QNil)) (cl 3)) ANil)))
       (LCons 0 2 (LLet 11 None (LT (LApp (LA 12) (ACons inner2 (LGroup GPar None (iff 14) QNil (cl 0)) (ACons inner2 LUnit ANil)))))
       (LCons 0 2 (LLet 13 None (LT (LApp (LGroup GSlice None (v 14) (QCons None None inner2 (iff 20) QNil) (cl 5)) ANil)))
       (LCons 0 2 (LExpr (LT (LApp (LGroup GRec (Some (15, (if multi then Some (0, 1) else None), (if multi then Some (2, 30) else None)))
                                      (iff 30)
                                      (QCons (cl 4) (Some (16, None, None)) inner2 (v 17) QNil) None) ANil))) LNil)))))))].
Example groups_two_layouts :
  wf_prog None (ex_groups true 7) /\ wf_prog None (ex_groups false 40) /\
  er_prog (ex_groups true 7) = er_prog (ex_groups false 40) /\
  parse_blocks 400 (r_prog 0 (ex_groups true 7)) = Ok (er_prog (ex_groups true 7)) /\
  parse_blocks 400 (r_prog 50 (ex_groups false 40)) = Ok (er_prog (ex_groups true 7)).
Proof. vm_compute. repeat split; try lia. Qed.

(** root items: package / import lines, a union whose cases stand at arbitrary columns, a package_info block *)
Definition ex_roots (a b c0 : nat) : lprog :=
  [(0, 0, RLineL 0 [1]); (a, 0, RLineL 1 [2]);
   (a, 0, RUnionL 3 a b [4; 5; 6] [(a, 0, [7]); (0, b + 5, [8; 5; 9])]);
   (1, 0, RInfoL 10 a c0 [11; 12; 13] [(a, c0 + b, [14; 12; 15]); (0, c0, [16; 12; 17])]);
   (0, 0, RLetL (LLet 18 None (LT (LApp (LA 19) ANil))))].
Example roots_two_layouts :
  wf_prog None (ex_roots 0 2 2) /\ wf_prog None (ex_roots 3 9 7) /\
  er_prog (ex_roots 0 2 2) = er_prog (ex_roots 3 9 7) /\
  parse_blocks 400 (r_prog 0 (ex_roots 0 2 2)) = Ok (er_prog (ex_roots 0 2 2)) /\
  parse_blocks 400 (r_prog 33 (ex_roots 3 9 7)) = Ok (er_prog (ex_roots 0 2 2)).
Proof. vm_compute. repeat split; try lia; repeat constructor; try lia. Qed.
