(** C16, front half: the scanners of Front/Term.v never run out of fuel, make progress, and the
    tokenizer reaches EOF or a diagnostic within (length buf + 1) tokens. *)
From Coq Require Import List Arith Bool ZArith String Ascii Lia.
From FoVerif Require Import Front.Term.
Import ListNotations.

Local Open Scope nat_scope.

(* ------------------------------------------------------------------ helpers *)

Lemma is_char_at_true_lt : forall buf j ch, is_char_at buf j ch = true -> j < List.length buf.
Proof.
  intros buf j ch H. unfold is_char_at in H.
  destruct (nth_error buf j) eqn:E; [|discriminate].
  apply nth_error_Some. congruence.
Qed.

Lemma is_char_at_true_nth : forall buf j ch, is_char_at buf j ch = true -> nth_error buf j = Some ch.
Proof.
  intros buf j ch H. unfold is_char_at in H.
  destruct (nth_error buf j) eqn:E; [|discriminate].
  apply Nat.eqb_eq in H. congruence.
Qed.

Lemma nth_some_lt : forall (buf : bytes) j c, nth_error buf j = Some c -> j < List.length buf.
Proof. intros buf j c H. apply nth_error_Some. congruence. Qed.

Lemma nth_none_ge : forall (buf : bytes) j, nth_error buf j = None -> List.length buf <= j.
Proof. intros buf j H. apply nth_error_None. exact H. Qed.

Lemma is_string_at_cons_le : forall s c buf j,
  is_string_at buf j (c :: s) = true -> j + List.length (c :: s) <= List.length buf.
Proof.
  induction s as [|d s IH]; intros c buf j H; cbn [is_string_at] in H.
  - destruct (nth_error buf j) eqn:E; [|discriminate].
    apply nth_some_lt in E. cbn [List.length]. lia.
  - destruct (nth_error buf j) eqn:E; [|discriminate].
    apply andb_true_iff in H. destruct H as [_ H].
    apply IH in H. cbn [List.length] in *. lia.
Qed.

Lemma search_forward_n_some : forall n buf pos c s e,
  search_forward_n n buf pos (c :: s) = Some e ->
  pos <= e /\ e + List.length (c :: s) <= List.length buf.
Proof.
  induction n as [|n IH]; intros buf pos c s e H; cbn [search_forward_n] in H; [discriminate|].
  destruct (is_string_at buf pos (c :: s)) eqn:E.
  - inversion H; subst. split; [lia|]. now apply is_string_at_cons_le.
  - apply IH in H. lia.
Qed.

Lemma search_forward_some : forall buf start c s e,
  search_forward buf start (c :: s) = Some e ->
  start <= e /\ e + List.length (c :: s) <= List.length buf.
Proof. intros. eapply search_forward_n_some; eauto. Qed.

Lemma bom_at_bytewise_inside : forall buf j, bom_at_bytewise buf j = true -> j + 3 <= List.length buf.
Proof.
  intros buf j H. unfold bom_at_bytewise, bom in H. apply is_string_at_cons_le in H.
  cbn [List.length] in H. exact H.
Qed.

Lemma bom_at_runewise_old_inside : forall buf j,
  bom_at_runewise_old buf j = true -> j + 3 <= List.length buf.
Proof.
  intros buf j H. unfold bom_at_runewise_old in H. apply andb_true_iff in H. destruct H as [H _].
  apply Nat.leb_le in H. exact H.
Qed.

(** the only fact about the byte-order-mark test that the totality proofs use *)
Lemma bom_at_inside : forall buf j, bom_at buf j = true -> j + 3 <= List.length buf.
Proof. exact bom_at_bytewise_inside. Qed.

(** the rune-wise test of commit 0061363 accepted three bytes that are not a byte order mark:
    quote, U+FF71 (EF BD B1), quote *)
Theorem bom_test_runewise_old_refuted :
  exists buf j, bom_at_runewise_old buf j = true /\ is_string_at buf j bom = false.
Proof. exists [34; 239; 189; 177; 34], 1. split; reflexivity. Qed.

(* ------------------------------------------------------------------ scanSpaceToken *)

Lemma skip_char_ok : forall fuel buf j ch,
  j <= List.length buf -> List.length buf - j < fuel ->
  exists j', skip_char fuel buf j ch = Some j' /\ j <= j' <= List.length buf /\
             (is_char_at buf j ch = true -> j < j').
Proof.
  induction fuel as [|f IH]; intros buf j ch Hj Hf; [lia|].
  cbn [skip_char]. destruct (is_char_at buf j ch) eqn:E.
  - pose proof (is_char_at_true_lt _ _ _ E) as Hlt.
    destruct (IH buf (S j) ch) as (j' & Hs & Hb & _); [lia|lia|].
    exists j'. split; [exact Hs|]. split; [lia|]. intros _. lia.
  - exists j. split; [reflexivity|]. split; [lia|]. discriminate.
Qed.

Lemma skip_line_ok : forall fuel buf j,
  j <= List.length buf -> List.length buf - j < fuel ->
  exists j', skip_line fuel buf j = Some j' /\ j <= j' <= List.length buf /\
             (is_string_at buf j slash_slash = true -> j < j').
Proof.
  induction fuel as [|f IH]; intros buf j Hj Hf; [lia|].
  cbn [skip_line].
  destruct ((j <? List.length buf) && negb (is_char_at buf j 10)) eqn:E.
  - apply andb_true_iff in E. destruct E as [E1 E2]. apply Nat.ltb_lt in E1.
    destruct (IH buf (S j)) as (j' & Hs & Hb & _); [lia|lia|].
    exists j'. split; [exact Hs|]. split; [lia|]. intros _. lia.
  - exists j. split; [reflexivity|]. split; [lia|].
    intros Hs. exfalso.
    unfold slash_slash in Hs. cbn [is_string_at] in Hs.
    destruct (nth_error buf j) as [b|] eqn:En; [|discriminate].
    apply andb_true_iff in Hs. destruct Hs as [Hb _]. apply Nat.eqb_eq in Hb. subst b.
    pose proof (nth_some_lt _ _ _ En) as Hlt.
    apply andb_false_iff in E. destruct E as [E|E].
    + apply Nat.ltb_ge in E. lia.
    + unfold is_char_at in E. rewrite En in E. cbn in E. discriminate.
Qed.

Definition space_tok_ok (buf : bytes) (pos j : nat) (o : outcome) : Prop :=
  match o with
  | Tok ty b l p => ty = SPACE /\ b = pos /\ p = PNone /\ j <= pos + l <= List.length buf /\
                    (space_cond buf j = true -> j < pos + l)
  | Diag _ => True
  | OutOfFuel => False
  end.

Lemma scan_space_loop_ok : forall n fuel buf pos j,
  List.length buf < fuel -> pos <= j -> j <= List.length buf -> List.length buf - j < n ->
  space_tok_ok buf pos j (scan_space_loop skip_line n fuel buf pos j).
Proof.
  induction n as [|n IH]; intros fuel buf pos j Hfuel Hpj Hj Hn; [lia|].
  cbn [scan_space_loop].
  destruct (space_cond buf j) eqn:Ec.
  2:{ cbn [space_tok_ok]. rewrite Ec.
      split; [reflexivity|]. split; [reflexivity|]. split; [reflexivity|]. split; [lia|discriminate]. }
  destruct (skip_char_ok fuel buf j 32) as (j1 & H1 & B1 & S1); [lia|lia|]. rewrite H1.
  destruct (skip_char_ok fuel buf j1 9) as (j2 & H2 & B2 & S2); [lia|lia|]. rewrite H2.
  (* the block comment *)
  assert (Hblock :
    forall j3, (if is_string_at buf j2 slash_star
                then match search_forward buf (j2 + 2) star_slash with
                     | Some e => Some (e + 2) | None => None end
                else Some j2) = Some j3 ->
               j2 <= j3 <= List.length buf /\ (is_string_at buf j2 slash_star = true -> j2 < j3)).
  { intros j3 H3. destruct (is_string_at buf j2 slash_star) eqn:Es.
    - destruct (search_forward buf (j2 + 2) star_slash) as [e|] eqn:Ee; [|discriminate].
      inversion H3; subst j3. unfold star_slash in Ee.
      apply search_forward_some in Ee. cbn [List.length] in Ee. split; [lia|intros; lia].
    - inversion H3; subst j3. split; [lia|discriminate]. }
  destruct (if is_string_at buf j2 slash_star
            then match search_forward buf (j2 + 2) star_slash with
                 | Some e => Some (e + 2) | None => None end
            else Some j2) as [j3|] eqn:E3; [|exact I].
  destruct (Hblock j3 eq_refl) as [B3 S3]. clear Hblock.
  (* strict progress of one round *)
  assert (Hstrict : forall j4, j3 <= j4 ->
            (is_string_at buf j3 slash_slash = true -> j3 < j4) -> j < j4).
  { intros j4 Hle Hsl.
    destruct (Nat.eq_dec j j4) as [->|Hne]; [|lia]. exfalso.
    assert (j1 = j4) by lia. assert (j2 = j4) by lia. assert (j3 = j4) by lia. subst j1 j2 j3.
    unfold space_cond in Ec.
    destruct (is_char_at buf j4 32) eqn:Ea; [specialize (S1 eq_refl); lia|].
    destruct (is_char_at buf j4 9) eqn:Eb; [specialize (S2 eq_refl); lia|].
    destruct (is_string_at buf j4 slash_star) eqn:Ecm; [specialize (S3 eq_refl); lia|].
    destruct (is_string_at buf j4 slash_slash) eqn:Ed; [specialize (Hsl eq_refl); lia|].
    cbn in Ec. discriminate. }
  destruct (is_string_at buf j3 slash_slash) eqn:Esl.
  - destruct (skip_line_ok fuel buf j3) as (j4 & H4 & B4 & S4); [lia|lia|]. rewrite H4.
    assert (Hlt : j < j4) by (apply Hstrict; [lia|intros _; apply S4; exact Esl]).
    specialize (IH fuel buf pos j4 Hfuel). 
    assert (Hr : space_tok_ok buf pos j4 (scan_space_loop skip_line n fuel buf pos j4))
      by (apply IH; lia).
    destruct (scan_space_loop skip_line n fuel buf pos j4); cbn in *; auto.
    destruct Hr as (Ht & Hb & Hp & Hbd & _).
    split; [exact Ht|]. split; [exact Hb|]. split; [exact Hp|]. split; [lia|intros _; lia].
  - assert (Hlt : j < j3) by (apply Hstrict; [lia|discriminate]).
    assert (Hr : space_tok_ok buf pos j3 (scan_space_loop skip_line n fuel buf pos j3))
      by (apply IH; lia).
    destruct (scan_space_loop skip_line n fuel buf pos j3); cbn in *; auto.
    destruct Hr as (Ht & Hb & Hp & Hbd & _).
    split; [exact Ht|]. split; [exact Hb|]. split; [exact Hp|]. split; [lia|intros _; lia].
Qed.

Lemma scan_space_ok : forall fuel buf pos,
  List.length buf < fuel -> pos <= List.length buf ->
  space_tok_ok buf pos pos (scan_space fuel buf pos).
Proof. intros. unfold scan_space. apply scan_space_loop_ok; lia. Qed.

(* ------------------------------------------------------------------ identifier, int, strings *)

Definition loop_tok_ok (buf : bytes) (ty0 : ttype) (pos i : nat) (strict : bool) (o : outcome) : Prop :=
  match o with
  | Tok ty b l _ => ty = ty0 /\ b = pos /\ i <= l /\ (strict = true -> i < l) /\ pos + l <= List.length buf
  | Diag _ => True
  | OutOfFuel => False
  end.

Ltac tok_done :=
  cbn; repeat match goal with |- _ /\ _ => split end;
  first [reflexivity | lia | discriminate | (intros _; lia)].

Lemma scan_ident_loop_ok : forall fuel buf pos i,
  pos + i <= List.length buf -> List.length buf - (pos + i) < fuel ->
  loop_tok_ok buf IDENTIFIER pos i false (scan_ident_loop fuel buf pos i).
Proof.
  induction fuel as [|f IH]; intros buf pos i Hle Hf; [lia|].
  cbn [scan_ident_loop].
  destruct (pos + i =? List.length buf) eqn:Ee.
  { tok_done. }
  apply Nat.eqb_neq in Ee.
  destruct (nth_error buf (pos + i)) as [c|] eqn:En; [|exact I].
  destruct (is_alnum c || (c =? 95)).
  - assert (Hr : loop_tok_ok buf IDENTIFIER pos (S i) false (scan_ident_loop f buf pos (S i)))
      by (apply IH; lia).
    destruct (scan_ident_loop f buf pos (S i)); cbn in *; auto.
    destruct Hr as (Ht & Hb & Hi & _ & Hl).
    split; [exact Ht|]. split; [exact Hb|]. split; [lia|]. split; [discriminate|lia].
  - tok_done.
Qed.

Lemma scan_int_loop_ok : forall fuel buf pos i n c,
  nth_error buf (pos + i) = Some c -> List.length buf - (pos + i) <= fuel ->
  loop_tok_ok buf INT_IMM pos i (is_number c) (scan_int_loop fuel buf pos i n c)
  /\ (forall ty b l p, scan_int_loop fuel buf pos i n c = Tok ty b l p -> pos + l < List.length buf).
Proof.
  induction fuel as [|f IH]; intros buf pos i n c Hc Hf.
  { apply nth_some_lt in Hc. lia. }
  pose proof (nth_some_lt _ _ _ Hc) as Hlt.
  cbn [scan_int_loop].
  destruct (is_number c) eqn:En.
  - destruct (nth_error buf (pos + S i)) as [c'|] eqn:Ec'; [|split; [exact I|discriminate]].
    replace (pos + S i) with (pos + (S i)) in Ec' by lia.
    destruct (IH buf pos (S i) (wrap64 (10 * n + Z.of_nat (c - 48))) c' Ec') as [Hr Hs]; [lia|].
    split.
    + destruct (scan_int_loop f buf pos (S i) (wrap64 (10 * n + Z.of_nat (c - 48))) c'); cbn in *; auto.
      destruct Hr as (Ht & Hb & Hi & _ & Hl).
      split; [exact Ht|]. split; [exact Hb|]. split; [lia|]. split; [intros _; lia|lia].
    + exact Hs.
  - split.
    + tok_done.
    + intros ty b l p H. inversion H; subst. lia.
Qed.

Lemma scan_string_loop_ok : forall fuel buf pos i acc,
  pos + i <= List.length buf -> List.length buf - (pos + i) < fuel ->
  loop_tok_ok buf STRING pos i true (scan_string_loop fuel buf pos i acc).
Proof.
  induction fuel as [|f IH]; intros buf pos i acc Hle Hf; [lia|].
  cbn [scan_string_loop].
  destruct (pos + i =? List.length buf) eqn:Ee; [exact I|].
  apply Nat.eqb_neq in Ee.
  destruct (nth_error buf (pos + i)) as [c|] eqn:En; [|exact I].
  pose proof (nth_some_lt _ _ _ En) as Hlt.
  destruct (c =? 34).
  { tok_done. }
  destruct (c =? 92).
  - destruct (pos + S i =? List.length buf) eqn:Ee2; [exact I|].
    apply Nat.eqb_neq in Ee2.
    destruct (nth_error buf (pos + S i)) as [c2|] eqn:En2; [|exact I].
    pose proof (nth_some_lt _ _ _ En2) as Hlt2.
    assert (Hr : loop_tok_ok buf STRING pos (S (S i)) true
                   (scan_string_loop f buf pos (S (S i)) (c2 :: c :: acc))) by (apply IH; lia).
    destruct (scan_string_loop f buf pos (S (S i)) (c2 :: c :: acc)); cbn in *; auto.
    destruct Hr as (Ht & Hb & Hi & _ & Hl).
    split; [exact Ht|]. split; [exact Hb|]. split; [lia|]. split; [intros _; lia|lia].
  - assert (Hstep : forall acc', loop_tok_ok buf STRING pos i true (scan_string_loop f buf pos (S i) acc')).
    { intros acc'.
      assert (Hr : loop_tok_ok buf STRING pos (S i) true
                     (scan_string_loop f buf pos (S i) acc')) by (apply IH; lia).
      destruct (scan_string_loop f buf pos (S i) acc'); cbn in *; auto.
      destruct Hr as (Ht & Hb & Hi & _ & Hl).
      split; [exact Ht|]. split; [exact Hb|]. split; [lia|]. split; [intros _; lia|lia]. }
    destruct (c =? 10); [apply Hstep|].
    destruct (bom_at buf (pos + i)) eqn:Eb; [|apply Hstep].
    apply bom_at_inside in Eb.
    assert (Hr : loop_tok_ok buf STRING pos (S (S (S i))) true
                   (scan_string_loop f buf pos (S (S (S i))) (bom_escape_rev ++ acc))) by (apply IH; lia).
    destruct (scan_string_loop f buf pos (S (S (S i))) (bom_escape_rev ++ acc)); cbn in *; auto.
    destruct Hr as (Ht & Hb & Hi & _ & Hl).
    split; [exact Ht|]. split; [exact Hb|]. split; [lia|]. split; [intros _; lia|lia].
Qed.

Lemma scan_raw_loop_ok : forall fuel buf pos i acc,
  pos + i <= List.length buf -> List.length buf - (pos + i) < fuel ->
  loop_tok_ok buf STRING pos i true (scan_raw_loop fuel buf pos i acc).
Proof.
  induction fuel as [|f IH]; intros buf pos i acc Hle Hf; [lia|].
  cbn [scan_raw_loop].
  destruct (pos + i =? List.length buf) eqn:Ee; [exact I|].
  apply Nat.eqb_neq in Ee.
  destruct (nth_error buf (pos + i)) as [c|] eqn:En; [|exact I].
  pose proof (nth_some_lt _ _ _ En) as Hlt.
  assert (Hstep : forall acc', loop_tok_ok buf STRING pos i true (scan_raw_loop f buf pos (S i) acc')).
  { intros acc'.
    assert (Hr : loop_tok_ok buf STRING pos (S i) true (scan_raw_loop f buf pos (S i) acc'))
      by (apply IH; lia).
    destruct (scan_raw_loop f buf pos (S i) acc'); cbn in *; auto.
    destruct Hr as (Ht & Hb & Hi & _ & Hl).
    split; [exact Ht|]. split; [exact Hb|]. split; [lia|]. split; [intros _; lia|lia]. }
  destruct (c =? 96).
  { tok_done. }
  destruct (c =? 92); [apply Hstep|].
  destruct (c =? 34); [apply Hstep|].
  destruct (c =? 10); [apply Hstep|].
  destruct (bom_at buf (pos + i)) eqn:Eb; [|apply Hstep].
  apply bom_at_inside in Eb.
  assert (Hr : loop_tok_ok buf STRING pos (S (S (S i))) true
                 (scan_raw_loop f buf pos (S (S (S i))) (bom_escape_rev ++ acc))) by (apply IH; lia).
  destruct (scan_raw_loop f buf pos (S (S (S i))) (bom_escape_rev ++ acc)); cbn in *; auto.
  destruct Hr as (Ht & Hb & Hi & _ & Hl).
  split; [exact Ht|]. split; [exact Hb|]. split; [lia|]. split; [intros _; lia|lia].
Qed.

(* ------------------------------------------------------------------ scanTokenAt *)

(** what a successful scan at [pos] looks like: the token starts at [pos] — or at [pos+1] for an
    interpolated string, whose token excludes the dollar sign —, is not empty and lies inside
    the buffer *)
Definition scan_ok (buf : bytes) (pos : nat) (o : outcome) : Prop :=
  match o with
  | Tok ty b l _ => ty <> EOF /\ (b = pos \/ (ty = SINTERP /\ b = S pos)) /\ 0 < l /\
                    b + l <= List.length buf
  | Diag _ => True
  | OutOfFuel => False
  end.

Lemma lookup_keyword_in : forall tbl s kw, lookup_keyword tbl s = Some kw -> In kw (map snd tbl).
Proof.
  induction tbl as [|[k t] tbl IH]; intros s kw H; cbn [lookup_keyword] in H; [discriminate|].
  destruct (bytes_eqb k s).
  - inversion H; subst. left. reflexivity.
  - right. eapply IH; eauto.
Qed.

Lemma keyword_not_special : forall s kw,
  lookup_keyword keyword_table s = Some kw -> kw <> EOF /\ kw <> SPACE /\ kw <> SINTERP.
Proof.
  intros s kw H. apply lookup_keyword_in in H.
  unfold keyword_table, keyword_names in H. cbn [map snd fst] in H.
  repeat (destruct H as [H|H]; [subst kw; repeat split; discriminate|]).
  destruct H.
Qed.

Lemma space_leaf : forall fuel buf pos,
  List.length buf < fuel -> pos < List.length buf -> space_cond buf pos = true ->
  scan_ok buf pos (scan_space fuel buf pos).
Proof.
  intros fuel buf pos Hf Hp Hc.
  pose proof (scan_space_ok fuel buf pos Hf (Nat.lt_le_incl _ _ Hp)) as H.
  destruct (scan_space fuel buf pos); cbn in *; auto.
  destruct H as (Ht & Hb & _ & Hbd & Hs). specialize (Hs Hc). subst.
  split; [discriminate|]. split; [left; reflexivity|]. lia.
Qed.

Lemma ident_leaf : forall fuel buf pos,
  List.length buf < fuel -> pos < List.length buf ->
  scan_ok buf pos (keywordize (scan_ident fuel buf pos)).
Proof.
  intros fuel buf pos Hf Hp. unfold scan_ident.
  pose proof (scan_ident_loop_ok fuel buf pos 1) as H.
  assert (H' : loop_tok_ok buf IDENTIFIER pos 1 false (scan_ident_loop fuel buf pos 1)) by (apply H; lia).
  clear H. destruct (scan_ident_loop fuel buf pos 1) as [ty b l p| |];
    cbn [loop_tok_ok keywordize scan_ok] in *; auto.
  destruct H' as (Ht & Hb & Hi & _ & Hl). subst.
  destruct p as [|s|z]; cbn [scan_ok].
  - split; [discriminate|]. split; [left; reflexivity|]. lia.
  - destruct (lookup_keyword keyword_table s) as [kw|] eqn:Ek; cbn [scan_ok].
    + apply keyword_not_special in Ek. destruct Ek as (E1 & _).
      split; [exact E1|]. split; [left; reflexivity|]. lia.
    + split; [discriminate|]. split; [left; reflexivity|]. lia.
  - split; [discriminate|]. split; [left; reflexivity|]. lia.
Qed.

Lemma int_leaf : forall fuel buf pos b,
  List.length buf < fuel -> nth_error buf pos = Some b -> is_number b = true ->
  scan_ok buf pos (scan_int fuel buf pos).
Proof.
  intros fuel buf pos b Hf Hb Hn. unfold scan_int. rewrite Hb.
  assert (Hb' : nth_error buf (pos + 0) = Some b) by (rewrite Nat.add_0_r; exact Hb).
  destruct (scan_int_loop_ok fuel buf pos 0 0%Z b Hb') as [H _]; [lia|].
  destruct (scan_int_loop fuel buf pos 0 0 b); cbn in *; auto.
  destruct H as (Ht & Hbeg & _ & Hs & Hl). specialize (Hs Hn). subst.
  split; [discriminate|]. split; [left; reflexivity|]. lia.
Qed.

Lemma string_leaf : forall fuel buf pos,
  List.length buf < fuel -> pos < List.length buf ->
  loop_tok_ok buf STRING pos 1 true (scan_string fuel buf pos).
Proof. intros. unfold scan_string. apply scan_string_loop_ok; lia. Qed.

Lemma raw_leaf : forall fuel buf pos,
  List.length buf < fuel -> pos < List.length buf ->
  loop_tok_ok buf STRING pos 1 true (scan_raw fuel buf pos).
Proof. intros. unfold scan_raw. apply scan_raw_loop_ok; lia. Qed.

Lemma loop_tok_scan_ok : forall buf pos o,
  loop_tok_ok buf STRING pos 1 true o -> scan_ok buf pos o.
Proof.
  intros buf pos o H. destruct o; cbn in *; auto.
  destruct H as (Ht & Hb & Hi & _ & Hl). subst.
  split; [discriminate|]. split; [left; reflexivity|]. lia.
Qed.

Lemma loop_tok_sinterp_ok : forall buf pos o,
  loop_tok_ok buf STRING (pos + 1) 1 true o -> scan_ok buf pos (retype SINTERP o).
Proof.
  intros buf pos o H. destruct o; cbn in *; auto.
  destruct H as (Ht & Hb & Hi & _ & Hl). subst.
  split; [discriminate|]. split; [right; split; [reflexivity|lia]|]. lia.
Qed.

Lemma byte_is_char_at : forall buf pos b c,
  nth_error buf pos = Some b -> (b =? c) = true -> is_char_at buf pos c = true.
Proof. intros buf pos b c H E. unfold is_char_at. rewrite H. exact E. Qed.

Lemma scan_token_at_ok : forall fuel buf pos,
  List.length buf < fuel -> pos < List.length buf ->
  scan_ok buf pos (scan_token_at fuel buf pos).
Proof.
  intros fuel buf pos Hf Hp. unfold scan_token_at.
  destruct (pos =? List.length buf) eqn:E; [apply Nat.eqb_eq in E; lia|]. clear E.
  destruct (nth_error buf pos) as [b|] eqn:Eb; [|apply nth_none_ge in Eb; lia].
  repeat match goal with
         | |- context [if ?c then _ else _] => let H := fresh "C" in destruct c eqn:H
         end;
  try exact I;
  try (unfold one_char; cbn; split; [discriminate|]; split; [left; reflexivity|]; lia);
  try (match goal with
       | H : is_char_at buf (pos + 1) _ = true |- scan_ok _ _ (st_like _ _ _) =>
         apply is_char_at_true_lt in H; unfold st_like; cbn;
         split; [discriminate|]; split; [left; reflexivity|]; lia
       end).
  - (* space or tab *)
    apply space_leaf; auto. unfold space_cond.
    apply orb_true_iff in C. destruct C as [C|C].
    + rewrite (byte_is_char_at _ _ _ _ Eb C). reflexivity.
    + rewrite (byte_is_char_at _ _ _ _ Eb C). apply orb_true_r.
  - (* slash followed by star or slash *)
    apply space_leaf; auto. unfold space_cond, slash_star, slash_slash. cbn [is_string_at].
    rewrite Eb, C0. cbn [andb].
    apply orb_true_iff in C1. replace (pos + 1) with (S pos) in C1 by lia.
    destruct C1 as [C1|C1]; apply is_char_at_true_nth in C1; rewrite C1; cbn;
      rewrite ?orb_true_r; reflexivity.
  - apply ident_leaf; auto.
  - eapply int_leaf; eauto.
  - apply loop_tok_scan_ok, string_leaf; auto.
  - apply loop_tok_scan_ok, raw_leaf; auto.
  - apply loop_tok_sinterp_ok, string_leaf; auto. apply is_char_at_true_lt in C6. exact C6.
  - apply loop_tok_sinterp_ok, raw_leaf; auto. apply is_char_at_true_lt in C7. exact C7.
Qed.

(** C16 scanner totality: with fuel length+1, scanning at any position of the buffer yields EOF
    (exactly at the end), a diagnostic, or a non-empty token inside the buffer that begins at
    [pos] (at [pos+1] for an interpolated string) — never OutOfFuel. *)
Theorem scan_total : forall buf pos,
  pos <= List.length buf ->
  (pos = List.length buf /\ scan_token_at (S (List.length buf)) buf pos = Tok EOF pos 0 PNone)
  \/ (pos < List.length buf /\ scan_ok buf pos (scan_token_at (S (List.length buf)) buf pos)).
Proof.
  intros buf pos Hp. destruct (Nat.eq_dec pos (List.length buf)) as [E|E].
  - left. split; [exact E|]. unfold scan_token_at. rewrite (proj2 (Nat.eqb_eq _ _) E). reflexivity.
  - right. split; [lia|]. apply scan_token_at_ok; lia.
Qed.

(* ------------------------------------------------------------------ nextToken *)

(** a result of nextToken from position [p]: the EOF token at the end of the buffer, a diagnostic,
    or a non-SPACE, non-empty token that starts at or after [p] and lies inside the buffer *)
Definition next_ok (buf : bytes) (p : nat) (o : outcome) : Prop :=
  match o with
  | Tok ty b l _ =>
    (ty = EOF /\ b = List.length buf /\ l = 0) \/
    (ty <> EOF /\ ty <> SPACE /\ p <= b /\ 0 < l /\ b + l <= List.length buf)
  | Diag _ => True
  | OutOfFuel => False
  end.

Lemma next_token_loop_ok : forall n fuel buf q p,
  List.length buf < fuel -> p <= q -> q <= List.length buf -> List.length buf - q < n ->
  next_ok buf p (next_token_loop n fuel buf (scan_token_at fuel buf q)).
Proof.
  induction n as [|n IH]; intros fuel buf q p Hf Hpq Hq Hn; [lia|].
  cbn [next_token_loop].
  destruct (Nat.eq_dec q (List.length buf)) as [E|E].
  - unfold scan_token_at. rewrite (proj2 (Nat.eqb_eq _ _) E). cbn. left. auto.
  - pose proof (scan_token_at_ok fuel buf q Hf ltac:(lia)) as H.
    destruct (scan_token_at fuel buf q) as [ty b l pl| |]; cbn [scan_ok] in H; [|exact I|contradiction].
    destruct H as (Hne & Hb & Hl & Hbd).
    assert (Hge : q <= b) by (destruct Hb as [->|[_ ->]]; lia).
    destruct ty; try (cbn; right; repeat split; try discriminate; try lia; exact Hne).
    (* SPACE: scan again at its end *)
    destruct Hb as [->|[Hx _]]; [|discriminate].
    apply IH; lia.
Qed.

(** C16 progress of nextToken: never OutOfFuel, and any token other than EOF ends strictly after
    the position it was asked to continue from *)
Theorem next_token_progress : forall buf p,
  next_ok buf p (next_token (S (List.length buf)) buf p).
Proof.
  intros buf p. unfold next_token.
  destruct (List.length buf <=? p) eqn:E.
  - cbn. left. auto.
  - apply Nat.leb_gt in E. apply next_token_loop_ok; lia.
Qed.

(* ------------------------------------------------------------------ the token stream *)

Lemma tokenize_ok : forall steps buf p acc,
  List.length buf - p < steps ->
  match tokenize steps (S (List.length buf)) buf p acc with
  | TDone _ | TDiag _ _ => True
  | TOutOfFuel | TOutOfSteps => False
  end.
Proof.
  induction steps as [|s IH]; intros buf p acc Hs; [lia|].
  cbn [tokenize].
  pose proof (next_token_progress buf p) as H.
  destruct (next_token (S (List.length buf)) buf p) as [ty b l pl| |]; cbn [next_ok] in H;
    [|exact I|contradiction].
  destruct H as [(-> & _)|(Hne & _ & Hpb & Hl & Hbd)]; [exact I|].
  destruct ty; try contradiction; apply IH; lia.
Qed.

(** C16 tokenizer termination: iterating nextToken from any position reaches EOF or a diagnostic
    within (length buf + 1) tokens *)
Theorem tokenize_terminates : forall buf p acc,
  match tokenize (S (List.length buf)) (S (List.length buf)) buf p acc with
  | TDone _ | TDiag _ _ => True
  | TOutOfFuel | TOutOfSteps => False
  end.
Proof. intros. apply tokenize_ok. lia. Qed.

(* ------------------------------------------------------------------ reinterpretEscape *)

Lemma reinterpret_loop_ok : forall fuel buf i acc,
  i <= List.length buf -> List.length buf - i < fuel ->
  reinterpret_loop fuel buf i acc <> EOutOfFuel.
Proof.
  induction fuel as [|f IH]; intros buf i acc Hi Hf; [lia|].
  cbn [reinterpret_loop].
  destruct (i =? List.length buf) eqn:E; [discriminate|]. apply Nat.eqb_neq in E.
  destruct (nth_error buf i) as [c|] eqn:En; [|discriminate].
  destruct (c =? 92).
  - destruct (S i =? List.length buf) eqn:E2; [discriminate|]. apply Nat.eqb_neq in E2.
    destruct (nth_error buf (S i)) as [c2|] eqn:En2; [|discriminate].
    apply IH; lia.
  - apply IH; lia.
Qed.

Theorem reinterpret_escape_total : forall buf,
  reinterpret_escape (S (List.length buf)) buf <> EOutOfFuel.
Proof. intros. unfold reinterpret_escape. apply reinterpret_loop_ok; lia. Qed.

(* ------------------------------------------------------------------ ParseSInterP *)

Lemma find_close_ok : forall fuel buf i,
  List.length buf - i < fuel ->
  match find_close fuel buf i with
  | CFound e => i <= e < List.length buf
  | CDiag _ => True
  | COutOfFuel => False
  end.
Proof.
  induction fuel as [|f IH]; intros buf i Hf; [lia|].
  cbn [find_close].
  destruct (nth_error buf i) as [c|] eqn:En; [|exact I].
  pose proof (nth_some_lt _ _ _ En) as Hlt.
  destruct (c =? 125); [lia|].
  destruct (S i =? List.length buf) eqn:E; [exact I|]. apply Nat.eqb_neq in E.
  specialize (IH buf (S i) ltac:(lia)).
  destruct (find_close f buf (S i)); auto. lia.
Qed.

Lemma parse_sinterp_loop_ok : forall n fuel buf i res vars,
  List.length buf < fuel -> List.length buf - i < n ->
  parse_sinterp_loop n fuel buf i res vars <> SOutOfFuel.
Proof.
  induction n as [|n IH]; intros fuel buf i res vars Hf Hn; [lia|].
  cbn [parse_sinterp_loop].
  destruct (i <? List.length buf) eqn:E; [|discriminate]. apply Nat.ltb_lt in E.
  destruct (nth_error buf i) as [c|] eqn:En; [|discriminate].
  destruct (c =? 92).
  { destruct (S i =? List.length buf); [discriminate|].
    destruct (nth_error buf (S i)); [|discriminate].
    destruct ((n0 =? 123) || (n0 =? 125)); apply IH; lia. }
  destruct (c =? 123).
  { pose proof (find_close_ok fuel buf (S i) ltac:(lia)) as H.
    destruct (find_close fuel buf (S i)); [|discriminate|contradiction].
    apply IH; lia. }
  destruct (c =? 37); apply IH; lia.
Qed.

(** C16 ParseSInterP totality: a format with its variables, or a diagnostic — never OutOfFuel *)
Theorem parse_sinterp_total : forall buf,
  match parse_sinterp (S (List.length buf)) buf with
  | SOk _ _ | SDiag _ => True
  | SOutOfFuel => False
  end.
Proof.
  intros buf. pose proof (parse_sinterp_loop_ok (S (List.length buf)) (S (List.length buf)) buf 0 [] []) as H.
  unfold parse_sinterp. destruct (parse_sinterp_loop _ _ buf 0 [] []); auto.
  apply H; [lia|lia|reflexivity].
Qed.

(* ------------------------------------------------------------------ the repaired defect *)

Definition eof_comment : bytes := [47; 47; 120].     (* the three bytes //x, no newline *)

Lemma skip_line_old_eof_comment : forall fuel j, skip_line_old fuel eof_comment j = None.
Proof.
  induction fuel as [|f IH]; intros j; [reflexivity|].
  cbn [skip_line_old].
  assert (E : is_char_at eof_comment j 10 = false).
  { destruct j as [|[|[|j]]]; try reflexivity. unfold is_char_at, eof_comment. cbn.
    destruct j; reflexivity. }
  rewrite E. cbn [negb]. apply IH.
Qed.

(** the scanner before commit 454a055 (no end-of-buffer guard in the line-comment loop): on a buffer
    that ends inside a line comment every amount of fuel runs out — the loop never ends *)
Theorem scan_space_old_eof_comment_refuted :
  exists buf, forall fuel, scan_space_old fuel buf 0 = OutOfFuel.
Proof.
  exists eof_comment. intros fuel. unfold scan_space_old.
  destruct fuel as [|f]; [reflexivity|].
  cbn [scan_space_loop].
  replace (space_cond eof_comment 0) with true by reflexivity.
  replace (skip_char (S f) eof_comment 0 32) with (Some 0) by reflexivity.
  replace (skip_char (S f) eof_comment 0 9) with (Some 0) by reflexivity.
  replace (is_string_at eof_comment 0 slash_star) with false by reflexivity.
  replace (is_string_at eof_comment 0 slash_slash) with true by reflexivity.
  rewrite skip_line_old_eof_comment. reflexivity.
Qed.

(** the same buffer on the scanner as it is now: one SPACE token of length 3 *)
Example scan_space_eof_comment_now :
  scan_space 4 eof_comment 0 = Tok SPACE 0 3 PNone.
Proof. vm_compute. reflexivity. Qed.
