(** C16: the list-parsing loops of fc (ParseList, ParseList2 in fc/wrapper.go, ParseSepList in
    fc/parse_state.fo) over an abstract parser state.

      ParseList one endPred ps:        for !endPred(ps) { ps, r = one(ps); res = append(res, r) }
      ParseList2 one endPred next ps:  ps, r = one(ps); res = [r]
                                       for !endPred(ps) { ps = next(ps); ps, r = one(ps); res = append(res, r) }
      ParseSepList one sep ps = ParseList2 one (psCurIsNot sep) (psConsume sep) ps

    [one] and [next] may panic (None = a diagnostic). The state carries a measure [remaining]
    (tokens left in the buffer, finite by tokenize_terminates). The loops are Go [for] loops, so
    they take fuel; the theorem: if every successful [one] consumes at least one token and [next]
    does not give tokens back, fuel [remaining + 1] is never exhausted.
    Model and proofs are in this one file (they are a page). *)
From Coq Require Import List Arith Bool Lia.
Import ListNotations.

Section ListLoop.
  Variable ps : Type.                               (* ParseState *)
  Variable T : Type.
  Variable remaining : ps -> nat.
  Variable one : ps -> option (ps * T).
  Variable end_pred : ps -> bool.
  Variable next : ps -> option ps.

  Inductive lres :=
  | LOk (p : ps) (res : list T)
  | LDiag
  | LOutOfFuel.

  Fixpoint parse_list (fuel : nat) (p : ps) (acc : list T) : lres :=
    match fuel with
    | 0 => LOutOfFuel
    | S f =>
      if end_pred p then LOk p (rev acc)
      else match one p with
           | None => LDiag
           | Some (p', r) => parse_list f p' (r :: acc)
           end
    end.

  Fixpoint parse_list2_loop (fuel : nat) (p : ps) (acc : list T) : lres :=
    match fuel with
    | 0 => LOutOfFuel
    | S f =>
      if end_pred p then LOk p (rev acc)
      else match next p with
           | None => LDiag
           | Some p1 =>
             match one p1 with
             | None => LDiag
             | Some (p2, r) => parse_list2_loop f p2 (r :: acc)
             end
           end
    end.

  Definition parse_list2 (fuel : nat) (p : ps) : lres :=
    match one p with
    | None => LDiag
    | Some (p1, r) => parse_list2_loop fuel p1 [r]
    end.

  (** a step either fails or consumes at least one token; the separator step gives none back *)
  Hypothesis one_consumes : forall p p' r, one p = Some (p', r) -> remaining p' < remaining p.
  Hypothesis next_no_gain : forall p p', next p = Some p' -> remaining p' <= remaining p.

  Definition terminated (p0 : ps) (o : lres) : Prop :=
    match o with
    | LOk p _ => remaining p <= remaining p0
    | LDiag => True
    | LOutOfFuel => False
    end.

  Lemma parse_list_ok : forall fuel p acc,
    remaining p < fuel -> terminated p (parse_list fuel p acc).
  Proof.
    induction fuel as [|f IH]; intros p acc Hf; [lia|].
    cbn [parse_list]. destruct (end_pred p); [cbn; lia|].
    destruct (one p) as [[p' r]|] eqn:E; [|exact I].
    apply one_consumes in E. specialize (IH p' (r :: acc) ltac:(lia)).
    destruct (parse_list f p' (r :: acc)); cbn in *; auto. lia.
  Qed.

  Lemma parse_list2_loop_ok : forall fuel p acc,
    remaining p < fuel -> terminated p (parse_list2_loop fuel p acc).
  Proof.
    induction fuel as [|f IH]; intros p acc Hf; [lia|].
    cbn [parse_list2_loop]. destruct (end_pred p); [cbn; lia|].
    destruct (next p) as [p1|] eqn:En; [|exact I]. apply next_no_gain in En.
    destruct (one p1) as [[p2 r]|] eqn:E; [|exact I].
    apply one_consumes in E. specialize (IH p2 (r :: acc) ltac:(lia)).
    destruct (parse_list2_loop f p2 (r :: acc)); cbn in *; auto. lia.
  Qed.

  (** C16: ParseList terminates within remaining+1 rounds: a list and a state that is not behind
      the start, or a diagnostic — never OutOfFuel *)
  Theorem parse_list_progress : forall p,
    terminated p (parse_list (S (remaining p)) p []).
  Proof. intros p. apply parse_list_ok. lia. Qed.

  Theorem parse_list2_progress : forall p,
    terminated p (parse_list2 (S (remaining p)) p).
  Proof.
    intros p. unfold parse_list2. destruct (one p) as [[p1 r]|] eqn:E; [|exact I].
    apply one_consumes in E.
    pose proof (parse_list2_loop_ok (S (remaining p)) p1 [r] ltac:(lia)) as H.
    destruct (parse_list2_loop (S (remaining p)) p1 [r]); cbn in *; auto. lia.
  Qed.
End ListLoop.

Arguments LOk {ps T}.
Arguments LDiag {ps T}.
Arguments LOutOfFuel {ps T}.

(** ParseSepList: ParseList2 with endPred = "the current token is not the separator" and
    next = "consume the separator" *)
Section SepList.
  Variable ps : Type.
  Variable T : Type.
  Variable remaining : ps -> nat.
  Variable one : ps -> option (ps * T).
  Variable cur_is_sep : ps -> bool.
  Variable consume_sep : ps -> option ps.            (* psConsume sep: panics on another token *)

  Definition parse_sep_list (fuel : nat) (p : ps) : lres ps T :=
    parse_list2 ps T one (fun p => negb (cur_is_sep p)) consume_sep fuel p.

  Hypothesis one_consumes : forall p p' r, one p = Some (p', r) -> remaining p' < remaining p.
  Hypothesis consume_no_gain : forall p p', consume_sep p = Some p' -> remaining p' <= remaining p.

  Theorem parse_sep_list_progress : forall p,
    terminated ps T remaining p (parse_sep_list (S (remaining p)) p).
  Proof. intros p. apply parse_list2_progress; assumption. Qed.
End SepList.

(** the hypothesis is needed: a step that succeeds without consuming loops forever *)
Theorem parse_list_stuck_step_refuted :
  forall fuel, parse_list nat unit (fun p => Some (p, tt)) (fun _ => false) fuel 0 [] = LOutOfFuel.
Proof.
  intros fuel. generalize (@nil unit). induction fuel as [|f IH]; intros acc; [reflexivity|].
  cbn [parse_list]. apply IH.
Qed.

(** a concrete instance: the state is the list of remaining tokens, an element is a number token
    (< 100), the separator is token 100 *)
Definition ex_one (p : list nat) : option (list nat * nat) :=
  match p with
  | x :: r => if x <? 100 then Some (r, x) else None
  | [] => None
  end.
Definition ex_is_sep (p : list nat) : bool := match p with 100 :: _ => true | _ => false end.
Definition ex_consume (p : list nat) : option (list nat) := match p with 100 :: r => Some r | _ => None end.

Example parse_sep_list_example :
  parse_sep_list (list nat) nat ex_one ex_is_sep ex_consume 8 [1; 100; 2; 100; 3; 7; 100]
  = LOk [7; 100] [1; 2; 3].
Proof. vm_compute. reflexivity. Qed.

Example parse_sep_list_example_diag :
  parse_sep_list (list nat) nat ex_one ex_is_sep ex_consume 5 [1; 100; 100; 2] = LDiag.
Proof. vm_compute. reflexivity. Qed.
