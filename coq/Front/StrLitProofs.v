(** C11 — proofs about Front/StrLit.v: the three layers compose to the denotation. *)
From Coq Require Import List String Ascii NArith ZArith Bool Lia.
From FoVerif Require Import Front.StrLit.
Import ListNotations.
Local Open Scope char_scope.

(** ---------------------------------------------------------------- small facts *)

Lemma eqb_false_neq : forall a c : ascii, Ascii.eqb a c = false -> a <> c.
Proof. intros a c H E. subst. rewrite Ascii.eqb_refl in H. discriminate. Qed.

Definition identc (c : ascii) : bool := is_alpha_ c || is_digit c.

(** an identifier character is none of the special characters *)
Lemma identc_not : forall c x,
  identc c = true -> identc x = false -> Ascii.eqb c x = false.
Proof.
  intros c x Hc Hx. destruct (Ascii.eqb_spec c x) as [E|E]; [|reflexivity].
  subst. rewrite Hc in Hx. discriminate.
Qed.

Lemma valid_ident_chars : forall n, valid_ident n = true -> forallb identc n = true.
Proof.
  intros [|c r] H; [discriminate|]. simpl in *.
  apply andb_prop in H. destruct H as [H1 H2]. unfold identc at 1. rewrite H1. simpl. exact H2.
Qed.

Ltac rw_eqb :=
  repeat match goal with
         | H : Ascii.eqb ?a ?c = false |- context [Ascii.eqb ?a ?c] => rewrite H
         end.

Ltac special x := (apply identc_not; [assumption | vm_compute; reflexivity]).

(** ---------------------------------------------------------------- images of a piece in each layer *)

(** what scanStringLiteralToken writes for one ordinary byte of a quoted body *)
Definition esc_str (c : ascii) : bytes := if Ascii.eqb c LF then [BS; "n"] else [c].

Definition lit1 (f : form) (p : piece) : bytes :=
  match p with
  | PBom => BOM_ESC
  | _ =>
    if is_raw f then flat_map esc_raw (spell1 p)
    else match p with PChar c => esc_str c | _ => spell1 p end
  end.

Definition fmt1 (f : form) (p : piece) : bytes :=
  match p with
  | PChar c => if Ascii.eqb c PCT then [PCT; PCT] else lit1 f p
  | PEsc c => [BS; c]
  | PBrace c => [c]
  | PHole _ => [PCT; "s"]
  | PBom => BOM_ESC
  end.

Definition uq1 (p : piece) : bytes :=
  match p with
  | PChar c => if Ascii.eqb c PCT then [PCT; PCT] else [c]
  | PEsc c => [esc_meaning c]
  | PBrace c => [c]
  | PHole _ => [PCT; "s"]
  | PBom => BOM
  end.

Definition holes (ps : list piece) : list bytes :=
  flat_map (fun p => match p with PHole n => [n] | _ => [] end) ps.

Lemma lit1_nonraw_esc : forall f c, is_raw f = false -> lit1 f (PEsc c) = spell1 (PEsc c).
Proof. intros f c H. unfold lit1. rewrite H. reflexivity. Qed.

(** ---------------------------------------------------------------- layer 1 *)

(** the next two bytes are the rest of a byte order mark *)
Definition starts_bbbf (l : bytes) : bool :=
  match l with c2 :: c3 :: _ => Ascii.eqb c2 BB && Ascii.eqb c3 BF | _ => false end.

Definition safe_head (tail : bytes) : bool :=
  match tail with [] => true | c :: _ => negb (Ascii.eqb c BB) && negb (Ascii.eqb c BF) end.

Lemma nosplit_tail : forall p ps, nosplit (p :: ps) = true -> nosplit ps = true.
Proof. intros p ps H. cbn [nosplit] in H. apply andb_prop in H. tauto. Qed.

(** an ordinary character that is the first byte of a byte order mark is not followed by the other two *)
Lemma nosplit_lookahead : forall c ps tail,
  nosplit (PChar c :: ps) = true -> safe_head tail = true ->
  Ascii.eqb c EF && starts_bbbf (spell ps ++ tail) = false.
Proof.
  intros c ps tail H Ht. destruct (Ascii.eqb c EF) eqn:Ec; [|reflexivity]. simpl.
  cbn [nosplit] in H. apply andb_prop in H. destruct H as [H _]. rewrite Ec in H.
  unfold spell.
  destruct ps as [|p1 ps].
  - simpl. destruct tail as [|t1 [|t2 tail]]; simpl in *; try reflexivity.
    apply andb_prop in Ht. destruct Ht as [Ht _]. apply negb_true_iff in Ht. rewrite Ht. reflexivity.
  - destruct p1 as [c2|c2|c2|n|]; simpl; try reflexivity;
      try (destruct (((n ++ [RBR]) ++ flat_map spell1 ps) ++ tail); reflexivity).
    destruct (Ascii.eqb c2 BB) eqn:E2; [|destruct (flat_map spell1 ps ++ tail); reflexivity].
    destruct ps as [|p2 ps].
    + simpl. destruct tail as [|t1 tail]; simpl in *; [reflexivity|].
      apply andb_prop in Ht. destruct Ht as [_ Ht]. apply negb_true_iff in Ht. rewrite Ht. reflexivity.
    + destruct p2 as [c3|c3|c3|n|]; simpl; try reflexivity.
      simpl in H. apply negb_true_iff in H. exact H.
Qed.

Lemma scan_string_char : forall c s,
  Ascii.eqb c DQ = false -> Ascii.eqb c BS = false ->
  Ascii.eqb c EF && starts_bbbf s = false ->
  scan_string (c :: s) =
  match scan_string s with Some (v, r) => Some (esc_str c ++ v, r) | None => None end.
Proof.
  intros c s H1 H2 H3. cbn [scan_string]. rewrite H1, H2. unfold esc_str.
  destruct (Ascii.eqb c LF) eqn:E3.
  - destruct (scan_string s) as [[v r]|]; reflexivity.
  - destruct s as [|c2 [|c3 r']]; try (destruct (scan_string _) as [[v r]|]; reflexivity).
    simpl in H3. rewrite <- andb_assoc. rewrite H3.
    destruct (scan_string (c2 :: c3 :: r')) as [[v r]|]; reflexivity.
Qed.

Lemma scan_string_bom : forall s,
  scan_string (BOM ++ s) =
  match scan_string s with Some (v, r) => Some (BOM_ESC ++ v, r) | None => None end.
Proof. intros s. reflexivity. Qed.

Lemma scan_string_pair : forall c s,
  scan_string (BS :: c :: s) =
  match scan_string s with Some (v, r) => Some (BS :: c :: v, r) | None => None end.
Proof. intros. reflexivity. Qed.

(** a run of bytes none of which is a quote, a backslash or the first byte of a byte order mark *)
Lemma scan_string_plain : forall x s,
  forallb (fun c => negb (Ascii.eqb c DQ) && negb (Ascii.eqb c BS) && negb (Ascii.eqb c EF)) x = true ->
  scan_string (x ++ s) =
  match scan_string s with Some (v, r) => Some (flat_map esc_str x ++ v, r) | None => None end.
Proof.
  induction x as [|c x IH]; intros s H.
  - simpl. destruct (scan_string s) as [[v r]|]; reflexivity.
  - simpl in H. apply andb_prop in H. destruct H as [Hc Hx].
    apply andb_prop in Hc. destruct Hc as [Hc H3]. apply andb_prop in Hc. destruct Hc as [H1 H2].
    apply negb_true_iff in H1. apply negb_true_iff in H2. apply negb_true_iff in H3.
    simpl app. rewrite scan_string_char by (try assumption; rewrite H3; reflexivity).
    rewrite (IH s Hx). simpl flat_map.
    destruct (scan_string s) as [[v r]|]; [rewrite app_assoc|]; reflexivity.
Qed.

Lemma esc_str_ident : forall n, forallb identc n = true -> flat_map esc_str n = n.
Proof.
  induction n as [|c n IH]; intros H; simpl in *; [reflexivity|].
  apply andb_prop in H. destruct H as [H1 H2]. rewrite (IH H2). unfold esc_str.
  assert (Ascii.eqb c LF = false) as -> by special c. reflexivity.
Qed.

Lemma ident_plain : forall n,
  forallb identc n = true ->
  forallb (fun c => negb (Ascii.eqb c DQ) && negb (Ascii.eqb c BS) && negb (Ascii.eqb c EF)) n = true.
Proof.
  induction n as [|c n IH]; intros H; simpl in *; [reflexivity|].
  apply andb_prop in H. destruct H as [H1 H2].
  rewrite (IH H2), andb_true_r.
  assert (Ascii.eqb c DQ = false) as -> by special c.
  assert (Ascii.eqb c BS = false) as -> by special c.
  assert (Ascii.eqb c EF = false) as -> by special c. reflexivity.
Qed.

Lemma ident_no_bq : forall n,
  forallb identc n = true ->
  forallb (fun c => negb (Ascii.eqb c BQ) && negb (Ascii.eqb c EF)) n = true.
Proof.
  induction n as [|c n IH]; intros H; simpl in *; [reflexivity|].
  apply andb_prop in H. destruct H as [H1 H2]. rewrite (IH H2), andb_true_r.
  assert (Ascii.eqb c BQ = false) as -> by special c.
  assert (Ascii.eqb c EF = false) as -> by special c. reflexivity.
Qed.

Lemma forallb_app' : forall (A : Type) (p : A -> bool) x y,
  forallb p x = true -> forallb p y = true -> forallb p (x ++ y) = true.
Proof. intros. rewrite forallb_app. rewrite H, H0. reflexivity. Qed.

Lemma ok_hole_ident : forall f e n, ok_piece f e (PHole n) = true -> forallb identc n = true.
Proof.
  intros f e n Hp. unfold ok_piece in Hp. apply andb_prop in Hp. destruct Hp as [Hp _].
  apply andb_prop in Hp. destruct Hp as [_ Hp]. apply valid_ident_chars. exact Hp.
Qed.

(** the quoted forms *)
Lemma scan_string_spell : forall f e ps rest,
  is_raw f = false ->
  forallb (ok_piece f e) ps = true -> nosplit ps = true ->
  scan_string (spell ps ++ DQ :: rest) = Some (flat_map (lit1 f) ps, rest).
Proof.
  intros f e ps rest Hf. induction ps as [|p ps IH]; intros H Hns.
  - simpl. reflexivity.
  - simpl in H. apply andb_prop in H. destruct H as [Hp Hps].
    specialize (IH Hps (nosplit_tail _ _ Hns)). unfold spell in *. simpl flat_map. rewrite <- app_assoc.
    destruct p as [c|c|c|n|]; cbn [spell1].
    + (* PChar *)
      assert (Ascii.eqb c DQ = false /\ Ascii.eqb c BS = false) as [H1 H2].
      { unfold ok_piece, ok_char in Hp. destruct f; try discriminate; simpl in Hp;
        apply andb_prop in Hp; destruct Hp as [_ Hp]; apply negb_true_iff in Hp;
        repeat (apply orb_false_iff in Hp; destruct Hp as [Hp ?]); auto. }
      simpl app. rewrite scan_string_char; try assumption.
      * rewrite IH. unfold lit1. rewrite Hf. reflexivity.
      * apply (nosplit_lookahead c ps (DQ :: rest) Hns). reflexivity.
    + simpl app. rewrite scan_string_pair, IH. unfold lit1. rewrite Hf. reflexivity.
    + simpl app. rewrite scan_string_pair, IH. unfold lit1. rewrite Hf. reflexivity.
    + (* PHole *)
      pose proof (ok_hole_ident f e n Hp) as Hn.
      change ((LBR :: n ++ [RBR]) ++ flat_map spell1 ps ++ DQ :: rest)
        with (([LBR] ++ n ++ [RBR]) ++ flat_map spell1 ps ++ DQ :: rest).
      rewrite scan_string_plain.
      * rewrite IH. rewrite !flat_map_app, (esc_str_ident n Hn). unfold lit1. rewrite Hf. reflexivity.
      * simpl. rewrite forallb_app, (ident_plain n Hn). reflexivity.
    + (* PBom *)
      rewrite scan_string_bom, IH. reflexivity.
Qed.

(** the raw forms *)
Lemma scan_raw_char : forall c s,
  Ascii.eqb c BQ = false -> Ascii.eqb c EF && starts_bbbf s = false ->
  scan_raw (c :: s) =
  match scan_raw s with Some (v, r) => Some (esc_raw c ++ v, r) | None => None end.
Proof.
  intros c s H1 H3. cbn [scan_raw]. rewrite H1.
  destruct s as [|c2 [|c3 r']]; try reflexivity.
  simpl in H3. rewrite <- andb_assoc. rewrite H3. reflexivity.
Qed.

Lemma scan_raw_bom : forall s,
  scan_raw (BOM ++ s) =
  match scan_raw s with Some (v, r) => Some (BOM_ESC ++ v, r) | None => None end.
Proof. intros s. reflexivity. Qed.

Lemma scan_raw_plain : forall x s,
  forallb (fun c => negb (Ascii.eqb c BQ) && negb (Ascii.eqb c EF)) x = true ->
  scan_raw (x ++ s) =
  match scan_raw s with Some (v, r) => Some (flat_map esc_raw x ++ v, r) | None => None end.
Proof.
  induction x as [|c x IH]; intros s H.
  - simpl. destruct (scan_raw s) as [[v r]|]; reflexivity.
  - simpl in H. apply andb_prop in H. destruct H as [Hc Hx].
    apply andb_prop in Hc. destruct Hc as [H1 H3].
    apply negb_true_iff in H1. apply negb_true_iff in H3.
    simpl app. rewrite scan_raw_char by (try assumption; rewrite H3; reflexivity).
    rewrite (IH s Hx). simpl flat_map.
    destruct (scan_raw s) as [[v r]|]; [rewrite app_assoc|]; reflexivity.
Qed.

Lemma scan_raw_spell : forall f e ps rest,
  is_raw f = true ->
  forallb (ok_piece f e) ps = true -> nosplit ps = true ->
  scan_raw (spell ps ++ BQ :: rest) = Some (flat_map (lit1 f) ps, rest).
Proof.
  intros f e ps rest Hf. induction ps as [|p ps IH]; intros H Hns.
  - reflexivity.
  - simpl in H. apply andb_prop in H. destruct H as [Hp Hps].
    specialize (IH Hps (nosplit_tail _ _ Hns)). unfold spell in *. simpl flat_map. rewrite <- app_assoc.
    destruct p as [c|c|c|n|]; cbn [spell1].
    + assert (Ascii.eqb c BQ = false) as H1.
      { unfold ok_piece, ok_char in Hp. destruct f; try discriminate; simpl in Hp;
        apply andb_prop in Hp; destruct Hp as [_ Hp]; apply negb_true_iff in Hp;
        repeat (apply orb_false_iff in Hp; destruct Hp as [Hp ?]); auto. }
      simpl app. rewrite scan_raw_char; try assumption.
      * rewrite IH. unfold lit1. rewrite Hf. simpl. rewrite app_nil_r. reflexivity.
      * apply (nosplit_lookahead c ps (BQ :: rest) Hns). reflexivity.
    + unfold ok_piece in Hp. rewrite Hf in Hp. discriminate.
    + unfold ok_piece in Hp. destruct f; discriminate.
    + pose proof (ok_hole_ident f e n Hp) as Hn.
      change ((LBR :: n ++ [RBR]) ++ flat_map spell1 ps ++ BQ :: rest)
        with (([LBR] ++ n ++ [RBR]) ++ flat_map spell1 ps ++ BQ :: rest).
      rewrite scan_raw_plain.
      * rewrite IH. unfold lit1. rewrite Hf. reflexivity.
      * simpl. rewrite forallb_app, (ident_no_bq n Hn). reflexivity.
    + rewrite scan_raw_bom, IH. reflexivity.
Qed.

Theorem scan_spell : forall f e ps rest,
  forallb (ok_piece f e) ps = true -> nosplit ps = true ->
  scan f (spell ps ++ close f :: rest) = Some (flat_map (lit1 f) ps, rest).
Proof.
  intros f e ps rest H Hns. unfold scan, close. destruct (is_raw f) eqn:Hf.
  - apply (scan_raw_spell f e); assumption.
  - apply (scan_string_spell f e); assumption.
Qed.

(** ---------------------------------------------------------------- layer 2: ParseSInterP *)

Lemma psi_hole : forall n acc s,
  forallb identc n = true ->
  psi (n ++ RBR :: s) (Some acc) =
  match psi s None with
  | Some (f, vs) => Some (PCT :: "s" :: f, (rev acc ++ n) :: vs)
  | None => None
  end.
Proof.
  induction n as [|c n IH]; intros acc s H; simpl.
  - rewrite app_nil_r. reflexivity.
  - simpl in H. apply andb_prop in H. destruct H as [H1 H2].
    assert (Ascii.eqb c RBR = false) as -> by special c.
    rewrite (IH (c :: acc) s H2). simpl. rewrite <- app_assoc. reflexivity.
Qed.

Lemma esc_raw_ident : forall n, forallb identc n = true -> flat_map esc_raw n = n.
Proof.
  induction n as [|c n IH]; intros H; simpl in *; [reflexivity|].
  apply andb_prop in H. destruct H as [H1 H2]. rewrite (IH H2). unfold esc_raw.
  assert (Ascii.eqb c BS = false) as -> by special c.
  assert (Ascii.eqb c DQ = false) as -> by special c.
  assert (Ascii.eqb c LF = false) as -> by special c. reflexivity.
Qed.

(** one piece through ParseSInterP *)
Lemma psi_piece : forall f e p s fm vs,
  is_interp f = true -> ok_piece f e p = true ->
  psi s None = Some (fm, vs) ->
  psi (lit1 f p ++ s) None =
  Some (fmt1 f p ++ fm, match p with PHole n => n :: vs | _ => vs end).
Proof.
  intros f e p s fm vs Hi Hp Hs.
  destruct p as [c|c|c|n|].
  - (* PChar *)
    unfold ok_piece, ok_char in Hp. apply andb_prop in Hp. destruct Hp as [Hnul Hp].
    destruct f; try discriminate; apply negb_true_iff in Hp.
    + (* IStr *)
      repeat (apply orb_false_iff in Hp; destruct Hp as [Hp ?]).
      unfold fmt1, lit1. simpl is_raw. cbv iota. unfold esc_str.
      destruct (Ascii.eqb c LF) eqn:E3.
      { apply Ascii.eqb_eq in E3. subst c. simpl. rewrite Hs. reflexivity. }
      simpl. rw_eqb. destruct (Ascii.eqb c PCT) eqn:Ep; rewrite Hs; reflexivity.
    + (* IRaw *)
      apply orb_false_iff in Hp. destruct Hp as [Hbq Hlb].
      unfold fmt1, lit1. simpl. rewrite app_nil_r. unfold esc_raw.
      destruct (Ascii.eqb c BS) eqn:E1.
      { apply Ascii.eqb_eq in E1. subst c. simpl. rewrite Hs. reflexivity. }
      destruct (Ascii.eqb c DQ) eqn:E2.
      { apply Ascii.eqb_eq in E2. subst c. simpl. rewrite Hs. reflexivity. }
      destruct (Ascii.eqb c LF) eqn:E3.
      { apply Ascii.eqb_eq in E3. subst c. simpl. rewrite Hs. reflexivity. }
      simpl. rewrite E1, Hlb. destruct (Ascii.eqb c PCT) eqn:Ep; rewrite Hs; reflexivity.
  - (* PEsc *)
    unfold ok_piece in Hp. apply andb_prop in Hp. destruct Hp as [Hr He].
    apply negb_true_iff in Hr. unfold lit1, fmt1. rewrite Hr. simpl. rewrite Hs.
    unfold is_esc_letter in He.
    assert (Ascii.eqb c LBR || Ascii.eqb c RBR = false) as ->.
    { repeat (apply orb_prop in He; destruct He as [He|He]);
      apply Ascii.eqb_eq in He; subst c; reflexivity. }
    reflexivity.
  - (* PBrace *)
    unfold ok_piece in Hp. destruct f; try discriminate.
    unfold lit1, fmt1. simpl. rewrite Hs. rewrite Hp. reflexivity.
  - (* PHole *)
    assert (forallb identc n = true) as Hn.
    { unfold ok_piece in Hp. apply andb_prop in Hp. destruct Hp as [Hp _].
      apply andb_prop in Hp. destruct Hp as [_ Hp]. apply valid_ident_chars. exact Hp. }
    assert (lit1 f (PHole n) = LBR :: n ++ [RBR]) as ->.
    { unfold lit1. destruct (is_raw f); [|reflexivity]. simpl.
      rewrite flat_map_app, esc_raw_ident by exact Hn. reflexivity. }
    simpl. rewrite <- app_assoc. simpl. rewrite psi_hole by exact Hn. rewrite Hs. reflexivity.
  - (* PBom *)
    unfold lit1, fmt1. simpl. rewrite Hs. reflexivity.
Qed.

Theorem psi_spell : forall f e ps,
  is_interp f = true -> forallb (ok_piece f e) ps = true ->
  parse_sinterp (flat_map (lit1 f) ps) = Some (flat_map (fmt1 f) ps, holes ps).
Proof.
  intros f e ps Hi. unfold parse_sinterp. induction ps as [|p ps IH]; intros H.
  - reflexivity.
  - simpl in H. apply andb_prop in H. destruct H as [Hp Hps]. simpl.
    rewrite (psi_piece f e p _ _ _ Hi Hp (IH Hps)). destruct p; reflexivity.
Qed.

(** ---------------------------------------------------------------- layer 3: Go unquoting *)

Lemma unq_plain : forall c s,
  Ascii.eqb c BS = false -> Ascii.eqb c DQ = false -> Ascii.eqb c LF = false ->
  Ascii.eqb c NUL = false ->
  go_unquote (c :: s) = uq_cons c (go_unquote s).
Proof. intros c s H1 H2 H3 H4. simpl. rewrite H1, H2, H3, H4. reflexivity. Qed.

Lemma uq_cons_app : forall c r, uq_cons c r = uq_app [c] r.
Proof. intros c [v| |]; reflexivity. Qed.

Lemma uq_app_app : forall x y r, uq_app x (uq_app y r) = uq_app (x ++ y) r.
Proof. intros x y [v| |]; simpl; [rewrite app_assoc|..]; reflexivity. Qed.

Lemma unq_esc : forall c s,
  is_esc_letter c = true ->
  go_unquote (BS :: c :: s) = uq_cons (esc_meaning c) (go_unquote s).
Proof.
  intros c s H. unfold is_esc_letter in H.
  repeat (apply orb_prop in H; destruct H as [H|H]); apply Ascii.eqb_eq in H; subst c; reflexivity.
Qed.

(** the Go literal written for an ordinary character of a form unquotes to that character *)
Lemma unq_esc_str : forall c s,
  Ascii.eqb c BS = false -> Ascii.eqb c DQ = false -> Ascii.eqb c NUL = false ->
  go_unquote (esc_str c ++ s) = uq_cons c (go_unquote s).
Proof.
  intros c s H1 H2 H4. unfold esc_str.
  destruct (Ascii.eqb c LF) eqn:E3; [apply Ascii.eqb_eq in E3; subst c; reflexivity|].
  apply unq_plain; assumption.
Qed.

Lemma unq_char : forall f c s,
  ok_char f c = true ->
  go_unquote (lit1 f (PChar c) ++ s) = uq_cons c (go_unquote s).
Proof.
  intros f c s H. unfold ok_char in H. apply andb_prop in H. destruct H as [Hnul H].
  apply negb_true_iff in Hnul.
  unfold lit1. destruct f; simpl; apply negb_true_iff in H;
    repeat (apply orb_false_iff in H; destruct H as [H ?]).
  - apply unq_esc_str; assumption.
  - rewrite app_nil_r. unfold esc_raw.
    destruct (Ascii.eqb c BS) eqn:E1; [apply Ascii.eqb_eq in E1; subst c; reflexivity|].
    destruct (Ascii.eqb c DQ) eqn:E2; [apply Ascii.eqb_eq in E2; subst c; reflexivity|].
    destruct (Ascii.eqb c LF) eqn:E3; [apply Ascii.eqb_eq in E3; subst c; reflexivity|].
    apply unq_plain; assumption.
  - apply unq_esc_str; assumption.
  - rewrite app_nil_r. unfold esc_raw.
    destruct (Ascii.eqb c BS) eqn:E1; [apply Ascii.eqb_eq in E1; subst c; reflexivity|].
    destruct (Ascii.eqb c DQ) eqn:E2; [apply Ascii.eqb_eq in E2; subst c; reflexivity|].
    destruct (Ascii.eqb c LF) eqn:E3; [apply Ascii.eqb_eq in E3; subst c; reflexivity|].
    apply unq_plain; assumption.
Qed.

Lemma unq_bom : forall s, go_unquote (BOM_ESC ++ s) = uq_app BOM (go_unquote s).
Proof. intros s. reflexivity. Qed.

(** plain forms: the literal unquotes to the meaning *)
Theorem unq_plain_forms : forall f e ps,
  is_interp f = false -> forallb (ok_piece f e) ps = true ->
  go_unquote (flat_map (lit1 f) ps) = UqOk (meaning e ps).
Proof.
  intros f e ps Hi. induction ps as [|p ps IH]; intros H; [reflexivity|].
  simpl in H. apply andb_prop in H. destruct H as [Hp Hps]. specialize (IH Hps).
  unfold meaning in *. simpl. destruct p as [c|c|c|n|].
  - simpl in Hp. rewrite unq_char by exact Hp. rewrite IH. reflexivity.
  - unfold ok_piece in Hp. apply andb_prop in Hp. destruct Hp as [Hr He].
    apply negb_true_iff in Hr. rewrite (lit1_nonraw_esc f c Hr). cbn [spell1 app].
    rewrite unq_esc by exact He. rewrite IH. reflexivity.
  - unfold ok_piece in Hp. destruct f; discriminate.
  - unfold ok_piece in Hp. rewrite Hi in Hp. discriminate.
  - change (lit1 f PBom) with BOM_ESC. cbn [fmt1 uq1 meaning1]. rewrite unq_bom, IH. reflexivity.
Qed.

(** interpolated forms: the format unquotes piece by piece *)
Theorem unq_interp_forms : forall f e ps,
  is_interp f = true -> forallb (ok_piece f e) ps = true ->
  go_unquote (flat_map (fmt1 f) ps) = UqOk (flat_map uq1 ps).
Proof.
  intros f e ps Hi. induction ps as [|p ps IH]; intros H; [reflexivity|].
  simpl in H. apply andb_prop in H. destruct H as [Hp Hps]. specialize (IH Hps).
  simpl. destruct p as [c|c|c|n|].
  - simpl in Hp. cbn [fmt1 uq1]. destruct (Ascii.eqb c PCT) eqn:Ep.
    + apply Ascii.eqb_eq in Ep. subst c. cbn [app].
      rewrite !unq_plain by reflexivity. rewrite IH. reflexivity.
    + rewrite unq_char by exact Hp. rewrite IH. reflexivity.
  - unfold ok_piece in Hp. apply andb_prop in Hp. destruct Hp as [_ He].
    cbn [fmt1 uq1].
    change (([BS; c]) ++ flat_map (fmt1 f) ps) with (BS :: c :: flat_map (fmt1 f) ps).
    rewrite unq_esc by exact He. rewrite IH. reflexivity.
  - unfold ok_piece in Hp. destruct f; try discriminate.
    apply orb_prop in Hp. destruct Hp as [Hp|Hp]; apply Ascii.eqb_eq in Hp; subst c;
      simpl; rewrite IH; reflexivity.
  - simpl. rewrite IH. reflexivity.
  - change (lit1 f PBom) with BOM_ESC. cbn [fmt1 uq1 meaning1]. rewrite unq_bom, IH. reflexivity.
Qed.

(** ---------------------------------------------------------------- arguments and Sprintf *)

Lemma bytes_eqb_refl : forall x, bytes_eqb x x = true.
Proof. intros. unfold bytes_eqb. apply String.eqb_refl. Qed.

Theorem eval_args_holes : forall f e ps,
  forallb (ok_piece f e) ps = true ->
  eval_args e (holes ps) = Some (Some (map (hole_text e) (holes ps))).
Proof.
  intros f e ps. induction ps as [|p ps IH]; intros H; [reflexivity|].
  simpl in H. apply andb_prop in H. destruct H as [Hp Hps]. specialize (IH Hps).
  unfold holes in *. simpl. destruct p as [c|c|c|n|]; simpl; try exact IH.
  unfold ok_piece in Hp. apply andb_prop in Hp. destruct Hp as [Hp Hl].
  apply andb_prop in Hp. destruct Hp as [_ Hv]. rewrite Hv, IH.
  unfold hole_text. destruct (lookup e n); [reflexivity|discriminate].
Qed.

Lemma esc_meaning_not_pct : forall c, is_esc_letter c = true -> Ascii.eqb (esc_meaning c) PCT = false.
Proof.
  intros c H. unfold is_esc_letter in H.
  repeat (apply orb_prop in H; destruct H as [H|H]); apply Ascii.eqb_eq in H; subst c; reflexivity.
Qed.

Theorem sprintf_pieces : forall f e ps,
  is_interp f = true -> forallb (ok_piece f e) ps = true ->
  sprintf (flat_map uq1 ps) (map (hole_text e) (holes ps)) = Some (meaning e ps).
Proof.
  intros f e ps Hi. induction ps as [|p ps IH]; intros H; [reflexivity|].
  simpl in H. apply andb_prop in H. destruct H as [Hp Hps]. specialize (IH Hps).
  unfold meaning, holes in *. simpl. destruct p as [c|c|c|n|]; simpl.
  - destruct (Ascii.eqb c PCT) eqn:Ep.
    + apply Ascii.eqb_eq in Ep. subst c. simpl. rewrite IH. reflexivity.
    + simpl. rewrite Ep, IH. reflexivity.
  - unfold ok_piece in Hp. apply andb_prop in Hp. destruct Hp as [_ He].
    rewrite (esc_meaning_not_pct c He), IH. reflexivity.
  - unfold ok_piece in Hp. destruct f; try discriminate.
    apply orb_prop in Hp. destruct Hp as [Hp|Hp]; apply Ascii.eqb_eq in Hp; subst c;
      simpl; rewrite IH; reflexivity.
  - rewrite IH. reflexivity.
  - rewrite IH. reflexivity.
Qed.

(** ---------------------------------------------------------------- the round trip *)

Theorem literal_roundtrip_pieces : forall f e ps rest,
  forallb (ok_piece f e) ps = true -> nosplit ps = true ->
  pipeline f e (spell ps ++ close f :: rest) = (Ok (meaning e ps), rest).
Proof.
  intros f e ps rest H Hns. unfold pipeline. rewrite (scan_spell f e ps rest H Hns).
  unfold emit. destruct (is_interp f) eqn:Hi.
  - rewrite (psi_spell f e ps Hi H). unfold run.
    rewrite (unq_interp_forms f e ps Hi H), (eval_args_holes f e ps H),
      (sprintf_pieces f e ps Hi H). reflexivity.
  - unfold run. rewrite (unq_plain_forms f e ps Hi H). reflexivity.
Qed.

(** the lexer returns pieces that spell the body *)
Lemma lex_sound_gen : forall f k s hole ps,
  List.length s <= k ->
  lex f s hole = Some ps ->
  match hole with
  | None => spell ps = s
  | Some acc => exists n ps', ps = PHole (rev acc ++ n) :: ps' /\ s = n ++ RBR :: spell ps'
  end.
Proof.
  intros f k. induction k as [|k IH]; intros s hole ps Hlen Hlex.
  - destruct s; [|simpl in Hlen; lia]. simpl in Hlex.
    destruct hole; [discriminate|]. inversion Hlex. reflexivity.
  - destruct s as [|c r].
    { simpl in Hlex. destruct hole; [discriminate|]. inversion Hlex. reflexivity. }
    simpl in Hlen. simpl in Hlex. destruct hole as [acc|].
    + destruct (Ascii.eqb c RBR) eqn:Ec.
      * apply Ascii.eqb_eq in Ec. subst c.
        destruct (lex f r None) as [ps0|] eqn:El; [|discriminate]. inversion Hlex. subst ps.
        exists [], ps0. rewrite app_nil_r. split; [reflexivity|].
        simpl. f_equal. symmetry. apply (IH r None ps0); [lia|exact El].
      * destruct (is_alpha_ c || is_digit c); [|discriminate].
        destruct (IH r (Some (c :: acc)) ps ltac:(lia) Hlex) as (n & ps' & E1 & E2).
        exists (c :: n), ps'. split.
        { rewrite E1. simpl. rewrite <- app_assoc. reflexivity. }
        { rewrite E2. reflexivity. }
    + destruct (negb (is_raw f) && Ascii.eqb c BS) eqn:Eb.
      * apply andb_prop in Eb. destruct Eb as [_ Eb]. apply Ascii.eqb_eq in Eb. subst c.
        destruct r as [|c2 r']; [discriminate|].
        destruct (lex f r' None) as [ps0|] eqn:El; [|discriminate].
        assert (spell ps0 = r') as Hs by (apply (IH r' None ps0); [simpl in Hlen; lia|exact El]).
        destruct (is_esc_letter c2).
        { inversion Hlex. subst ps. unfold spell in *. simpl. rewrite Hs. reflexivity. }
        destruct (is_interp f && (Ascii.eqb c2 LBR || Ascii.eqb c2 RBR)); [|discriminate].
        inversion Hlex. subst ps. unfold spell in *. simpl. rewrite Hs. reflexivity.
      * destruct (is_interp f && Ascii.eqb c LBR) eqn:Eh.
        { apply andb_prop in Eh. destruct Eh as [_ Eh]. apply Ascii.eqb_eq in Eh. subst c.
          destruct (IH r (Some []) ps ltac:(lia) Hlex) as (n & ps' & E1 & E2).
          rewrite E1, E2. unfold spell. simpl. rewrite <- app_assoc. reflexivity. }
        assert ((match lex f r None with Some ps0 => Some (PChar c :: ps0) | None => None end) = Some ps ->
                spell ps = c :: r) as Hplain.
        { intros Hp. destruct (lex f r None) as [ps0|] eqn:El; [|discriminate]. inversion Hp. subst ps.
          unfold spell. simpl. f_equal. apply (IH r None ps0); [lia|exact El]. }
        destruct r as [|c2 [|c3 r']]; try (apply Hplain; exact Hlex).
        destruct (Ascii.eqb c EF && Ascii.eqb c2 BB && Ascii.eqb c3 BF) eqn:Eb3; [|apply Hplain; exact Hlex].
        apply andb_prop in Eb3. destruct Eb3 as [Eb3 E3]. apply andb_prop in Eb3. destruct Eb3 as [E1 E2].
        apply Ascii.eqb_eq in E1. apply Ascii.eqb_eq in E2. apply Ascii.eqb_eq in E3. subst c c2 c3.
        destruct (lex f r' None) as [ps0|] eqn:El; [|discriminate]. inversion Hlex. subst ps.
        unfold spell. simpl. do 3 f_equal. apply (IH r' None ps0); [simpl in Hlen; lia|exact El].
Qed.

Theorem lex_sound : forall f body ps, lex f body None = Some ps -> spell ps = body.
Proof.
  intros f body ps H. exact (lex_sound_gen f (List.length body) body None ps (le_n _) H).
Qed.

(** C11, on the bytes of the body: every body in the property's grammar, of any length, in each of
    the four forms, followed by anything, evaluates to its denotation. *)
Theorem literal_roundtrip : forall f e body rest v,
  denote f e body = Some v ->
  pipeline f e (body ++ close f :: rest) = (Ok v, rest).
Proof.
  intros f e body rest v H. unfold denote in H.
  destruct (lex f body None) as [ps|] eqn:El; [|discriminate].
  destruct (forallb (ok_piece f e) ps && nosplit ps) eqn:Hok; [|discriminate].
  apply andb_prop in Hok. destruct Hok as [Hok Hns].
  inversion H. subst v. rewrite <- (lex_sound f body ps El).
  apply literal_roundtrip_pieces; assumption.
Qed.

Theorem wf_denotes : forall f e body, wf f e body = true <-> exists v, denote f e body = Some v.
Proof.
  intros. unfold wf, denote. destruct (lex f body None) as [ps|].
  - destruct (forallb (ok_piece f e) ps && nosplit ps); split; intros H; try discriminate; eauto.
    destruct H as [v H]. discriminate.
  - split; [discriminate|]. intros [v H]. discriminate.
Qed.

(** the lexer is complete for spellings of admissible pieces (so [denote] is defined on all of them) *)
Lemma lex_hole : forall f n acc s ps,
  forallb identc n = true -> lex f s None = Some ps ->
  lex f (n ++ RBR :: s) (Some acc) = Some (PHole (rev acc ++ n) :: ps).
Proof.
  induction n as [|c n IH]; intros acc s ps Hn Hs; simpl.
  - rewrite Hs, app_nil_r. reflexivity.
  - simpl in Hn. apply andb_prop in Hn. destruct Hn as [H1 H2].
    assert (Ascii.eqb c RBR = false) as -> by special c.
    unfold identc in H1. rewrite H1. rewrite (IH (c :: acc) s ps H2 Hs).
    simpl. rewrite <- app_assoc. reflexivity.
Qed.

Lemma lex_char : forall f c r ps,
  negb (is_raw f) && Ascii.eqb c BS = false -> is_interp f && Ascii.eqb c LBR = false ->
  Ascii.eqb c EF && starts_bbbf r = false ->
  lex f r None = Some ps -> lex f (c :: r) None = Some (PChar c :: ps).
Proof.
  intros f c r ps H1 H2 H3 Hl. cbn [lex]. rewrite H1, H2, Hl.
  destruct r as [|c2 [|c3 r']]; try reflexivity.
  simpl in H3. rewrite <- andb_assoc. rewrite H3. reflexivity.
Qed.

Lemma lex_bom : forall f r,
  lex f (BOM ++ r) None = match lex f r None with Some ps => Some (PBom :: ps) | None => None end.
Proof. intros f r. destruct f; reflexivity. Qed.

Theorem lex_complete : forall f e ps,
  forallb (ok_piece f e) ps = true -> nosplit ps = true -> lex f (spell ps) None = Some ps.
Proof.
  intros f e ps. induction ps as [|p ps IH]; intros H Hns; [reflexivity|].
  simpl in H. apply andb_prop in H. destruct H as [Hp Hps]. specialize (IH Hps (nosplit_tail _ _ Hns)).
  unfold spell in *. simpl flat_map. destruct p as [c|c|c|n|]; cbn [spell1].
  - simpl app. apply lex_char; [| |
      pose proof (nosplit_lookahead c ps [] Hns eq_refl) as HL; unfold spell in HL;
      rewrite app_nil_r in HL; exact HL | exact IH];
    unfold ok_piece, ok_char in Hp; apply andb_prop in Hp; destruct Hp as [_ Hp];
    destruct f; simpl; try reflexivity; apply negb_true_iff in Hp;
    repeat (apply orb_false_iff in Hp; destruct Hp as [Hp ?]); assumption.
  - unfold ok_piece in Hp. apply andb_prop in Hp. destruct Hp as [Hr He].
    simpl. rewrite Hr. simpl. rewrite IH, He. reflexivity.
  - unfold ok_piece in Hp. destruct f; try discriminate. simpl. rewrite IH.
    assert (is_esc_letter c = false) as ->.
    { apply orb_prop in Hp. destruct Hp as [Hp|Hp]; apply Ascii.eqb_eq in Hp; subst c; reflexivity. }
    rewrite Hp. reflexivity.
  - unfold ok_piece in Hp. apply andb_prop in Hp. destruct Hp as [Hp _].
    apply andb_prop in Hp. destruct Hp as [Hi Hv].
    destruct f; try discriminate; simpl; rewrite <- app_assoc; simpl;
      rewrite (lex_hole _ n [] _ ps (valid_ident_chars n Hv) IH); reflexivity.
  - rewrite lex_bom, IH. reflexivity.
Qed.

Corollary denote_spell : forall f e ps,
  forallb (ok_piece f e) ps = true -> nosplit ps = true -> denote f e (spell ps) = Some (meaning e ps).
Proof.
  intros f e ps H Hns. unfold denote. rewrite (lex_complete f e ps H Hns), H, Hns. reflexivity.
Qed.

(** ---------------------------------------------------------------- raw newlines in quoted literals *)

(** Since the repair of scanStringLiteralToken a raw newline inside "..." / $"..." is an ordinary
    character: it is covered by [literal_roundtrip]; for instance: *)
Theorem newline_in_quoted_preserved : forall f rest,
  f = Str \/ f = IStr ->
  pipeline f [] (["a"; LF; "b"] ++ close f :: rest) = (Ok ["a"; LF; "b"], rest).
Proof.
  intros f rest H.
  apply (literal_roundtrip_pieces f [] [PChar "a"; PChar LF; PChar "b"] rest); [|reflexivity].
  destruct H; subst f; reflexivity.
Qed.

(** A byte order mark inside a literal of any form is preserved (both scanners write it as the escape
    backslash ufeff since their repair; before, fc copied the three bytes and Go rejected the file:
    "invalid BOM in the middle of the file" — Go's source-validity checks are not modelled, so that
    old behaviour is not stated as a refutation). *)
Theorem bom_in_literal_preserved : forall f x y rest,
  forallb (fun c => ok_char f c && negb (Ascii.eqb c EF)) x = true ->
  forallb (fun c => ok_char f c && negb (Ascii.eqb c EF)) y = true ->
  pipeline f [] (x ++ BOM ++ y ++ close f :: rest) = (Ok (x ++ BOM ++ y), rest).
Proof.
  intros f x y rest Hx Hy.
  pose (ps := map PChar x ++ PBom :: map PChar y).
  assert (forall z, spell (map PChar z) = z) as Hsp.
  { induction z as [|c z IH]; [reflexivity|]. unfold spell in *. simpl. rewrite IH. reflexivity. }
  assert (forall z, meaning [] (map PChar z) = z) as Hme.
  { induction z as [|c z IH]; [reflexivity|]. unfold meaning in *. simpl. rewrite IH. reflexivity. }
  assert (spell ps = x ++ BOM ++ y) as E1.
  { unfold ps, spell. rewrite flat_map_app. simpl. fold (spell (map PChar x)). fold (spell (map PChar y)).
    rewrite !Hsp. reflexivity. }
  assert (meaning [] ps = x ++ BOM ++ y) as E2.
  { unfold ps, meaning. rewrite flat_map_app. simpl.
    fold (meaning [] (map PChar x)). fold (meaning [] (map PChar y)). rewrite !Hme. reflexivity. }
  assert (forallb (ok_piece f []) ps = true /\ nosplit ps = true) as [Hok0 Hns0]; [split|].
  - unfold ps. rewrite forallb_app. simpl.
    assert (forall z, forallb (fun c => ok_char f c && negb (Ascii.eqb c EF)) z = true ->
                      forallb (ok_piece f []) (map PChar z) = true) as Hok.
    { induction z as [|c z IH]; intros Hz; [reflexivity|]. simpl in *.
      apply andb_prop in Hz. destruct Hz as [Hc Hz]. apply andb_prop in Hc. destruct Hc as [Hc _].
      rewrite Hc, (IH Hz). reflexivity. }
    rewrite (Hok x Hx), (Hok y Hy). reflexivity.
  - unfold ps. clear -Hx Hy.
    assert (forall z tl, forallb (fun c => ok_char f c && negb (Ascii.eqb c EF)) z = true ->
                         nosplit tl = true -> nosplit (map PChar z ++ tl) = true) as Hn.
    { induction z as [|c z IH]; intros tl Hz Htl; [exact Htl|]. simpl in Hz.
      apply andb_prop in Hz. destruct Hz as [Hc Hz]. apply andb_prop in Hc. destruct Hc as [_ Hc].
      apply negb_true_iff in Hc. simpl map. simpl app. cbn [nosplit]. rewrite (IH tl Hz Htl), andb_true_r.
      destruct (map PChar z ++ tl) as [|[] [|[] ?]]; try reflexivity. rewrite Hc. reflexivity. }
    apply Hn; [exact Hx|]. cbn [nosplit]. simpl andb.
    rewrite <- (app_nil_r (map PChar y)). apply (Hn y []); [exact Hy|reflexivity].
  - pose proof (literal_roundtrip_pieces f [] ps rest Hok0 Hns0) as HR.
    rewrite E1, E2 in HR. rewrite <- !app_assoc in HR. exact HR.
Qed.

(** Documentation of the defect that was repaired: with the scanner as it was ([scan_string_old],
    [pipeline_old]) the tokenizer kept the newline verbatim and the emitted Go did not compile, although
    the property counts a newline among "every other character". *)
Theorem newline_in_quoted_old_refuted : forall f rest,
  f = Str \/ f = IStr ->
  pipeline_old f [] (["a"; LF; "b"] ++ close f :: rest) = (CompileError, rest).
Proof. intros f rest [H|H]; subst f; reflexivity. Qed.

Lemma scan_string_old_plain : forall x s,
  forallb (fun c => negb (Ascii.eqb c DQ) && negb (Ascii.eqb c BS)) x = true ->
  scan_string_old (x ++ s) =
  match scan_string_old s with Some (v, r) => Some (x ++ v, r) | None => None end.
Proof.
  induction x as [|c x IH]; intros s H; simpl.
  - destruct (scan_string_old s) as [[v r]|]; reflexivity.
  - simpl in H. apply andb_prop in H. destruct H as [Hc Hx].
    apply andb_prop in Hc. destruct Hc as [H1 H2].
    apply negb_true_iff in H1. apply negb_true_iff in H2. rewrite H1, H2.
    rewrite (IH s Hx). destruct (scan_string_old s) as [[v r]|]; reflexivity.
Qed.

(** with the old scanner, in "..." this held for every body with a raw newline after ordinary
    characters *)
Theorem newline_in_string_old_never_compiles : forall x y rest,
  forallb (fun c => ok_char Str c && negb (Ascii.eqb c LF)) x = true ->
  scan_string_old (y ++ DQ :: rest) = Some (y, rest) ->
  pipeline_old Str [] (x ++ LF :: y ++ DQ :: rest) = (CompileError, rest).
Proof.
  intros x y rest Hx Hy. unfold pipeline_old. simpl is_raw. cbv iota.
  assert (forallb (fun c => negb (Ascii.eqb c DQ) && negb (Ascii.eqb c BS)) x = true) as Hp.
  { clear Hy. induction x as [|c x IH]; [reflexivity|]. simpl in *.
    apply andb_prop in Hx. destruct Hx as [Hc Hx]. rewrite (IH Hx), andb_true_r.
    apply andb_prop in Hc. destruct Hc as [Hc _].
    unfold ok_char in Hc. apply andb_prop in Hc. destruct Hc as [_ Hc].
    apply negb_true_iff in Hc. repeat (apply orb_false_iff in Hc; destruct Hc as [Hc ?]).
    rw_eqb. reflexivity. }
  rewrite (scan_string_old_plain x _ Hp).
  change (LF :: y ++ DQ :: rest) with ([LF] ++ y ++ DQ :: rest).
  rewrite (scan_string_old_plain [LF] _ eq_refl). rewrite Hy.
  change (emit Str (x ++ [LF] ++ y)) with (Some (GoStr (x ++ [LF] ++ y))). unfold run.
  assert (go_unquote (x ++ [LF] ++ y) = UqErr) as ->; [|reflexivity].
  clear Hp Hy. induction x as [|c x IH]; [reflexivity|].
  simpl in Hx. apply andb_prop in Hx. destruct Hx as [Hc Hx].
  apply andb_prop in Hc. destruct Hc as [Hc Hlf]. apply negb_true_iff in Hlf.
  unfold ok_char in Hc. apply andb_prop in Hc. destruct Hc as [Hn Hc].
  apply negb_true_iff in Hn. apply negb_true_iff in Hc.
  repeat (apply orb_false_iff in Hc; destruct Hc as [Hc ?]).
  change ((c :: x) ++ [LF] ++ y) with (c :: (x ++ [LF] ++ y)).
  rewrite unq_plain by assumption. rewrite (IH Hx). reflexivity.
Qed.
